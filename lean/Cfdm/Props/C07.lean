import Cfdm.Lemmas.MaskApply
/-
C07 — masking and unpacking of file data follow the netCDF conventions.
Property theorems only.  Model: Cfdm/Model/Mask.lean (mirrors the code after the four
proposed patches in fixes/C07-*.patch; the repository behaviour is kept as `…Old`).
-/
namespace Cfdm.Props.C07
open Cfdm.Mask

/-! ## 1. The mask of a read is the reference rule

Full-strength statement (every data type, every attribute combination):

    ∀ dt a scaleOn raw i, (read dt a true scaleOn raw).elems[i]? = some none
                            ↔ maskedBy dt a scaleOn raw[i]

It is FALSE for the code at two points, both recorded as known findings and witnessed
below (`C07_unsigned_default_fill_counterexample`, `C07_vlen_counterexample`):
  * `_Unsigned` view together with the *default* fill value: cfdm re-views the signed
    default fill value as unsigned, the reference compares it as it is;
  * variable-length strings: cfdm masks the empty string (and `missing_value`), the
    reference never masks a variable-length type.
The theorem carries exactly these two exclusions (`hfill`, `hvlen`); `hb`/`hdata` only
say that the input is a netCDF variable (positive width, data are values of the type). -/

/-- `netcdf_indexer.__getitem__` with masking on presents element `i` as masked exactly
when the netCDF4 rule says so — for every type, every combination of `_FillValue`,
`missing_value` (scalar or vector), `valid_min`, `valid_max`, `valid_range`, `_Unsigned`,
safely castable or not, with or without unpacking. -/
theorem C07_mask_iff (dt : DType) (a : Attrs) (scaleOn : Bool) (raw : List V) (i : Nat)
    (hi : i < raw.length) (hb : 0 < dt.bits) (hdata : ∀ d ∈ raw, dt.fits d = true)
    (hvlen : dt.isVlen = false)
    (hfill : unsignedView dt a scaleOn = true → (safecast dt a.fillValue).isSome = true) :
    (read dt a true scaleOn raw).elems[i]? = some none ↔ maskedBy dt a scaleOn raw[i] := by
  rw [← elemMask_iff_maskedBy dt a scaleOn raw[i] hb (hdata _ (List.getElem_mem hi)) hvlen hfill]
  simp only [Mask.read, readWith_elems, List.getElem?_map, List.getElem?_eq_getElem hi, Option.map_some,
    Option.some.injEq, readElemWith, Bool.true_and]
  split <;> simp_all

example : (0 : Nat) < (⟨.int, 16⟩ : DType).bits ∧ (∀ d ∈ [V.num 5, .num (-32767), .num 7], (⟨.int, 16⟩ : DType).fits d = true) := by
  decide
example : (read ⟨.int, 16⟩ { missingValue := some (.vals (.num 5) [.num 7]) } true true
    [.num 5, .num (-32767), .num 7, .num 1]).elems = [none, none, none, some (.num 1)] := by decide

/-- The result is a masked array exactly when some element is missing by the reference rule. -/
theorem C07_kind_iff (dt : DType) (a : Attrs) (scaleOn : Bool) (raw : List V)
    (hb : 0 < dt.bits) (hdata : ∀ d ∈ raw, dt.fits d = true) (hvlen : dt.isVlen = false)
    (hfill : unsignedView dt a scaleOn = true → (safecast dt a.fillValue).isSome = true) :
    (read dt a true scaleOn raw).kind = .masked ↔ ∃ d ∈ raw, maskedBy dt a scaleOn d := by
  simp only [Mask.read, readWith_kind]
  constructor
  · rintro ⟨d, hd, h⟩
    refine ⟨d, hd, (elemMask_iff_maskedBy dt a scaleOn d hb (hdata d hd) hvlen hfill).mp ?_⟩
    simp only [readElemWith, Bool.true_and] at h
    split at h
    · assumption
    · cases h
  · rintro ⟨d, hd, h⟩
    refine ⟨d, hd, ?_⟩
    have := (elemMask_iff_maskedBy dt a scaleOn d hb (hdata d hd) hvlen hfill).mpr h
    simp [readElemWith, this]

example : (read ⟨.uint, 8⟩ {} true false [.num 1, .num 2]).kind = .plain := by decide
example : (read ⟨.uint, 8⟩ {} true false [.num 1, .num 255]).kind = .masked := by decide

/-! ## 2. Unpacking -/

/-- The presence table of `_unpack` (both attributes, one of them, the `!= 1.0` / `!= 0.0`
short cuts, the "cannot be converted to a float" escape) computes
`x * scale_factor + add_offset`; and every unmasked element a read presents is that
function of the stored value (re-viewed as unsigned where `_Unsigned` applies). -/
theorem C07_unpack_linear (dt : DType) (a : Attrs) (maskOn : Bool) (raw : List V) (i : Nat)
    (hi : i < raw.length) (hb : 0 < dt.bits) (hdata : ∀ d ∈ raw, dt.fits d = true) (v : V)
    (h : (read dt a maskOn true raw).elems[i]? = some (some v)) :
    v = specUnpack a (reinterp (refUnsigned dt a true) dt raw[i]) := by
  simp only [Mask.read, readWith_elems, List.getElem?_map, List.getElem?_eq_getElem hi, Option.map_some,
    Option.some.injEq, readElemWith, if_true] at h
  split at h
  · cases h
  · simp only [Option.some.injEq] at h
    rw [← h, unpackElem_eq_spec, ← unsignedView_eq_ref,
      view_eq_reinterp dt _ hb unsignedView_int _ (hdata _ (List.getElem_mem hi))]

example : (read ⟨.int, 16⟩ { scaleFactor := some (.vals (.num 2) []), addOffset := some (.vals (.num 1) []) }
    true true [.num 3, .num (-32767)]).elems = [some (.num 7), none] := by decide
example : (read ⟨.int, 8⟩ { scaleFactor := some .text, addOffset := some (.vals (.num 1) []) }
    true true [.num 3]).elems = [some (.num 3)] := by decide

/-! ## 3. Subspaces -/

/-- Reading a subspace (index first, then mask and unpack — what the backends do) gives
the corresponding elements of the full read, for any positions (out-of-range ones select
nothing); and the subspace comes back as a masked array exactly when one of its elements
is masked. -/
theorem C07_subspace_commutes (dt : DType) (a : Attrs) (maskOn unpackOn : Bool) (raw : List V)
    (ix : List Nat) :
    (read dt a maskOn unpackOn (gather raw ix)).elems = gather (read dt a maskOn unpackOn raw).elems ix
    ∧ ((read dt a maskOn unpackOn (gather raw ix)).kind = .masked
        ↔ none ∈ gather (read dt a maskOn unpackOn raw).elems ix) := by
  simp only [Mask.read, readWith_elems, readWith_kind, gather_map, List.mem_map]
  exact ⟨trivial, trivial⟩

example : (read ⟨.int, 8⟩ { validMax := some (.vals (.num 3) []) } true false
    (gather [.num 1, .num 9, .num 2, .num 7] [3, 0])).elems = [none, some (.num 1)] := by decide

/-! ## 4. Masking switched off -/

/-- With `mask=False, unpack=False` the stored values are returned as they are, as a
plain array; with `mask=False, unpack=True` nothing is masked either. -/
theorem C07_mask_off (dt : DType) (a : Attrs) (raw : List V) :
    read dt a false false raw = { kind := .plain, elems := raw.map some }
    ∧ ∀ unpackOn, (read dt a false unpackOn raw).kind = .plain
        ∧ none ∉ (read dt a false unpackOn raw).elems := by
  refine ⟨?_, ?_⟩
  · have h1 := readWith_elems unsignedView dt a false false raw
    have h2 : (read dt a false false raw).kind = .plain := by
      cases hk : (read dt a false false raw).kind with
      | plain => rfl
      | masked =>
        obtain ⟨d, _, h⟩ := (readWith_kind unsignedView dt a false false raw).mp hk
        simp [readElemWith] at h
    have h3 : (read dt a false false raw).elems = raw.map some := by
      rw [Mask.read, h1]
      apply List.map_congr_left
      intro d _
      simp [readElemWith, unsignedView, view]
    cases hr : read dt a false false raw with
    | mk k e => simp only [hr] at h2 h3; simp [h2, h3]
  · intro u
    refine ⟨?_, ?_⟩
    · cases hk : (read dt a false u raw).kind with
      | plain => rfl
      | masked =>
        obtain ⟨d, _, h⟩ := (readWith_kind unsignedView dt a false u raw).mp hk
        simp [readElemWith] at h
    · simp only [Mask.read, readWith_elems, List.mem_map, not_exists, not_and]
      intro d _ h
      simp [readElemWith] at h

example : read ⟨.int, 8⟩ { fillValue := some (.vals (.num 5) []), unsigned := some "true" } false false
    [.num 5, .num (-127)] = { kind := .plain, elems := [some (.num 5), some (.num (-127))] } := by decide

/-! ## 5. `apply_masking` after a `mask=False` read

Full-strength statement (the property as written):

    ∀ dt a unpackOn raw,
      propsApplyMasking (readerProps dt a) (read dt a false unpackOn raw).elems
        = .ok (read dt a true unpackOn raw).elems

and the same for every metadata construct and its bounds.  It is FALSE for the code; each
way it fails is witnessed below and recorded as a known finding:
  attributes not safely castable (the read ignores them, `apply_masking` applies them);
  vector `missing_value`; `valid_range` together with `valid_min`/`valid_max` or of the
  wrong size (the read gives `valid_range` precedence / ignores it, `apply_masking` raises);
  valid-range attributes on character data; data transformed by the read (unpacked or
  re-viewed as unsigned) while the attributes stay in packed space; bounds inheriting the
  parent's attributes in `apply_masking` only.
`ApplyOK` / `BoundsOK` are exactly the negation of that list.  NaN fill values and the
`inplace=False` copy are NOT excluded: the model is the patched code; the repository code
fails there (`…_old_…_counterexample`). -/

/-- One variable: under `ApplyOK`, `PropertiesData.apply_masking` on the data read with
`mask=False` gives the elements of the masked read. -/
theorem C07_apply_masking_partial (dt : DType) (a : Attrs) (unpackOn : Bool) (raw : List V)
    (h : ApplyOK dt a unpackOn = true) :
    propsApplyMasking (readerProps dt a) (read dt a false unpackOn raw).elems
      = .ok (read dt a true unpackOn raw).elems :=
  apply_var dt a unpackOn raw h

example : ApplyOK ⟨.float, 32⟩ { fillValue := some (.vals .nan []), validMin := some (.vals (.num 0) []) } true = true := by
  decide
example : propsApplyMasking (readerProps ⟨.float, 32⟩ { fillValue := some (.vals .nan []), validMin := some (.vals (.num 0) []) })
    (read ⟨.float, 32⟩ { fillValue := some (.vals .nan []), validMin := some (.vals (.num 0) []) } false true
      [.nan, .num (-1), .num 4]).elems = .ok [none, none, some (.num 4)] := by decide

/-- The field and all its metadata constructs (with bounds): `Field.apply_masking` after
`cfdm.read(mask=False)` returns the state of the masked read, in place or as a copy, and
with `inplace=False` the receiver is left exactly as it was. -/
theorem C07_field_apply_masking_partial (inplace unpackOn : Bool) (f : Var) (cs : List ConVar)
    (hf : VarOK unpackOn f = true) (hc : ∀ c ∈ cs, ConOK unpackOn c = true) :
    ∃ recv res, fieldApplyMasking inplace (readField false unpackOn f cs) = .ok (recv, res)
      ∧ res.data = (readField true unpackOn f cs).data
      ∧ res.cons.map (fun c => (c.data, c.bdata))
          = (readField true unpackOn f cs).cons.map (fun c => (c.data, c.bdata))
      ∧ recv = (if inplace then res else readField false unpackOn f cs) := by
  refine ⟨_, _, field_apply inplace unpackOn f cs hf hc, rfl, ?_, rfl⟩
  simp only [maskedState, readField, List.map_map]
  apply List.map_congr_left
  intro c _
  simp [maskedCon]

/-- non-vacuity: a field with a coordinate that has bounds -/
example : VarOK true ⟨⟨.int, 16⟩, { missingValue := some (.vals (.num 7) []) }, [.num 7, .num 1]⟩ = true
    ∧ ConOK true ⟨⟨⟨.float, 64⟩, { validMin := some (.vals (.num 15) []) }, [.num 10, .num 20]⟩,
        some ⟨⟨.float, 64⟩, { validMin := some (.vals (.num 15) []) }, [.num 5, .num 15, .num 15, .num 25]⟩⟩ = true := by
  decide

/-! ## 6. Witnesses: the repository code, and the excluded points -/

/-- Repository `Data.apply_masking` (`array == fill_value`): a NaN `_FillValue` masks
nothing, while the read masks the NaN element. -/
theorem C07_old_nan_counterexample :
    propsApplyMaskingOld (readerProps ⟨.float, 32⟩ { fillValue := some (.vals .nan []) })
        (read ⟨.float, 32⟩ { fillValue := some (.vals .nan []) } false true [.nan, .num 1]).elems
      = .ok [some .nan, some (.num 1)]
    ∧ (read ⟨.float, 32⟩ { fillValue := some (.vals .nan []) } true true [.nan, .num 1]).elems
      = [none, some (.num 1)] := by decide

/-- Repository `Field.apply_masking(inplace=False)`: the receiver's coordinate is masked,
the returned copy's is not. -/
theorem C07_old_field_copy_counterexample :
    fieldApplyMaskingOld false
        (readField false true ⟨⟨.int, 16⟩, {}, [.num 1]⟩
          [⟨⟨⟨.float, 64⟩, { validMin := some (.vals (.num 15) []) }, [.num 10, .num 20]⟩, none⟩])
      = .ok
        ({ props := { fillValue := some (.vals (.num (-32767)) []) }, data := [some (.num 1)],
           cons := [{ props := { fillValue := some (.vals (.num 9969209968386869046778552952102584320) []),
                                 validMin := some (.vals (.num 15) []) },
                      data := [none, some (.num 20)], bprops := none, bdata := none }] },
         { props := { fillValue := some (.vals (.num (-32767)) []) }, data := [some (.num 1)],
           cons := [{ props := { fillValue := some (.vals (.num 9969209968386869046778552952102584320) []),
                                 validMin := some (.vals (.num 15) []) },
                      data := [some (.num 10), some (.num 20)], bprops := none, bdata := none }] }) := by
  decide

/-- Repository `__getitem__`: `_Unsigned` re-views data of any type (here float32), the
reference only signed integers. -/
theorem C07_old_unsigned_counterexample :
    unsignedViewOld ⟨.float, 32⟩ { unsigned := some "true" } true = true
    ∧ refUnsigned ⟨.float, 32⟩ { unsigned := some "true" } true = false := by decide

/-- Repository reader with `mask=False`: a string variable cannot be read at all, while the
patched reader records the 'S1' default fill value (NUL, i.e. the empty string). -/
theorem C07_old_string_default_fill_counterexample :
    readerPropsOld ⟨.vstr, 8⟩ {} = .error "AttributeError"
    ∧ (readerProps ⟨.vstr, 8⟩ {}).fillValue = some (.vals (.num 0) []) := by decide

/-- Excluded by `hfill`: int8, `_Unsigned="true"`, no `_FillValue`, stored value -127
(the default fill value).  cfdm masks it (129 == view(-127)), the reference does not. -/
theorem C07_unsigned_default_fill_counterexample :
    (read ⟨.int, 8⟩ { unsigned := some "true" } true true [.num (-127)]).elems = [none]
    ∧ ¬ maskedBy ⟨.int, 8⟩ { unsigned := some "true" } true (.num (-127)) := by
  refine ⟨by decide, ?_⟩
  intro h
  simp only [maskedBy] at h
  obtain ⟨_, h⟩ := h
  have hu : refUnsigned ⟨.int, 8⟩ { unsigned := some "true" } true = true := by decide
  simp only [hu, reinterp, usable, specLower, specUpper, sameValue, defaultFill] at h
  simp at h

/-- Excluded by `hvlen`: a variable-length string variable holding the empty string. -/
theorem C07_vlen_counterexample :
    (read ⟨.vstr, 8⟩ {} true true [.num 0, .num 97]).elems = [none, some (.num 97)]
    ∧ ¬ maskedBy ⟨.vstr, 8⟩ {} true (.num 0) := by
  refine ⟨by decide, ?_⟩
  intro h
  simp [maskedBy, DType.isVlen] at h

/-- Excluded by `ApplyOK`: each line is a concrete variable on which `apply_masking` after
the raw read differs from the masked read (left: `apply_masking`, right: masked read). -/
theorem C07_apply_masking_excluded_points :
    -- valid_min not safely castable (int8 variable, valid_min = 300): the read ignores it
    (propsApplyMasking (readerProps ⟨.int, 8⟩ { validMin := some (.vals (.num 300) []) })
        (read ⟨.int, 8⟩ { validMin := some (.vals (.num 300) []) } false false [.num 1]).elems = .ok [none]
      ∧ (read ⟨.int, 8⟩ { validMin := some (.vals (.num 300) []) } true false [.num 1]).elems = [some (.num 1)])
    -- vector missing_value
    ∧ (propsApplyMasking (readerProps ⟨.int, 8⟩ { missingValue := some (.vals (.num 1) [.num 2]) })
        (read ⟨.int, 8⟩ { missingValue := some (.vals (.num 1) [.num 2]) } false false [.num 1, .num 2, .num 3]).elems
          = .error "ValueError"
      ∧ (read ⟨.int, 8⟩ { missingValue := some (.vals (.num 1) [.num 2]) } true false [.num 1, .num 2, .num 3]).elems
          = [none, none, some (.num 3)])
    -- valid_range together with valid_min
    ∧ (propsApplyMasking (readerProps ⟨.int, 8⟩ { validRange := some (.vals (.num 2) [.num 3]), validMin := some (.vals (.num 0) []) })
        (read ⟨.int, 8⟩ { validRange := some (.vals (.num 2) [.num 3]), validMin := some (.vals (.num 0) []) } false false [.num 1]).elems
          = .error "ValueError"
      ∧ (read ⟨.int, 8⟩ { validRange := some (.vals (.num 2) [.num 3]), validMin := some (.vals (.num 0) []) } true false [.num 1]).elems
          = [none])
    -- packed data read with unpack=True: _FillValue is in packed space
    ∧ (propsApplyMasking (readerProps ⟨.int, 16⟩ { fillValue := some (.vals (.num 5) []), scaleFactor := some (.vals (.num 2) []) })
        (read ⟨.int, 16⟩ { fillValue := some (.vals (.num 5) []), scaleFactor := some (.vals (.num 2) []) } false true [.num 5]).elems
          = .ok [some (.num 10)]
      ∧ (read ⟨.int, 16⟩ { fillValue := some (.vals (.num 5) []), scaleFactor := some (.vals (.num 2) []) } true true [.num 5]).elems
          = [none])
    -- unsigned view: _FillValue = -1 stays signed, the data become 255
    ∧ (propsApplyMasking (readerProps ⟨.int, 8⟩ { fillValue := some (.vals (.num (-1)) []), unsigned := some "true" })
        (read ⟨.int, 8⟩ { fillValue := some (.vals (.num (-1)) []), unsigned := some "true" } false true [.num (-1)]).elems
          = .ok [some (.num 255)]
      ∧ (read ⟨.int, 8⟩ { fillValue := some (.vals (.num (-1)) []), unsigned := some "true" } true true [.num (-1)]).elems
          = [none])
    -- bounds inherit the parent's valid_min in apply_masking only
    ∧ (boundsApplyMasking (readerProps ⟨.float, 64⟩ {}) (readerProps ⟨.float, 64⟩ { validMin := some (.vals (.num 15) []) })
        (read ⟨.float, 64⟩ {} false true [.num 5, .num 15]).elems = .ok [none, some (.num 15)]
      ∧ (read ⟨.float, 64⟩ {} true true [.num 5, .num 15]).elems = [some (.num 5), some (.num 15)]) := by
  decide

end Cfdm.Props.C07
