import Cfdm.Lemmas.MaskApply
import Cfdm.Lemmas.MaskData
import Cfdm.Model.MaskDType
import Cfdm.Generated.NumpyPromotion
/-
C07 — masking and unpacking of file data follow the netCDF conventions.
Property theorems only.  Model: Cfdm/Model/Mask.lean (masks, values; mirrors /repo HEAD
plus fixes/C07-apply-masking-vector-missing-value.patch; earlier behaviour is kept as
`…Old`) and Cfdm/Model/MaskDType.lean (data types of unpacked data; theorems in section 7).
-/
namespace Cfdm.Props.C07
open Cfdm.Mask

/-! ## 1. The mask of a read is the reference rule

Full-strength statement (every data type, every attribute combination):

    ∀ dt a scaleOn raw i, (read dt a true scaleOn raw).elems[i]? = some none
                            ↔ maskedBy dt a scaleOn raw[i]

It is FALSE for the code at two points, both recorded as known findings and witnessed
below (`C07_unsigned_default_fill_counterexample`, `C07_vlen_counterexample`):
  * `_Unsigned` view together with the *default* fill value: cfdm re-views the signed
    default fill value as unsigned, the reference compares it as it is;
  * variable-length strings: cfdm masks the empty string (and `missing_value`), the
    reference never masks a variable-length type.
The theorem carries exactly these two exclusions (`hfill`, `hvlen`); `hb`/`hdata` only
say that the input is a netCDF variable (positive width, data are values of the type). -/

/-- `netcdf_indexer.__getitem__` with masking on presents element `i` as masked exactly
when the netCDF4 rule says so — for every type, every combination of `_FillValue`,
`missing_value` (scalar or vector), `valid_min`, `valid_max`, `valid_range`, `_Unsigned`,
safely castable or not, with or without unpacking. -/
theorem C07_mask_iff (dt : DType) (a : Attrs) (scaleOn : Bool) (raw : List V) (i : Nat)
    (hi : i < raw.length) (hb : 0 < dt.bits) (hdata : ∀ d ∈ raw, dt.fits d = true)
    (hvlen : dt.isVlen = false)
    (hfill : unsignedView dt a scaleOn = true → (safecast dt a.fillValue).isSome = true) :
    (read dt a true scaleOn raw).elems[i]? = some none ↔ maskedBy dt a scaleOn raw[i] := by
  rw [← elemMask_iff_maskedBy dt a scaleOn raw[i] hb (hdata _ (List.getElem_mem hi)) hvlen hfill]
  simp only [Mask.read, readWith_elems, List.getElem?_map, List.getElem?_eq_getElem hi, Option.map_some,
    Option.some.injEq, readElemWith, Bool.true_and]
  split <;> simp_all

example : (0 : Nat) < (⟨.int, 16⟩ : DType).bits ∧ (∀ d ∈ [V.num 5, .num (-32767), .num 7], (⟨.int, 16⟩ : DType).fits d = true) := by
  decide
example : (read ⟨.int, 16⟩ { missingValue := some (.vals (.num 5) [.num 7]) } true true
    [.num 5, .num (-32767), .num 7, .num 1]).elems = [none, none, none, some (.num 1)] := by decide

/-- The result is a masked array exactly when some element is missing by the reference rule. -/
theorem C07_kind_iff (dt : DType) (a : Attrs) (scaleOn : Bool) (raw : List V)
    (hb : 0 < dt.bits) (hdata : ∀ d ∈ raw, dt.fits d = true) (hvlen : dt.isVlen = false)
    (hfill : unsignedView dt a scaleOn = true → (safecast dt a.fillValue).isSome = true) :
    (read dt a true scaleOn raw).kind = .masked ↔ ∃ d ∈ raw, maskedBy dt a scaleOn d := by
  simp only [Mask.read, readWith_kind]
  constructor
  · rintro ⟨d, hd, h⟩
    refine ⟨d, hd, (elemMask_iff_maskedBy dt a scaleOn d hb (hdata d hd) hvlen hfill).mp ?_⟩
    simp only [readElemWith, Bool.true_and] at h
    split at h
    · assumption
    · cases h
  · rintro ⟨d, hd, h⟩
    refine ⟨d, hd, ?_⟩
    have := (elemMask_iff_maskedBy dt a scaleOn d hb (hdata d hd) hvlen hfill).mpr h
    simp [readElemWith, this]

example : (read ⟨.uint, 8⟩ {} true false [.num 1, .num 2]).kind = .plain := by decide
example : (read ⟨.uint, 8⟩ {} true false [.num 1, .num 255]).kind = .masked := by decide

/-! ## 2. Unpacking -/

/-- The presence table of `_unpack` (both attributes, one of them, the `!= 1.0` / `!= 0.0`
short cuts, the "cannot be converted to a float" escape) computes
`x * scale_factor + add_offset`; and every unmasked element a read presents is that
function of the stored value (re-viewed as unsigned where `_Unsigned` applies). -/
theorem C07_unpack_linear (dt : DType) (a : Attrs) (maskOn : Bool) (raw : List V) (i : Nat)
    (hi : i < raw.length) (hb : 0 < dt.bits) (hdata : ∀ d ∈ raw, dt.fits d = true) (v : V)
    (h : (read dt a maskOn true raw).elems[i]? = some (some v)) :
    v = specUnpack a (reinterp (refUnsigned dt a true) dt raw[i]) := by
  simp only [Mask.read, readWith_elems, List.getElem?_map, List.getElem?_eq_getElem hi, Option.map_some,
    Option.some.injEq, readElemWith, if_true] at h
  split at h
  · cases h
  · simp only [Option.some.injEq] at h
    rw [← h, unpackElem_eq_spec, ← unsignedView_eq_ref,
      view_eq_reinterp dt _ hb unsignedView_int _ (hdata _ (List.getElem_mem hi))]

example : (read ⟨.int, 16⟩ { scaleFactor := some (.vals (.num 2) []), addOffset := some (.vals (.num 1) []) }
    true true [.num 3, .num (-32767)]).elems = [some (.num 7), none] := by decide
example : (read ⟨.int, 8⟩ { scaleFactor := some .text, addOffset := some (.vals (.num 1) []) }
    true true [.num 3]).elems = [some (.num 3)] := by decide

/-! ## 3. Subspaces -/

/-- Reading a subspace (index first, then mask and unpack — what the backends do) gives
the corresponding elements of the full read, for any positions (out-of-range ones select
nothing); and the subspace comes back as a masked array exactly when one of its elements
is masked. -/
theorem C07_subspace_commutes (dt : DType) (a : Attrs) (maskOn unpackOn : Bool) (raw : List V)
    (ix : List Nat) :
    (read dt a maskOn unpackOn (gather raw ix)).elems = gather (read dt a maskOn unpackOn raw).elems ix
    ∧ ((read dt a maskOn unpackOn (gather raw ix)).kind = .masked
        ↔ none ∈ gather (read dt a maskOn unpackOn raw).elems ix) := by
  simp only [Mask.read, readWith_elems, readWith_kind, gather_map, List.mem_map]
  exact ⟨trivial, trivial⟩

example : (read ⟨.int, 8⟩ { validMax := some (.vals (.num 3) []) } true false
    (gather [.num 1, .num 9, .num 2, .num 7] [3, 0])).elems = [none, some (.num 1)] := by decide

/-! ## 4. Masking switched off -/

/-- With `mask=False, unpack=False` the stored values are returned as they are, as a
plain array; with `mask=False, unpack=True` nothing is masked either. -/
theorem C07_mask_off (dt : DType) (a : Attrs) (raw : List V) :
    read dt a false false raw = { kind := .plain, elems := raw.map some }
    ∧ ∀ unpackOn, (read dt a false unpackOn raw).kind = .plain
        ∧ none ∉ (read dt a false unpackOn raw).elems := by
  refine ⟨?_, ?_⟩
  · have h1 := readWith_elems unsignedView dt a false false raw
    have h2 : (read dt a false false raw).kind = .plain := by
      cases hk : (read dt a false false raw).kind with
      | plain => rfl
      | masked =>
        obtain ⟨d, _, h⟩ := (readWith_kind unsignedView dt a false false raw).mp hk
        simp [readElemWith] at h
    have h3 : (read dt a false false raw).elems = raw.map some := by
      rw [Mask.read, h1]
      apply List.map_congr_left
      intro d _
      simp [readElemWith, unsignedView, view]
    cases hr : read dt a false false raw with
    | mk k e => simp only [hr] at h2 h3; simp [h2, h3]
  · intro u
    refine ⟨?_, ?_⟩
    · cases hk : (read dt a false u raw).kind with
      | plain => rfl
      | masked =>
        obtain ⟨d, _, h⟩ := (readWith_kind unsignedView dt a false u raw).mp hk
        simp [readElemWith] at h
    · simp only [Mask.read, readWith_elems, List.mem_map, not_exists, not_and]
      intro d _ h
      simp [readElemWith] at h

example : read ⟨.int, 8⟩ { fillValue := some (.vals (.num 5) []), unsigned := some "true" } false false
    [.num 5, .num (-127)] = { kind := .plain, elems := [some (.num 5), some (.num (-127))] } := by decide

/-! ## 5. `apply_masking` after a `mask=False` read

Full-strength statement (the property as written):

    ∀ dt a unpackOn raw,
      propsApplyMasking (readerProps dt a) (read dt a false unpackOn raw).elems
        = .ok (read dt a true unpackOn raw).elems

and the same for every metadata construct and its bounds.  It is FALSE for the code; each
way it fails is witnessed below and recorded as a known finding:
  attributes not safely castable (the read ignores them, `apply_masking` applies them);
  `valid_range` together with `valid_min`/`valid_max` or of the
  wrong size (the read gives `valid_range` precedence / ignores it, `apply_masking` raises);
  valid-range attributes on character data; data transformed by the read (unpacked or
  re-viewed as unsigned) while the attributes stay in packed space; bounds inheriting the
  parent's attributes in `apply_masking` only.
`ApplyOK` / `BoundsOK` are exactly the negation of that list.  NaN fill values, the
`inplace=False` copy and vector-valued `missing_value` are NOT excluded: the first two were
repaired in /repo (f62b33c, ebd1f5d; `…_old_…_counterexample` keep the earlier code), the
third is repaired by fixes/C07-apply-masking-vector-missing-value.patch (HEAD without it:
`C07_old_vector_missing_value_counterexample`). -/

/-- One variable: under `ApplyOK`, `PropertiesData.apply_masking` on the data read with
`mask=False` gives the elements of the masked read. -/
theorem C07_apply_masking_partial (dt : DType) (a : Attrs) (unpackOn : Bool) (raw : List V)
    (h : ApplyOK dt a unpackOn = true) :
    propsApplyMasking (readerProps dt a) (read dt a false unpackOn raw).elems
      = .ok (read dt a true unpackOn raw).elems :=
  apply_var dt a unpackOn raw h

example : ApplyOK ⟨.float, 32⟩ { fillValue := some (.vals .nan []), validMin := some (.vals (.num 0) []) } true = true := by
  decide
example : propsApplyMasking (readerProps ⟨.float, 32⟩ { fillValue := some (.vals .nan []), validMin := some (.vals (.num 0) []) })
    (read ⟨.float, 32⟩ { fillValue := some (.vals .nan []), validMin := some (.vals (.num 0) []) } false true
      [.nan, .num (-1), .num 4]).elems = .ok [none, none, some (.num 4)] := by decide

/-- non-vacuity with a vector `missing_value` -/
example : ApplyOK ⟨.int, 8⟩ { missingValue := some (.vals (.num 1) [.num 2]) } false = true
    ∧ propsApplyMasking (readerProps ⟨.int, 8⟩ { missingValue := some (.vals (.num 1) [.num 2]) })
        (read ⟨.int, 8⟩ { missingValue := some (.vals (.num 1) [.num 2]) } false false
          [.num 1, .num 2, .num 3, .num (-127)]).elems = .ok [none, none, some (.num 3), none] := by decide

/-- The field and all its metadata constructs (with bounds): `Field.apply_masking` after
`cfdm.read(mask=False)` returns the state of the masked read, in place or as a copy, and
with `inplace=False` the receiver is left exactly as it was. -/
theorem C07_field_apply_masking_partial (inplace unpackOn : Bool) (f : Var) (cs : List ConVar)
    (hf : VarOK unpackOn f = true) (hc : ∀ c ∈ cs, ConOK unpackOn c = true) :
    ∃ recv res, fieldApplyMasking inplace (readField false unpackOn f cs) = .ok (recv, res)
      ∧ res.data = (readField true unpackOn f cs).data
      ∧ res.cons.map (fun c => (c.data, c.bdata))
          = (readField true unpackOn f cs).cons.map (fun c => (c.data, c.bdata))
      ∧ recv = (if inplace then res else readField false unpackOn f cs) := by
  refine ⟨_, _, field_apply inplace unpackOn f cs hf hc, rfl, ?_, rfl⟩
  simp only [maskedState, readField, List.map_map]
  apply List.map_congr_left
  intro c _
  simp [maskedCon]

/-- non-vacuity: a field with a coordinate that has bounds -/
example : VarOK true ⟨⟨.int, 16⟩, { missingValue := some (.vals (.num 7) []) }, [.num 7, .num 1]⟩ = true
    ∧ ConOK true ⟨⟨⟨.float, 64⟩, { validMin := some (.vals (.num 15) []) }, [.num 10, .num 20]⟩,
        some ⟨⟨.float, 64⟩, { validMin := some (.vals (.num 15) []) }, [.num 5, .num 15, .num 15, .num 25]⟩⟩ = true := by
  decide

/-! ### The default `_FillValue` bookkeeping of bounds

`PropertiesDataBounds.apply_masking` takes every masking property of the bounds and falls
back on the parent's when the bounds have none.  For `_FillValue` the fall-back must never
happen after a `mask=False` read: the reader's `_set_default_FillValue` records, on the
bounds variable too, the default fill value OF THE BOUNDS' OWN TYPE - which is what the
masked read uses.  (`BoundsOK` therefore says nothing about `_FillValue`, and the bounds may
have another data type than their parent.) -/

/-- After a `mask=False` read the bounds always carry a `_FillValue` of their own - the
attribute, or their own type's default - so `apply_masking` never uses the parent's,
whatever the parent's `_FillValue` and type are. -/
theorem C07_bounds_fill_value_never_inherited (bdt cdt : DType) (b c : Attrs) :
    (inheritProps (readerProps bdt b) (readerProps cdt c)).fillValue = (readerProps bdt b).fillValue
    ∧ (readerProps bdt b).fillValue = some (match b.fillValue with
        | some x => x
        | none => .vals (defaultFill bdt) []) := by
  simp only [inheritProps, readerProps]
  cases b.fillValue <;> simp

/-- non-vacuity: uint16 bounds without `_FillValue`, holding 65535, under a float32 parent
with `_FillValue = 100`: `apply_masking` masks the 65535 (and not the 100), as the read does. -/
example :
    ConOK true ⟨⟨⟨.float, 32⟩, { fillValue := some (.vals (.num 100) []) }, [.num 1, .num 100]⟩,
        some ⟨⟨.uint, 16⟩, {}, [.num 0, .num 65535, .num 100, .num 3]⟩⟩ = true
    ∧ conApplyMasking (readCon false true ⟨⟨⟨.float, 32⟩, { fillValue := some (.vals (.num 100) []) }, [.num 1, .num 100]⟩,
        some ⟨⟨.uint, 16⟩, {}, [.num 0, .num 65535, .num 100, .num 3]⟩⟩)
      = .ok { props := { fillValue := some (.vals (.num 100) []) }, data := [some (.num 1), none],
              bprops := some { fillValue := some (.vals (.num 65535) []) },
              bdata := some [some (.num 0), none, some (.num 100), some (.num 3)] } := by decide

/-- The bookkeeping cannot be dropped: were the default NOT recorded on the bounds (their
properties as after a masked read), `apply_masking` would use the parent's `_FillValue`
and leave the bounds' never-written elements unmasked. -/
theorem C07_bounds_default_fill_needed :
    boundsApplyMasking (propsAfterRead true ⟨⟨.uint, 16⟩, {}, []⟩)
        (readerProps ⟨.float, 32⟩ { fillValue := some (.vals (.num 100) []) })
        (read ⟨.uint, 16⟩ {} false true [.num 0, .num 65535, .num 100]).elems
      = .ok [some (.num 0), some (.num 65535), none]
    ∧ (read ⟨.uint, 16⟩ {} true true [.num 0, .num 65535, .num 100]).elems
      = [some (.num 0), none, some (.num 100)] := by decide

/-! ## 6. Witnesses: earlier / unpatched code, and the excluded points -/

/-- `Data.apply_masking` before f62b33c (`array == fill_value`): a NaN `_FillValue` masks
nothing, while the read masks the NaN element. -/
theorem C07_old_nan_counterexample :
    propsApplyMaskingOld (readerProps ⟨.float, 32⟩ { fillValue := some (.vals .nan []) })
        (read ⟨.float, 32⟩ { fillValue := some (.vals .nan []) } false true [.nan, .num 1]).elems
      = .ok [some .nan, some (.num 1)]
    ∧ (read ⟨.float, 32⟩ { fillValue := some (.vals .nan []) } true true [.nan, .num 1]).elems
      = [none, some (.num 1)] := by decide

/-- `Field.apply_masking(inplace=False)` before ebd1f5d: the receiver's coordinate is masked,
the returned copy's is not. -/
theorem C07_old_field_copy_counterexample :
    fieldApplyMaskingOld false
        (readField false true ⟨⟨.int, 16⟩, {}, [.num 1]⟩
          [⟨⟨⟨.float, 64⟩, { validMin := some (.vals (.num 15) []) }, [.num 10, .num 20]⟩, none⟩])
      = .ok
        ({ props := { fillValue := some (.vals (.num (-32767)) []) }, data := [some (.num 1)],
           cons := [{ props := { fillValue := some (.vals (.num 9969209968386869046778552952102584320) []),
                                 validMin := some (.vals (.num 15) []) },
                      data := [none, some (.num 20)], bprops := none, bdata := none }] },
         { props := { fillValue := some (.vals (.num (-32767)) []) }, data := [some (.num 1)],
           cons := [{ props := { fillValue := some (.vals (.num 9969209968386869046778552952102584320) []),
                                 validMin := some (.vals (.num 15) []) },
                      data := [some (.num 10), some (.num 20)], bprops := none, bdata := none }] }) := by
  decide

/-- `__getitem__` before f8e6b8c: `_Unsigned` re-views data of any type (here float32), the
reference only signed integers. -/
theorem C07_old_unsigned_counterexample :
    unsignedViewOld ⟨.float, 32⟩ { unsigned := some "true" } true = true
    ∧ refUnsigned ⟨.float, 32⟩ { unsigned := some "true" } true = false := by decide

/-- The reader with `mask=False` before 32b9e20: a string variable cannot be read at all;
since then the reader records the 'S1' default fill value (NUL, i.e. the empty string). -/
theorem C07_old_string_default_fill_counterexample :
    readerPropsOld ⟨.vstr, 8⟩ {} = .error "AttributeError"
    ∧ (readerProps ⟨.vstr, 8⟩ {}).fillValue = some (.vals (.num 0) []) := by decide

/-- Excluded by `hfill`: int8, `_Unsigned="true"`, no `_FillValue`, stored value -127
(the default fill value).  cfdm masks it (129 == view(-127)), the reference does not. -/
theorem C07_unsigned_default_fill_counterexample :
    (read ⟨.int, 8⟩ { unsigned := some "true" } true true [.num (-127)]).elems = [none]
    ∧ ¬ maskedBy ⟨.int, 8⟩ { unsigned := some "true" } true (.num (-127)) := by
  refine ⟨by decide, ?_⟩
  intro h
  simp only [maskedBy] at h
  obtain ⟨_, h⟩ := h
  have hu : refUnsigned ⟨.int, 8⟩ { unsigned := some "true" } true = true := by decide
  simp only [hu, reinterp, usable, specLower, specUpper, sameValue, defaultFill] at h
  simp at h

/-- Excluded by `hvlen`: a variable-length string variable holding the empty string. -/
theorem C07_vlen_counterexample :
    (read ⟨.vstr, 8⟩ {} true true [.num 0, .num 97]).elems = [none, some (.num 97)]
    ∧ ¬ maskedBy ⟨.vstr, 8⟩ {} true (.num 0) := by
  refine ⟨by decide, ?_⟩
  intro h
  simp [maskedBy, DType.isVlen] at h

/-- /repo HEAD without fixes/C07-apply-masking-vector-missing-value.patch: a vector
`missing_value` is handed to `Data.apply_masking` as ONE fill value; `array == vector`
raises (shapes differ) or, when the lengths happen to agree, compares position by
position - the read masks every listed value wherever it occurs. -/
theorem C07_old_vector_missing_value_counterexample :
    (propsApplyMaskingVecOld (readerProps ⟨.int, 8⟩ { missingValue := some (.vals (.num 1) [.num 2]) })
        (read ⟨.int, 8⟩ { missingValue := some (.vals (.num 1) [.num 2]) } false false [.num 1, .num 2, .num 3]).elems
          = .error "ValueError"
      ∧ (read ⟨.int, 8⟩ { missingValue := some (.vals (.num 1) [.num 2]) } true false [.num 1, .num 2, .num 3]).elems
          = [none, none, some (.num 3)])
    ∧ (propsApplyMaskingVecOld (readerProps ⟨.int, 8⟩ { missingValue := some (.vals (.num 1) [.num 2]) })
        (read ⟨.int, 8⟩ { missingValue := some (.vals (.num 1) [.num 2]) } false false [.num 2, .num 1]).elems
          = .ok [some (.num 2), some (.num 1)]
      ∧ (read ⟨.int, 8⟩ { missingValue := some (.vals (.num 1) [.num 2]) } true false [.num 2, .num 1]).elems
          = [none, none])
    ∧ propsApplyMasking (readerProps ⟨.int, 8⟩ { missingValue := some (.vals (.num 1) [.num 2]) })
        (read ⟨.int, 8⟩ { missingValue := some (.vals (.num 1) [.num 2]) } false false [.num 2, .num 1]).elems
          = .ok [none, none] := by
  decide

/-- Excluded by `ApplyOK`: each line is a concrete variable on which `apply_masking` after
the raw read differs from the masked read (left: `apply_masking`, right: masked read). -/
theorem C07_apply_masking_excluded_points :
    -- valid_min not safely castable (int8 variable, valid_min = 300): the read ignores it
    (propsApplyMasking (readerProps ⟨.int, 8⟩ { validMin := some (.vals (.num 300) []) })
        (read ⟨.int, 8⟩ { validMin := some (.vals (.num 300) []) } false false [.num 1]).elems = .ok [none]
      ∧ (read ⟨.int, 8⟩ { validMin := some (.vals (.num 300) []) } true false [.num 1]).elems = [some (.num 1)])
    -- valid_range together with valid_min
    ∧ (propsApplyMasking (readerProps ⟨.int, 8⟩ { validRange := some (.vals (.num 2) [.num 3]), validMin := some (.vals (.num 0) []) })
        (read ⟨.int, 8⟩ { validRange := some (.vals (.num 2) [.num 3]), validMin := some (.vals (.num 0) []) } false false [.num 1]).elems
          = .error "ValueError"
      ∧ (read ⟨.int, 8⟩ { validRange := some (.vals (.num 2) [.num 3]), validMin := some (.vals (.num 0) []) } true false [.num 1]).elems
          = [none])
    -- packed data read with unpack=True: _FillValue is in packed space
    ∧ (propsApplyMasking (readerProps ⟨.int, 16⟩ { fillValue := some (.vals (.num 5) []), scaleFactor := some (.vals (.num 2) []) })
        (read ⟨.int, 16⟩ { fillValue := some (.vals (.num 5) []), scaleFactor := some (.vals (.num 2) []) } false true [.num 5]).elems
          = .ok [some (.num 10)]
      ∧ (read ⟨.int, 16⟩ { fillValue := some (.vals (.num 5) []), scaleFactor := some (.vals (.num 2) []) } true true [.num 5]).elems
          = [none])
    -- unsigned view: _FillValue = -1 stays signed, the data become 255
    ∧ (propsApplyMasking (readerProps ⟨.int, 8⟩ { fillValue := some (.vals (.num (-1)) []), unsigned := some "true" })
        (read ⟨.int, 8⟩ { fillValue := some (.vals (.num (-1)) []), unsigned := some "true" } false true [.num (-1)]).elems
          = .ok [some (.num 255)]
      ∧ (read ⟨.int, 8⟩ { fillValue := some (.vals (.num (-1)) []), unsigned := some "true" } true true [.num (-1)]).elems
          = [none])
    -- bounds inherit the parent's valid_min in apply_masking only
    ∧ (boundsApplyMasking (readerProps ⟨.float, 64⟩ {}) (readerProps ⟨.float, 64⟩ { validMin := some (.vals (.num 15) []) })
        (read ⟨.float, 64⟩ {} false true [.num 5, .num 15]).elems = .ok [none, some (.num 15)]
      ∧ (read ⟨.float, 64⟩ {} true true [.num 5, .num 15]).elems = [some (.num 5), some (.num 15)]) := by
  decide

/-! ## 7. The data type of unpacked data

Full-strength statement (the property's "data type that a read presents"):

    ∀ construct p unpackOn t,  advertised = delivered = reference

where `advertised` is `Data.dtype` before any data are fetched, `delivered` the data type
of the array that `netcdf_indexer` returns and `reference` what netCDF4-python returns.
`advertised = delivered` holds for the reader after fixes/C07-unpacked-dtype.patch
(`C07_dtype_advertised_eq_delivered`) and is FALSE at /repo HEAD
(`C07_dtype_old_counterexamples`: every packed metadata construct, `_Unsigned`, neutral
attributes, and - promotion not being associative - some mixed attribute types).
`delivered = reference` is FALSE for a single neutral attribute (deliberate in cfdm, known
finding) and holds otherwise (`C07_dtype_reference_partial`). -/

section DType
open Cfdm.MaskDType

/-- numpy's promotion rule is the least safe common upper bound: both operands cast
safely to `promote a b`, and no lower-ranked type takes both. -/
theorem C07_promote_is_least_safe_upper_bound (a b : NT) : IsPromotion a b (promote a b) := by
  refine ⟨?_, ?_, ?_⟩
  · cases a <;> cases b <;> decide
  · cases a <;> cases b <;> decide
  · intro c'
    cases a <;> cases b <;> cases c' <;> decide

/-- ... and it is the only such type. -/
theorem C07_promote_unique (a b c : NT) (h : IsPromotion a b c) : c = promote a b := by
  obtain ⟨h1, h2, h3⟩ := h
  obtain ⟨g1, g2, g3⟩ := C07_promote_is_least_safe_upper_bound a b
  have le1 := h3 _ g1 g2
  have le2 := g3 _ h1 h2
  have : c.rank = (promote a b).rank := Nat.le_antisymm le1 le2
  revert this
  cases c <;> cases (promote a b) <;> decide

example : IsPromotion .u2 .i2 .i4 ∧ IsPromotion .i4 .f4 .f8 ∧ IsPromotion .u8 .i1 .f8 :=
  ⟨C07_promote_is_least_safe_upper_bound .u2 .i2, C07_promote_is_least_safe_upper_bound .i4 .f4,
   C07_promote_is_least_safe_upper_bound .u8 .i1⟩

theorem C07_promote_comm (a b : NT) : promote a b = promote b a := by
  cases a <;> cases b <;> rfl

theorem C07_promote_idem (a : NT) : promote a a = a := by
  cases a <;> rfl

/-- Promotion is NOT associative: the order in which `data`, `scale_factor` and
`add_offset` meet matters (this is why the reader must fold in the order of the
arithmetic, and why `np.result_type(dtype, np.result_type(add_offset, scale_factor))`
of /repo HEAD is not the delivered type). -/
theorem C07_promote_not_associative :
    promote (promote .u2 .i2) .f4 = .f8 ∧ promote .u2 (promote .i2 .f4) = .f4 := by decide

/-- The rule-based tables are those of the installed numpy, for all 100 pairs
(Cfdm/Generated/NumpyPromotion.lean is regenerated from numpy on every run). -/
theorem C07_promote_matches_numpy (a b : NT) :
    (a.name, b.name, (promote a b).name) ∈ Cfdm.Generated.NumpyPromotion.resultType := by
  cases a <;> cases b <;> decide

theorem C07_canCast_matches_numpy (a b : NT) :
    (a.name, b.name, canCast a b) ∈ Cfdm.Generated.NumpyPromotion.canCastSafe := by
  cases a <;> cases b <;> decide

/-- The data type the (patched) reader advertises for a construct before fetching its data
is the data type `netcdf_indexer` delivers - for every numeric type, every presence /
type / neutrality combination of `scale_factor` and `add_offset` (text included), with
or without `_Unsigned`, unpacking on or off. -/
theorem C07_dtype_advertised_eq_delivered (p : Pack) (unpackOn : Bool) (t : NT) :
    advertisedT p unpackOn t = deliveredT p unpackOn t := by
  obtain ⟨sf, ao, uns⟩ := p
  cases unpackOn
  · rfl
  · cases sf <;> cases ao <;> simp [advertisedT, deliveredT, unpackT, collect]
    all_goals (try split) <;> simp_all

example : advertisedT { sf := .num .f4 false, ao := .num .f8 false } true .i2 = .f8
    ∧ deliveredT { sf := .num .f4 false, ao := .num .f8 false } true .i2 = .f8
    ∧ advertisedT { sf := .num .f4 true, ao := .num .f8 true } true .f8 = .f4
    ∧ advertisedT { sf := .text, ao := .num .f8 false, uns := true } true .i1 = .u1 := by decide

/-- With unpacking off nothing changes the type (whatever the attributes are). -/
theorem C07_dtype_unpack_off (p : Pack) (t : NT) :
    deliveredT p false t = t ∧ advertisedT p false t = t ∧ refT p false t = t := ⟨rfl, rfl, rfl⟩

theorem canCast_refl (a : NT) : canCast a a = true := by cases a <;> rfl

theorem canCast_trans (a b c : NT) (h1 : canCast a b = true) (h2 : canCast b c = true) :
    canCast a c = true := by
  revert h1 h2
  cases a <;> cases b <;> cases c <;> decide

/-- Unpacking arithmetic never narrows: when an attribute takes part in the arithmetic
(i.e. not the all-neutral `astype` short cut), the delivered type holds every value of the
(re-viewed) stored type and of each numeric attribute's type. -/
theorem C07_dtype_unpack_no_narrowing (t : NT) (uns : Bool) (sf ao : AttrT)
    (hn : ¬ (∀ x ∈ [sf, ao], ∀ ty n, x = .num ty n → n = true))
    (htext : sf ≠ .text ∧ ao ≠ .text) :
    canCast (viewT uns t) (deliveredT ⟨sf, ao, uns⟩ true t) = true
    ∧ (∀ ty n, sf = .num ty n → canCast ty (deliveredT ⟨sf, ao, uns⟩ true t) = true)
    ∧ (∀ ty n, ao = .num ty n → canCast ty (deliveredT ⟨sf, ao, uns⟩ true t) = true) := by
  have up := fun a b => (C07_promote_is_least_safe_upper_bound a b)
  cases sf with
  | text => exact absurd rfl htext.1
  | absent =>
    cases ao with
    | text => exact absurd rfl htext.2
    | absent => exact absurd (by simp) hn
    | num o no =>
      cases no with
      | true => exact absurd (by simp) hn
      | false =>
        simp only [deliveredT, unpackT, if_true, Bool.false_eq_true, if_false]
        refine ⟨?_, ?_, ?_⟩
        · exact (up _ _).1
        · intro _ _ h; cases h
        · intro ty n h; cases h; exact (up _ _).2.1
  | num s ns =>
    cases ao with
    | text => exact absurd rfl htext.2
    | absent =>
      cases ns with
      | true => exact absurd (by simp) hn
      | false =>
        simp only [deliveredT, unpackT, if_true, Bool.false_eq_true, if_false]
        refine ⟨?_, ?_, ?_⟩
        · exact (up _ _).1
        · intro ty n h; cases h; exact (up _ _).2.1
        · intro _ _ h; cases h
    | num o no =>
      have hnn : (ns && no) = false := by
        cases ns <;> cases no <;> simp_all
      simp only [deliveredT, unpackT, if_true, hnn, Bool.false_eq_true, if_false]
      refine ⟨?_, ?_, ?_⟩
      · exact canCast_trans _ _ _ (up _ _).1 (up _ _).1
      · intro ty n h; cases h; exact canCast_trans _ _ _ (up _ _).2.1 (up _ _).1
      · intro ty n h; cases h; exact (up _ _).2.1

example : ¬ (∀ x ∈ [AttrT.num .f4 false, AttrT.absent], ∀ ty n, x = .num ty n → n = true) := by
  intro h
  have := h (.num .f4 false) (by simp) .f4 false rfl
  cases this

/-- The all-neutral short cut CAN narrow (float64 data, `scale_factor = float32(1)`,
`add_offset = float32(0)`: float32) - in cfdm and in the reference alike. -/
theorem C07_dtype_neutral_narrows :
    deliveredT { sf := .num .f4 true, ao := .num .f4 true } true .f8 = .f4
    ∧ refT { sf := .num .f4 true, ao := .num .f4 true } true .f8 = .f4
    ∧ canCast .f8 .f4 = false := by decide

/-- cfdm delivers the data type the reference library delivers, except for a single
neutral attribute. -/
theorem C07_dtype_reference_partial (p : Pack) (unpackOn : Bool) (t : NT)
    (h : trivialSingle p = false) : deliveredT p unpackOn t = refT p unpackOn t := by
  obtain ⟨sf, ao, uns⟩ := p
  cases unpackOn
  · rfl
  · rcases sf with _ | _ | ⟨s, _ | _⟩ <;> rcases ao with _ | _ | ⟨o, _ | _⟩ <;>
      simp_all [deliveredT, refT, unpackT, trivialSingle]

example : trivialSingle { sf := .num .f4 false, ao := .num .f8 true } = false := by decide

/-- Excluded by `trivialSingle`: uint64 data with only `scale_factor = float32(1)`: cfdm
casts to float32 (losing precision), the reference leaves uint64. -/
theorem C07_dtype_trivial_single_counterexample :
    deliveredT { sf := .num .f4 true } true .u8 = .f4 ∧ refT { sf := .num .f4 true } true .u8 = .u8 := by
  decide

/-- /repo HEAD (without fixes/C07-unpacked-dtype.patch): `Data.dtype` before fetching differs
from the data type of the fetched array for (1) any packed metadata construct, (2) an
`_Unsigned` variable, (3) neutral attributes, (4) attribute types on which promotion is
not associative; and (5) a text attribute makes the read of the field fail. -/
theorem C07_dtype_old_counterexamples :
    -- (1) an int16 coordinate with scale_factor float32
    (advertisedOldT false { sf := .num .f4 false } true .i2 = .ok .i2
      ∧ deliveredT { sf := .num .f4 false } true .i2 = .f4)
    -- (2) an int8 field with _Unsigned
    ∧ (advertisedOldT true { uns := true } true .i1 = .ok .i1 ∧ deliveredT { uns := true } true .i1 = .u1)
    -- (3) int8 field, scale_factor int8(1), add_offset int16(0)
    ∧ (advertisedOldT true { sf := .num .i1 true, ao := .num .i2 true } true .i1 = .ok .i2
      ∧ deliveredT { sf := .num .i1 true, ao := .num .i2 true } true .i1 = .i1)
    -- (4) uint16 field, scale_factor int16, add_offset float32
    ∧ (advertisedOldT true { sf := .num .i2 false, ao := .num .f4 false } true .u2 = .ok .f4
      ∧ deliveredT { sf := .num .i2 false, ao := .num .f4 false } true .u2 = .f8)
    -- (5) text scale_factor on the field: TypeError, although nothing would be unpacked
    ∧ (advertisedOldT true { sf := .text } false .i2 = .error "TypeError"
      ∧ deliveredT { sf := .text } true .i2 = .i2) := by decide

/-- Why `_unpack` evaluates ONE expression: adding the offset in place keeps the product's
type (float32 instead of float64 for int16 data, float32 scale, float64 offset) or fails. -/
theorem C07_dtype_inplace_counterexample :
    unpackInPlaceT { sf := .num .f4 false, ao := .num .f8 false } .i2 = .ok .f4
    ∧ unpackT { sf := .num .f4 false, ao := .num .f8 false } .i2 = .f8
    ∧ unpackInPlaceT { sf := .num .i2 false, ao := .num .f4 false } .i2 = .error "TypeError" := by decide

end DType

/-! ## 8. `Data.apply_masking` called directly

The construct and field wrappers of section 5 always hand over a non-empty list of scalar
fill values and unmasked data.  Called directly, `Data.apply_masking` also takes
`fill_values=None/True/False`, data that already hold masked elements, and checks its
arguments.  For scalar criteria it is an elementwise map given by `specApplyElem`. -/

/-- Without `valid_range`: every element of the result is `specApplyElem` of the element -
for any way of passing the fill values (`hres`: `None`, `False`, `True` = the data's own
fill value if any, or a sequence), any data, masked elements included. -/
theorem C07_data_apply_masking_elementwise (dataFill : Attr) (arg : FillArg) (fills : List V)
    (vmin vmax : Option V) (arr : List (Option V))
    (hres : resolveFills dataFill arg = .ok (fills.map scalarAttr)) :
    dataApplyMasking dataFill arg (vmin.map scalarAttr) (vmax.map scalarAttr) none arr
      = .ok (arr.map (specApplyElem fills vmin vmax)) := by
  have hs : splitRange (vmin.map scalarAttr) (vmax.map scalarAttr) none
      = .ok (vmin.map scalarAttr, vmax.map scalarAttr) := rfl
  simp only [dataApplyMasking, hs, hres, dataApplyCore_elementwise, Except.ok.injEq]
  apply List.map_congr_left
  intro o _
  exact critB_spec fills vmin vmax o

/-- With a two-element `valid_range` (and, as the method demands, neither `valid_min` nor
`valid_max`): the same, the range giving both bounds. -/
theorem C07_data_apply_masking_range (dataFill : Attr) (arg : FillArg) (fills : List V)
    (lo hi : V) (arr : List (Option V))
    (hres : resolveFills dataFill arg = .ok (fills.map scalarAttr)) :
    dataApplyMasking dataFill arg none none (some (.vals lo [hi])) arr
      = .ok (arr.map (specApplyElem fills (some lo) (some hi))) := by
  have hs : splitRange none none (some (.vals lo [hi])) = .ok (some (scalarAttr lo), some (scalarAttr hi)) := rfl
  have := dataApplyCore_elementwise fills (some lo) (some hi) arr
  simp only [Option.map_some] at this
  simp only [dataApplyMasking, hs, hres, this, Except.ok.injEq]
  apply List.map_congr_left
  intro o _
  exact critB_spec fills (some lo) (some hi) o

/-- non-vacuity: `fill_values=True` uses the data's fill value; a masked element stays masked -/
example : resolveFills (some (scalarAttr (.num 7))) (.flag true) = .ok ([V.num 7].map scalarAttr)
    ∧ dataApplyMasking (some (scalarAttr (.num 7))) (.flag true) (some (scalarAttr (.num 2))) none none
        [some (.num 7), none, some (.num 1), some (.num 3), some .nan]
      = .ok [none, none, none, some (.num 3), some .nan] := by decide

example : dataApplyMasking none (.seq [scalarAttr .nan]) none none (some (.vals (.num 2) [.num 8]))
        [some .nan, some (.num 1), some (.num 5), some (.num 9)] = .ok [none, none, some (.num 5), none] := by decide

/-- The argument checks: `valid_range` with `valid_min`/`valid_max`, or not of two elements,
is a ValueError - and that check comes before the `fill_values` one (TypeError for
something that is not a sequence). -/
theorem C07_data_apply_masking_argument_errors (dataFill : Attr) (arg : FillArg) (vmin vmax : Attr)
    (vr : AttrVal) (arr : List (Option V)) :
    ((vmin.isSome || vmax.isSome) = true → dataApplyMasking dataFill arg vmin vmax (some vr) arr = .error "ValueError")
    ∧ ((∀ lo hi, vr ≠ .vals lo [hi]) → dataApplyMasking dataFill arg vmin vmax (some vr) arr = .error "ValueError")
    ∧ dataApplyMasking dataFill .notSeq vmin vmax none arr = .error "TypeError" := by
  refine ⟨?_, ?_, ?_⟩
  · intro h
    simp [dataApplyMasking, splitRange, h]
  · intro h
    have hs : splitRange vmin vmax (some vr) = .error "ValueError" := by
      simp only [splitRange]
      split
      · rfl
      · rcases vr with ⟨lo, _ | ⟨hi, _ | _⟩⟩ | _
        · rfl
        · exact absurd rfl (h lo hi)
        · rfl
        · rfl
    simp [dataApplyMasking, hs]
  · simp [dataApplyMasking, splitRange, resolveFills]

example : dataApplyMasking none .notSeq none none (some (.vals (.num 1) [])) [some (.num 1)] = .error "ValueError" := by
  decide

end Cfdm.Props.C07
