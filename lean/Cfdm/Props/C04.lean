import Cfdm.Lemmas.Heap
import Cfdm.Lemmas.HeapSites
import Cfdm.Lemmas.HeapViews
/-
C04 — copies are independent; operations that are not in-place are pure.
Property theorems only (model: Cfdm/Model/Heap.lean, lemmas: Cfdm/Lemmas/Heap.lean).

Reading guide.  `T` is a cell tree (an object graph with addresses), `copyT tbl x n` is
`x.copy()` as the code performs it (new cells take addresses from the counter `n`),
`liveT tbl x` are the cells of `x` that a copy re-creates — the only cells the method
table writes to —, `keptT tbl x` those that a copy hands over, `Sep` says that the live
cells of each of two objects are unreachable from the other, `obsT` is the fingerprint
(the reachable structure and contents with the addresses forgotten), `runWrites ws (x, y, n)`
performs the writes `ws` of a mutator sequence with receiver `y` while `x` is watching.
-/
namespace Cfdm.Props.C04
open Cfdm.Heap

/-! ## 1. A copy is separate from its source — for every class shape -/

/-- **copy_sep.**  For *every* copy table and *every* component tree `x` (any depth, any
classes, any aliasing inside `x`), provided no cell of `x` sits both at a re-created and at a
handed-over position: the copy's live cells are all new, and the only old cells it reaches
are the handed-over ones, none of which is live in `x`. -/
theorem C04_copy_sep (tbl : Tbl) (x : T) (n : Nat)
    (hb : Below x n) (hwf : ∀ a ∈ liveT tbl x, a ∉ keptT tbl x) :
    Sep tbl x (copyT tbl x n).1 := by
  obtain ⟨_, h2, h3⟩ := copyT_spec tbl x n
  constructor
  · intro a ha hl
    have := h3 a hl; have := hb a ha; omega
  · intro a ha hy
    rcases h2 a hy with h | h
    · have := hb a (liveT_sub tbl x a ha); omega
    · exact hwf a ha h

/-- a coordinate-like object: properties (deep), data whose array is a core `NumpyArray`
(shared `_components`), a `custom` dict holding a mutable value -/
def exCoord : T :=
  .node 0 (.obj .container "DimensionCoordinate") (.cons "_components"
    (.node 1 (.comps .container)
      (.cons "custom" (.node 2 .dict (.cons "k" (.node 3 .list .nil) .nil))
      (.cons "properties" (.node 4 .dict (.cons "flag_values" (.leaf 5 false 77) .nil))
      (.cons "data" (.node 6 (.obj .container "Data") (.cons "_components"
        (.node 7 (.comps .container)
          (.cons "array" (.node 8 (.obj .nparray "NumpyArray") (.cons "_components"
            (.node 9 (.comps .nparray) (.cons "array" (.leaf 10 false 42) .nil)) .nil)) .nil)) .nil))
      .nil)))) .nil)

example : Below exCoord 11 ∧ ∀ a ∈ liveT (cfdmTbl) exCoord, a ∉ keptT (cfdmTbl) exCoord := by
  constructor
  · intro a ha; simp [exCoord, T.addrs, Kids.addrs] at ha; omega
  · decide

/-- an object in which one list is reached both through `custom` (handed over by a copy) and through
`properties` (re-created by a copy) -/
def exAliased : T :=
  .node 0 (.obj .container "DimensionCoordinate") (.cons "_components"
    (.node 1 (.comps .container)
      (.cons "custom" (.node 2 .dict (.cons "k" (.node 3 .list .nil) .nil))
      (.cons "properties" (.node 4 .dict (.cons "p" (.node 3 .list .nil) .nil)) .nil))) .nil)

/-- **the well-formedness hypothesis of `C04_copy_sep` cannot be dropped**: when a cell of `x` sits both at a
re-created and at a handed-over position, the copy still reaches a cell that is live in `x`. -/
theorem C04_wf_needed :
    (∃ a ∈ liveT cfdmTbl exAliased, a ∈ keptT cfdmTbl exAliased) ∧
    ¬ Sep cfdmTbl exAliased (copyT cfdmTbl exAliased 5).1 := by
  refine ⟨⟨3, by decide, by decide⟩, ?_⟩
  intro h
  exact h.2 3 (by decide) (by decide)

/-- **what a copy may share** (completeness of the sharing graph the driver prints): every
cell of the copy is new or is a handed-over cell of the source; every live cell is new. -/
theorem C04_copy_shares_only_kept (tbl : Tbl) (x : T) (n : Nat) :
    (∀ a ∈ (copyT tbl x n).1.addrs, (n ≤ a ∧ a < (copyT tbl x n).2) ∨ a ∈ keptT tbl x) ∧
    (∀ a ∈ liveT tbl (copyT tbl x n).1, n ≤ a ∧ a < (copyT tbl x n).2) :=
  ⟨(copyT_spec tbl x n).2.1, (copyT_spec tbl x n).2.2⟩

example : ((copyT cfdmTbl exCoord 11).1.addrs.filter (· < 11)) = [3, 9, 10] := by decide

/-! ## 2. Frame: mutating one of two separate objects leaves the other as it was -/

/-- **frame.**  For every table, every pair of separate objects and *every sequence* of writes
whose paths are live (induction over the op list; each write may store a structure of any
size, which takes fresh addresses): the watching object is literally unchanged — hence its
fingerprint is — and the two stay separate, so the argument can be repeated. -/
theorem C04_frame (tbl : Tbl) (ws : List Write) (x y : T) (n : Nat)
    (hsep : Sep tbl x y) (hx : Below x n) (hy : Below y n)
    (hlive : ∀ w ∈ ws, AllLive tbl w.path) :
    obsT (runWrites ws (x, y, n)).1 = obsT x ∧ (runWrites ws (x, y, n)).1 = x ∧
    Sep tbl x (runWrites ws (x, y, n)).2.1 := by
  obtain ⟨h1, h2⟩ := runWrites_frame tbl ws x y n hsep hx hy hlive
  exact ⟨by rw [h1], h1, h2⟩

/-! ## 3. The method table of cfdm is disciplined -/

theorem attr_live (dk : List String) : Step.liveIn (cfdmTbl dk) .attr := by
  intro k hk
  cases k with
  | obj f c => cases f <;> simp_all [Step.ok, Fam.isContainer, cfdmTbl, cfdmMode, Step.key, Mode.live]
  | _ => simp [Step.ok] at hk

theorem comp_live (dk : List String) (c : String) (h1 : c ≠ "custom") (h2 : c ≠ "inherited_properties") :
    Step.liveIn (cfdmTbl dk) (.comp c) := by
  intro k hk
  cases k with
  | comps f =>
    have hf : f = .container := by simpa [Step.ok] using hk
    subst hf
    simp only [cfdmTbl, cfdmMode, Step.key]
    by_cases hd : c ∈ dk
    · simp [hd, Mode.live]
    · by_cases hdc : c ∈ deepComps <;> simp [hd, hdc, h1, h2, Mode.live]
  | _ => simp [Step.ok] at hk

theorem comp_topLive (dk : List String) (c : String) : Step.topLiveIn (cfdmTbl dk) (.comp c) := by
  intro k hk
  cases k with
  | comps f =>
    have hf : f = .container := by simpa [Step.ok] using hk
    subst hf
    simp only [cfdmTbl, cfdmMode, Step.key]
    by_cases hd : c ∈ dk
    · simp [hd]
    · by_cases hc : c = "custom" ∨ c = "inherited_properties"
      · simp [hd, hc]
      · by_cases hdc : c ∈ deepComps <;> simp [hd, hc, hdc]
  | _ => simp [Step.ok] at hk

theorem item_live (dk : List String) (key : String) : Step.liveIn (cfdmTbl dk) (.item key) := by
  intro k hk
  cases k <;> simp_all [Step.ok, cfdmTbl, cfdmMode, Mode.live]

theorem cattr_constructs_live (dk : List String) : Step.liveIn (cfdmTbl dk) (.cattr "_constructs") := by
  intro k hk
  cases k with
  | obj f c =>
    have hf : f = .constructs := by simpa [Step.ok] using hk
    subst hf
    simp [cfdmTbl, cfdmMode, Step.key, Mode.live]
  | _ => simp [Step.ok] at hk

theorem cattr_meta_topLive (dk : List String) (a : String)
    (h : a ∈ ["_construct_type", "_construct_axes", "_key_base"]) : Step.topLiveIn (cfdmTbl dk) (.cattr a) := by
  intro k hk
  cases k with
  | obj f c =>
    have hf : f = .constructs := by simpa [Step.ok] using hk
    subst hf
    simp only [List.mem_cons, List.not_mem_nil, or_false] at h
    rcases h with rfl | rfl | rfl <;> simp [cfdmTbl, cfdmMode, Step.key]
  | _ => simp [Step.ok] at hk

theorem item_topLive (dk : List String) (key : String) : Step.topLiveIn (cfdmTbl dk) (.item key) := by
  intro k hk
  cases k <;> simp_all [Step.ok, cfdmTbl, cfdmMode]

theorem attr_topLive (dk : List String) : Step.topLiveIn (cfdmTbl dk) .attr := by
  intro k hk
  have := attr_live dk k hk
  intro h; rw [h] at this; simp [Mode.live] at this

/-- prefixing a live path with the (live) path to a metadata construct keeps it live -/
theorem allLive_prefix (dk : List String) (t k : String) :
    ∀ (p : List Step), AllLive (cfdmTbl dk) p →
      AllLive (cfdmTbl dk) (comps [.comp "constructs", .cattr "_constructs", .item t, .item k] ++ p)
  | [] => fun _ => by
    simp only [comps, List.append_nil, AllLive]
    exact ⟨attr_live dk, comp_live dk _ (by decide) (by decide), cattr_constructs_live dk, item_live dk t, item_topLive dk k⟩
  | s :: p => fun h => by
    simp only [comps, List.cons_append, List.nil_append, AllLive]
    exact ⟨attr_live dk, comp_live dk _ (by decide) (by decide), cattr_constructs_live dk, item_live dk t, item_live dk k, h⟩

/-- **The method table writes only through live paths, only through the working copy of an
in-place-switchable method, and never into a numpy buffer in place** — for every parameter
choice (property names, construct keys, stored values of any shape) and whichever components
`copy(data=False)` leaves out.  This is the side condition under which shared numpy buffers
and the other handed-over cells count as immutable. -/
theorem C04_table_disciplined (dk : List String) (w : Write) (h : TableWrite w) :
    AllLive (cfdmTbl dk) w.path ∧ w.via = .placeholder ∧ ∀ v, w.upd ≠ .poke v := by
  induction h with
  | setEntry c k v hc =>
    refine ⟨⟨attr_live dk, comp_topLive dk c⟩, rfl, by intro v h; cases h⟩
  | delEntry c k hc =>
    refine ⟨⟨attr_live dk, comp_topLive dk c⟩, rfl, by intro v h; cases h⟩
  | setComponent c v => exact ⟨attr_topLive dk, rfl, by intro v h; cases h⟩
  | delComponent c => exact ⟨attr_topLive dk, rfl, by intro v h; cases h⟩
  | ncAttr w p v =>
    exact ⟨⟨attr_live dk, comp_live dk _ (by decide) (by decide), item_topLive dk w⟩, rfl, by intro v h; cases h⟩
  | dataArray v =>
    exact ⟨⟨attr_live dk, comp_live dk _ (by decide) (by decide), attr_topLive dk⟩, rfl, by intro v h; cases h⟩
  | boundsArray v =>
    exact ⟨⟨attr_live dk, comp_live dk _ (by decide) (by decide), attr_live dk, comp_live dk _ (by decide) (by decide),
      attr_topLive dk⟩, rfl, by intro v h; cases h⟩
  | ringArray v =>
    exact ⟨⟨attr_live dk, comp_live dk _ (by decide) (by decide), attr_live dk, comp_live dk _ (by decide) (by decide),
      attr_topLive dk⟩, rfl, by intro v h; cases h⟩
  | construct t k v =>
    exact ⟨⟨attr_live dk, comp_live dk _ (by decide) (by decide), cattr_constructs_live dk, item_topLive dk t⟩, rfl,
      by intro v h; cases h⟩
  | delConstruct t k =>
    exact ⟨⟨attr_live dk, comp_live dk _ (by decide) (by decide), cattr_constructs_live dk, item_topLive dk t⟩, rfl,
      by intro v h; cases h⟩
  | constructMeta a k v ha =>
    exact ⟨⟨attr_live dk, comp_live dk _ (by decide) (by decide), cattr_meta_topLive dk a ha⟩, rfl, by intro v h; cases h⟩
  | delConstructMeta a k ha =>
    exact ⟨⟨attr_live dk, comp_live dk _ (by decide) (by decide), cattr_meta_topLive dk a ha⟩, rfl, by intro v h; cases h⟩
  | custom k v => exact ⟨⟨attr_live dk, comp_topLive dk _⟩, rfl, by intro v h; cases h⟩
  | delCustom k => exact ⟨⟨attr_live dk, comp_topLive dk _⟩, rfl, by intro v h; cases h⟩
  | delNcAttr w p =>
    exact ⟨⟨attr_live dk, comp_live dk _ (by decide) (by decide), item_topLive dk w⟩, rfl, by intro v h; cases h⟩
  | boundsComponent c v =>
    exact ⟨⟨attr_live dk, comp_live dk _ (by decide) (by decide), attr_topLive dk⟩, rfl, by intro v h; cases h⟩
  | ringComponent c v =>
    exact ⟨⟨attr_live dk, comp_live dk _ (by decide) (by decide), attr_topLive dk⟩, rfl, by intro v h; cases h⟩
  | inConstruct t k w hw ih =>
    exact ⟨allLive_prefix dk t k w.path ih.1, ih.2.1, ih.2.2⟩

example : TableWrite ⟨comps [.comp "properties"], .setKey "long_name" (.imm 3), .placeholder⟩ :=
  .setEntry "properties" "long_name" (.imm 3) (by decide)

/-! ## 4. Copies of cfdm objects are independent under the whole method table -/

/-- **copy, then any history of mutators on either side.**  `y = x.copy()`; then any sequence
of writes of the method table (any methods, any arguments, any length) applied to `y` leaves
`x` — and its fingerprint — unchanged, and any sequence applied to `x` leaves `y` unchanged. -/
theorem C04_copy_independent (dk : List String) (x : T) (n : Nat) (ws : List Write)
    (hb : Below x n) (hwf : ∀ a ∈ liveT (cfdmTbl dk) x, a ∉ keptT (cfdmTbl dk) x)
    (hws : ∀ w ∈ ws, TableWrite w) :
    let y := (copyT (cfdmTbl dk) x n).1
    let n' := (copyT (cfdmTbl dk) x n).2
    obsT (runWrites ws (x, y, n')).1 = obsT x ∧ obsT (runWrites ws (y, x, n')).1 = obsT y := by
  intro y n'
  have hsep := C04_copy_sep (cfdmTbl dk) x n hb hwf
  obtain ⟨c1, c2, _⟩ := copyT_spec (cfdmTbl dk) x n
  have hx' : Below x n' := fun a ha => by have := hb a ha; show a < (copyT (cfdmTbl dk) x n).2; omega
  have hy' : Below y n' := by
    intro a ha
    rcases c2 a ha with h | h
    · exact h.2
    · have := hb a (keptT_sub _ x a h); show a < (copyT (cfdmTbl dk) x n).2; omega
  have hl : ∀ w ∈ ws, AllLive (cfdmTbl dk) w.path := fun w hw => (C04_table_disciplined dk w (hws w hw)).1
  exact ⟨(C04_frame _ ws x y n' hsep hx' hy' hl).1, (C04_frame _ ws y x n' hsep.symm hy' hx' hl).1⟩

/-- the value stored by `c.set_property('flag_values', …)`, `c.data[...] = …` on the copy of
`exCoord`: a concrete non-trivial history -/
def exHistory : List Write :=
  mSetEntry "properties" "flag_values" (.leaf 0 false 99) ++
  mReplaceDataArray (.node 0 (.obj .nparray "NumpyArray") (.cons "_components"
    (.node 0 (.comps .nparray) (.cons "array" (.leaf 0 false 43) .nil)) .nil)) ++
  mSetCustom "cache" (.imm 5)

example : ∀ w ∈ exHistory, TableWrite w := by
  intro w hw
  simp only [exHistory, mSetEntry, mReplaceDataArray, mSetCustom, List.cons_append, List.nil_append,
    List.mem_cons, List.not_mem_nil, or_false] at hw
  rcases hw with rfl | rfl | rfl
  · exact .setEntry _ _ _ (by decide)
  · exact .dataArray _
  · exact .custom _ _

/-- the history really changes the copy (the theorem is not about no-ops) -/
example : (obsT (runWrites exHistory (exCoord, (copyT cfdmTbl exCoord 11).1, (copyT cfdmTbl exCoord 11).2)).2.1).beq
    (obsT (copyT cfdmTbl exCoord 11).1) = false := by decide

/-! ## 5. `inplace=False` is pure and returns the in-place result on a copy -/

/-- **inplace_off.**  For every method whose body writes through the working copy along live
paths (every entry of the table does): called with the switch off it leaves its receiver
literally unchanged, and what it returns is what the in-place form produces on a copy. -/
theorem C04_inplace_off (tbl : Tbl) (m : List Write) (x : T) (n : Nat)
    (hb : Below x n) (hwf : ∀ a ∈ liveT tbl x, a ∉ keptT tbl x)
    (hvia : ∀ w ∈ m, w.via = .placeholder) (hlive : ∀ w ∈ m, AllLive tbl w.path) :
    (inplaceOff tbl m x n).1 = x ∧ obsT (inplaceOff tbl m x n).1 = obsT x ∧
    (inplaceOff tbl m x n).2.1 = (inplaceOn m (copyT tbl x n).1 (copyT tbl x n).2).1 := by
  have hsep := C04_copy_sep tbl x n hb hwf
  obtain ⟨c1, c2, _⟩ := copyT_spec tbl x n
  have hx' : Below x (copyT tbl x n).2 := fun a ha => by have := hb a ha; omega
  have hy' : Below (copyT tbl x n).1 (copyT tbl x n).2 := by
    intro a ha
    rcases c2 a ha with h | h
    · exact h.2
    · have := hb a (keptT_sub _ x a h); omega
  have hrun : inplaceOff tbl m x n = runWrites m (x, (copyT tbl x n).1, (copyT tbl x n).2) := by
    simp only [inplaceOff]; exact runVia_eq_runWrites m _ hvia
  obtain ⟨f1, f2, _⟩ := C04_frame tbl m x _ _ hsep hx' hy' hlive
  rw [hrun]
  refine ⟨f2, f1, ?_⟩
  have := runWrites_snd m x (copyT tbl x n).1 (copyT tbl x n).2
  simp only [inplaceOn]
  exact congrArg Prod.fst this

/-- … in particular for every method assembled from the table, whatever `copy` leaves out -/
theorem C04_inplace_off_cfdm (dk : List String) (m : List Write) (x : T) (n : Nat)
    (hb : Below x n) (hwf : ∀ a ∈ liveT (cfdmTbl dk) x, a ∉ keptT (cfdmTbl dk) x)
    (hm : ∀ w ∈ m, TableWrite w) :
    obsT (inplaceOff (cfdmTbl dk) m x n).1 = obsT x ∧
    (inplaceOff (cfdmTbl dk) m x n).2.1 =
      (inplaceOn m (copyT (cfdmTbl dk) x n).1 (copyT (cfdmTbl dk) x n).2).1 := by
  have h := C04_inplace_off (cfdmTbl dk) m x n hb hwf
    (fun w hw => (C04_table_disciplined dk w (hm w hw)).2.1)
    (fun w hw => (C04_table_disciplined dk w (hm w hw)).1)
  exact ⟨h.2.1, h.2.2⟩

example : ∀ w ∈ mReplaceDataArray (.leaf 0 false 1), TableWrite w := by
  intro w hw
  simp only [mReplaceDataArray, List.mem_cons, List.not_mem_nil, or_false] at hw
  subst hw; exact .dataArray _

/-! ## 6. Why the hypotheses are there: the defective variants -/

/-- a core-style `Data` whose copy shares the numpy buffer -/
def exData : T :=
  .node 0 (.obj .container "Data") (.cons "_components"
    (.node 1 (.comps .container)
      (.cons "array" (.node 2 (.obj .nparray "NumpyArray") (.cons "_components"
        (.node 3 (.comps .nparray) (.cons "array" (.leaf 4 false 42) .nil)) .nil)) .nil)) .nil)

/-- **Writing into the stored buffer in place breaks independence.**  A `__setitem__` that
assigned into the stored numpy array instead of replacing it would show in the source of a
copy: the side condition of `C04_table_disciplined` is necessary. -/
theorem C04_poke_counterexample :
    (obsT (runWrites (mPokeArray 7) (exData, (copyT cfdmTbl exData 5).1, (copyT cfdmTbl exData 5).2)).1).beq
      (obsT exData) = false := by decide

/-- a field with one metadata construct (both with data) -/
def exField : T :=
  .node 0 (.obj .container "Field") (.cons "_components"
    (.node 1 (.comps .container)
      (.cons "data" exDataAt20
      (.cons "constructs" (.node 10 (.obj .constructs "Constructs") (.cons "_constructs"
        (.node 11 .dict (.cons "auxiliary_coordinate" (.node 12 .dict (.cons "auxiliarycoordinate0"
          (.node 13 (.obj .container "AuxiliaryCoordinate") (.cons "_components"
            (.node 14 (.comps .container) (.cons "data" exDataAt30 .nil)) .nil)) .nil)) .nil)) .nil)) .nil))) .nil)
where
  exDataAt20 : T := .node 20 (.obj .container "Data") (.cons "_components"
    (.node 21 (.comps .container) (.cons "array" (.leaf 22 false 1) .nil)) .nil)
  exDataAt30 : T := .node 30 (.obj .container "Data") (.cons "_components"
    (.node 31 (.comps .container) (.cons "array" (.leaf 32 false 2) .nil)) .nil)

/-- **`Field.apply_masking(inplace=False)` before ebd1f5d** masked the metadata constructs
through `self`: the receiver changes (and the returned copy's constructs do not). -/
theorem C04_old_apply_masking_counterexample :
    (obsT (inplaceOff cfdmTbl (mApplyMaskingOld "auxiliary_coordinate" "auxiliarycoordinate0"
      (.leaf 0 false 9) (.leaf 0 false 8)) exField 40).1).beq (obsT exField) = false := by decide

/-- … whereas the repaired method (all writes through the working copy) is covered by
`C04_inplace_off_cfdm` -/
example : ∀ w ∈ mReplaceDataArray (.leaf 0 false 9) ++
    mInConstruct "auxiliary_coordinate" "auxiliarycoordinate0" (mReplaceDataArray (.leaf 0 false 8)), TableWrite w := by
  intro w hw
  simp only [mReplaceDataArray, mInConstruct, List.map, List.cons_append, List.nil_append,
    List.mem_cons, List.not_mem_nil, or_false] at hw
  rcases hw with rfl | rfl
  · exact .dataArray _
  · exact .inConstruct _ _ _ (.dataArray _)

/-- a coordinate with bounds, both with data -/
def exBounded : T :=
  .node 0 (.obj .container "DimensionCoordinate") (.cons "_components"
    (.node 1 (.comps .container)
      (.cons "data" (.leaf 2 false 1)
      (.cons "bounds" (.node 3 (.obj .container "Bounds") (.cons "_components"
        (.node 4 (.comps .container) (.cons "data" (.leaf 5 false 2) .nil)) .nil)) .nil))) .nil)

/-- **`set_data(…, inplace=False)` as it is coded** builds its result from `self.copy(data=False)`,
which also strips the data of the bounds (of every metadata construct, for a field): the result
is *not* what the in-place form produces on a copy.  Repaired by fixes/C04-set-data-inplace-false.patch
(`self.copy()`), after which the method is an instance of `C04_inplace_off_cfdm`. -/
theorem C04_old_set_data_counterexample :
    (obsT (setDataOffOld (.leaf 0 false 7) exBounded 6).2.1).beq
      (obsT (inplaceOn (mSetComponent "data" (.leaf 0 false 7)) (copyT cfdmTbl exBounded 6).1 (copyT cfdmTbl exBounded 6).2).1)
      = false := by decide

/-- … while the receiver is untouched even by the old code (the defect is in the result only) -/
theorem C04_old_set_data_receiver_unchanged :
    (obsT (setDataOffOld (.leaf 0 false 7) exBounded 6).1).beq (obsT exBounded) = true := by decide

/-! ## 7. The discipline re-derived from the code (regenerated on every run)

`Cfdm/Generated/HeapSites.lean` lists every statement of cfdm that mutates, in place, a container
fetched from the storage of `self`, attributed to the class families whose operations reach it
(harness/heapsites_C04.py).  The theorems below are re-checked by `lake build` whenever that
table changes: a new in-place mutation of a value that copies hand over (a nested value under
`custom`, the shared `_components` of a `NumpyArray`, the `attributes` of a file array, …) makes
`C04_code_sites_ok` fail. -/

/-- **every in-place mutation site of the code passes the liveness check** (finite table, `decide`) -/
theorem C04_code_sites_ok : ∀ s ∈ codeSites, siteOk s = true := by decide

/-- the regenerated table is not empty, and every entry of it was typed -/
example : codeSites ≠ [] ∧ codeSites.all Option.isSome = true := by decide

/-- the writes the code can perform on a receiver: a site (any instantiation of its dynamic keys, any
stored value — also a write into a buffer), possibly inside a nested cfdm object that is reached
through entries that copies re-create (data, bounds, interior ring, a metadata construct, …) -/
inductive CodeWrite : Write → Prop
  | site (s : Site) (hs : some s ∈ codeSites) (ρ : Nat → String) (u : Upd) :
      CodeWrite ⟨s.path ρ, u, .placeholder⟩
  | nested (pre : List Step) (hpre : ∀ st ∈ pre, st.liveB = true) (w : Write) (h : CodeWrite w) :
      CodeWrite { w with path := pre ++ w.path }

/-- **code_sites_disciplined.**  Every write the code can perform goes through a live path of its
receiver, whatever `copy(data=False)` leaves out. -/
theorem C04_code_sites_disciplined (dk : List String) (w : Write) (h : CodeWrite w) :
    AllLive (cfdmTbl dk) w.path ∧ w.via = .placeholder := by
  induction h with
  | site s hs ρ u =>
    have hok : siteOk (some s) = true := C04_code_sites_ok (some s) hs
    exact ⟨Site.ok_sound s hok dk ρ, rfl⟩
  | nested pre hpre w _ ih =>
    exact ⟨allLive_append _ pre w.path (fun st hst => Step.liveB_sound dk st (hpre st hst)) ih.1, ih.2⟩

/-- `nc_set_global_attribute` on the bounds of a coordinate: a site of the generated table, nested -/
example : CodeWrite ⟨[.fattr .container, .fcomp .container "bounds"] ++
    [.fattr .container, .fcomp .container "netcdf", .item "global_attributes"], .setKey "history" (.imm 1), .placeholder⟩ :=
  .nested [.fattr .container, .fcomp .container "bounds"] (by decide)
    ⟨[.fattr .container, .fcomp .container "netcdf", .item "global_attributes"], .setKey "history" (.imm 1), .placeholder⟩
    (.site ⟨.container, .comp (some "netcdf"), [some "global_attributes"], false, none⟩ (by decide) (fun _ => "") _)

/-- **copy, then any history of the code's own writes on either side** — the statement of
`C04_copy_independent` with the hand-written method table replaced by the table extracted from the code. -/
theorem C04_copy_independent_code (dk : List String) (x : T) (n : Nat) (ws : List Write)
    (hb : Below x n) (hwf : ∀ a ∈ liveT (cfdmTbl dk) x, a ∉ keptT (cfdmTbl dk) x)
    (hws : ∀ w ∈ ws, CodeWrite w) :
    let y := (copyT (cfdmTbl dk) x n).1
    let n' := (copyT (cfdmTbl dk) x n).2
    obsT (runWrites ws (x, y, n')).1 = obsT x ∧ obsT (runWrites ws (y, x, n')).1 = obsT y := by
  intro y n'
  have hsep := C04_copy_sep (cfdmTbl dk) x n hb hwf
  obtain ⟨c1, c2, _⟩ := copyT_spec (cfdmTbl dk) x n
  have hx' : Below x n' := fun a ha => by have := hb a ha; show a < (copyT (cfdmTbl dk) x n).2; omega
  have hy' : Below y n' := by
    intro a ha
    rcases c2 a ha with h | h
    · exact h.2
    · have := hb a (keptT_sub _ x a h); show a < (copyT (cfdmTbl dk) x n).2; omega
  have hl : ∀ w ∈ ws, AllLive (cfdmTbl dk) w.path := fun w hw => (C04_code_sites_disciplined dk w (hws w hw)).1
  exact ⟨(C04_frame _ ws x y n' hsep hx' hy' hl).1, (C04_frame _ ws y x n' hsep.symm hy' hx' hl).1⟩

/-- the check is not vacuous: a statement that mutated a value stored under `custom` in place
(`self._custom["k"].append(…)`), or wrote into the `_components` of a `NumpyArray`, or into the
attribute dictionary that file arrays share, would be rejected … -/
theorem C04_site_check_rejects :
    Site.ok ⟨.container, .comp (some "custom"), [some "k"], false, none⟩ = false ∧
    Site.ok ⟨.nparray, .comps, [], false, none⟩ = false ∧
    Site.ok ⟨.filearray, .comp (some "attributes"), [], false, none⟩ = false ∧
    Site.ok ⟨.constructs, .attr "_filters_applied", [], false, none⟩ = false := by decide

/-- … and rightly so: the first of them shows in the source of a copy (`exCoord` holds a list under `custom`) -/
theorem C04_site_check_needed :
    (obsT (runWrites [⟨(⟨.container, .comp (some "custom"), [some "k"], false, none⟩ : Site).path (fun _ => ""),
        .setKey "0" (.imm 9), .placeholder⟩]
      (exCoord, (copyT cfdmTbl exCoord 11).1, (copyT cfdmTbl exCoord 11).2)).1).beq (obsT exCoord) = false := by decide

/-! ## 8. A non-in-place call that raises half-way, and the independence of what it returns -/

/-- **inplace_off_raising.**  A method with the switch off that stops after any number `k` of its
writes (it raised) has not touched its receiver. -/
theorem C04_inplace_off_raising (tbl : Tbl) (m : List Write) (x : T) (n k : Nat)
    (hb : Below x n) (hwf : ∀ a ∈ liveT tbl x, a ∉ keptT tbl x)
    (hvia : ∀ w ∈ m, w.via = .placeholder) (hlive : ∀ w ∈ m, AllLive tbl w.path) :
    (inplaceOff tbl (m.take k) x n).1 = x :=
  (C04_inplace_off tbl (m.take k) x n hb hwf
    (fun w hw => hvia w (List.mem_of_mem_take hw)) (fun w hw => hlive w (List.mem_of_mem_take hw))).1

example : (mSetComponent "data_axes" (.imm 3) ++ mSetComponent "data" (.leaf 0 false 7)).take 1 ≠ [] := by decide

/-- a `set_data(…, axes=…, inplace=False)` that recorded the axes through `self` before copying would
leave them on the receiver even when it then raises (only the first write performed) -/
theorem C04_axes_via_self_counterexample :
    (obsT (inplaceOff cfdmTbl ((mSetDataAxesViaSelf (.imm 3) (.leaf 0 false 7)).take 1) exField 40).1).beq
      (obsT exField) = false := by decide

/-- **inplace_off_result_independent.**  What a non-in-place call returns is separate from the
receiver: any later history of disciplined writes on the result leaves the receiver unchanged, and
any later history on the receiver leaves the result unchanged. -/
theorem C04_inplace_off_result_independent (tbl : Tbl) (m ws : List Write) (x : T) (n : Nat)
    (hb : Below x n) (hwf : ∀ a ∈ liveT tbl x, a ∉ keptT tbl x)
    (hvia : ∀ w ∈ m, w.via = .placeholder) (hlive : ∀ w ∈ m, AllLive tbl w.path)
    (hws : ∀ w ∈ ws, AllLive tbl w.path) :
    let r := (inplaceOff tbl m x n).2.1
    let n' := (inplaceOff tbl m x n).2.2
    Sep tbl x r ∧ (runWrites ws (x, r, n')).1 = x ∧ (runWrites ws (r, x, n')).1 = r := by
  intro r n'
  have hsep := C04_copy_sep tbl x n hb hwf
  obtain ⟨c1, c2, _⟩ := copyT_spec tbl x n
  have hx' : Below x (copyT tbl x n).2 := fun a ha => by have := hb a ha; omega
  have hy' : Below (copyT tbl x n).1 (copyT tbl x n).2 := by
    intro a ha
    rcases c2 a ha with h | h
    · exact h.2
    · have := hb a (keptT_sub _ x a h); omega
  have hrun : inplaceOff tbl m x n = runWrites m (x, (copyT tbl x n).1, (copyT tbl x n).2) := by
    simp only [inplaceOff]; exact runVia_eq_runWrites m _ hvia
  obtain ⟨f1, f2, f3, f4⟩ := runWrites_frame_below tbl m x _ _ hsep hx' hy' hlive
  have hr : r = (runWrites m (x, (copyT tbl x n).1, (copyT tbl x n).2)).2.1 := by
    show (inplaceOff tbl m x n).2.1 = _; rw [hrun]
  have hn : n' = (runWrites m (x, (copyT tbl x n).1, (copyT tbl x n).2)).2.2 := by
    show (inplaceOff tbl m x n).2.2 = _; rw [hrun]
  rw [hr, hn]
  exact ⟨f2, (runWrites_frame tbl ws x _ _ f2 f3 f4 hws).1, (runWrites_frame tbl ws _ x _ f2.symm f4 f3 hws).1⟩

/-- **subspace.**  `x[indices]` of a construct (copy, then the subspaced data replace the data of the
copy, of its bounds and of its interior ring) leaves `x` unchanged and is separate from it — an
instance of the two theorems above, because every write of `mGetitem` is a table write. -/
theorem C04_getitem_independent (dk : List String) (d : T) (b r : Option T) (x : T) (n : Nat) (ws : List Write)
    (hb : Below x n) (hwf : ∀ a ∈ liveT (cfdmTbl dk) x, a ∉ keptT (cfdmTbl dk) x)
    (hws : ∀ w ∈ ws, TableWrite w) :
    (getitemT (cfdmTbl dk) d b r x n).1 = x ∧
    Sep (cfdmTbl dk) x (getitemT (cfdmTbl dk) d b r x n).2.1 ∧
    (runWrites ws (x, (getitemT (cfdmTbl dk) d b r x n).2.1, (getitemT (cfdmTbl dk) d b r x n).2.2)).1 = x := by
  have hm : ∀ w ∈ mGetitem d b r, TableWrite w := by
    intro w hw
    simp only [mGetitem, mSetComponent, List.mem_append, List.mem_cons, List.not_mem_nil, or_false] at hw
    rcases hw with (rfl | hw) | hw
    · exact .setComponent _ _
    · cases b with
      | none => simp at hw
      | some b' => simp only [List.mem_cons, List.not_mem_nil, or_false] at hw; subst hw; exact .boundsComponent _ _
    · cases r with
      | none => simp at hw
      | some r' => simp only [List.mem_cons, List.not_mem_nil, or_false] at hw; subst hw; exact .ringComponent _ _
  have hvia := fun w hw => (C04_table_disciplined dk w (hm w hw)).2.1
  have hlive := fun w hw => (C04_table_disciplined dk w (hm w hw)).1
  have h1 := C04_inplace_off (cfdmTbl dk) (mGetitem d b r) x n hb hwf hvia hlive
  have h2 := C04_inplace_off_result_independent (cfdmTbl dk) (mGetitem d b r) ws x n hb hwf hvia hlive
    (fun w hw => (C04_table_disciplined dk w (hws w hw)).1)
  exact ⟨h1.1, h2.1, h2.2.1⟩

/-- the subspace of `exBounded` really differs from it (new data in the construct and in its bounds) -/
example : (obsT (getitemT cfdmTbl (.leaf 0 false 8) (some (.leaf 0 false 9)) none exBounded 6).2.1).beq (obsT exBounded) = false := by
  decide

/-! ## 9. Pickling -/

/-- **pickle.**  `pickle.loads(pickle.dumps(x))` (and `copy.deepcopy` of an object without a `copy`
method of its own) is a completely new structure: it shares no cell at all with `x` — so the two are
separate under every table — and has the same fingerprint. -/
theorem C04_pickle_independent (tbl : Tbl) (x : T) (n : Nat) (hb : Below x n) :
    (∀ a ∈ (deepT x n).1.addrs, a ∉ x.addrs) ∧ Sep tbl x (deepT x n).1 ∧ obsT (deepT x n).1 = obsT x := by
  obtain ⟨_, h⟩ := deepT_spec x n
  refine ⟨?_, ⟨?_, ?_⟩, obsT_deepT x n⟩
  · intro a ha hx; have := h a ha; have := hb a hx; omega
  · intro a ha hl; have := h a (liveT_sub tbl _ a hl); have := hb a ha; omega
  · intro a ha hy; have := h a hy; have := hb a (liveT_sub tbl x a ha); omega

example : (deepT exCoord 11).1.addrs = [11, 12, 13, 14, 15, 16, 17, 18, 19, 20, 21] := by decide

/-! ## 10. Views: the intended sharing, stated -/

/-- **view_spec.**  A view (`Constructs._view()`, behind `Field.domain`) is one new cell; it reaches
every cell below the viewed collection, and nothing else. -/
theorem C04_view_spec (a : Nat) (k : Kind) (ks : Kids) (n : Nat) :
    (∀ b ∈ ks.addrs, b ∈ (viewT (.node a k ks) n).1.addrs) ∧
    (∀ b ∈ (viewT (.node a k ks) n).1.addrs, b = n ∨ b ∈ (T.node a k ks).addrs) := by
  constructor
  · intro b hb
    simp only [viewT, T.addrs, List.mem_cons]
    exact Or.inr (set_getD_addrs "_viewed" _ ks b hb)
  · intro b hb
    simp only [viewT, T.addrs, List.mem_cons] at hb ⊢
    rcases hb with rfl | hb
    · exact Or.inl rfl
    · rcases set_addrs "_viewed" _ ks b hb with h | h
      · exact Or.inr (Or.inr h)
      · cases hg : ks.get? "_viewed" with
        | none => rw [hg] at h; exact Or.inr (by simpa [T.addrs] using h)
        | some v => rw [hg] at h; exact Or.inr (Or.inr (get_addrs "_viewed" v ks hg b h))

/-- **view_in_sync.**  Whatever is written into a cell below the viewed collection (a construct is
set or removed, a construct is modified, data axes change) shows in the view exactly as in the
collection: the view of the written collection is the written view. -/
theorem C04_view_in_sync (a : Nat) (u : Upd) (b : Nat) (k : Kind) (ks : Kids) (n : Nat)
    (hb : b ≠ a) (hn : n ≠ a) :
    applyT a u (viewT (.node b k ks) n).1 = (viewT (applyT a u (.node b k ks)) n).1 := by
  simp only [viewT, applyT, hb, hn, ite_false, applyK_set, applyK_get]
  congr 2
  cases hg : ks.get? "_viewed" with
  | none => simp [applyT, hb]
  | some v => simp

/-- a collection with one construct, and its view -/
def exConstructs : T :=
  .node 0 (.obj .constructs "Constructs")
    (.cons "_construct_type" (.node 1 .dict (.cons "auxiliarycoordinate0" (.imm 1) .nil))
    (.cons "_constructs" (.node 2 .dict (.cons "auxiliary_coordinate" (.node 3 .dict (.cons "auxiliarycoordinate0"
      (.node 4 (.obj .container "AuxiliaryCoordinate") (.cons "_components"
        (.node 5 (.comps .container) (.cons "properties" (.node 6 .dict .nil) .nil)) .nil)) .nil)) .nil)) .nil))

/-- removing a construct through the collection is seen through the view (the sharing is real) -/
example : (obsT (applyT 3 (.delKey "auxiliarycoordinate0") (viewT exConstructs 7).1)).beq (obsT (viewT exConstructs 7).1) = false := by
  decide

theorem shallow_cattr_constructs_live : Step.liveIn shallowCopyTbl (.cattr "_constructs") := by
  intro k hk
  cases k with
  | obj f c =>
    have hf : f = .constructs := by simpa [Step.ok] using hk
    subst hf
    simp [shallowCopyTbl, shallowCopyMode, Step.key, Mode.live]
  | _ => simp [Step.ok] at hk

theorem shallow_item_topLive (key : String) : Step.topLiveIn shallowCopyTbl (.item key) := by
  intro k hk
  cases k <;> simp_all [Step.ok, shallowCopyTbl, shallowCopyMode]

theorem shallow_cattr_meta_topLive (a : String)
    (h : a ∈ ["_construct_type", "_construct_axes", "_key_base"]) : Step.topLiveIn shallowCopyTbl (.cattr a) := by
  intro k hk
  cases k with
  | obj f c =>
    have hf : f = .constructs := by simpa [Step.ok] using hk
    subst hf
    simp only [List.mem_cons, List.not_mem_nil, or_false] at h
    rcases h with rfl | rfl | rfl <;> simp [shallowCopyTbl, shallowCopyMode, Step.key]
  | _ => simp [Step.ok] at hk

/-- **shallow_copy.**  `c.shallow_copy()` shares the construct objects and nothing of the
bookkeeping: any history of membership writes (constructs set or removed, data axes set or
removed) on either of the two leaves the other unchanged. -/
theorem C04_shallow_copy_membership_independent (x : T) (n : Nat) (ws : List Write)
    (hb : Below x n) (hwf : ∀ a ∈ liveT shallowCopyTbl x, a ∉ keptT shallowCopyTbl x)
    (hws : ∀ w ∈ ws, MembershipWrite w) :
    let y := (copyT shallowCopyTbl x n).1
    let n' := (copyT shallowCopyTbl x n).2
    (runWrites ws (x, y, n')).1 = x ∧ (runWrites ws (y, x, n')).1 = y := by
  intro y n'
  have hsep := C04_copy_sep shallowCopyTbl x n hb hwf
  obtain ⟨c1, c2, _⟩ := copyT_spec shallowCopyTbl x n
  have hx' : Below x n' := fun a ha => by have := hb a ha; show a < (copyT shallowCopyTbl x n).2; omega
  have hy' : Below y n' := by
    intro a ha
    rcases c2 a ha with h | h
    · exact h.2
    · have := hb a (keptT_sub _ x a h); show a < (copyT shallowCopyTbl x n).2; omega
  have hl : ∀ w ∈ ws, AllLive shallowCopyTbl w.path := by
    intro w hw
    cases hws w hw with
    | construct t k v => exact ⟨shallow_cattr_constructs_live, shallow_item_topLive t⟩
    | delConstruct t k => exact ⟨shallow_cattr_constructs_live, shallow_item_topLive t⟩
    | setMeta a k v h => exact shallow_cattr_meta_topLive a h
    | delMeta a k h => exact shallow_cattr_meta_topLive a h
  exact ⟨(C04_frame _ ws x y n' hsep hx' hy' hl).2.1, (C04_frame _ ws y x n' hsep.symm hy' hx' hl).2.1⟩

example : Below exConstructs 7 ∧ ∀ a ∈ liveT shallowCopyTbl exConstructs, a ∉ keptT shallowCopyTbl exConstructs := by
  constructor
  · intro a ha; simp [exConstructs, T.addrs, Kids.addrs] at ha; omega
  · decide

/-- … whereas a write *inside* a shared construct shows in the other one (intended: the constructs are shared) -/
theorem C04_shallow_copy_shares_constructs :
    (obsT (applyT 5 (.setKey "netcdf" (.imm 1)) (copyT shallowCopyTbl exConstructs 7).1)).beq
      (obsT (copyT shallowCopyTbl exConstructs 7).1) = false ∧
    ((copyT shallowCopyTbl exConstructs 7).1.addrs.filter (· < 7)) = [4, 5, 6] := by decide

end Cfdm.Props.C04
