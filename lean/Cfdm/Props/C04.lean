import Cfdm.Lemmas.Heap
/-
C04 — copies are independent; operations that are not in-place are pure.
Property theorems only (model: Cfdm/Model/Heap.lean, lemmas: Cfdm/Lemmas/Heap.lean).

Reading guide.  `T` is a cell tree (an object graph with addresses), `copyT tbl x n` is
`x.copy()` as the code performs it (new cells take addresses from the counter `n`),
`liveT tbl x` are the cells of `x` that a copy re-creates — the only cells the method
table writes to —, `keptT tbl x` those that a copy hands over, `Sep` says that the live
cells of each of two objects are unreachable from the other, `obsT` is the fingerprint
(the reachable structure and contents with the addresses forgotten), `runWrites ws (x, y, n)`
performs the writes `ws` of a mutator sequence with receiver `y` while `x` is watching.
-/
namespace Cfdm.Props.C04
open Cfdm.Heap

/-! ## 1. A copy is separate from its source — for every class shape -/

/-- **copy_sep.**  For *every* copy table and *every* component tree `x` (any depth, any
classes, any aliasing inside `x`), provided no cell of `x` sits both at a re-created and at a
handed-over position: the copy's live cells are all new, and the only old cells it reaches
are the handed-over ones, none of which is live in `x`. -/
theorem C04_copy_sep (tbl : Tbl) (x : T) (n : Nat)
    (hb : Below x n) (hwf : ∀ a ∈ liveT tbl x, a ∉ keptT tbl x) :
    Sep tbl x (copyT tbl x n).1 := by
  obtain ⟨_, h2, h3⟩ := copyT_spec tbl x n
  constructor
  · intro a ha hl
    have := h3 a hl; have := hb a ha; omega
  · intro a ha hy
    rcases h2 a hy with h | h
    · have := hb a (liveT_sub tbl x a ha); omega
    · exact hwf a ha h

/-- a coordinate-like object: properties (deep), data whose array is a core `NumpyArray`
(shared `_components`), a `custom` dict holding a mutable value -/
def exCoord : T :=
  .node 0 (.obj .container "DimensionCoordinate") (.cons "_components"
    (.node 1 (.comps .container)
      (.cons "custom" (.node 2 .dict (.cons "k" (.node 3 .list .nil) .nil))
      (.cons "properties" (.node 4 .dict (.cons "flag_values" (.leaf 5 false 77) .nil))
      (.cons "data" (.node 6 (.obj .container "Data") (.cons "_components"
        (.node 7 (.comps .container)
          (.cons "array" (.node 8 (.obj .nparray "NumpyArray") (.cons "_components"
            (.node 9 (.comps .nparray) (.cons "array" (.leaf 10 false 42) .nil)) .nil)) .nil)) .nil))
      .nil)))) .nil)

example : Below exCoord 11 ∧ ∀ a ∈ liveT (cfdmTbl) exCoord, a ∉ keptT (cfdmTbl) exCoord := by
  constructor
  · intro a ha; simp [exCoord, T.addrs, Kids.addrs] at ha; omega
  · decide

/-- **what a copy may share** (completeness of the sharing graph the driver prints): every
cell of the copy is new or is a handed-over cell of the source; every live cell is new. -/
theorem C04_copy_shares_only_kept (tbl : Tbl) (x : T) (n : Nat) :
    (∀ a ∈ (copyT tbl x n).1.addrs, (n ≤ a ∧ a < (copyT tbl x n).2) ∨ a ∈ keptT tbl x) ∧
    (∀ a ∈ liveT tbl (copyT tbl x n).1, n ≤ a ∧ a < (copyT tbl x n).2) :=
  ⟨(copyT_spec tbl x n).2.1, (copyT_spec tbl x n).2.2⟩

example : ((copyT cfdmTbl exCoord 11).1.addrs.filter (· < 11)) = [3, 9, 10] := by decide

/-! ## 2. Frame: mutating one of two separate objects leaves the other as it was -/

/-- **frame.**  For every table, every pair of separate objects and *every sequence* of writes
whose paths are live (induction over the op list; each write may store a structure of any
size, which takes fresh addresses): the watching object is literally unchanged — hence its
fingerprint is — and the two stay separate, so the argument can be repeated. -/
theorem C04_frame (tbl : Tbl) (ws : List Write) (x y : T) (n : Nat)
    (hsep : Sep tbl x y) (hx : Below x n) (hy : Below y n)
    (hlive : ∀ w ∈ ws, AllLive tbl w.path) :
    obsT (runWrites ws (x, y, n)).1 = obsT x ∧ (runWrites ws (x, y, n)).1 = x ∧
    Sep tbl x (runWrites ws (x, y, n)).2.1 := by
  obtain ⟨h1, h2⟩ := runWrites_frame tbl ws x y n hsep hx hy hlive
  exact ⟨by rw [h1], h1, h2⟩

/-! ## 3. The method table of cfdm is disciplined -/

theorem attr_live (dk : List String) : Step.liveIn (cfdmTbl dk) .attr := by
  intro k hk
  cases k with
  | obj f c => cases f <;> simp_all [Step.ok, Fam.isContainer, cfdmTbl, cfdmMode, Step.key, Mode.live]
  | _ => simp [Step.ok] at hk

theorem comp_live (dk : List String) (c : String) (h1 : c ≠ "custom") (h2 : c ≠ "inherited_properties") :
    Step.liveIn (cfdmTbl dk) (.comp c) := by
  intro k hk
  cases k with
  | comps f =>
    have hf : f = .container := by simpa [Step.ok] using hk
    subst hf
    simp only [cfdmTbl, cfdmMode, Step.key]
    by_cases hd : c ∈ dk
    · simp [hd, Mode.live]
    · by_cases hdc : c ∈ deepComps <;> simp [hd, hdc, h1, h2, Mode.live]
  | _ => simp [Step.ok] at hk

theorem comp_topLive (dk : List String) (c : String) : Step.topLiveIn (cfdmTbl dk) (.comp c) := by
  intro k hk
  cases k with
  | comps f =>
    have hf : f = .container := by simpa [Step.ok] using hk
    subst hf
    simp only [cfdmTbl, cfdmMode, Step.key]
    by_cases hd : c ∈ dk
    · simp [hd]
    · by_cases hc : c = "custom" ∨ c = "inherited_properties"
      · simp [hd, hc]
      · by_cases hdc : c ∈ deepComps <;> simp [hd, hc, hdc]
  | _ => simp [Step.ok] at hk

theorem item_live (dk : List String) (key : String) : Step.liveIn (cfdmTbl dk) (.item key) := by
  intro k hk
  cases k <;> simp_all [Step.ok, cfdmTbl, cfdmMode, Mode.live]

theorem cattr_constructs_live (dk : List String) : Step.liveIn (cfdmTbl dk) (.cattr "_constructs") := by
  intro k hk
  cases k with
  | obj f c =>
    have hf : f = .constructs := by simpa [Step.ok] using hk
    subst hf
    simp [cfdmTbl, cfdmMode, Step.key, Mode.live]
  | _ => simp [Step.ok] at hk

theorem cattr_meta_topLive (dk : List String) (a : String)
    (h : a ∈ ["_construct_type", "_construct_axes", "_key_base"]) : Step.topLiveIn (cfdmTbl dk) (.cattr a) := by
  intro k hk
  cases k with
  | obj f c =>
    have hf : f = .constructs := by simpa [Step.ok] using hk
    subst hf
    simp only [List.mem_cons, List.not_mem_nil, or_false] at h
    rcases h with rfl | rfl | rfl <;> simp [cfdmTbl, cfdmMode, Step.key]
  | _ => simp [Step.ok] at hk

theorem item_topLive (dk : List String) (key : String) : Step.topLiveIn (cfdmTbl dk) (.item key) := by
  intro k hk
  cases k <;> simp_all [Step.ok, cfdmTbl, cfdmMode]

theorem attr_topLive (dk : List String) : Step.topLiveIn (cfdmTbl dk) .attr := by
  intro k hk
  have := attr_live dk k hk
  intro h; rw [h] at this; simp [Mode.live] at this

/-- prefixing a live path with the (live) path to a metadata construct keeps it live -/
theorem allLive_prefix (dk : List String) (t k : String) :
    ∀ (p : List Step), AllLive (cfdmTbl dk) p →
      AllLive (cfdmTbl dk) (comps [.comp "constructs", .cattr "_constructs", .item t, .item k] ++ p)
  | [] => fun _ => by
    simp only [comps, List.append_nil, AllLive]
    exact ⟨attr_live dk, comp_live dk _ (by decide) (by decide), cattr_constructs_live dk, item_live dk t, item_topLive dk k⟩
  | s :: p => fun h => by
    simp only [comps, List.cons_append, List.nil_append, AllLive]
    exact ⟨attr_live dk, comp_live dk _ (by decide) (by decide), cattr_constructs_live dk, item_live dk t, item_live dk k, h⟩

/-- **The method table writes only through live paths, only through the working copy of an
in-place-switchable method, and never into a numpy buffer in place** — for every parameter
choice (property names, construct keys, stored values of any shape) and whichever components
`copy(data=False)` leaves out.  This is the side condition under which shared numpy buffers
and the other handed-over cells count as immutable. -/
theorem C04_table_disciplined (dk : List String) (w : Write) (h : TableWrite w) :
    AllLive (cfdmTbl dk) w.path ∧ w.via = .placeholder ∧ ∀ v, w.upd ≠ .poke v := by
  induction h with
  | setEntry c k v hc =>
    refine ⟨⟨attr_live dk, comp_topLive dk c⟩, rfl, by intro v h; cases h⟩
  | delEntry c k hc =>
    refine ⟨⟨attr_live dk, comp_topLive dk c⟩, rfl, by intro v h; cases h⟩
  | setComponent c v => exact ⟨attr_topLive dk, rfl, by intro v h; cases h⟩
  | delComponent c => exact ⟨attr_topLive dk, rfl, by intro v h; cases h⟩
  | ncAttr w p v =>
    exact ⟨⟨attr_live dk, comp_live dk _ (by decide) (by decide), item_topLive dk w⟩, rfl, by intro v h; cases h⟩
  | dataArray v =>
    exact ⟨⟨attr_live dk, comp_live dk _ (by decide) (by decide), attr_topLive dk⟩, rfl, by intro v h; cases h⟩
  | boundsArray v =>
    exact ⟨⟨attr_live dk, comp_live dk _ (by decide) (by decide), attr_live dk, comp_live dk _ (by decide) (by decide),
      attr_topLive dk⟩, rfl, by intro v h; cases h⟩
  | ringArray v =>
    exact ⟨⟨attr_live dk, comp_live dk _ (by decide) (by decide), attr_live dk, comp_live dk _ (by decide) (by decide),
      attr_topLive dk⟩, rfl, by intro v h; cases h⟩
  | construct t k v =>
    exact ⟨⟨attr_live dk, comp_live dk _ (by decide) (by decide), cattr_constructs_live dk, item_topLive dk t⟩, rfl,
      by intro v h; cases h⟩
  | delConstruct t k =>
    exact ⟨⟨attr_live dk, comp_live dk _ (by decide) (by decide), cattr_constructs_live dk, item_topLive dk t⟩, rfl,
      by intro v h; cases h⟩
  | constructMeta a k v ha =>
    exact ⟨⟨attr_live dk, comp_live dk _ (by decide) (by decide), cattr_meta_topLive dk a ha⟩, rfl, by intro v h; cases h⟩
  | delConstructMeta a k ha =>
    exact ⟨⟨attr_live dk, comp_live dk _ (by decide) (by decide), cattr_meta_topLive dk a ha⟩, rfl, by intro v h; cases h⟩
  | custom k v => exact ⟨⟨attr_live dk, comp_topLive dk _⟩, rfl, by intro v h; cases h⟩
  | inConstruct t k w hw ih =>
    exact ⟨allLive_prefix dk t k w.path ih.1, ih.2.1, ih.2.2⟩

example : TableWrite ⟨comps [.comp "properties"], .setKey "long_name" (.imm 3), .placeholder⟩ :=
  .setEntry "properties" "long_name" (.imm 3) (by decide)

/-! ## 4. Copies of cfdm objects are independent under the whole method table -/

/-- **copy, then any history of mutators on either side.**  `y = x.copy()`; then any sequence
of writes of the method table (any methods, any arguments, any length) applied to `y` leaves
`x` — and its fingerprint — unchanged, and any sequence applied to `x` leaves `y` unchanged. -/
theorem C04_copy_independent (dk : List String) (x : T) (n : Nat) (ws : List Write)
    (hb : Below x n) (hwf : ∀ a ∈ liveT (cfdmTbl dk) x, a ∉ keptT (cfdmTbl dk) x)
    (hws : ∀ w ∈ ws, TableWrite w) :
    let y := (copyT (cfdmTbl dk) x n).1
    let n' := (copyT (cfdmTbl dk) x n).2
    obsT (runWrites ws (x, y, n')).1 = obsT x ∧ obsT (runWrites ws (y, x, n')).1 = obsT y := by
  intro y n'
  have hsep := C04_copy_sep (cfdmTbl dk) x n hb hwf
  obtain ⟨c1, c2, _⟩ := copyT_spec (cfdmTbl dk) x n
  have hx' : Below x n' := fun a ha => by have := hb a ha; show a < (copyT (cfdmTbl dk) x n).2; omega
  have hy' : Below y n' := by
    intro a ha
    rcases c2 a ha with h | h
    · exact h.2
    · have := hb a (keptT_sub _ x a h); show a < (copyT (cfdmTbl dk) x n).2; omega
  have hl : ∀ w ∈ ws, AllLive (cfdmTbl dk) w.path := fun w hw => (C04_table_disciplined dk w (hws w hw)).1
  exact ⟨(C04_frame _ ws x y n' hsep hx' hy' hl).1, (C04_frame _ ws y x n' hsep.symm hy' hx' hl).1⟩

/-- the value stored by `c.set_property('flag_values', …)`, `c.data[...] = …` on the copy of
`exCoord`: a concrete non-trivial history -/
def exHistory : List Write :=
  mSetEntry "properties" "flag_values" (.leaf 0 false 99) ++
  mReplaceDataArray (.node 0 (.obj .nparray "NumpyArray") (.cons "_components"
    (.node 0 (.comps .nparray) (.cons "array" (.leaf 0 false 43) .nil)) .nil)) ++
  mSetCustom "cache" (.imm 5)

example : ∀ w ∈ exHistory, TableWrite w := by
  intro w hw
  simp only [exHistory, mSetEntry, mReplaceDataArray, mSetCustom, List.cons_append, List.nil_append,
    List.mem_cons, List.not_mem_nil, or_false] at hw
  rcases hw with rfl | rfl | rfl
  · exact .setEntry _ _ _ (by decide)
  · exact .dataArray _
  · exact .custom _ _

/-- the history really changes the copy (the theorem is not about no-ops) -/
example : (obsT (runWrites exHistory (exCoord, (copyT cfdmTbl exCoord 11).1, (copyT cfdmTbl exCoord 11).2)).2.1).beq
    (obsT (copyT cfdmTbl exCoord 11).1) = false := by decide

/-! ## 5. `inplace=False` is pure and returns the in-place result on a copy -/

/-- **inplace_off.**  For every method whose body writes through the working copy along live
paths (every entry of the table does): called with the switch off it leaves its receiver
literally unchanged, and what it returns is what the in-place form produces on a copy. -/
theorem C04_inplace_off (tbl : Tbl) (m : List Write) (x : T) (n : Nat)
    (hb : Below x n) (hwf : ∀ a ∈ liveT tbl x, a ∉ keptT tbl x)
    (hvia : ∀ w ∈ m, w.via = .placeholder) (hlive : ∀ w ∈ m, AllLive tbl w.path) :
    (inplaceOff tbl m x n).1 = x ∧ obsT (inplaceOff tbl m x n).1 = obsT x ∧
    (inplaceOff tbl m x n).2.1 = (inplaceOn m (copyT tbl x n).1 (copyT tbl x n).2).1 := by
  have hsep := C04_copy_sep tbl x n hb hwf
  obtain ⟨c1, c2, _⟩ := copyT_spec tbl x n
  have hx' : Below x (copyT tbl x n).2 := fun a ha => by have := hb a ha; omega
  have hy' : Below (copyT tbl x n).1 (copyT tbl x n).2 := by
    intro a ha
    rcases c2 a ha with h | h
    · exact h.2
    · have := hb a (keptT_sub _ x a h); omega
  have hrun : inplaceOff tbl m x n = runWrites m (x, (copyT tbl x n).1, (copyT tbl x n).2) := by
    simp only [inplaceOff]; exact runVia_eq_runWrites m _ hvia
  obtain ⟨f1, f2, _⟩ := C04_frame tbl m x _ _ hsep hx' hy' hlive
  rw [hrun]
  refine ⟨f2, f1, ?_⟩
  have := runWrites_snd m x (copyT tbl x n).1 (copyT tbl x n).2
  simp only [inplaceOn]
  exact congrArg Prod.fst this

/-- … in particular for every method assembled from the table, whatever `copy` leaves out -/
theorem C04_inplace_off_cfdm (dk : List String) (m : List Write) (x : T) (n : Nat)
    (hb : Below x n) (hwf : ∀ a ∈ liveT (cfdmTbl dk) x, a ∉ keptT (cfdmTbl dk) x)
    (hm : ∀ w ∈ m, TableWrite w) :
    obsT (inplaceOff (cfdmTbl dk) m x n).1 = obsT x ∧
    (inplaceOff (cfdmTbl dk) m x n).2.1 =
      (inplaceOn m (copyT (cfdmTbl dk) x n).1 (copyT (cfdmTbl dk) x n).2).1 := by
  have h := C04_inplace_off (cfdmTbl dk) m x n hb hwf
    (fun w hw => (C04_table_disciplined dk w (hm w hw)).2.1)
    (fun w hw => (C04_table_disciplined dk w (hm w hw)).1)
  exact ⟨h.2.1, h.2.2⟩

example : ∀ w ∈ mReplaceDataArray (.leaf 0 false 1), TableWrite w := by
  intro w hw
  simp only [mReplaceDataArray, List.mem_cons, List.not_mem_nil, or_false] at hw
  subst hw; exact .dataArray _

/-! ## 6. Why the hypotheses are there: the defective variants -/

/-- a core-style `Data` whose copy shares the numpy buffer -/
def exData : T :=
  .node 0 (.obj .container "Data") (.cons "_components"
    (.node 1 (.comps .container)
      (.cons "array" (.node 2 (.obj .nparray "NumpyArray") (.cons "_components"
        (.node 3 (.comps .nparray) (.cons "array" (.leaf 4 false 42) .nil)) .nil)) .nil)) .nil)

/-- **Writing into the stored buffer in place breaks independence.**  A `__setitem__` that
assigned into the stored numpy array instead of replacing it would show in the source of a
copy: the side condition of `C04_table_disciplined` is necessary. -/
theorem C04_poke_counterexample :
    (obsT (runWrites (mPokeArray 7) (exData, (copyT cfdmTbl exData 5).1, (copyT cfdmTbl exData 5).2)).1).beq
      (obsT exData) = false := by decide

/-- a field with one metadata construct (both with data) -/
def exField : T :=
  .node 0 (.obj .container "Field") (.cons "_components"
    (.node 1 (.comps .container)
      (.cons "data" exDataAt20
      (.cons "constructs" (.node 10 (.obj .constructs "Constructs") (.cons "_constructs"
        (.node 11 .dict (.cons "auxiliary_coordinate" (.node 12 .dict (.cons "auxiliarycoordinate0"
          (.node 13 (.obj .container "AuxiliaryCoordinate") (.cons "_components"
            (.node 14 (.comps .container) (.cons "data" exDataAt30 .nil)) .nil)) .nil)) .nil)) .nil)) .nil))) .nil)
where
  exDataAt20 : T := .node 20 (.obj .container "Data") (.cons "_components"
    (.node 21 (.comps .container) (.cons "array" (.leaf 22 false 1) .nil)) .nil)
  exDataAt30 : T := .node 30 (.obj .container "Data") (.cons "_components"
    (.node 31 (.comps .container) (.cons "array" (.leaf 32 false 2) .nil)) .nil)

/-- **`Field.apply_masking(inplace=False)` before ebd1f5d** masked the metadata constructs
through `self`: the receiver changes (and the returned copy's constructs do not). -/
theorem C04_old_apply_masking_counterexample :
    (obsT (inplaceOff cfdmTbl (mApplyMaskingOld "auxiliary_coordinate" "auxiliarycoordinate0"
      (.leaf 0 false 9) (.leaf 0 false 8)) exField 40).1).beq (obsT exField) = false := by decide

/-- … whereas the repaired method (all writes through the working copy) is covered by
`C04_inplace_off_cfdm` -/
example : ∀ w ∈ mReplaceDataArray (.leaf 0 false 9) ++
    mInConstruct "auxiliary_coordinate" "auxiliarycoordinate0" (mReplaceDataArray (.leaf 0 false 8)), TableWrite w := by
  intro w hw
  simp only [mReplaceDataArray, mInConstruct, List.map, List.cons_append, List.nil_append,
    List.mem_cons, List.not_mem_nil, or_false] at hw
  rcases hw with rfl | rfl
  · exact .dataArray _
  · exact .inConstruct _ _ _ (.dataArray _)

/-- a coordinate with bounds, both with data -/
def exBounded : T :=
  .node 0 (.obj .container "DimensionCoordinate") (.cons "_components"
    (.node 1 (.comps .container)
      (.cons "data" (.leaf 2 false 1)
      (.cons "bounds" (.node 3 (.obj .container "Bounds") (.cons "_components"
        (.node 4 (.comps .container) (.cons "data" (.leaf 5 false 2) .nil)) .nil)) .nil))) .nil)

/-- **`set_data(…, inplace=False)` as it is coded** builds its result from `self.copy(data=False)`,
which also strips the data of the bounds (of every metadata construct, for a field): the result
is *not* what the in-place form produces on a copy.  Repaired by fixes/C04-set-data-inplace-false.patch
(`self.copy()`), after which the method is an instance of `C04_inplace_off_cfdm`. -/
theorem C04_old_set_data_counterexample :
    (obsT (setDataOffOld (.leaf 0 false 7) exBounded 6).2.1).beq
      (obsT (inplaceOn (mSetComponent "data" (.leaf 0 false 7)) (copyT cfdmTbl exBounded 6).1 (copyT cfdmTbl exBounded 6).2).1)
      = false := by decide

/-- … while the receiver is untouched even by the old code (the defect is in the result only) -/
theorem C04_old_set_data_receiver_unchanged :
    (obsT (setDataOffOld (.leaf 0 false 7) exBounded 6).1).beq (obsT exBounded) = true := by decide

end Cfdm.Props.C04
