import Cfdm.Lemmas.LazyRead
import Cfdm.Lemmas.H5Index
import Cfdm.Lemmas.Dtype
/-
C12 — backends and lazy access give the same data as eager access.  Property theorems only.

The model (`Cfdm/Model/Lazy.lean`) is the code after the four proposed patches `fixes/C12-*.patch`;
the behaviour before them is kept as the backends `nc4Old` / `h5Old` and refuted by concrete
witnesses at the end of this file.

Not a theorem: that the netCDF4 and the h5netcdf *libraries* return the same bytes for the same
hyperslab.  Both backends are the same model here up to `Backend.native` (who performs the
orthogonal indexing); `C12_subspace_commutes` shows that this flag cannot change any value, and the
equality of what the two C libraries deliver is checked by the correspondence run only.
-/
namespace Cfdm.Props.C12
open Cfdm.PySlice Cfdm.Arr Cfdm.Indexing Cfdm.Lazy Cfdm.H5Index

variable {α : Type} [DecidableEq α]

/-! ### Reading is lazy -/

/-- **Reading brings no array into memory other than scalar coordinate variables.**
FULL STATEMENT (false for the code as it is, see `C12_read_realises_counterexample`):
    for every dataset `vs`, after `readFile` every variable that is not a 0-d scalar coordinate
    variable (or its bounds) is `disk`, and the fetch log mentions only those and the count/index
    variables whose values give the decoded shapes.
PROVED under the hypothesis that no variable has one of the two roles the reader realises needlessly
(geometry node coordinates without `part_node_count`: `bounds_insert_dimension`; UGRID connectivity
stored cell-dimension-last: `data.transpose()`; UGRID edge / face connectivity with a non-zero
`start_index`: `data.array - start_index`), for every backend, every number and shape of
variables: (1) no dataset is left open; (2) variable `k` ends as `disk` pointing at its own
(file, address, shape) unless its role is exempt; (3) every fetch made while reading is the whole of
a scalar coordinate variable (or its bounds) or of a count/index variable. -/
theorem C12_lazy_read_partial (b : Backend) (st : Store α) (vs : List VarDesc)
    (hv : ∀ v ∈ vs, v.role.realisedByRead = false) :
    let w := readFile b st { heap := [], log := [], handles := 0 } vs
    w.handles = 0 ∧
    (∀ (k : Nat) (v : VarDesc), vs[k]? = some v → v.role.exempt = false →
      ∃ s, w.heap[k]? = some s ∧ s.isDisk = true ∧ s.shape = v.shape) ∧
    (∀ f ∈ w.log, ∃ v ∈ vs, (v.role.exempt = true ∨ v.role.structural = true) ∧ f = Fetch.mk v.loc (fullPs v.shape)) := by
  intro w
  have hw : w = { heap := vs.map (stateOf st), log := vs.flatMap logOf, handles := 0 } := by
    simp only [w]
    rw [readFile_spec st vs hv]
    simp
  refine ⟨by rw [hw], ?_, ?_⟩
  · intro k v hk hex
    rw [hw]
    simp only [List.getElem?_map, hk, Option.map_some]
    exact ⟨_, rfl, by simp [stateOf, hex, AState.isDisk], by simp [stateOf, hex, AState.shape]⟩
  · intro f hf
    rw [hw] at hf
    simp only [List.mem_flatMap] at hf
    obtain ⟨v, hv1, hv2⟩ := hf
    refine ⟨v, hv1, ?_⟩
    unfold logOf at hv2
    split at hv2
    · rename_i hc
      simp only [List.mem_singleton] at hv2
      exact ⟨by simpa using hc, hv2⟩
    · cases hv2

/-- Non-vacuity: a field with a data variable, a coordinate, a scalar coordinate with bounds and a
DSG count variable. -/
example : ∀ v ∈ [VarDesc.mk ⟨0, 0⟩ [2, 3] .data, ⟨⟨0, 1⟩, [3], .coord⟩, ⟨⟨0, 2⟩, [], .scalarCoord⟩,
    ⟨⟨0, 3⟩, [2], .scalarBounds⟩, ⟨⟨0, 4⟩, [4], .count⟩], v.role.realisedByRead = false := by decide

example : ((readFile nc4 (fun _ => iota [2]) { heap := [], log := [], handles := 0 }
    [⟨⟨0, 0⟩, [2, 3], .data⟩, ⟨⟨0, 2⟩, [], .scalarCoord⟩, ⟨⟨0, 4⟩, [4], .count⟩]).heap.map AState.isDisk,
    (readFile nc4 (fun _ => iota [2]) { heap := [], log := [], handles := 0 }
    [⟨⟨0, 0⟩, [2, 3], .data⟩, ⟨⟨0, 2⟩, [], .scalarCoord⟩, ⟨⟨0, 4⟩, [4], .count⟩]).log)
    = ([true, false, true], [⟨⟨0, 2⟩, []⟩, ⟨⟨0, 4⟩, [[0, 1, 2, 3]]⟩]) := by decide

/-- The excluded roles are really brought into memory by the reader as coded: geometry node
coordinates without parts, a transposed UGRID connectivity, and a one-based UGRID edge / face
connectivity (open findings). -/
theorem C12_read_realises_counterexample :
    (readFile nc4 (fun _ => iota [5]) { heap := [], log := [], handles := 0 }
      [⟨⟨0, 0⟩, [5], .nodesFlat⟩]).heap.map AState.isDisk = [false] ∧
    (readFile nc4 (fun _ => iota [2, 4]) { heap := [], log := [], handles := 0 }
      [⟨⟨0, 0⟩, [2, 4], .connT⟩]).heap.map AState.isDisk = [false] ∧
    (readFile nc4 (fun _ => iota [4, 2]) { heap := [], log := [], handles := 0 }
      [⟨⟨0, 0⟩, [4, 2], .connS⟩]).heap.map AState.isDisk = [false] := by decide

/-! ### Values are fetched only when inspected or modified -/

/-- Operations that neither inspect nor modify values (copy, metadata queries and edits) add nothing
to the fetch log, open nothing and leave every existing object as it was. -/
theorem C12_fetch_only_on_access (b : Backend) (st : Store α) (w : World α) (op : Op α)
    (h : op.inspects = false) :
    (step b st w op).1.log = w.log ∧ (step b st w op).1.handles = w.handles ∧
    ∀ (i : Nat) (s : AState α), w.heap[i]? = some s → (step b st w op).1.heap[i]? = some s := by
  cases op <;> simp only [Op.inspects] at h <;> try cases h
  · rename_i i
    cases hs : w.heap[i]? with
    | none => simp only [step, hs]; exact ⟨trivial, trivial, fun _ _ hh => hh⟩
    | some s =>
      simp only [step, hs, put, Bool.false_eq_true, if_false]
      refine ⟨trivial, trivial, ?_⟩
      intro j t ht
      have hj : j < w.heap.length := by
        by_contra hc
        rw [List.getElem?_eq_none (by omega)] at ht
        cases ht
      rw [List.getElem?_append_left hj]
      exact ht
  · rename_i i
    cases hs : w.heap[i]? <;> simp only [step, hs] <;> exact ⟨trivial, trivial, fun _ _ hh => hh⟩

example : (Op.copy 0 : Op Nat).inspects = false ∧ (Op.edit 3 : Op Nat).inspects = false := by decide

/-- Once every object is in memory no operation whatever touches a file again, and every object
stays in memory. -/
theorem C12_memory_data_never_fetch (b : Backend) (st : Store α) (w : World α) (op : Op α)
    (h : ∀ s ∈ w.heap, s.isDisk = false) :
    (step b st w op).1.log = w.log ∧ ∀ s ∈ (step b st w op).1.heap, s.isDisk = false := by
  have hmem : ∀ (i : Nat) (s : AState α), w.heap[i]? = some s → ∃ a, s = .mem a := by
    intro i s hs
    have := h s (List.mem_of_getElem? hs)
    cases s with
    | disk loc shape => simp [AState.isDisk] at this
    | mem a => exact ⟨a, rfl⟩
  have hset : ∀ (i : Nat) (a : Arr α), ∀ s ∈ w.heap.set i (.mem a), s.isDisk = false := by
    intro i a s hs
    rcases List.mem_or_eq_of_mem_set hs with h1 | h1
    · exact h s h1
    · subst h1; rfl
  have happ : ∀ (a : Arr α), ∀ s ∈ w.heap ++ [.mem a], s.isDisk = false := by
    intro a s hs
    rcases List.mem_append.mp hs with h1 | h1
    · exact h s h1
    · simp only [List.mem_singleton] at h1; subst h1; rfl
  have hput : ∀ (i : Nat) (a : Arr α) (inplace : Bool),
      (put w i (.mem a) inplace).1.log = w.log ∧ ∀ s ∈ (put w i (.mem a) inplace).1.heap, s.isDisk = false := by
    intro i a inplace
    unfold put
    cases inplace
    · exact ⟨rfl, happ a⟩
    · exact ⟨rfl, hset i a⟩
  cases op with
  | copy i =>
    cases hs : w.heap[i]? with
    | none => simp only [step, hs]; first | exact ⟨rfl, h⟩ | exact ⟨trivial, h⟩
    | some s => obtain ⟨a, rfl⟩ := hmem i s hs; simp only [step, hs]; exact hput i a false
  | edit i =>
    cases hs : w.heap[i]? <;> simp only [step, hs] <;> first | exact ⟨rfl, h⟩ | exact ⟨trivial, h⟩
  | subspace i ix =>
    cases hs : w.heap[i]? with
    | none => simp only [step, hs]; first | exact ⟨rfl, h⟩ | exact ⟨trivial, h⟩
    | some s =>
      obtain ⟨a, rfl⟩ := hmem i s hs
      simp only [step, hs]
      have hw := getSub_mem_log b st w a ix
      rcases hg : getSub b st w (.mem a) ix with ⟨r1, w'⟩
      rw [hg] at hw
      simp only at hw
      subst hw
      cases r1 with
      | error e => first | exact ⟨rfl, h⟩ | exact ⟨trivial, h⟩
      | ok c => exact hput i c false
  | toMemory i inplace =>
    cases hs : w.heap[i]? with
    | none => simp only [step, hs]; first | exact ⟨rfl, h⟩ | exact ⟨trivial, h⟩
    | some s => obtain ⟨a, rfl⟩ := hmem i s hs; simp only [step, hs, getArray]; exact hput i a inplace
  | array i =>
    cases hs : w.heap[i]? with
    | none => simp only [step, hs]; first | exact ⟨rfl, h⟩ | exact ⟨trivial, h⟩
    | some s => obtain ⟨a, rfl⟩ := hmem i s hs; simp only [step, hs, getArray]; first | exact ⟨rfl, h⟩ | exact ⟨trivial, h⟩
  | setitem i ix v =>
    cases hs : w.heap[i]? with
    | none => simp only [step, hs]; first | exact ⟨rfl, h⟩ | exact ⟨trivial, h⟩
    | some s =>
      obtain ⟨a, rfl⟩ := hmem i s hs
      simp only [step, hs, getArray]
      cases parse (AState.mem a).shape ix with
      | error e => first | exact ⟨rfl, h⟩ | exact ⟨trivial, h⟩
      | ok sels =>
        simp only
        cases checkIndex a.shape sels with
        | some e => first | exact ⟨rfl, h⟩ | exact ⟨trivial, h⟩
        | none => exact hput i _ true
  | equals i j =>
    cases hs : w.heap[i]? with
    | none => simp only [step, hs]; cases w.heap[j]? <;> first | exact ⟨rfl, h⟩ | exact ⟨trivial, h⟩
    | some s =>
      obtain ⟨a, rfl⟩ := hmem i s hs
      cases ht : w.heap[j]? with
      | none => simp only [step, hs, ht]; first | exact ⟨rfl, h⟩ | exact ⟨trivial, h⟩
      | some t =>
        obtain ⟨c, rfl⟩ := hmem j t ht
        simp only [step, hs, ht, getArray]
        split
        · first | exact ⟨rfl, h⟩ | exact ⟨trivial, h⟩
        · split <;> first | exact ⟨rfl, h⟩ | exact ⟨trivial, h⟩
  | first i =>
    cases hs : w.heap[i]? with
    | none => simp only [step, hs]; first | exact ⟨rfl, h⟩ | exact ⟨trivial, h⟩
    | some s =>
      obtain ⟨a, rfl⟩ := hmem i s hs
      simp only [step, hs]
      have hw := item_mem_log b st w a (firstIx (AState.mem a).shape.length)
      rcases hg : item b st w (.mem a) (firstIx (AState.mem a).shape.length) with ⟨r1, w'⟩
      rw [hg] at hw
      simp only at hw
      subst hw
      cases r1 <;> first | exact ⟨rfl, h⟩ | exact ⟨trivial, h⟩
  | last i =>
    cases hs : w.heap[i]? with
    | none => simp only [step, hs]; first | exact ⟨rfl, h⟩ | exact ⟨trivial, h⟩
    | some s =>
      obtain ⟨a, rfl⟩ := hmem i s hs
      simp only [step, hs]
      have hw := item_mem_log b st w a (lastIx (AState.mem a).shape.length)
      rcases hg : item b st w (.mem a) (lastIx (AState.mem a).shape.length) with ⟨r1, w'⟩
      rw [hg] at hw
      simp only at hw
      subst hw
      cases r1 <;> first | exact ⟨rfl, h⟩ | exact ⟨trivial, h⟩
  | second i =>
    cases hs : w.heap[i]? with
    | none => simp only [step, hs]; first | exact ⟨rfl, h⟩ | exact ⟨trivial, h⟩
    | some s =>
      obtain ⟨a, rfl⟩ := hmem i s hs
      simp only [step, hs]
      have hw := item_mem_log b st w a (secondIx (AState.mem a).shape)
      rcases hg : item b st w (.mem a) (secondIx (AState.mem a).shape) with ⟨r1, w'⟩
      rw [hg] at hw
      simp only at hw
      subst hw
      cases r1 <;> first | exact ⟨rfl, h⟩ | exact ⟨trivial, h⟩
  | str i =>
    cases hs : w.heap[i]? with
    | none => simp only [step, hs]; first | exact ⟨rfl, h⟩ | exact ⟨trivial, h⟩
    | some s =>
      obtain ⟨a, rfl⟩ := hmem i s hs
      simp only [step, hs]
      have hw := item_mem_log b st w a (firstIx (AState.mem a).shape.length)
      rcases hg : item b st w (.mem a) (firstIx (AState.mem a).shape.length) with ⟨r1, w'⟩
      rw [hg] at hw
      simp only at hw
      subst hw
      cases r1 with
      | error e => first | exact ⟨rfl, h⟩ | exact ⟨trivial, h⟩
      | ok x =>
        simp only
        have hw2 := items_mem_log b st a (strPlan (AState.mem a).shape).tail w' [x]
        rcases hg2 : items b st (.mem a) (strPlan (AState.mem a).shape).tail w' [x] with ⟨r3, w''⟩
        rw [hg2] at hw2
        simp only at hw2
        subst hw2
        cases r3 <;> first | exact ⟨rfl, h⟩ | exact ⟨trivial, h⟩
  | transpose i inplace =>
    cases hs : w.heap[i]? with
    | none => simp only [step, hs]; first | exact ⟨rfl, h⟩ | exact ⟨trivial, h⟩
    | some s =>
      obtain ⟨a, rfl⟩ := hmem i s hs
      simp only [step, hs, getArray]
      split
      · exact hput i a inplace
      · exact hput i _ inplace
  | squeeze i inplace =>
    cases hs : w.heap[i]? with
    | none => simp only [step, hs]; first | exact ⟨rfl, h⟩ | exact ⟨trivial, h⟩
    | some s =>
      obtain ⟨a, rfl⟩ := hmem i s hs
      simp only [step, hs, getArray]
      split
      · exact hput i a inplace
      · exact hput i _ inplace
  | flatten i inplace =>
    cases hs : w.heap[i]? with
    | none => simp only [step, hs]; first | exact ⟨rfl, h⟩ | exact ⟨trivial, h⟩
    | some s =>
      obtain ⟨a, rfl⟩ := hmem i s hs
      simp only [step, hs, getArray]
      split
      · exact hput i a inplace
      · exact hput i _ inplace
  | insertDim i inplace =>
    cases hs : w.heap[i]? with
    | none => simp only [step, hs]; first | exact ⟨rfl, h⟩ | exact ⟨trivial, h⟩
    | some s => obtain ⟨a, rfl⟩ := hmem i s hs; simp only [step, hs, getArray]; exact hput i _ inplace

/-! ### A subspace of file data fetches only that part -/

/-- A subspace of a `disk` object makes exactly one call of the file array's `__getitem__`, for its
own variable, with exactly the requested positions; when the index is acceptable every requested
position lies inside the variable, the new object is in memory and has one element per requested
position combination (`shape = lengths of the position lists`). -/
theorem C12_subspace_fetches_only_that_part {b : Backend} (hb : b.strict = false) (st : Store α) (w : World α)
    (i : Nat) (ix : List RawIx) (loc : Loc) (shape : List Nat) (sels : List Sel)
    (hs : w.heap[i]? = some (.disk loc shape)) (hst : (st loc).shape = shape)
    (hp : parse shape ix = .ok sels) :
    (step b st w (.subspace i ix)).1.log = w.log ++ [Fetch.mk loc (positionsNat shape sels)] ∧
    (selsWf shape sels = true →
      PosOK shape (positionsNat shape sels) ∧
      ∃ a, (step b st w (.subspace i ix)).1.heap = w.heap ++ [.mem a] ∧
        a.shape = (positionsNat shape sels).map List.length) := by
  have hp' : parse (AState.disk (α := α) loc shape).shape ix = .ok sels := hp
  constructor
  · simp only [step, hs, getSub, hp', fetch]
    cases hc : checkIndex shape sels with
    | some e => simp
    | none =>
      have hrej : backendRejects b shape sels = false := by simp [backendRejects, hb]
      simp [hrej, put]
  · intro hwf
    refine ⟨positionsNat_ok _ _ hwf, ?_⟩
    have hc : checkIndex shape sels = none := by simp [checkIndex, hwf]
    have hrej : backendRejects b shape sels = false := by simp [backendRejects, hb]
    simp only [step, hs, getSub, hp', fetch, hc, hrej, Bool.false_eq_true, if_false, put]
    refine ⟨_, rfl, ?_⟩
    have h1 := (indexBackend_eqv b (st loc) sels (by rw [hst]; exact selsWf_length hwf)).1
    rw [h1, hst, takeAll_shape]
    rw [hst]; exact positionsNat_length _ _ (selsWf_length hwf)

/-- Non-vacuity: `d[::2, [3, 1]]` on a 4 x 5 variable fetches rows {0, 2} x columns {3, 1}. -/
example : parse [4, 5] [.slice none none (some 2), .list [3, 1]] = .ok [.slice none none (some 2), .list [3, 1]] ∧
    selsWf [4, 5] [.slice none none (some 2), .list [3, 1]] = true ∧
    positionsNat [4, 5] [.slice none none (some 2), .list [3, 1]] = [[0, 2], [3, 1]] := by decide

/-- `first_element` / `last_element` / `second_element` of a `disk` object: one call, for the
positions of its index, and — when it succeeds — the data that came back hold exactly one element. -/
theorem C12_element_access_fetches_one_element {b : Backend} (hb : b.strict = false) (st : Store α) (w : World α)
    (loc : Loc) (shape : List Nat) (ix : List RawIx) (sels : List Sel) (hst : (st loc).shape = shape)
    (hp : parse shape ix = .ok sels) :
    (item b st w (.disk loc shape) ix).2.log = w.log ++ [Fetch.mk loc (positionsNat shape sels)] ∧
    ∀ x w', item b st w (.disk loc shape) ix = (.ok x, w') →
      toList (takeAll (st loc) (positionsNat shape sels)) = [x] := by
  have hp' : parse (AState.disk (α := α) loc shape).shape ix = .ok sels := hp
  simp only [item, getSub, hp', fetch]
  cases hc : checkIndex shape sels with
  | some e => exact ⟨by simp, by intro x w' h; simp at h⟩
  | none =>
    have hrej : backendRejects b shape sels = false := by simp [backendRejects, hb]
    simp only [hrej, Bool.false_eq_true, if_false]
    have hwf := checkIndex_none hc
    have heq := indexBackend_eqv b (st loc) sels (by rw [hst]; exact selsWf_length hwf)
    rw [hst] at heq
    rw [toList_congr heq]
    cases hl : toList (takeAll (st loc) (positionsNat shape sels)) with
    | nil => exact ⟨by simp, by intro x w' h; simp at h⟩
    | cons y ys =>
      cases ys with
      | nil =>
        refine ⟨by simp, ?_⟩
        intro x w' h
        simp only [Prod.mk.injEq, Except.ok.injEq] at h
        rw [h.1]
      | cons z zs => exact ⟨by simp, by intro x w' h; simp at h⟩

/-- Non-vacuity: the indices of the three element accessors on a 2 x 3 variable select
(0,0), (1,2) and (0,1). -/
example : (parse [2, 3] (firstIx 2)).toOption.map (positionsNat [2, 3]) = some [[0], [0]] ∧
    (parse [2, 3] (lastIx 2)).toOption.map (positionsNat [2, 3]) = some [[1], [2]] ∧
    (parse [2, 3] (secondIx [2, 3])).toOption.map (positionsNat [2, 3]) = some [[0], [1]] := by decide

/-! ### Subspacing then realising equals realising then subspacing -/

/-- **`realise (subspace a ix) = takeAll (realise a) ix`** for every state (on disk or in memory),
every backend (native orthogonal indexing or one list axis at a time, in whatever order the size
heuristic picks), every shape and every index tuple the index check accepts. -/
theorem C12_subspace_commutes {b : Backend} (hb : b.strict = false) (st : Store α) (w : World α) (s : AState α)
    (hwf : WFState st s) (ix : List RawIx) (r : Arr α) (w' : World α)
    (h : getSub b st w s ix = (.ok r, w')) :
    ∃ sels, parse s.shape ix = .ok sels ∧ selsWf s.shape sels = true ∧
      EqvIn r (takeAll (realise st s) (positionsNat s.shape sels)) := by
  have hr : Rel st s (realise st s) := ⟨hwf, EqvIn.refl _⟩
  have hsh := hr.shape_eq
  rcases getSub_sim hb w hr ix with ⟨er, w1, h1, _, _⟩ | ⟨r1, r', w1, h1, h2, h3, _⟩
  · rw [h1] at h; cases h
  · rw [h1] at h
    simp only [Prod.mk.injEq, Except.ok.injEq] at h
    obtain ⟨rfl, rfl⟩ := h
    unfold eSub at h2
    rw [← hsh] at h2
    cases hp : parse s.shape ix with
    | error e => rw [hp] at h2; cases h2
    | ok sels =>
      rw [hp] at h2
      simp only at h2
      cases hc : checkIndex s.shape sels with
      | some e => rw [hc] at h2; cases h2
      | none =>
        rw [hc] at h2
        simp only [Except.ok.injEq] at h2
        subst h2
        exact ⟨sels, rfl, checkIndex_none hc, h3⟩

/-- Successive subspaces compose: `takeAll (takeAll A s) t = takeAll A (s ∘ t)` on every valid index. -/
theorem C12_takeAll_compose (A : Arr α) (s t : List (List Nat)) (hs : s.length = A.shape.length)
    (ht : PosOK (s.map List.length) t) :
    EqvIn (takeAll (takeAll A s) t)
      (takeAll A (List.zipWith (fun (l m : List Nat) => m.map (fun j => l.getD j 0)) s t)) :=
  takeAll_compose A s t hs ht

/-- Non-vacuity: rows [3,1,0] of a 4-row array, then elements [2,0] of those = rows [0,3]. -/
example : PosOK ([[3, 1, 0]].map List.length) [[2, 0]] ∧
    List.zipWith (fun (l m : List Nat) => m.map (fun j => l.getD j 0)) [[3, 1, 0]] [[2, 0]] = [[0, 3]] := by
  refine ⟨⟨rfl, ?_⟩, by decide⟩
  intro k h1 h2 x hx
  have : k = 0 := by simpa using h1
  subst this
  simp at hx ⊢
  omega

/-! ### Lazy access = eager access, for whole histories -/

/-- **Refinement.**  Start from any heap of lazy objects (on disk or in memory, related to eager
arrays handle by handle) and perform ANY history of copy / subspace / to_memory / array /
assignment / equals / element access / str / transpose / insert_dimension / squeeze / flatten / metadata
operations:
every observation (arrays and their shapes, truth values of `equals`, elements shown, new handle
numbers, errors raised) is the one eager access gives on arrays that were in memory from the start. -/
theorem C12_lazy_refines_eager {b : Backend} (hb : b.strict = false) (st : Store α) (w : World α)
    (e : List (Arr α)) (h : SimH st w.heap e) (ops : List (Op α)) :
    (run b st w ops).2 = (erun e ops).2 :=
  (run_sim hb ops h).1

/-- Non-vacuity: both backends of the patched code satisfy the hypothesis (nothing is refused), the
unpatched h5netcdf backend does not. -/
example : nc4.strict = false ∧ h5.strict = false ∧ h5Old.strict = true := by decide

/-- Non-vacuity of the hypotheses of the refinement theorem: two variables on disk. -/
example : ∀ s ∈ [AState.disk (α := Nat) ⟨0, 0⟩ [2, 3], .disk ⟨0, 1⟩ [2, 3]],
    WFState (fun _ => iota [2, 3]) s := by
  intro s hs
  simp only [List.mem_cons, List.mem_nil_iff, or_false] at hs
  rcases hs with rfl | rfl <;> rfl

/-- **Bringing data into memory changes neither equality nor any later result.**  Insert
`to_memory(inplace=True)` of any object anywhere in any history: every later observation
(including every `equals`) is unchanged. -/
theorem C12_to_memory_neutral {b : Backend} (hb : b.strict = false) (st : Store α) (w : World α)
    (e : List (Arr α)) (h : SimH st w.heap e) (ops1 ops2 : List (Op α)) (i : Nat) :
    ((run b st w (ops1 ++ Op.toMemory i true :: ops2)).2).drop (ops1.length + 1) =
    ((run b st w (ops1 ++ ops2)).2).drop ops1.length := by
  rw [C12_lazy_refines_eager hb st w e h, C12_lazy_refines_eager hb st w e h]
  rw [erun_append, erun_append]
  have hl := erun_length ops1 (e : EWorld α)
  rw [← hl, drop_length_add_append]
  have h0 := drop_length_add_append (erun (e : EWorld α) ops1).2 (erun (erun (e : EWorld α) ops1).1 ops2).2 0
  simp only [Nat.add_zero, List.drop_zero] at h0
  rw [h0]
  simp only [erun, List.drop_one, List.tail_cons]
  rw [estep_toMemory_inplace]

/-! ### No file is left open -/

/-- After every operation of every history — including the ones that raise — the number of open
datasets is what it was before the history (0 after a read). -/
theorem C12_handles {b : Backend} (hb : b.leaky = false) (st : Store α) (w : World α) (ops : List (Op α))
    (k : Nat) : (run b st w (ops.take k)).1.handles = w.handles :=
  run_handles hb st (ops.take k) w

/-- Non-vacuity: a history on the netCDF4 model that contains a raising access (`d[[0, 9]]` on
4 rows) ends, like each of its prefixes, with no open dataset. -/
example : nc4.leaky = false ∧ h5.leaky = false ∧
    (run nc4 (fun _ => iota [4]) { heap := [AState.disk ⟨0, 0⟩ [4]], log := [], handles := 0 }
      [Op.subspace 0 [.list [0, 9]], .array 0]).2 = [.raised .indexError, .values [4] [0, 1, 2, 3]] := by decide

/-- **Every dataset that `cfdm.read` opens is closed when it returns or raises**: the parent, every
external file that is scanned (whether it holds all, some or none of the wanted external
variables, and however many are given), the flattened copy and temporary file of a grouped parent —
for every dataset, every role (also the ones the reader realises), and wherever the read fails. -/
theorem C12_read_handles {b : Backend} (hb : b.leaky = false) (st : Store α) (w : World α) (p : ReadPlan)
    (vs : List VarDesc) : (readFilePlan b st w p vs).handles = w.handles := by
  unfold readFilePlan
  simp only
  rw [readFold_handles hb st, ← opened_eq_registered]
  simp

/-- Non-vacuity: a grouped parent read with three external files (useful, useless, useful) that
raises after the first of its two variables: 6 datasets were open, none remains. -/
example : (readFilePlan nc4 (fun _ => iota [2]) { heap := [], log := [], handles := 0 }
    ⟨[true, false, true], true, some 1⟩ [⟨⟨0, 0⟩, [2], .data⟩, ⟨⟨0, 1⟩, [], .scalarCoord⟩]).handles = 0 ∧
    (List.foldl scanExternal (openParent true) [true, false, true]).opened = 6 := by decide

/-! ### What comes off the disk (below `__getitem__`) -/

/-- The first access that `netcdf_indexer._index` makes to the *variable* asks for a superset of the
requested positions on every axis, and for exactly the requested positions when the variable does
orthogonal indexing itself (netCDF4) or at most one axis has a list index.  (With h5netcdf and two
or more list axes all but one list axis are read in full and subspaced in memory.) -/
theorem C12_backend_reads_superset (b : Backend) (shape : List Nat) (sels : List Sel)
    (hwf : selsWf shape sels = true) :
    (backendReads b shape sels).length = (positionsNat shape sels).length ∧
    (∀ (k : Nat) (h1 : k < (positionsNat shape sels).length) (h2 : k < (backendReads b shape sels).length),
      ∀ x ∈ (positionsNat shape sels)[k], x ∈ (backendReads b shape sels)[k]) ∧
    ((b.native = true ∨ (listAxes sels).length ≤ 1) → backendReads b shape sels = positionsNat shape sels) := by
  have hok := positionsNat_ok shape sels hwf
  have hlen := hok.1
  by_cases hc : (b.native || decide ((listAxes sels).length ≤ 1)) = true
  · have hbr : backendReads b shape sels = positionsNat shape sels := by
      unfold backendReads; simp only; rw [if_pos hc]
    rw [hbr]
    exact ⟨rfl, fun _ _ _ _ hx => hx, fun _ => rfl⟩
  · cases hn : firstListAxis shape (positionsNat shape sels) sels with
    | none =>
      have hbr : backendReads b shape sels = positionsNat shape sels := by
        unfold backendReads; simp only; rw [if_neg hc, hn]; try rfl
      rw [hbr]
      exact ⟨rfl, fun _ _ _ _ hx => hx, fun _ => rfl⟩
    | some n =>
      have hbr : backendReads b shape sels =
          List.zipWith (fun (p : Option (List Nat)) m => match p with | some l => l | none => List.range m)
            (firstMask sels (positionsNat shape sels) n) shape := by
        unfold backendReads; simp only; rw [if_neg hc, hn]; try rfl
      rw [hbr]
      refine ⟨by simp [firstMask, hlen], ?_, ?_⟩
      · intro k h1 h2 x hx
        have hks : k < shape.length := by omega
        simp only [List.getElem_zipWith, firstMask, List.getElem_map, List.getElem_range]
        by_cases hcond : (decide (k = n) || !isListAt sels k) = true
        · rw [if_pos hcond]
          simp only
          rw [List.getD_eq_getElem?_getD, List.getElem?_eq_getElem h1]
          exact hx
        · rw [if_neg hcond]
          simp only
          rw [List.mem_range]
          exact hok.2 k h1 hks x hx
      · intro h
        exfalso
        apply hc
        rcases h with h | h
        · simp [h]
        · simp [h]

example : selsWf [3, 4] [.list [0, 2], .list [1, 3]] = true ∧
    backendReads h5 [3, 4] [.list [0, 2], .list [1, 3]] = [[0, 2], [0, 1, 2, 3]] ∧
    backendReads nc4 [3, 4] [.list [0, 2], .list [1, 3]] = [[0, 2], [1, 3]] := by decide

/-! ### The h5netcdf path: `netcdf_indexer._variable_subspace` (repair 4483ba2) -/

/-- **A negative-step slice is read in ascending order and reversed**: for EVERY axis size, start,
stop and negative step, `_variable_subspace` hands h5py a slice with a positive step whose positions
are exactly the positions of the original slice in the opposite order (the ascending slice is
anchored on the last selected element `r[-1]`, not on `stop + 1`), and records the reversal. -/
theorem C12_h5_negative_step_slice (n : Nat) (a b : Option Int) (c : Int) (hc : c < 0) :
    ∃ x y k, (vsAxis n (.slice a b (some c))).1 = .slice x y k ∧ (∀ v, k = some v → 0 < v) ∧
      (vsAxis n (.slice a b (some c))).2 = .rev ∧
      slicePositions x y k n = (slicePositions a b (some c) n).reverse :=
  vsAxis_neg_slice n a b c hc

/-- Non-vacuity, every residue of `start - stop - 1` modulo `|step| = 3`: `8:1:-3`, `8:0:-3`,
`8::-3` and `7:0:-3` on an axis of 10, and an empty selection. -/
example : (vsAxis 10 (.slice (some 8) (some 1) (some (-3)))).1 = .slice (some 2) (some 9) (some 3) ∧
    (vsAxis 10 (.slice (some 8) (some 0) (some (-3)))).1 = .slice (some 2) (some 9) (some 3) ∧
    (vsAxis 10 (.slice (some 8) none (some (-3)))).1 = .slice (some 2) (some 9) (some 3) ∧
    (vsAxis 10 (.slice (some 7) (some 0) (some (-3)))).1 = .slice (some 1) (some 8) (some 3) ∧
    (vsAxis 10 (.slice (some 2) (some 5) (some (-1)))).1 = .slice (some 0) (some 0) none := by decide

/-- The variant `slice(stop + 1, start + 1, -step)` reads other elements whenever `|step|` does not
divide `start - stop - 1`: `8:0:-3` selects 8, 5, 2; the variant reads 1, 4, 7. -/
theorem C12_h5_wrong_anchor_counterexample :
    natPositions 10 (.slice (some 8) (some 0) (some (-3))) = [8, 5, 2] ∧
    natPositions 10 (vsAxis 10 (.slice (some 8) (some 0) (some (-3)))).1 = [2, 5, 8] ∧
    natPositions 10 (vsAxisWrong 10 (.slice (some 8) (some 0) (some (-3)))).1 = [1, 4, 7] := by decide

/-- **One axis of `_variable_subspace`**, every size and every well-formed selector (slice with any
start / stop / non-zero step, list with any order, repeats and negative entries): h5py — which takes
only positive steps and strictly increasing in-range lists — accepts what it is handed; the
`reorder` entry applied to what comes back yields exactly the positions of the original selector in
the original order; and what h5py is asked for is exactly the distinct requested positions in
storage order (so the library reads "only that part", each element once). -/
theorem C12_h5_variable_subspace_axis (n : Nat) (s : Sel) (hwf : s.wf n = true) :
    h5Accepts n (vsAxis n s).1 = true ∧
    (reorderPs (natPositions n (vsAxis n s).1).length (vsAxis n s).2).map
        (fun j => (natPositions n (vsAxis n s).1).getD j 0) = natPositions n s ∧
    natPositions n (vsAxis n s).1 = H5Index.unique (natPositions n s) := by
  have h := vsAxis_spec n s hwf
  exact ⟨h.1, h.2.2.2.1, h.2.2.2.2.2⟩

example : (Sel.list [3, -4, 3, 7, 0]).wf 10 = true ∧
    vsAxis 10 (.list [3, -4, 3, 7, 0]) = (.list [0, 3, 6, 7], .inv [1, 2, 1, 3, 0]) := by decide

/-- **`_variable_subspace`, N dimensions**: for every array, rank and well-formed index with at most
one list axis (all that `_index` hands it for an h5py variable) the strict h5py accepts the
translated index and the reordered result is the orthogonal selection `takeAll A ps`. -/
theorem C12_h5_variable_subspace (A : Arr α) (sels : List Sel) (hwf : selsWf A.shape sels = true)
    (h1 : (listAxes sels).length ≤ 1) :
    ∃ B, variableSubspace A sels = .ok B ∧ EqvIn B (takeAll A (positionsNat A.shape sels)) :=
  variableSubspace_spec A sels hwf h1

/-- Non-vacuity: `v[::-2, [3, 1, 3]]` on a 4 x 5 variable. -/
example : selsWf [4, 5] [.slice none none (some (-2)), .list [3, 1, 3]] = true ∧
    (listAxes [.slice none none (some (-2)), .list [3, 1, 3]]).length ≤ 1 ∧
    content (variableSubspace (iota [4, 5]) [.slice none none (some (-2)), .list [3, 1, 3]]) =
      some ([2, 3], [18, 16, 18, 8, 6, 8]) ∧
    h5Reads [4, 5] [.slice none none (some (-2)), .list [3, 1, 3]] = [[1, 3], [1, 3]] := by decide

/-- **The whole of `netcdf_indexer._index` on an h5py variable never refuses and returns the
orthogonal selection** — any number of list axes, any order, repeats, negative steps.  This is what
the abstract backend `h5` of the history model assumes (`h5.strict = false`, `indexBackend h5`). -/
theorem C12_h5_index_refines (A : Arr α) (sels : List Sel) (hwf : selsWf A.shape sels = true) :
    ∃ B, indexH5 A sels = .ok B ∧ EqvIn B (indexBackend h5 A sels) ∧
      EqvIn B (takeAll A (positionsNat A.shape sels)) :=
  indexH5_spec A sels hwf

example : selsWf [3, 4, 2] [.list [2, 0], .list [3, 3, 1], .slice none none (some (-1))] = true ∧
    content (indexH5 (iota [3, 4, 2]) [.list [2, 0], .list [3, 3, 1], .slice none none (some (-1))]) =
      some ([2, 3, 2], [23, 22, 23, 22, 19, 18, 7, 6, 7, 6, 3, 2]) := by decide

/-- What the library is asked for: on every axis the distinct requested positions, increasing. -/
theorem C12_h5_reads_sorted_distinct (shape : List Nat) (sels : List Sel) (hwf : selsWf shape sels = true)
    (h1 : (listAxes sels).length ≤ 1) :
    h5Reads shape sels = (positionsNat shape sels).map H5Index.unique := by
  unfold h5Reads
  simp only [h1, if_true]
  exact vsIndex_reads shape sels hwf

/-- The code before the repair handed the index to h5py as it was: a reversed slice, an unsorted list
and a repeated list are refused, the repaired `_variable_subspace` serves them. -/
theorem C12_h5_old_index_counterexample :
    content (indexH5Old (iota [4]) [.slice none none (some (-1))]) = none ∧
    content (indexH5Old (iota [4]) [.list [2, 0]]) = none ∧
    content (indexH5Old (iota [4]) [.list [1, 1]]) = none ∧
    content (indexH5Old (iota [4]) [.list [-3, -1]]) = some ([2], [1, 3]) ∧
    content (indexH5 (iota [4]) [.slice none none (some (-1))]) = some ([4], [3, 2, 1, 0]) ∧
    content (indexH5 (iota [4]) [.list [2, 0]]) = some ([2], [2, 0]) ∧
    content (indexH5 (iota [4]) [.list [1, 1]]) = some ([2], [1, 1]) := by decide

/-! ### Data types: lazy data advertise the type of the values they deliver -/

section DtypeSection
open Cfdm.Dtype

/-- **`Data.dtype` of lazy data is the data type of the fetched array** — for every stored type,
every combination of `scale_factor` / `add_offset` types (present or absent, neutral value or
not), `_Unsigned` or not, every variable role and `cfdm.read(unpack=True|False)`: what
`_create_netcdfarray` / `_unpacked_dtype` (as repaired by a007f9a) records at read time equals what
`netcdf_indexer.__getitem__` delivers.  So bringing data into memory cannot change `dtype`, and with
it neither `equals` nor the type a later `cfdm.write` chooses. -/
theorem C12_dtype_consistent (unpackOn : Bool) (v : Var) : advertised unpackOn v = delivered unpackOn v := by
  obtain ⟨vt, sc, off, un, isd⟩ := v
  cases unpackOn
  · rfl
  · cases sc with
    | none =>
      cases off with
      | none => simp [advertised, delivered, unpack, Var.packed]
      | some a => obtain ⟨adt, an⟩ := a; cases an <;> simp [advertised, delivered, unpack, Var.packed]
    | some s =>
      obtain ⟨sdt, sn⟩ := s
      cases off with
      | none => cases sn <;> simp [advertised, delivered, unpack, Var.packed]
      | some a =>
        obtain ⟨adt, an⟩ := a
        cases sn <;> cases an <;> simp [advertised, delivered, unpack, Var.packed]

/-- Non-vacuity: int32 packed with float32 attributes (→ float64), an `_Unsigned` int16
(→ uint16), neutral packing of float64 with a float32 scale factor (→ float32, netCDF4-python's
rule), a packed coordinate variable, and the order-dependent promotion int16 · uint16 + float32. -/
example : delivered true ⟨.i4, some ⟨.f4, false⟩, some ⟨.f4, false⟩, false, true⟩ = .f8 ∧
    delivered true ⟨.i2, none, none, true, true⟩ = .u2 ∧
    delivered true ⟨.f8, some ⟨.f4, true⟩, none, false, true⟩ = .f4 ∧
    delivered true ⟨.i2, some ⟨.f4, false⟩, none, false, false⟩ = .f4 ∧
    delivered true ⟨.i2, some ⟨.u2, false⟩, some ⟨.f4, false⟩, false, true⟩ = .f8 ∧
    delivered false ⟨.i2, some ⟨.f4, false⟩, none, true, true⟩ = .i2 := by decide

/-- FULL STATEMENT for the code before a007f9a (false, see `C12_dtype_old_counterexamples`):
    `∀ unpackOn v, advertisedOld unpackOn v = delivered unpackOn v`.
PROVED for the variables on which `_create_netcdfarray` as it was coded then is right — not unpacking, or: no
`_Unsigned` view, and no packing or non-neutral packing of a field's DATA variable whose three types
are not one of the order-dependent promotions. -/
theorem C12_dtype_old_partial (unpackOn : Bool) (v : Var) (h : v.oldConsistent unpackOn = true) :
    advertisedOld unpackOn v = delivered unpackOn v := by
  obtain ⟨vt, sc, off, un, isd⟩ := v
  cases unpackOn
  · simp [advertisedOld, delivered]
  · have hview : (Var.mk vt sc off un isd).viewed = vt := by
      simp only [Var.oldConsistent, Bool.not_true, Bool.false_or, Bool.and_eq_true, Bool.or_eq_true,
        Bool.not_eq_true', bne_iff_ne, ne_eq] at h
      simp only [Var.viewed]
      rcases h.1 with h1 | h1
      · simp [h1]
      · have : (vt.kind == Kind.int) = false := by simpa using h1
        simp [this]
    simp only [delivered, if_true, hview]
    cases sc with
    | none =>
      cases off with
      | none => simp [advertisedOld, unpack, Var.packed]
      | some a =>
        obtain ⟨adt, an⟩ := a
        cases isd <;> cases an <;>
          simp [Var.oldConsistent, Var.packed] at h <;>
          simp [advertisedOld, unpack, Var.packed, Var.values, resultTypeL]
    | some s =>
      obtain ⟨sdt, sn⟩ := s
      cases off with
      | none =>
        cases isd <;> cases sn <;>
          simp [Var.oldConsistent, Var.packed] at h <;>
          simp [advertisedOld, unpack, Var.packed, Var.values, resultTypeL]
      | some a =>
        obtain ⟨adt, an⟩ := a
        have hsw : exotic vt sdt adt = false → resultType vt (resultType adt sdt) = resultType (resultType vt sdt) adt :=
          resultType_swap vt sdt adt
        cases isd <;> cases sn <;> cases an <;>
          simp [Var.oldConsistent, Var.packed] at h <;>
          simp [advertisedOld, unpack, Var.packed, Var.values, resultTypeL] <;>
          exact hsw (by simpa using h.2)

example : (Var.mk .i2 (some ⟨.f4, false⟩) (some ⟨.f8, false⟩) false true).oldConsistent true = true ∧
    (Var.mk .f4 none none true false).oldConsistent true = true := by decide

/-- None of the hypotheses of `C12_dtype_old_partial` can be dropped (the four findings repaired by a007f9a): a packed
COORDINATE variable advertises the packed type; an `_Unsigned` variable advertises the signed type;
neutral packing delivers the type of the attribute while the promoted type is advertised; and
int16 · uint16 + float32 is promoted in another order than the arithmetic. -/
theorem C12_dtype_old_counterexamples :
    (advertisedOld true ⟨.i2, some ⟨.f4, false⟩, none, false, false⟩ = .i2 ∧
      delivered true ⟨.i2, some ⟨.f4, false⟩, none, false, false⟩ = .f4) ∧
    (advertisedOld true ⟨.i2, none, none, true, true⟩ = .i2 ∧ delivered true ⟨.i2, none, none, true, true⟩ = .u2) ∧
    (advertisedOld true ⟨.f8, some ⟨.f4, true⟩, none, false, true⟩ = .f8 ∧
      delivered true ⟨.f8, some ⟨.f4, true⟩, none, false, true⟩ = .f4) ∧
    (advertisedOld true ⟨.i2, some ⟨.u2, false⟩, some ⟨.f4, false⟩, false, true⟩ = .f4 ∧
      delivered true ⟨.i2, some ⟨.u2, false⟩, some ⟨.f4, false⟩, false, true⟩ = .f8) := by decide

/-- The promotion that decides the unpacked type: `np.result_type(a, b)` is symmetric, an upper
bound of both types in numpy's safe-cast order and a minimal one; it is associative except on the
triples {float32, uint16, int8|int16}, where it is not. -/
theorem C12_dtype_promotion (a b : DT) :
    resultType a b = resultType b a ∧ safeCast a (resultType a b) = true ∧ safeCast b (resultType a b) = true ∧
    (∀ c, safeCast a c = true → safeCast b c = true → safeCast c (resultType a b) = true → c = resultType a b) ∧
    (∀ c, exotic a b c = false → resultType (resultType a b) c = resultType a (resultType b c)) :=
  ⟨resultType_comm a b, (resultType_minimal_upper a b).1, (resultType_minimal_upper a b).2.1,
    (resultType_minimal_upper a b).2.2, fun c h => resultType_assoc a b c h⟩

example : resultType (resultType .i2 .u2) .f4 = .f8 ∧ resultType .i2 (resultType .u2 .f4) = .f4 ∧
    exotic .i2 .u2 .f4 = true ∧ exotic .i4 .f4 .f8 = false := by decide

end DtypeSection

/-! ### The code before the patches -/

/-- h5netcdf as it was coded: a reversed subspace of file data raises although eager access (and
the same subspace after `to_memory`) succeeds — so neither "lazy = eager" nor "to_memory changes no
later result" held — and the failed access leaves its dataset open. -/
theorem C12_h5_old_counterexample :
    let st : Store Nat := fun _ => iota [3]
    let w : World Nat := { heap := [.disk ⟨0, 0⟩ [3]], log := [], handles := 0 }
    (run h5Old st w [.subspace 0 [.slice none none (some (-1))]]).2 = [.raised .backend] ∧
    (erun [iota [3]] [.subspace 0 [.slice none none (some (-1))], .array 1]).2 = [.handle 1, .values [3] [2, 1, 0]] ∧
    (run h5Old st w [.toMemory 0 true, .subspace 0 [.slice none none (some (-1))], .array 1]).2 =
      [.none, .handle 1, .values [3] [2, 1, 0]] ∧
    (run h5Old st w [.subspace 0 [.slice none none (some (-1))]]).1.handles = 1 ∧
    (run h5 st w [.subspace 0 [.slice none none (some (-1))], .array 1]).2 = [.handle 1, .values [3] [2, 1, 0]] := by
  decide

/-- Both backends as they were coded: an access that raises (here an out-of-range list index) never
reaches `close`. -/
theorem C12_old_getitem_leaks_counterexample :
    (run nc4Old (fun _ => iota [4]) { heap := [AState.disk ⟨0, 0⟩ [4]], log := [], handles := 0 }
      [Op.subspace 0 [.list [0, 9]]]).1.handles = 1 ∧
    (run nc4 (fun _ => iota [4]) { heap := [AState.disk ⟨0, 0⟩ [4]], log := [], handles := 0 }
      [Op.subspace 0 [.list [0, 9]]]).1.handles = 0 := by decide

end Cfdm.Props.C12
