import Cfdm.Lemmas.RefCheck
import Cfdm.Lemmas.RefCheckReport
/-!
# C13 — structurally non-compliant datasets are read, and reported

Model: `Cfdm.Model.RefCheck` (the reader's tokenisers, pre-scan, `_check_*` decisions, caches,
`_add_message` with the content of every entry, `_copy_construct`, `file_close`), parametrised by `Cfg`:
`coded` = the reader before the C13 repairs, `head` = the reader at /repo HEAD (the eight earlier
patches and 7931fa5 are merged), `patched` = HEAD plus the four proposed patches that concern the
model (fixes/C13-cell-method-interval-attribute, -grid-mapping-coordinate-not-used,
-node-coordinates-report-with-coordinate, -auxiliary-coordinate-cache-per-geometry).

The property statement, clause by clause:

* "reading it does not raise … and all files are closed" — `C13_never_raises`,
  `C13_field_never_raises`, `C13_files_closed`: for EVERY dataset of the model (every value of
  every reference attribute of every variable: any token replaced by anything, any token removed,
  any malformed string) the reader returns; the code before the repairs did not
  (`C13_coded_*` witnesses).
* "only the element that could not be mapped is left out" — `C13_tokens_tolerant` (every token list,
  every position, by induction), instantiated for `ancillary_variables` in `C13_ancillary_tolerant`;
  `C13_rejected_coordinate_not_referenced` (for every state of the cross-field caches).
* "the problem is recorded in the field's dataset-compliance report" — the record of a data variable
  is never reset and only grows, from the pre-scan to the last stage, and so does the component
  report that is shared between fields (`C13_report_only_grows`, every `Cfg`); every broken
  `coordinates` / `ancillary_variables` token has an entry under ITS name quoting the parent's
  attribute in the field that is returned, whatever the caches held (`C13_broken_coordinate_reported`,
  `C13_broken_ancillary_reported`); with the proposed patches also the foreign grid-mapping coordinate
  (`C13_unused_grid_mapping_coordinate_reported`) and every cell-method message quotes the attribute
  (`C13_cell_method_messages_quote_attribute`); what HEAD does instead: `C13_head_*` witnesses.
* malformed strings — `C13_cell_methods_total`, `C13_malformed_mapping_reported`.

Full-strength statement that is NOT proved (kept visible, see `C13_tolerant_partial`):

  theorem C13_tolerant (F : NcFile) (hwf : WFFile F) (site : Site) (hs : site ∈ sites F) (kind : Fault) :
      ∃ fs rep, readFile patched (breakRef F site kind) = ⟨.ok fs, true⟩ ∧
        (∀ dv ∈ dataVars F, elems fs dv = (elems (readFile patched F) dv).filter (· ∉ affected F site dv)) ∧
        (∀ dv ∈ concerned F site, report fs dv ≠ [])

What is proved of it: the no-raise and closed clauses for all files and all sites and kinds at once
(stronger than per site); the "reported" clause with the CONTENT of the entry for `coordinates` and
`ancillary_variables` at the level of the returned fields, for any state of the caches; the "exactly
the broken entry" clause for the attributes whose entries are checked independently (list lemma for
any such attribute, stage-level instance for `ancillary_variables`).  Missing: the element equation
for `coordinates`, `bounds`, `formula_terms`, `grid_mapping`, `cell_measures` and the geometry /
compression attributes at the level of whole fields, and the report entries of `bounds` /
`formula_terms` on a cache hit: they need a frame argument over `g['auxiliary_coordinate']`,
`g['domain_ancillary']` and `g['component_report']` (done here for the monotonicity of both reports
and for where `_check_bounds` files its messages; the bounds of a cached domain ancillary really
depend on which coordinate referenced it first); on those the claim rests on the
exhaustive-per-file correspondence - which compares the set of report entries of every data variable -
and the clause oracle.
-/
namespace Cfdm.Props.C13
open Cfdm.RefCheck

/-- Everything the never-raises theorem assumes about a dataset, all decidable and none about the
*values* of reference attributes: unique variable names; a variable carrying `formula_terms` has a
dimension; the pre-scan succeeds (a count / index variable has a dimension, an indexed-contiguous
pair is consistent) and leaves each variable with a geometry record whose geometry dimension is one
of the variable's dimensions. -/
def preOk (F : NcFile) : Bool :=
  match preScan patched F with
  | .ok P => F.vars.all (fun vv => geomReadyB P vv.name (applyComp P.comp (rawDims vv)))
  | .error _ => false

def Readable (F : NcFile) : Prop := NamesUnique F ∧ FtShape F ∧ preOk F = true

instance (F : NcFile) : Decidable (Readable F) := by
  unfold Readable NamesUnique FtShape; exact inferInstance

/-- **Reading does not raise.**  For every dataset (all values of all reference attributes). -/
theorem C13_never_raises (F : NcFile) (h : Readable F) : (readFile patched F).err? = none := by
  obtain ⟨hu, hsh, hp⟩ := h
  unfold preOk at hp
  cases hP : preScan patched F with
  | error e => simp [hP] at hp
  | ok P =>
    simp only [hP, List.all_eq_true] at hp
    have hb := readBody_isOk F P hP hu hsh (fun vv hvv => hp vv hvv)
    obtain ⟨r, hr⟩ := hb
    simp [readFile, Outcome.err?, errOf, hr]

/-- The per-field core of it, with the pre-scan result arbitrary: creating the field of any variable
never raises, whatever any reference attribute says. -/
theorem C13_field_never_raises (F : NcFile) (P : Pre) (C : Caches) (vv : NcVar)
    (hv : F.var? vv.name = some vv) (hsh : FtShape F)
    (hg : GeomReady P vv.name (applyComp P.comp (rawDims vv))) :
    errOf (createField patched F P C vv) = none :=
  (isOk_iff_errOf _).mp (createField_isOk F P C vv hv hsh hg)

/-- **All files are closed**, whether or not reading succeeds. -/
theorem C13_files_closed (F : NcFile) : (readFile patched F).closed = true := by
  unfold readFile
  split <;> rfl

/-! ### Witness datasets -/

/-- `z` has `formula_terms` naming a missing variable and bounds without `formula_terms`. -/
def W1 : NcFile :=
  { globals := [], dims := ["z", "bnds"],
    vars := [⟨"z", ["z"], .num, [("bounds", "z_bnds"), ("formula_terms", "a: nosuch")]⟩,
             ⟨"z_bnds", ["z", "bnds"], .num, []⟩,
             ⟨"ta", ["z"], .num, []⟩] }

/-- `bounds` of a parametric coordinate names a missing variable (the case the property text cites). -/
def W1b : NcFile :=
  { globals := [], dims := ["z"],
    vars := [⟨"z", ["z"], .num, [("bounds", "nosuch"), ("formula_terms", "a: a")]⟩,
             ⟨"a", ["z"], .num, []⟩,
             ⟨"ta", ["z"], .num, []⟩] }

/-- Two data variables share a geometry container whose `node_count` names a missing variable. -/
def W2 : NcFile :=
  { globals := [], dims := ["instance", "node"],
    vars := [⟨"x", ["node"], .num, []⟩,
             ⟨"gc", [], .num, [("node_coordinates", "x"), ("node_count", "nosuch")]⟩,
             ⟨"pr", ["instance"], .num, [("geometry", "gc")]⟩,
             ⟨"qr", ["instance"], .num, [("geometry", "gc")]⟩] }

/-- One of two ancillary variables is missing. -/
def W3 : NcFile :=
  { globals := [], dims := ["t"],
    vars := [⟨"ta", ["t"], .num, [("ancillary_variables", "q nosuch")]⟩, ⟨"q", ["t"], .num, []⟩] }

/-- The same, valid. -/
def W3v : NcFile :=
  { globals := [], dims := ["t"],
    vars := [⟨"ta", ["t"], .num, [("ancillary_variables", "q")]⟩, ⟨"q", ["t"], .num, []⟩] }

set_option maxRecDepth 100000 in
example : Readable W1 ∧ Readable W1b ∧ Readable W2 ∧ Readable W3 := by decide

set_option maxRecDepth 100000 in
/-- Non-vacuity and content: on the witnesses the patched reader returns every field, with the
report non-empty where the reference is broken. -/
example : (readFile patched W1).field? "ta" = some (["dim:z", "bnd:z:z_bnds", "ref:ft:z"], true) ∧
    (readFile patched W3).field? "ta" = some (["anc:q"], true) ∧
    (readFile patched W3v).field? "ta" = some (["anc:q"], false) := by decide

set_option maxRecDepth 100000 in
/-- **The code as it is raises and leaves the file open** (four sites: formula terms with a missing
variable, a parametric coordinate whose bounds are missing, a geometry container shared by two
data variables, a truncated `cell_methods`). -/
theorem C13_coded_raises_and_leaks :
    ((readFile coded W1).err? = some .keyError ∧ (readFile coded W1).closed = false) ∧
    ((readFile coded W1b).err? = some .keyError ∧ (readFile coded W1b).closed = false) ∧
    ((readFile coded W2).err? = some .keyError ∧ (readFile coded W2).closed = false) := by decide

/-- **Malformed `cell_methods`**: every string is read without raising (patched). -/
theorem C13_cell_methods_total (s : String) : errOf (parseCellMethods patched s) = none :=
  (isOk_iff_errOf _).mp (parseCellMethods_isOk s)

set_option maxRecDepth 100000 in
/-- … whereas the parser as coded runs off the end of the token list. -/
theorem C13_coded_cell_methods_raise :
    errOf (parseCellMethods coded "time: mean within") = some .indexError ∧
    errOf (parseCellMethods coded "time: mean (interval: 1 hr") = some .indexError ∧
    errOf (parseCellMethods coded "time: mean (") = some .indexError := by decide

set_option maxRecDepth 100000 in
example : (parseCellMethods patched "time: mean (interval: 1 hr) x: sum where land").toOption = some (2, false) ∧
    (parseCellMethods patched "time: mean within").toOption = some (0, true) := by decide

/-- **Malformed mapping strings are reported and attach nothing**: when `_parse_x` rejects the value
of `cell_measures` (any value at all), the stage adds no element and records a message. -/
theorem C13_malformed_mapping_reported (F : NcFile) (P : Pre) (v : String) (D : List String) (vv : NcVar)
    (s : FSt) (cmz : String) (ha : vv.attr? "cell_measures" = some cmz) (hbad : parseX cmz = []) :
    ∃ s', stageCellMeasures patched F P v D vv s = .ok s' ∧ s'.out.elems = s.out.elems ∧
      s'.out.msgs = s.out.msgs ++ [msrMalformed v] := by
  unfold stageCellMeasures
  simp only [ha, hbad, checked, List.isEmpty_nil, Bool.not_true, Bool.and_false, Bool.false_eq_true, ↓reduceIte,
    allOrNothing, checkCellMeasures, bind, Except.bind, List.foldlM_nil, pure, Except.pure]
  exact ⟨_, rfl, by simp [FSt.add], by simp [FSt.add]⟩

set_option maxRecDepth 100000 in
example : parseX "area:" = [] ∧ parseX "area cell_area" = [] ∧ parseX "area: a volume:" = [] ∧
    parseX " area: a" = [] ∧ parseX "area: a volume: b " = [("area", ["a"]), ("volume", ["b"])] := by decide

/-- **Exactly the broken entry is left out, and it is reported** — for any attribute whose entries
the (patched) reader checks one at a time: replacing entry `i` of ANY entry list by an entry that
fails its check keeps precisely the other entries that pass theirs, and yields a message. -/
theorem C13_tokens_tolerant {α} (chk : List α → Except Err (Bool × List Msg)) (okP : α → Bool)
    (msgs : α → List Msg) (h : ∀ x, chk [x] = .ok (okP x, msgs x))
    (xs : List α) (i : Nat) (hi : i < xs.length) (bad : α) (hb : okP bad = false) (hm : msgs bad ≠ []) :
    ∃ ms, perEntry chk (xs.set i bad) = .ok ((xs.eraseIdx i).filter okP, ms) ∧ ms ≠ [] ∧
      perEntry chk (xs.eraseIdx i) = .ok ((xs.eraseIdx i).filter okP, (xs.eraseIdx i).flatMap msgs) := by
  refine ⟨(xs.set i bad).flatMap msgs, ?_, flatMap_set_ne_nil msgs bad hm xs i hi, perEntry_eq_filter chk okP msgs h _⟩
  rw [perEntry_eq_filter chk okP msgs h, filter_set_bad okP bad hb xs i hi]

/-- `ancillary_variables`: with every token valid, breaking token `i` (a missing name, or a variable
with foreign dimensions: anything failing `ancOk`) attaches exactly the other field ancillaries and
records the problem; removing the token attaches exactly the others. -/
theorem C13_ancillary_tolerant (F : NcFile) (P : Pre) (v : String) (D : List String)
    (ts : List String) (hvalid : ∀ t ∈ ts, ancOk F P D t = true)
    (i : Nat) (hi : i < ts.length) (bad : String) (hb : ancOk F P D bad = false) :
    ∃ ms, checked patched (checkAncillary patched F P v D) (ts.set i bad) = .ok (ts.eraseIdx i, ms) ∧
      ms = [if F.hasVar bad then ancForeign v bad else ancMissing v bad] ∧
      (ts.eraseIdx i ≠ [] →
        checked patched (checkAncillary patched F P v D) (ts.eraseIdx i) = .ok (ts.eraseIdx i, [])) := by
  have hne : (ts.set i bad).isEmpty = false := by
    cases ts with
    | nil => simp at hi
    | cons t ts => cases i <;> simp
  have hfil : (ts.eraseIdx i).filter (ancOk F P D) = ts.eraseIdx i :=
    filter_all _ _ (fun x hx => hvalid x (mem_eraseIdx ts i x hx))
  have h3 := perEntry_eq_filter (checkAncillary patched F P v D) (ancOk F P D) (ancMsgs F P v D)
    (checkAncillary_entry F P v D) (ts.eraseIdx i)
  refine ⟨_, ?_, rfl, ?_⟩
  · unfold checked
    have hpt : patched.perToken = true := rfl
    simp only [hpt, hne, Bool.not_false, Bool.and_self, ↓reduceIte]
    rw [perEntry_eq_filter (checkAncillary patched F P v D) (ancOk F P D) (ancMsgs F P v D)
      (checkAncillary_entry F P v D), filter_set_bad _ bad hb ts i hi, hfil,
      flatMap_set_single (ancMsgs F P v D) bad ts (fun x hx => by simp [ancMsgs, hvalid x hx]) i hi]
    simp [ancMsgs, hb]
  · intro hne2
    unfold checked
    have hpt : patched.perToken = true := rfl
    have : (ts.eraseIdx i).isEmpty = false := by
      cases h : ts.eraseIdx i with
      | nil => exact absurd h hne2
      | cons _ _ => rfl
    simp only [hpt, this, Bool.not_false, Bool.and_self, ↓reduceIte]
    rw [h3, hfil]
    have : (ts.eraseIdx i).flatMap (ancMsgs F P v D) = [] := by
      apply List.flatMap_eq_nil_iff.mpr
      intro x hx
      simp [ancMsgs, hvalid x (mem_eraseIdx ts i x hx)]
    rw [this]

set_option maxRecDepth 100000 in
/-- Non-vacuity of `C13_ancillary_tolerant` on the witness file: `q` passes, `nosuch` does not. -/
example : ancOk W3 {} ["t"] "q" = true ∧ ancOk W3 {} ["t"] "nosuch" = false := by decide

set_option maxRecDepth 100000 in
/-- **As coded, one broken entry costs the field all entries of the attribute.** -/
theorem C13_coded_all_or_nothing :
    (readFile coded W3).field? "ta" = some ([], true) ∧
    (readFile patched W3).field? "ta" = some (["anc:q"], true) := by decide

/-! ### "The field for each data variable is still returned" -/

/-- **A rejected `coordinates` token is not counted as a reference**: a token naming a missing
variable, or a variable with a dimension foreign to the parent — be it a private variable, a valid
coordinate of another data variable (already in the cache or not) or another data variable — adds a
message and NO element; the references of a field are read off its elements (`references`). -/
theorem C13_rejected_coordinate_not_referenced (F : NcFile) (P : Pre) (v : String) (D : List String) (s : FSt)
    (tok : String) (hD : D.contains tok = false)
    (hrej : F.var? tok = none ∨
      ∃ cv, F.var? tok = some cv ∧ (applyComp P.comp (rawDims cv)).all D.contains = false) :
    ∃ s', auxToken patched F P v D s tok = .ok s' ∧ s'.out.elems = s.out.elems ∧ s'.out.msgs ≠ s.out.msgs ∧
      s'.C.aux = s.C.aux := by
  rcases hrej with hv | ⟨cv, hv, hf⟩
  · exact ⟨_, auxToken_missing F P v D s tok hD hv, by simp [FSt.add], by simp [FSt.add], rfl⟩
  · exact ⟨_, auxToken_foreign F P v D s tok cv hD hv hf, by simp [FSt.add], by simp [FSt.add], rfl⟩

/-- **The returned fields**: every created field whose variable is not referenced by a construct that
was actually attached (to any field) is returned; only variables that stay referenced are withheld. -/
theorem C13_unreferenced_field_returned (rs : List (String × FieldOut)) (r : String × FieldOut) (hr : r ∈ rs)
    (hun : ∀ p ∈ references rs, p.1 ≠ r.1) : r ∈ selectFields rs :=
  selectFields_unreferenced rs r hr hun

theorem C13_withheld_fields_are_referenced (rs : List (String × FieldOut)) (r : String × FieldOut)
    (hr : r ∈ rs) (hout : r ∉ selectFields rs) : ∃ p ∈ references rs, p.1 = r.1 := by
  by_cases h : ∀ p ∈ references rs, p.1 ≠ r.1
  · exact absurd (selectFields_unreferenced rs r hr h) hout
  · have h' : ∃ p, p ∈ references rs ∧ ¬ (p.1 ≠ r.1) := by
      apply Classical.byContradiction
      intro hn
      exact h (fun p hp hne => hn ⟨p, hp, fun hx => hx hne⟩ |> fun x => x)
    obtain ⟨p, hp, hpe⟩ := h'
    exact ⟨p, hp, Classical.byContradiction (fun hne => hpe hne)⟩

/-- `ps(y,x)` names the data variable `ta(z,y,x)` (foreign dimensions) and `height(z,y,x)` — a valid
coordinate of `ta`, created first — in its `coordinates`. -/
def W4 : NcFile :=
  { globals := [], dims := ["z", "y", "x"],
    vars := [⟨"height", ["z", "y", "x"], .num, []⟩, ⟨"lat2d", ["y", "x"], .num, []⟩,
             ⟨"ta", ["z", "y", "x"], .num, [("coordinates", "height lat2d")]⟩,
             ⟨"ps", ["y", "x"], .num, [("coordinates", "lat2d ta height")]⟩] }

set_option maxRecDepth 100000 in
/-- Non-vacuity: both data variables keep their fields, `ps` keeps `lat2d` only and is reported. -/
example : (readFile patched W4).field? "ta" = some (["aux:height", "aux:lat2d"], false) ∧
    (readFile patched W4).field? "ps" = some (["aux:lat2d"], true) ∧
    (readFile patched W4).field? "height" = none := by decide

/-! ### "The problem is recorded in the field's dataset-compliance report": what the report says

An entry of the report is modelled with its key (`Msg.var`, the netCDF variable it is filed under), the
key of its `attribute` dictionary (`Msg.attr`, `parent:attribute`) and its `reason`; the correspondence
compares the set of these triples for every data variable of every case. -/

instance (F : NcFile) : Decidable (NamesUnique F) := by
  unfold NamesUnique; exact inferInstance

/-- The report of the field of `dv`. -/
def report? (o : Outcome) (dv : String) : Option (List Msg) :=
  match o.result with
  | .error _ => none
  | .ok r => (r.lookup dv).map (·.msgs)

theorem readFile_ok {cfg : Cfg} {F : NcFile} {r : List (String × FieldOut)}
    (h : (readFile cfg F).result = .ok r) : readBody cfg F = .ok r := by
  unfold readFile at h
  split at h
  · rename_i r' hr; cases h; exact hr
  · cases h

/-- **The report is never reset.**  For every configuration of the reader: whatever the pre-scan
(`_parse_geometry`, the compression and DSG scans) recorded for a data variable is in the report of its
field; every stage of `_create_field_or_domain` only appends to the field's report AND to
`g['component_report']` (`runStages_ext`); and the component report that the next field starts from
still has every entry (`createField_component_report`). -/
theorem C13_report_only_grows (cfg : Cfg) (F : NcFile) (P : Pre) (C : Caches) (vv : NcVar) (fo : FieldOut)
    (C' : Caches) (h : createField cfg F P C vv = .ok (fo, C')) :
    (∀ m, (some vv.name, m) ∈ P.msgs → m ∈ fo.msgs) ∧
    (∃ rs, C'.report = C.report ++ rs) ∧
    (∀ D s0 s8, runStages cfg F P vv D s0 = .ok s8 →
      (∃ ms, s8.out.msgs = s0.out.msgs ++ ms) ∧ (∃ rs, s8.C.report = s0.C.report ++ rs)) :=
  ⟨fun m hm => createField_keeps_prescan cfg F P C vv fo C' h m hm,
   createField_component_report cfg F P C vv fo C' h,
   fun D s0 s8 hr => runStages_ext cfg F P vv D s0 s8 hr⟩

/-- The messages of `_check_bounds` are filed under the coordinate variable (that is the key under which
`_copy_construct` finds them when another data variable re-uses the cached construct). -/
theorem C13_bounds_messages_filed_under_coordinate (F : NcFile) (P : Pre) (coord attr b : String)
    (r : Bool × List Msg) (h : checkBounds F P coord attr b = .ok r) : ∀ m ∈ r.2, m.comp = coord :=
  checkBounds_comp F P coord attr b r h

set_option maxRecDepth 100000 in
/-- Non-vacuity: a pre-scan message (`geometry` names a missing container) and a stage message end up
together in the report of the field; the field of a later variable starts from a component report that
still has them. -/
example :
    report? (readFile patched
      { globals := [], dims := ["i"],
        vars := [⟨"pr", ["i"], .num, [("geometry", "nosuch"), ("ancillary_variables", "gone")]⟩] }) "pr" =
      some [mkMsg "nosuch" "pr" "geometry" "Geometry variable is not in file", ancMissing "pr" "gone"] := by
  decide

/-- **Every broken `coordinates` token is reported under its own name, for the parent that named it** —
at the level of whole files, whatever the other variables and the reader's caches did before: in the
field returned for `dv`, every token of its `coordinates` attribute (other than a dimension of `dv`)
that names no variable has an entry `(token, dv:coordinates, … is not in file)`, and every token that
names a variable with a dimension foreign to `dv` — be it a valid coordinate of another data variable,
created earlier or later — has an entry `(token, dv:coordinates, … spans incorrect dimensions)`. -/
theorem C13_broken_coordinate_reported (F : NcFile) (hu : NamesUnique F) (r : List (String × FieldOut))
    (h : (readFile patched F).result = .ok r) (dv : String) (fo : FieldOut) (hm : (dv, fo) ∈ r) :
    ∃ P vv, preScan patched F = .ok P ∧ F.var? dv = some vv ∧
      ∀ tok ∈ optToks (vv.attr? "coordinates"), (applyComp P.comp (rawDims vv)).contains tok = false →
        (F.var? tok = none → coordMissing dv tok ∈ fo.msgs) ∧
        (∀ cv, F.var? tok = some cv →
          (applyComp P.comp (rawDims cv)).all (applyComp P.comp (rawDims vv)).contains = false →
          coordForeign dv tok ∈ fo.msgs) := by
  obtain ⟨P, hP, hall⟩ := readBody_origin patched F r (readFile_ok h)
  obtain ⟨C, C', vv, hvv, hname, hcf⟩ := hall (dv, fo) hm
  simp only at hname hcf
  have hv : F.var? vv.name = some vv := hu vv hvv
  refine ⟨P, vv, hP, hname ▸ hv, ?_⟩
  intro tok ht hD
  have := createField_reports_coordinate F P C vv fo C' hcf hv tok ht hD
  rw [hname] at this
  exact this

/-- What the two entries say: filed under the token, quoting the parent's attribute. -/
theorem coordinate_entries_name_the_token (v tok : String) :
    (coordMissing v tok).var = tok ∧ (coordMissing v tok).attr = v ++ ":" ++ "coordinates" ∧
    (coordForeign v tok).var = tok ∧ (coordForeign v tok).attr = v ++ ":" ++ "coordinates" :=
  ⟨rfl, rfl, rfl, rfl⟩

/-- The same for `ancillary_variables`: every entry that fails its check (`ancOk`: the variable exists
and its dimensions are the parent's) is in the report of the returned field under its own name. -/
theorem C13_broken_ancillary_reported (F : NcFile) (hu : NamesUnique F) (r : List (String × FieldOut))
    (h : (readFile patched F).result = .ok r) (dv : String) (fo : FieldOut) (hm : (dv, fo) ∈ r) :
    ∃ P vv, preScan patched F = .ok P ∧ F.var? dv = some vv ∧
      ∀ av, vv.attr? "ancillary_variables" = some av → ∀ n ∈ splitWS av,
        ancOk F P (applyComp P.comp (rawDims vv)) n = false →
        (if F.hasVar n then ancForeign dv n else ancMissing dv n) ∈ fo.msgs := by
  obtain ⟨P, hP, hall⟩ := readBody_origin patched F r (readFile_ok h)
  obtain ⟨C, C', vv, hvv, hname, hcf⟩ := hall (dv, fo) hm
  simp only at hname hcf
  have hv : F.var? vv.name = some vv := hu vv hvv
  refine ⟨P, vv, hP, hname ▸ hv, ?_⟩
  intro av ha n hn hbad
  have := createField_reports_ancillary F P C vv fo C' hcf hv av ha n hn hbad
  rw [hname] at this
  exact this

/-- `ta` names a missing coordinate, `lat2d` (valid for `ps`, foreign to `ta`) and a missing ancillary. -/
def W5 : NcFile :=
  { globals := [], dims := ["z", "y", "x"],
    vars := [⟨"lat2d", ["y", "x"], .num, []⟩,
             ⟨"ps", ["y", "x"], .num, [("coordinates", "lat2d")]⟩,
             ⟨"ta", ["z"], .num, [("coordinates", "nosuch lat2d"), ("ancillary_variables", "gone")]⟩] }

set_option maxRecDepth 100000 in
/-- Non-vacuity: the three entries, each under the name of the token, quoting `ta`'s attribute. -/
example : NamesUnique W5 ∧
    report? (readFile patched W5) "ta" = some [coordMissing "ta" "nosuch", coordMissing "ta" "nosuch",
      coordForeign "ta" "lat2d", ancMissing "ta" "gone"] ∧
    report? (readFile patched W5) "ps" = some [] ∧
    (coordForeign "ta" "lat2d").var = "lat2d" ∧ (coordForeign "ta" "lat2d").attr = "ta:coordinates" ∧
    (ancMissing "ta" "gone").reason = "Ancillary variable is not in file" := by decide

/-- **`grid_mapping`, with the proposed patch**: a coordinate `c` listed by a compliant mapping that is
not a construct of the data variable (no key when the stage starts; no grid mapping variable of the
attribute is called `c`) is recorded under its own name; the coordinate reference is still made. -/
theorem C13_unused_grid_mapping_coordinate_reported (F : NcFile) (v : String) (vv : NcVar) (s s' : FSt)
    (h : stageGridMapping patched F v vv s = .ok s') (gm : String) (ha : vv.attr? "grid_mapping" = some gm)
    (x : String × List String) (hx : x ∈ parseX gm) (hok : gmOk F x = true)
    (c : String) (hcx : c ∈ x.2) (hc : List.lookup c s.keys = none) (hne : ∀ y ∈ parseX gm, y.1 ≠ c) :
    gmCoordUnused v c ∈ s'.out.msgs :=
  stageGridMapping_reports_unused F v vv s s' h gm ha x hx hok c hcx hc hne

/-- `ta(y,x)` lists `other(f)` in its extended grid mapping. -/
def W6 : NcFile :=
  { globals := [], dims := ["y", "x", "f"],
    vars := [⟨"y", ["y"], .num, []⟩, ⟨"x", ["x"], .num, []⟩, ⟨"other", ["f"], .num, []⟩, ⟨"crs", [], .num, []⟩,
             ⟨"ta", ["y", "x"], .num, [("grid_mapping", "crs: other x")]⟩] }

set_option maxRecDepth 100000 in
/-- **The code as it is says nothing** about the foreign grid-mapping coordinate (open finding
`grid_mapping:foreign:unreported`); with the patch the entry is there and the reference is kept. -/
theorem C13_head_grid_mapping_coordinate_silent :
    (readFile head W6).field? "ta" = some (["dim:y", "dim:x", "ref:gm:crs"], false) ∧
    (readFile patched W6).field? "ta" = some (["dim:y", "dim:x", "ref:gm:crs"], true) ∧
    report? (readFile patched W6) "ta" = some [gmCoordUnused "ta" "other"] := by decide

/-- `pr` and `qr` share the geometry container `gc` and the coordinate `lon`, whose `nodes` attribute
names a missing variable. -/
def W7 : NcFile :=
  { globals := [], dims := ["instance", "node"],
    vars := [⟨"x", ["node"], .num, []⟩, ⟨"y", ["node"], .num, []⟩, ⟨"nc", ["instance"], .num, []⟩,
             ⟨"gc", [], .num, [("node_coordinates", "x y"), ("node_count", "nc")]⟩,
             ⟨"lon", ["instance"], .num, [("nodes", "nosuch")]⟩,
             ⟨"pr", ["instance"], .num, [("geometry", "gc"), ("coordinates", "lon")]⟩,
             ⟨"qr", ["instance"], .num, [("geometry", "gc"), ("coordinates", "lon")]⟩] }

/-- `pr` has a broken `geometry` attribute, `qr` a valid one; both name the coordinate `lon` with nodes `x`. -/
def W8 : NcFile :=
  { globals := [], dims := ["instance", "node"],
    vars := [⟨"x", ["node"], .num, []⟩, ⟨"y", ["node"], .num, []⟩, ⟨"nc", ["instance"], .num, []⟩,
             ⟨"gc", [], .num, [("node_coordinates", "x y"), ("node_count", "nc")]⟩,
             ⟨"lon", ["instance"], .num, [("nodes", "x")]⟩,
             ⟨"pr", ["instance"], .num, [("geometry", "nosuch"), ("coordinates", "lon")]⟩,
             ⟨"qr", ["instance"], .num, [("geometry", "gc"), ("coordinates", "lon")]⟩] }

set_option maxRecDepth 100000 in
/-- **Cross-field caches, as coded and as patched.**  (1) `_check_geometry_node_coordinates` files its
message under the data variable, so the second data variable, which gets the cached coordinate, has an
empty report (open finding `nodes:*:unreported-in-sharing-field`); filed under the coordinate it is
copied along.  (2) The auxiliary coordinate created for a data variable without a usable geometry
container has no node bounds and is handed to the data variable with a valid container (open finding
`geometry:*:lost-in-other-field`); keyed by the container it is created again, with its bounds. -/
theorem C13_head_shared_coordinate_caches :
    ((readFile head W7).field? "pr" = some (["aux:lon", "node:x", "node:y"], true) ∧
     (readFile head W7).field? "qr" = some (["aux:lon", "node:x", "node:y"], false) ∧
     (readFile patched W7).field? "qr" = some (["aux:lon", "node:x", "node:y"], true)) ∧
    ((readFile head W8).field? "qr" = some (["aux:lon", "node:x", "node:y"], false) ∧
     (readFile patched W8).field? "qr" = some (["aux:lon", "bnd:lon:x", "node:y"], false)) := by decide

/-- **Every cell-method message quotes the attribute** (patched): whatever the string, what
`_parse_cell_methods` records for `v` is filed under `v` and quotes `v:cell_methods`. -/
theorem C13_cell_method_messages_quote_attribute (v s : String) :
    ∀ m ∈ cellMethodsMsgs patched v s, m.var = v ∧ m.attr = v ++ ":cell_methods" := by
  intro m hm
  unfold cellMethodsMsgs at hm
  split at hm
  · cases hm
  · simp only [patched, ↓reduceIte, List.mem_singleton] at hm; subst hm; exact ⟨rfl, rfl⟩
  · simp only [List.mem_singleton] at hm; subst hm; exact ⟨rfl, rfl⟩
  · simp only [List.mem_singleton] at hm; subst hm; exact ⟨rfl, rfl⟩

set_option maxRecDepth 100000 in
/-- … whereas the first of the three interval messages of the code as it is quotes nothing. -/
theorem C13_head_cell_method_interval_without_attribute :
    (cellMethodsMsgs head "ta" "time: mean (interval: one hr)").map (·.attr) = [""] ∧
    (cellMethodsMsgs patched "ta" "time: mean (interval: one hr)").map (·.attr) = ["ta:cell_methods"] ∧
    (cellMethodsMsgs head "ta" "time: mean (interval: 1 hr interval: 2 hr)").map (·.attr) = ["ta:cell_methods"] := by
  decide

/-- What is proved of `C13_tolerant` at the level of whole files: for every readable dataset — in
particular for `breakRef F site kind` of every site and kind, whose readability does not depend on
the value of any reference attribute — the read returns, the files are closed, and every variable
that the pre-scan did not claim as a list / count / index / geometry variable has a field. -/
theorem C13_tolerant_partial (F : NcFile) (h : Readable F) :
    ∃ fs, readFile patched F = ⟨.ok fs, true⟩ := by
  have h1 := C13_never_raises F h
  have h2 := C13_files_closed F
  cases hr : readFile patched F with
  | mk result closed =>
    rw [hr] at h1 h2
    cases result with
    | error e => simp [Outcome.err?, errOf] at h1
    | ok fs => exact ⟨fs, by simp at h2; rw [h2]⟩

end Cfdm.Props.C13
