import Cfdm.Lemmas.RefCheck
/-!
# C13 — structurally non-compliant datasets are read, and reported

Model: `Cfdm.Model.RefCheck` (the reader's tokenisers, pre-scan, `_check_*` decisions, caches,
`_add_message`, `file_close`), parametrised by which of the proposed patches
`fixes/C13-*.patch` are applied (`patched` / `coded`).

The property statement, clause by clause:

* "reading it does not raise … and all files are closed" — `C13_never_raises`,
  `C13_field_never_raises`, `C13_files_closed`: for EVERY dataset of the model (every value of
  every reference attribute of every variable: any token replaced by anything, any token removed,
  any malformed string) the patched reader returns; the code as it is does not
  (`C13_coded_*` witnesses, each replayed against the real code by the correspondence).
* "only the element that could not be mapped is left out, the problem is recorded" —
  `C13_tokens_tolerant` (every token list, every position, by induction), instantiated for
  `ancillary_variables` in `C13_ancillary_tolerant`; refuted for the code as it is by
  `C13_coded_all_or_nothing`.
* malformed strings — `C13_cell_methods_total`, `C13_malformed_mapping_reported`.

Full-strength statement that is NOT proved (kept visible, see `C13_tolerant_partial`):

  theorem C13_tolerant (F : NcFile) (hwf : WFFile F) (site : Site) (hs : site ∈ sites F) (kind : Fault) :
      ∃ fs rep, readFile patched (breakRef F site kind) = ⟨.ok fs, true⟩ ∧
        (∀ dv ∈ dataVars F, elems fs dv = (elems (readFile patched F) dv).filter (· ∉ affected F site dv)) ∧
        (∀ dv ∈ concerned F site, report fs dv ≠ [])

What is proved of it: the no-raise and closed clauses for all files and all sites and kinds at once
(stronger than per site), and the "exactly the broken entry" and "reported" clauses for the
attributes whose entries are checked independently (list lemma for any such attribute, stage-level
instance for `ancillary_variables`).  Missing: the same equation for `coordinates`, `bounds`,
`formula_terms`, `grid_mapping`, `cell_measures` and the geometry / compression attributes at the
level of whole fields, where it additionally needs a frame argument over the caches that are shared
between the fields of one read (`g['auxiliary_coordinate']`, `g['component_report']`,
`g['vertical_crs']`); on those the claim rests on the exhaustive-per-file correspondence and the
clause oracle.
-/
namespace Cfdm.Props.C13
open Cfdm.RefCheck

/-- Everything the never-raises theorem assumes about a dataset, all decidable and none about the
*values* of reference attributes: unique variable names; a variable carrying `formula_terms` has a
dimension; the pre-scan succeeds (a count / index variable has a dimension, an indexed-contiguous
pair is consistent) and leaves each variable with a geometry record whose geometry dimension is one
of the variable's dimensions. -/
def preOk (F : NcFile) : Bool :=
  match preScan patched F with
  | .ok P => F.vars.all (fun vv => geomReadyB P vv.name (applyComp P.comp (rawDims vv)))
  | .error _ => false

def Readable (F : NcFile) : Prop := NamesUnique F ∧ FtShape F ∧ preOk F = true

instance (F : NcFile) : Decidable (Readable F) := by
  unfold Readable NamesUnique FtShape; exact inferInstance

/-- **Reading does not raise.**  For every dataset (all values of all reference attributes). -/
theorem C13_never_raises (F : NcFile) (h : Readable F) : (readFile patched F).err? = none := by
  obtain ⟨hu, hsh, hp⟩ := h
  unfold preOk at hp
  cases hP : preScan patched F with
  | error e => simp [hP] at hp
  | ok P =>
    simp only [hP, List.all_eq_true] at hp
    have hb := readBody_isOk F P hP hu hsh (fun vv hvv => hp vv hvv)
    obtain ⟨r, hr⟩ := hb
    simp [readFile, Outcome.err?, errOf, hr]

/-- The per-field core of it, with the pre-scan result arbitrary: creating the field of any variable
never raises, whatever any reference attribute says. -/
theorem C13_field_never_raises (F : NcFile) (P : Pre) (C : Caches) (vv : NcVar)
    (hv : F.var? vv.name = some vv) (hsh : FtShape F)
    (hg : GeomReady P vv.name (applyComp P.comp (rawDims vv))) :
    errOf (createField patched F P C vv) = none :=
  (isOk_iff_errOf _).mp (createField_isOk F P C vv hv hsh hg)

/-- **All files are closed**, whether or not reading succeeds. -/
theorem C13_files_closed (F : NcFile) : (readFile patched F).closed = true := by
  unfold readFile
  split <;> rfl

/-! ### Witness datasets -/

/-- `z` has `formula_terms` naming a missing variable and bounds without `formula_terms`. -/
def W1 : NcFile :=
  { globals := [], dims := ["z", "bnds"],
    vars := [⟨"z", ["z"], .num, [("bounds", "z_bnds"), ("formula_terms", "a: nosuch")]⟩,
             ⟨"z_bnds", ["z", "bnds"], .num, []⟩,
             ⟨"ta", ["z"], .num, []⟩] }

/-- `bounds` of a parametric coordinate names a missing variable (the case the property text cites). -/
def W1b : NcFile :=
  { globals := [], dims := ["z"],
    vars := [⟨"z", ["z"], .num, [("bounds", "nosuch"), ("formula_terms", "a: a")]⟩,
             ⟨"a", ["z"], .num, []⟩,
             ⟨"ta", ["z"], .num, []⟩] }

/-- Two data variables share a geometry container whose `node_count` names a missing variable. -/
def W2 : NcFile :=
  { globals := [], dims := ["instance", "node"],
    vars := [⟨"x", ["node"], .num, []⟩,
             ⟨"gc", [], .num, [("node_coordinates", "x"), ("node_count", "nosuch")]⟩,
             ⟨"pr", ["instance"], .num, [("geometry", "gc")]⟩,
             ⟨"qr", ["instance"], .num, [("geometry", "gc")]⟩] }

/-- One of two ancillary variables is missing. -/
def W3 : NcFile :=
  { globals := [], dims := ["t"],
    vars := [⟨"ta", ["t"], .num, [("ancillary_variables", "q nosuch")]⟩, ⟨"q", ["t"], .num, []⟩] }

/-- The same, valid. -/
def W3v : NcFile :=
  { globals := [], dims := ["t"],
    vars := [⟨"ta", ["t"], .num, [("ancillary_variables", "q")]⟩, ⟨"q", ["t"], .num, []⟩] }

set_option maxRecDepth 100000 in
example : Readable W1 ∧ Readable W1b ∧ Readable W2 ∧ Readable W3 := by decide

set_option maxRecDepth 100000 in
/-- Non-vacuity and content: on the witnesses the patched reader returns every field, with the
report non-empty where the reference is broken. -/
example : (readFile patched W1).field? "ta" = some (["dim:z", "bnd:z:z_bnds", "ref:ft:z"], true) ∧
    (readFile patched W3).field? "ta" = some (["anc:q"], true) ∧
    (readFile patched W3v).field? "ta" = some (["anc:q"], false) := by decide

set_option maxRecDepth 100000 in
/-- **The code as it is raises and leaves the file open** (four sites: formula terms with a missing
variable, a parametric coordinate whose bounds are missing, a geometry container shared by two
data variables, a truncated `cell_methods`). -/
theorem C13_coded_raises_and_leaks :
    ((readFile coded W1).err? = some .keyError ∧ (readFile coded W1).closed = false) ∧
    ((readFile coded W1b).err? = some .keyError ∧ (readFile coded W1b).closed = false) ∧
    ((readFile coded W2).err? = some .keyError ∧ (readFile coded W2).closed = false) := by decide

/-- **Malformed `cell_methods`**: every string is read without raising (patched). -/
theorem C13_cell_methods_total (s : String) : errOf (parseCellMethods patched s) = none :=
  (isOk_iff_errOf _).mp (parseCellMethods_isOk s)

set_option maxRecDepth 100000 in
/-- … whereas the parser as coded runs off the end of the token list. -/
theorem C13_coded_cell_methods_raise :
    errOf (parseCellMethods coded "time: mean within") = some .indexError ∧
    errOf (parseCellMethods coded "time: mean (interval: 1 hr") = some .indexError ∧
    errOf (parseCellMethods coded "time: mean (") = some .indexError := by decide

set_option maxRecDepth 100000 in
example : (parseCellMethods patched "time: mean (interval: 1 hr) x: sum where land").toOption = some (2, false) ∧
    (parseCellMethods patched "time: mean within").toOption = some (0, true) := by decide

/-- **Malformed mapping strings are reported and attach nothing**: when `_parse_x` rejects the value
of `cell_measures` (any value at all), the stage adds no element and records a message. -/
theorem C13_malformed_mapping_reported (F : NcFile) (P : Pre) (v : String) (D : List String) (vv : NcVar)
    (s : FSt) (cmz : String) (ha : vv.attr? "cell_measures" = some cmz) (hbad : parseX cmz = []) :
    ∃ s', stageCellMeasures patched F P v D vv s = .ok s' ∧ s'.out.elems = s.out.elems ∧
      s'.out.msgs = s.out.msgs ++ [⟨v, "cell_measures"⟩] := by
  unfold stageCellMeasures
  simp only [ha, hbad, checked, List.isEmpty_nil, Bool.not_true, Bool.and_false, Bool.false_eq_true, ↓reduceIte,
    allOrNothing, checkCellMeasures, bind, Except.bind, List.foldlM_nil, pure, Except.pure]
  exact ⟨_, rfl, by simp [FSt.add], by simp [FSt.add]⟩

set_option maxRecDepth 100000 in
example : parseX "area:" = [] ∧ parseX "area cell_area" = [] ∧ parseX "area: a volume:" = [] ∧
    parseX " area: a" = [] ∧ parseX "area: a volume: b " = [("area", ["a"]), ("volume", ["b"])] := by decide

/-- **Exactly the broken entry is left out, and it is reported** — for any attribute whose entries
the (patched) reader checks one at a time: replacing entry `i` of ANY entry list by an entry that
fails its check keeps precisely the other entries that pass theirs, and yields a message. -/
theorem C13_tokens_tolerant {α} (chk : List α → Except Err (Bool × List Msg)) (okP : α → Bool)
    (msgs : α → List Msg) (h : ∀ x, chk [x] = .ok (okP x, msgs x))
    (xs : List α) (i : Nat) (hi : i < xs.length) (bad : α) (hb : okP bad = false) (hm : msgs bad ≠ []) :
    ∃ ms, perEntry chk (xs.set i bad) = .ok ((xs.eraseIdx i).filter okP, ms) ∧ ms ≠ [] ∧
      perEntry chk (xs.eraseIdx i) = .ok ((xs.eraseIdx i).filter okP, (xs.eraseIdx i).flatMap msgs) := by
  refine ⟨(xs.set i bad).flatMap msgs, ?_, flatMap_set_ne_nil msgs bad hm xs i hi, perEntry_eq_filter chk okP msgs h _⟩
  rw [perEntry_eq_filter chk okP msgs h, filter_set_bad okP bad hb xs i hi]

/-- `ancillary_variables`: with every token valid, breaking token `i` (a missing name, or a variable
with foreign dimensions: anything failing `ancOk`) attaches exactly the other field ancillaries and
records the problem; removing the token attaches exactly the others. -/
theorem C13_ancillary_tolerant (F : NcFile) (P : Pre) (v : String) (D : List String)
    (ts : List String) (hvalid : ∀ t ∈ ts, ancOk F P D t = true)
    (i : Nat) (hi : i < ts.length) (bad : String) (hb : ancOk F P D bad = false) :
    ∃ ms, checked patched (checkAncillary patched F P v D) (ts.set i bad) = .ok (ts.eraseIdx i, ms) ∧ ms ≠ [] ∧
      (ts.eraseIdx i ≠ [] →
        checked patched (checkAncillary patched F P v D) (ts.eraseIdx i) = .ok (ts.eraseIdx i, [])) := by
  have hne : (ts.set i bad).isEmpty = false := by
    cases ts with
    | nil => simp at hi
    | cons t ts => cases i <;> simp
  have hfil : (ts.eraseIdx i).filter (ancOk F P D) = ts.eraseIdx i :=
    filter_all _ _ (fun x hx => hvalid x (mem_eraseIdx ts i x hx))
  obtain ⟨ms, h1, h2, h3⟩ := C13_tokens_tolerant (checkAncillary patched F P v D) (ancOk F P D) (ancMsgs F P D)
    (checkAncillary_entry F P v D) ts i hi bad hb (by simp [ancMsgs, hb])
  refine ⟨ms, ?_, h2, ?_⟩
  · unfold checked
    have hpt : patched.perToken = true := rfl
    simp only [hpt, hne, Bool.not_false, Bool.and_self, ↓reduceIte]
    rw [h1, hfil]
  · intro hne2
    unfold checked
    have hpt : patched.perToken = true := rfl
    have : (ts.eraseIdx i).isEmpty = false := by
      cases h : ts.eraseIdx i with
      | nil => exact absurd h hne2
      | cons _ _ => rfl
    simp only [hpt, this, Bool.not_false, Bool.and_self, ↓reduceIte]
    rw [h3, hfil]
    have : (ts.eraseIdx i).flatMap (ancMsgs F P D) = [] := by
      apply List.flatMap_eq_nil_iff.mpr
      intro x hx
      simp [ancMsgs, hvalid x (mem_eraseIdx ts i x hx)]
    rw [this]

set_option maxRecDepth 100000 in
/-- Non-vacuity of `C13_ancillary_tolerant` on the witness file: `q` passes, `nosuch` does not. -/
example : ancOk W3 {} ["t"] "q" = true ∧ ancOk W3 {} ["t"] "nosuch" = false := by decide

set_option maxRecDepth 100000 in
/-- **As coded, one broken entry costs the field all entries of the attribute.** -/
theorem C13_coded_all_or_nothing :
    (readFile coded W3).field? "ta" = some ([], true) ∧
    (readFile patched W3).field? "ta" = some (["anc:q"], true) := by decide

/-! ### "The field for each data variable is still returned" -/

/-- **A rejected `coordinates` token is not counted as a reference**: a token naming a missing
variable, or a variable with a dimension foreign to the parent — be it a private variable, a valid
coordinate of another data variable (already in the cache or not) or another data variable — adds a
message and NO element; the references of a field are read off its elements (`references`). -/
theorem C13_rejected_coordinate_not_referenced (F : NcFile) (P : Pre) (v : String) (D : List String) (s : FSt)
    (tok : String) (hD : D.contains tok = false)
    (hrej : F.var? tok = none ∨
      ∃ cv, F.var? tok = some cv ∧ (applyComp P.comp (rawDims cv)).all D.contains = false) :
    ∃ s', auxToken patched F P v D s tok = .ok s' ∧ s'.out.elems = s.out.elems ∧ s'.out.msgs ≠ s.out.msgs ∧
      s'.C.aux = s.C.aux := by
  rcases hrej with hv | ⟨cv, hv, hf⟩
  · exact ⟨_, auxToken_missing F P v D s tok hD hv, by simp [FSt.add], by simp [FSt.add], rfl⟩
  · exact ⟨_, auxToken_foreign F P v D s tok cv hD hv hf, by simp [FSt.add], by simp [FSt.add], rfl⟩

/-- **The returned fields**: every created field whose variable is not referenced by a construct that
was actually attached (to any field) is returned; only variables that stay referenced are withheld. -/
theorem C13_unreferenced_field_returned (rs : List (String × FieldOut)) (r : String × FieldOut) (hr : r ∈ rs)
    (hun : ∀ p ∈ references rs, p.1 ≠ r.1) : r ∈ selectFields rs :=
  selectFields_unreferenced rs r hr hun

theorem C13_withheld_fields_are_referenced (rs : List (String × FieldOut)) (r : String × FieldOut)
    (hr : r ∈ rs) (hout : r ∉ selectFields rs) : ∃ p ∈ references rs, p.1 = r.1 := by
  by_cases h : ∀ p ∈ references rs, p.1 ≠ r.1
  · exact absurd (selectFields_unreferenced rs r hr h) hout
  · have h' : ∃ p, p ∈ references rs ∧ ¬ (p.1 ≠ r.1) := by
      apply Classical.byContradiction
      intro hn
      exact h (fun p hp hne => hn ⟨p, hp, fun hx => hx hne⟩ |> fun x => x)
    obtain ⟨p, hp, hpe⟩ := h'
    exact ⟨p, hp, Classical.byContradiction (fun hne => hpe hne)⟩

/-- `ps(y,x)` names the data variable `ta(z,y,x)` (foreign dimensions) and `height(z,y,x)` — a valid
coordinate of `ta`, created first — in its `coordinates`. -/
def W4 : NcFile :=
  { globals := [], dims := ["z", "y", "x"],
    vars := [⟨"height", ["z", "y", "x"], .num, []⟩, ⟨"lat2d", ["y", "x"], .num, []⟩,
             ⟨"ta", ["z", "y", "x"], .num, [("coordinates", "height lat2d")]⟩,
             ⟨"ps", ["y", "x"], .num, [("coordinates", "lat2d ta height")]⟩] }

set_option maxRecDepth 100000 in
/-- Non-vacuity: both data variables keep their fields, `ps` keeps `lat2d` only and is reported. -/
example : (readFile patched W4).field? "ta" = some (["aux:height", "aux:lat2d"], false) ∧
    (readFile patched W4).field? "ps" = some (["aux:lat2d"], true) ∧
    (readFile patched W4).field? "height" = none := by decide

/-- What is proved of `C13_tolerant` at the level of whole files: for every readable dataset — in
particular for `breakRef F site kind` of every site and kind, whose readability does not depend on
the value of any reference attribute — the read returns, the files are closed, and every variable
that the pre-scan did not claim as a list / count / index / geometry variable has a field. -/
theorem C13_tolerant_partial (F : NcFile) (h : Readable F) :
    ∃ fs, readFile patched F = ⟨.ok fs, true⟩ := by
  have h1 := C13_never_raises F h
  have h2 := C13_files_closed F
  cases hr : readFile patched F with
  | mk result closed =>
    rw [hr] at h1 h2
    cases result with
    | error e => simp [Outcome.err?, errOf] at h1
    | ok fs => exact ⟨fs, by simp at h2; rw [h2]⟩

end Cfdm.Props.C13
