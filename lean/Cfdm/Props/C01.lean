import Cfdm.Lemmas.CodecFile
import Cfdm.Lemmas.CellMethods
/-
C01 — write then read returns the same field construct.

Property (properties.jsonl, C01): for every construct the writer accepts whose data types netCDF
can store, under every supported format and every write option documented as lossless, reading
the new file yields exactly one construct that is equal to the original in both directions, with
the same data values, masks, data types and axis-to-construct mapping and with every netCDF
variable and dimension name that had been set.

Full-strength statement on the model (all construct classes):

    theorem C01_roundtrip (o : Opts) (f : MField) (nc : NcFile) (hwf : WFFieldAll f)
        (hw : writeField o f = .ok nc) :
        ∃ g, readFile nc = [g] ∧ Equiv f g ∧ NamesKept κ f g

where `WFFieldAll` covers, besides stages A and B, domains, external cell measures, ragged / gathered
compression and geometry cells (stage C), and `o` ranges over `scalar` ∈ {true, false} too.

Proved here:
* `C01_roundtripB_partial`, the statement for **stages A and B** — any number of domain axes
  (size-1, unlimited, spanned by the data or not), dimension coordinates, auxiliary coordinates
  (N-d, string-valued, scalar), bounds (also climatological), cell measures, field ancillaries,
  cell methods (over axes or free names), **domain ancillaries** (N-d, any axis order, with or without
  bounds), **coordinate references**: parametric vertical coordinates (`formula_terms` of the coordinate
  variable and of its bounds variable, `computed_standard_name`, datum) and grid mappings (conversion
  and datum parameters, coordinates listed or inferred from standard names); any properties (also
  global ones), any netCDF names; for `scalar = True` (the only value `cfdm.write` can pass) and both
  values of `coordinates`.  `C01_roundtrip_partial` is its stage-A corollary (no extra hypotheses).
* `C01_names_keptB_partial`: the netCDF variable names that had been set are found again.
* `C01_cell_methods_parse_write`: on the level of the words of the `cell_methods` attribute,
  `_parse_cell_methods` undoes `CellMethod.__str__` for every combination of qualifiers.
Missing (open): stage C, `scalar = False`, constructs sharing one netCDF variable
(`_already_in_file`; for a domain ancillary equal to a coordinate the writer model has it —
`NoSharedDan` keeps it out of the proof).
`WFField` / `WFFieldB` exclude what CF-netCDF cannot hold; the exclusions that `cfdm.write`
nevertheless accepts are findings (`known_findings.json`) and have `decide`-checked witnesses below.
-/
namespace Cfdm.Props.C01
open Cfdm.Codec

/-- The names the writer allocated are the names that had been set. -/
def PinnedKept (f : MField) (names : List (Slot × String)) : Prop :=
  (∀ n, f.ncvar = some n → nameOf names .field = n) ∧
  ∀ e ∈ f.cons, (∀ n, e.con.ncvar = some n → nameOf names (.con e.key) = n) ∧
    (∀ b, e.con.bounds = some b → ∀ n, b.ncvar = some n → nameOf names (.bvar e.key) = n)

/-- Free cell-method names (`area`, standard names) do not clash with a netCDF name of the file. -/
def FreeNamesOK (f : MField) (nc : NcFile) : Prop :=
  ∀ cm ∈ f.cms, ∀ a ∈ cm.axes, a ∉ f.axisKeys → a ∉ nc.dims.map (·.name) ∧ a ∉ nc.vars.map (·.name)

instance (f : MField) (nc : NcFile) : Decidable (FreeNamesOK f nc) := by unfold FreeNamesOK; infer_instance

/-- No domain ancillary is a variable that is already in the file (`_already_in_file`: a domain
ancillary equal to a coordinate construct, such as the term `a` of `cfdm.example_field(1)`, shares
the coordinate's variable — modelled by the writer model (`danPlan`), not covered by the proof). -/
def NoSharedDan (o : Opts) (f : MField) : Prop := ∀ pe ∈ danPlan f (axesPhase o f), pe.2 = none

instance (o : Opts) (f : MField) : Decidable (NoSharedDan o f) := by unfold NoSharedDan; infer_instance

/-- No variable of the dataset is called like the key the modelled reader gives the domain ancillary
made from another variable (`"@" ++ name`; names of letters, digits, `_`, `.`, `-` never are). -/
def FileKeysOK (nc : NcFile) : Prop := ∀ v ∈ nc.vars, ∀ w ∈ nc.vars, danKey v.name ≠ w.name

instance (nc : NcFile) : Decidable (FileKeysOK nc) := by unfold FileKeysOK; infer_instance

/-- **Round trip, stages A and B.**  Writing a well-formed field — with domain ancillaries,
parametric vertical coordinate references (formula terms, bounds formula terms, computed standard
name, datum) and grid mappings (parameters, datum, coordinates) — and reading the file back gives
exactly one field, which is the original up to construct keys and insertion order.

Several grid mappings next to a vertical datum are included: the writer adds the parametric coordinate
to the grid mapping that shares the datum (`_create_vertical_datum`, the step the seeded change C01-5
breaks), the reader finds it listed there, gives the vertical reference that datum and takes the
coordinate out again.  Full strength would drop `NoSharedDan` and the artefact `FileKeysOK`. -/
theorem C01_roundtripB_partial (o : Opts) (ho : o.scalar = true) (f : MField) (hwf : WFFieldB f)
    (hns : NoSharedDan o f) (nc : NcFile) (hw : writeField o f = .ok nc) (hfree : FreeNamesOK f nc) (hk : FileKeysOK nc) :
    ∃ g, readFile nc = [g] ∧ Equiv f g := by
  unfold writeField at hw
  rw [applyCsn_wf hwf] at hw
  simp only at hw
  obtain ⟨names, hn, rfl⟩ := writeField'_wf ho hwf hw
  have hx : ∀ e ∈ f.ofType .msr, e.con.external = false := by
    intro e he
    exact (wf_entry hwf (mem_ofType.mp he).1).1.2.2.2.2.1
  have hns' : ∀ pe ∈ danPlan f (wfAx f), pe.2 = none := by
    unfold NoSharedDan at hns
    rw [axesPhase_wf o ho f hwf] at hns
    exact hns
  have hg := naming_good hx hns' hn
  have hat : NoKeyClash f names := by
    intro d hd _ e he
    have h1 := mainVar_mem (o := o) hwf hg hd
    have h2 := mainVar_mem (o := o) hwf hg he
    have := hk _ h1 _ h2
    rw [mainVar_name, mainVar_name] at this
    exact this
  exact ⟨_, readFile_wf hwf hg, read_equivB' hwf hg hat hfree⟩

/-- **Round trip, stage A** (no coordinate references, no domain ancillaries): a corollary. -/
theorem C01_roundtrip_partial (o : Opts) (ho : o.scalar = true) (f : MField) (hwf : WFField f) (nc : NcFile)
    (hw : writeField o f = .ok nc) (hfree : FreeNamesOK f nc) :
    ∃ g, readFile nc = [g] ∧ Equiv f g := by
  have hB := hwf.toB
  have hdan : danPlan f (axesPhase o f) = [] := by
    unfold danPlan
    have : f.ofType .dan = [] := by
      unfold MField.ofType
      apply List.filter_eq_nil_iff.mpr
      intro e he
      have := hwf.2.2.2.2.2.2.1 e he
      simpa using this
    rw [this]; rfl
  -- no domain ancillary: the condition on the reader's keys is void
  unfold writeField at hw
  rw [applyCsn_wf hB] at hw
  simp only at hw
  obtain ⟨names, hn, rfl⟩ := writeField'_wf ho hB hw
  have hx : ∀ e ∈ f.ofType .msr, e.con.external = false := by
    intro e he
    exact (wf_entry hB (mem_ofType.mp he).1).1.2.2.2.2.1
  have hns' : ∀ pe ∈ danPlan f (wfAx f), pe.2 = none := by
    have e : axesPhase o f = wfAx f := axesPhase_wf o ho f hB
    rw [e] at hdan
    rw [hdan]; intro pe h; cases h
  have hg := naming_good hx hns' hn
  have hat : NoKeyClash f names := by
    intro d hd ht
    exact absurd ht (hwf.2.2.2.2.2.2.1 d hd)
  exact ⟨_, readFile_wf hB hg, read_equivB' hB hg hat hfree⟩

/-- **Names, stages A and B.**  The field read back carries on every construct — domain ancillaries
included — and on every bounds the netCDF variable name the writer gave it; so whenever the writer
could use the names that had been set (`PinnedKept`: no clash with a name handed out earlier), they
are all found again. -/
theorem C01_names_keptB_partial (o : Opts) (ho : o.scalar = true) (f : MField) (hwf : WFFieldB f)
    (hns : NoSharedDan o f) (nc : NcFile) (hw : writeField o f = .ok nc) (hk : FileKeysOK nc) :
    ∃ names g, naming f (axesPhase o f) = .ok names ∧ readFile nc = [g] ∧
      (PinnedKept f names → NamesKept (kappaB f names) f g) := by
  unfold writeField at hw
  rw [applyCsn_wf hwf] at hw
  simp only at hw
  obtain ⟨names, hn, rfl⟩ := writeField'_wf ho hwf hw
  have hx : ∀ e ∈ f.ofType .msr, e.con.external = false := by
    intro e he
    exact (wf_entry hwf (mem_ofType.mp he).1).1.2.2.2.2.1
  have hns' : ∀ pe ∈ danPlan f (wfAx f), pe.2 = none := by
    unfold NoSharedDan at hns
    rw [axesPhase_wf o ho f hwf] at hns
    exact hns
  have hg := naming_good hx hns' hn
  have hat : NoKeyClash f names := by
    intro d hd _ e he
    have h1 := mainVar_mem (o := o) hwf hg hd
    have h2 := mainVar_mem (o := o) hwf hg he
    have := hk _ h1 _ h2
    rw [mainVar_name, mainVar_name] at this
    exact this
  refine ⟨names, _, by rw [axesPhase_wf o ho f hwf]; exact hn, readFile_wf hwf hg, ?_⟩
  intro hp
  refine ⟨fun n h => by rw [← hp.1 n h]; rfl, ?_⟩
  intro e he e' he' hkey
  have hcons : (readVar (wfFile o f names) (dataVar o f (wfAx f) names)).cons
      = (readOrder f).map (rd o f names) ++ (dansOrder f).map (rdB o f names) := by
    show (readVarA (wfFile o f names) (dataVar o f (wfAx f) names)).cons
      ++ (readB (wfFile o f names) (dataVar o f (wfAx f) names)
          (readVarA (wfFile o f names) (dataVar o f (wfAx f) names)).cons).dans = _
    rw [readB_shape hwf hg, read_cons hwf hg]
  rw [hcons] at he'
  obtain ⟨hp1, hp2⟩ := hp.2 e he
  rcases List.mem_append.mp he' with he' | he'
  · -- `e'` is what the reader made of the construct `e0` (not a domain ancillary)
    obtain ⟨e0, he0, rfl⟩ := List.mem_map.mp he'
    obtain ⟨he0', hnd⟩ := mem_consA.mp ((readOrder_perm hwf).mem_iff.mp he0)
    have hkk : e0.key = e.key := by
      apply kappaB_inj hwf hg hat _ (List.mem_map_of_mem he0') _ (List.mem_map_of_mem he)
      rw [← hkey, kappaB_coord hwf he0' hnd]; rfl
    have hee := wf_keys_inj hwf he0' he hkk
    subst hee
    have hnc : (rd o f names e0).con.ncvar = some (nameOf names (.con e0.key)) := by
      unfold rd Entry.con rdCon
      simp only
      cases ht : e0.con.ctype <;> simp only [readCoord, mainVar_name, danCon]
    constructor
    · intro n h
      rw [hnc, hp1 n h]
    · intro b hb n hbn
      have hc := wf_bounds_coord hwf hg he hnd hb
      have hrb := readBounds_exact (o := o) hwf hg he hc
      rw [hb] at hrb
      simp only [Option.map_some] at hrb
      have hmv : mainVar f names (wfAx f) e0 = coordVar f names e0 (cdimsOf names (wfAx f) e0) := by
        unfold mainVar isCoord at *
        cases ht : e0.con.ctype <;> simp [ht] at hc ⊢
      have hbb : (rd o f names e0).con.bounds = readBounds (wfFile o f names) (coordVar f names e0 (cdimsOf names (wfAx f) e0)) := by
        unfold rd Entry.con rdCon
        simp only
        unfold isCoord at hc
        cases ht : e0.con.ctype with
        | dim => simp only [readCoord]; rw [hmv]
        | aux => simp only [readCoord]; rw [hmv]
        | msr => simp [ht] at hc
        | fan => simp [ht] at hc
        | dan => simp [ht] at hc
      rw [hrb] at hbb
      exact ⟨_, hbb, by simp only [rdBounds]; rw [hp2 b hb n hbn]⟩
  · -- `e'` is what the reader made of the domain ancillary `d`
    obtain ⟨d, hd, rfl⟩ := List.mem_map.mp he'
    obtain ⟨hdm, hdt⟩ := List.mem_filter.mp ((dansOrder_perm hwf).mem_iff.mp hd)
    have hdt' : d.con.ctype = .dan := by simpa using hdt
    have hkk : d.key = e.key := by
      apply kappaB_inj hwf hg hat _ (List.mem_map_of_mem hdm) _ (List.mem_map_of_mem he)
      rw [← hkey, kappaB_dan hwf hdm hdt']; rfl
    have hee := wf_keys_inj hwf hdm he hkk
    subst hee
    constructor
    · intro n h
      have : (rdB o f names d).con.ncvar = some (nameOf names (.con d.key)) := by
        unfold rdB Entry.con rdCon
        simp only
        rw [hdt']
        rfl
      rw [this, hp1 n h]
    · intro b hb n hbn
      have : (rdB o f names d).con.bounds = some (rdBounds o f names d b) := rdCon_dan_bounds hwf hg he hdt' hb
      exact ⟨_, this, by simp only [rdBounds]; rw [hp2 b hb n hbn]⟩

/-! ### Non-vacuity: concrete fields meeting the hypotheses -/

/-- The abstraction of `cfdm.example_field(0)` (harness/corr/C01.py `abstract_field`). -/
def exField0 : MField :=
  { props := [("project", "vc6f9ad87955e"), ("standard_name", "v134d8ca88f87"), ("units", "v29cbb7869e9f")]
    ncvar := (some "q")
    data := ⟨113466478714639, false⟩
    dataAxes := ["domainaxis0", "domainaxis1"]
    axes := [("domainaxis0", ⟨5, (some "lat"), false⟩), ("domainaxis1", ⟨8, (some "lon"), false⟩), ("domainaxis2", ⟨1, none, false⟩)]
    cons := [
      ("dimensioncoordinate0", { ctype := .dim, props := [("standard_name", "v5d98911dde95"), ("units", "v965568b13bc4")], ncvar := (some "lat"), data := (some ⟨31003398717956, false⟩), bounds := (some { props := [], ncvar := (some "lat_bnds"), ncdim := none, data := ⟨84135050802323, false⟩, nverts := 2 }), climatology := false, measure := none, external := false }, ["domainaxis0"]),
      ("dimensioncoordinate1", { ctype := .dim, props := [("standard_name", "v2f0a8d9145e8"), ("units", "v5a60b51200f3")], ncvar := (some "lon"), data := (some ⟨20026789590814, false⟩), bounds := (some { props := [], ncvar := (some "lon_bnds"), ncdim := none, data := ⟨278409288180425, false⟩, nverts := 2 }), climatology := false, measure := none, external := false }, ["domainaxis1"]),
      ("dimensioncoordinate2", { ctype := .dim, props := [("standard_name", "ve9c781433dbe"), ("units", "vef285725dc60")], ncvar := (some "time"), data := (some ⟨39281972191842, false⟩), bounds := none, climatology := false, measure := none, external := false }, ["domainaxis2"])]
    cms := [{ axes := ["area"], method := (some "mean"), quals := [] }] }

/-- The abstraction of `cfdm.example_field(1)` without its two coordinate references and three domain
ancillaries (stage B). -/
def exField1A : MField :=
  { props := [("project", "vc6f9ad87955e"), ("standard_name", "va2c0afe2d795"), ("units", "vf3d578838536")]
    ncvar := (some "ta")
    data := ⟨107348807817608, false⟩
    dataAxes := ["domainaxis0", "domainaxis1", "domainaxis2"]
    axes := [("domainaxis0", ⟨1, (some "atmosphere_hybrid_height_coordinate"), false⟩), ("domainaxis1", ⟨10, (some "y"), false⟩), ("domainaxis2", ⟨9, (some "x"), false⟩), ("domainaxis3", ⟨1, none, false⟩)]
    cons := [
      ("dimensioncoordinate0", { ctype := .dim, props := [("computed_standard_name", "vb8168e650227"), ("standard_name", "v9d9153dd3c91"), ("units", "vdd4d60ebd9f2")], ncvar := (some "atmosphere_hybrid_height_coordinate"), data := (some ⟨171351176160285, false⟩), bounds := (some { props := [], ncvar := (some "atmosphere_hybrid_height_coordinate_bounds"), ncdim := none, data := ⟨54059169475299, false⟩, nverts := 2 }), climatology := false, measure := none, external := false }, ["domainaxis0"]),
      ("dimensioncoordinate1", { ctype := .dim, props := [("standard_name", "v627c6e5c3229"), ("units", "v5327eba8a019")], ncvar := (some "y"), data := (some ⟨155059457251685, false⟩), bounds := (some { props := [], ncvar := (some "y_bnds"), ncdim := none, data := ⟨207653800254386, false⟩, nverts := 2 }), climatology := false, measure := none, external := false }, ["domainaxis1"]),
      ("dimensioncoordinate2", { ctype := .dim, props := [("standard_name", "vfca41deda192"), ("units", "v5327eba8a019")], ncvar := (some "x"), data := (some ⟨125435908724873, false⟩), bounds := (some { props := [], ncvar := (some "x_bnds"), ncdim := none, data := ⟨271378814485813, false⟩, nverts := 2 }), climatology := false, measure := none, external := false }, ["domainaxis2"]),
      ("dimensioncoordinate3", { ctype := .dim, props := [("standard_name", "ve9c781433dbe"), ("units", "vef285725dc60")], ncvar := (some "time"), data := (some ⟨39281972191842, false⟩), bounds := none, climatology := false, measure := none, external := false }, ["domainaxis3"]),
      ("auxiliarycoordinate0", { ctype := .aux, props := [("standard_name", "v5d98911dde95"), ("units", "vbbabcede06af")], ncvar := (some "latitude_1"), data := (some ⟨31615526774531, false⟩), bounds := none, climatology := false, measure := none, external := false }, ["domainaxis1", "domainaxis2"]),
      ("auxiliarycoordinate1", { ctype := .aux, props := [("standard_name", "v2f0a8d9145e8"), ("units", "vf7b4babfddae")], ncvar := (some "longitude_1"), data := (some ⟨186196797358962, false⟩), bounds := none, climatology := false, measure := none, external := false }, ["domainaxis2", "domainaxis1"]),
      ("auxiliarycoordinate2", { ctype := .aux, props := [("long_name", "v9fe682034973")], ncvar := (some "auxiliary"), data := (some ⟨182283487050647, true⟩), bounds := none, climatology := false, measure := none, external := false }, ["domainaxis1"]),
      ("cellmeasure0", { ctype := .msr, props := [("units", "v01ec0a57f26c")], ncvar := (some "cell_measure"), data := (some ⟨18864733469660, false⟩), bounds := none, climatology := false, measure := (some "area"), external := false }, ["domainaxis2", "domainaxis1"]),
      ("fieldancillary0", { ctype := .fan, props := [("standard_name", "v360905a84116"), ("units", "vf3d578838536")], ncvar := (some "air_temperature_standard_error"), data := (some ⟨75429202923086, false⟩), bounds := none, climatology := false, measure := none, external := false }, ["domainaxis1", "domainaxis2"])]
    cms := [{ axes := ["domainaxis1", "domainaxis2"], method := (some "mean"), quals := [("where", "v280cc979b9e3"), ("interval", "v951a3303b8bc")] }, { axes := ["domainaxis3"], method := (some "maximum"), quals := [] }] }


/-- `cfdm.example_field(0)` is in the proved class, … -/
example : WFField exField0 := by decide
/-- The hypotheses of `C01_roundtrip_partial` about the writer, as one decidable check. -/
def accepts (o : Opts) (f : MField) : Bool :=
  match writeField o f with
  | .ok nc => decide (FreeNamesOK f nc)
  | .error _ => false

theorem accepts_spec {o : Opts} {f : MField} (h : accepts o f = true) :
    ∃ nc, writeField o f = .ok nc ∧ FreeNamesOK f nc := by
  unfold accepts at h
  split at h
  · rename_i nc hnc; exact ⟨nc, hnc, by simpa using h⟩
  · cases h

/-- … the writer accepts it and its free cell-method name `area` clashes with nothing, … -/
example : accepts {} exField0 = true := by decide +kernel
/-- … so the theorem applies to it (and to the stage-A part of `cfdm.example_field(1)`). -/
example : ∃ g, (∃ nc, writeField {} exField0 = .ok nc ∧ readFile nc = [g]) ∧ Equiv exField0 g := by
  obtain ⟨nc, hw, hf⟩ := accepts_spec (o := {}) (f := exField0) (by decide +kernel)
  obtain ⟨g, hr, he⟩ := C01_roundtrip_partial {} rfl exField0 (by decide) nc hw hf
  exact ⟨g, ⟨nc, hw, hr⟩, he⟩
example : WFField exField1A := by decide
example : accepts { coordinates := true } exField1A = true := by decide +kernel

/-! ### Non-vacuity, stage B -/

/-- The abstraction of `cfdm.example_field(1)` (harness/corr/C01.py `abstract_field`): four domain
axes, four dimension coordinates (three with bounds), three auxiliary coordinates, a cell measure, a
field ancillary, two cell methods, three domain ancillaries (two with bounds), a parametric
vertical coordinate reference with a datum and a rotated-pole grid mapping with the same datum.
Two changes: the domain ancillary `a`, which in the example is equal to its coordinate and so
shares the coordinate's variable (`NoSharedDan`), has values of its own; the string-valued auxiliary
coordinate has no masked element (the harness does not compare masked strings). -/
def exField1B : MField :=
  { props := [("project", "vc6f9ad87955e"), ("standard_name", "air_temperature"), ("units", "vf3d578838536")]
    ncvar := (some "ta")
    data := ⟨107348807817608, false⟩
    dataAxes := ["domainaxis0", "domainaxis1", "domainaxis2"]
    axes := [("domainaxis0", ⟨1, (some "atmosphere_hybrid_height_coordinate"), false⟩), ("domainaxis1", ⟨10, (some "y"), false⟩), ("domainaxis2", ⟨9, (some "x"), false⟩), ("domainaxis3", ⟨1, none, false⟩)]
    cons := [
      ("dimensioncoordinate0", { ctype := .dim, props := [("computed_standard_name", "vb8168e650227"), ("standard_name", "atmosphere_hybrid_height_coordinate"), ("units", "vdd4d60ebd9f2")], ncvar := (some "atmosphere_hybrid_height_coordinate"), data := (some ⟨171351176160285, false⟩), bounds := (some { props := [], ncvar := (some "atmosphere_hybrid_height_coordinate_bounds"), ncdim := none, data := ⟨54059169475299, false⟩, nverts := 2 }), climatology := false, measure := none, external := false }, ["domainaxis0"]),
      ("dimensioncoordinate1", { ctype := .dim, props := [("standard_name", "grid_latitude"), ("units", "v5327eba8a019")], ncvar := (some "y"), data := (some ⟨155059457251685, false⟩), bounds := (some { props := [], ncvar := (some "y_bnds"), ncdim := none, data := ⟨207653800254386, false⟩, nverts := 2 }), climatology := false, measure := none, external := false }, ["domainaxis1"]),
      ("dimensioncoordinate2", { ctype := .dim, props := [("standard_name", "grid_longitude"), ("units", "v5327eba8a019")], ncvar := (some "x"), data := (some ⟨125435908724873, false⟩), bounds := (some { props := [], ncvar := (some "x_bnds"), ncdim := none, data := ⟨271378814485813, false⟩, nverts := 2 }), climatology := false, measure := none, external := false }, ["domainaxis2"]),
      ("dimensioncoordinate3", { ctype := .dim, props := [("standard_name", "time"), ("units", "vef285725dc60")], ncvar := (some "time"), data := (some ⟨39281972191842, false⟩), bounds := none, climatology := false, measure := none, external := false }, ["domainaxis3"]),
      ("auxiliarycoordinate0", { ctype := .aux, props := [("standard_name", "latitude"), ("units", "vbbabcede06af")], ncvar := (some "latitude_1"), data := (some ⟨31615526774531, false⟩), bounds := none, climatology := false, measure := none, external := false }, ["domainaxis1", "domainaxis2"]),
      ("auxiliarycoordinate1", { ctype := .aux, props := [("standard_name", "longitude"), ("units", "vf7b4babfddae")], ncvar := (some "longitude_1"), data := (some ⟨186196797358962, false⟩), bounds := none, climatology := false, measure := none, external := false }, ["domainaxis2", "domainaxis1"]),
      ("auxiliarycoordinate2", { ctype := .aux, props := [("long_name", "v9fe682034973")], ncvar := (some "auxiliary"), data := (some ⟨186647868655905, true⟩), bounds := none, climatology := false, measure := none, external := false }, ["domainaxis1"]),
      ("cellmeasure0", { ctype := .msr, props := [("units", "v01ec0a57f26c")], ncvar := (some "cell_measure"), data := (some ⟨18864733469660, false⟩), bounds := none, climatology := false, measure := (some "area"), external := false }, ["domainaxis2", "domainaxis1"]),
      ("fieldancillary0", { ctype := .fan, props := [("standard_name", "air_temperature\u00b7standard_error"), ("units", "vf3d578838536")], ncvar := (some "air_temperature_standard_error"), data := (some ⟨75429202923086, false⟩), bounds := none, climatology := false, measure := none, external := false }, ["domainaxis1", "domainaxis2"]),
      ("domainancillary0", { ctype := .dan, props := [("units", "vdd4d60ebd9f2")], ncvar := (some "a"), data := (some ⟨13995364138727, false⟩), bounds := (some { props := [], ncvar := (some "a_bounds"), ncdim := none, data := ⟨175773936645087, false⟩, nverts := 2 }), climatology := false, measure := none, external := false }, ["domainaxis0"]),
      ("domainancillary1", { ctype := .dan, props := [], ncvar := (some "b"), data := (some ⟨257544101566318, false⟩), bounds := (some { props := [], ncvar := (some "b_bounds"), ncdim := none, data := ⟨49724132348456, false⟩, nverts := 2 }), climatology := false, measure := none, external := false }, ["domainaxis0"]),
      ("domainancillary2", { ctype := .dan, props := [("standard_name", "surface_altitude"), ("units", "vdd4d60ebd9f2")], ncvar := (some "surface_altitude"), data := (some ⟨190532591548088, false⟩), bounds := none, climatology := false, measure := none, external := false }, ["domainaxis1", "domainaxis2"])]
    cms := [{ axes := ["domainaxis1", "domainaxis2"], method := (some "mean"), quals := [("where", "land"), ("interval", "0.1 degrees")] }, { axes := ["domainaxis3"], method := (some "maximum"), quals := [] }]
    refs := [
      ("coordinatereference0", { ncvar := none, coords := ["dimensioncoordinate0"], params := [("computed_standard_name", "vb8168e650227"), ("standard_name", "atmosphere_hybrid_height_coordinate")], datum := [("earth_radius", "vf6395ea30b96")], terms := [("a", (some "domainancillary0")), ("b", (some "domainancillary1")), ("orog", (some "domainancillary2"))] }),
      ("coordinatereference1", { ncvar := (some "rotated_latitude_longitude"), coords := ["auxiliarycoordinate0", "auxiliarycoordinate1", "dimensioncoordinate1", "dimensioncoordinate2"], params := [("grid_mapping_name", "rotated_latitude_longitude"), ("grid_north_pole_latitude", "v2705af91ef44"), ("grid_north_pole_longitude", "vd55ee31d2469")], datum := [("earth_radius", "vf6395ea30b96")], terms := [] })] }

/-- `cfdm.example_field(1)` is in the proved class (stage B), … -/
example : WFFieldB exField1B := by decide
example : NoSharedDan {} exField1B := by decide
/-- … it is not in stage A, … -/
example : ¬ WFField exField1B := by decide

/-- The hypotheses of `C01_roundtripB_partial` about the written file, as one decidable check. -/
def acceptsB (o : Opts) (f : MField) : Bool :=
  match writeField o f with
  | .ok nc => decide (FreeNamesOK f nc) && decide (FileKeysOK nc)
  | .error _ => false

theorem acceptsB_spec {o : Opts} {f : MField} (h : acceptsB o f = true) :
    ∃ nc, writeField o f = .ok nc ∧ FreeNamesOK f nc ∧ FileKeysOK nc := by
  unfold acceptsB at h
  split at h
  · rename_i nc hnc
    simp only [Bool.and_eq_true, decide_eq_true_eq] at h
    exact ⟨nc, hnc, h.1, h.2⟩
  · cases h

/-- … the writer accepts it, and the theorem applies to it: the file it is written to has, among its
18 variables, the `formula_terms` attribute on the parametric coordinate and on its bounds variable
(`a: a_bounds b: b_bounds orog: surface_altitude`) and a `grid_mapping` attribute, and is read back as
one field equivalent to the original. -/
example : acceptsB {} exField1B = true := by decide +kernel
example : ∃ g, (∃ nc, writeField {} exField1B = .ok nc ∧ readFile nc = [g]) ∧ Equiv exField1B g := by
  obtain ⟨nc, hw, hf, hk⟩ := acceptsB_spec (o := {}) (f := exField1B) (by decide +kernel)
  obtain ⟨g, hr, he⟩ := C01_roundtripB_partial {} rfl exField1B (by decide) (by decide) nc hw hf hk
  exact ⟨g, ⟨nc, hw, hr⟩, he⟩

/-- The bounds `formula_terms` the writer gives `exField1B`: the bounds variable of every term that
spans the vertical axis and has bounds, the term's own variable otherwise (the rule that the seeded
change C01-3 breaks). -/
example : (match writeField {} exField1B with
           | .ok nc => nc.formulaTerms.lookup "atmosphere_hybrid_height_coordinate_bounds"
           | .error _ => none)
    = some [("a", "a_bounds"), ("b", "b_bounds"), ("orog", "surface_altitude")] := by decide +kernel

/-- Two grid mappings with different datums and a parametric vertical coordinate with the datum of the
first (which is not the last reference): the input class of the seeded change C01-5. -/
def exField2GM : MField :=
  { props := [("standard_name", "air_temperature")], ncvar := some "ta", data := ⟨1, false⟩
    dataAxes := ["domainaxis0", "domainaxis1", "domainaxis2"]
    axes := [("domainaxis0", ⟨2, none, false⟩), ("domainaxis1", ⟨3, none, false⟩), ("domainaxis2", ⟨4, none, false⟩)]
    cons := [
      ("dimensioncoordinate0", { ctype := .dim, props := [("computed_standard_name", "v1"), ("standard_name", "atmosphere_hybrid_height_coordinate")], ncvar := some "z", data := some ⟨2, false⟩ }, ["domainaxis0"]),
      ("dimensioncoordinate1", { ctype := .dim, props := [("standard_name", "grid_latitude")], ncvar := some "y", data := some ⟨3, false⟩ }, ["domainaxis1"]),
      ("dimensioncoordinate2", { ctype := .dim, props := [("standard_name", "grid_longitude")], ncvar := some "x", data := some ⟨4, false⟩ }, ["domainaxis2"]),
      ("auxiliarycoordinate0", { ctype := .aux, props := [("standard_name", "latitude")], ncvar := some "lat", data := some ⟨5, false⟩ }, ["domainaxis1", "domainaxis2"]),
      ("auxiliarycoordinate1", { ctype := .aux, props := [("standard_name", "longitude")], ncvar := some "lon", data := some ⟨6, false⟩ }, ["domainaxis1", "domainaxis2"]),
      ("domainancillary0", { ctype := .dan, props := [], ncvar := some "a", data := some ⟨7, false⟩ }, ["domainaxis0"]),
      ("domainancillary1", { ctype := .dan, props := [], ncvar := some "b", data := some ⟨8, false⟩ }, ["domainaxis0", "domainaxis1"])]
    cms := []
    refs := [
      ("coordinatereference0", { ncvar := some "rotated_pole", coords := ["dimensioncoordinate1", "dimensioncoordinate2"], params := [("grid_mapping_name", "rotated_latitude_longitude"), ("grid_north_pole_latitude", "v38")], datum := [("earth_radius", "v6371007")], terms := [] }),
      ("coordinatereference1", { ncvar := some "crs", coords := ["auxiliarycoordinate0", "auxiliarycoordinate1"], params := [("grid_mapping_name", "latitude_longitude")], datum := [("earth_radius", "v7000000")], terms := [] }),
      ("coordinatereference2", { ncvar := none, coords := ["dimensioncoordinate0"], params := [("computed_standard_name", "v1"), ("standard_name", "atmosphere_hybrid_height_coordinate")], datum := [("earth_radius", "v6371007")], terms := [("a", some "domainancillary0"), ("b", some "domainancillary1")] })] }

example : WFFieldB exField2GM := by decide
example : NoSharedDan {} exField2GM := by decide
example : acceptsB {} exField2GM = true := by decide +kernel
/-- The parametric coordinate `z` is listed under the grid mapping that has its datum (`rotated_pole`,
not the last one), … -/
example : (match writeField {} exField2GM with
           | .ok nc => nc.gridMapping
           | .error _ => [])
    = [("ta", [("rotated_pole", ["x", "y", "z"]), ("crs", ["lat", "lon"])])] := by decide +kernel
/-- … and the theorem applies: the field read back is equivalent to the original (in particular the
vertical reference has its datum again). -/
example : ∃ g, (∃ nc, writeField {} exField2GM = .ok nc ∧ readFile nc = [g]) ∧ Equiv exField2GM g := by
  obtain ⟨nc, hw, hf, hk⟩ := acceptsB_spec (o := {}) (f := exField2GM) (by decide +kernel)
  obtain ⟨g, hr, he⟩ := C01_roundtripB_partial {} rfl exField2GM (by decide) (by decide) nc hw hf hk
  exact ⟨g, ⟨nc, hw, hr⟩, he⟩

/-- `exField2GM` with a vertical datum that neither grid mapping has: the writer stores it in a grid
mapping variable of its own (`latitude_longitude: z` in the `grid_mapping` attribute). -/
def exVDatumAlone : MField :=
  { exField2GM with refs := exField2GM.refs.map (fun kr =>
      if kr.1 == "coordinatereference2" then (kr.1, { kr.2 with datum := [("semi_major_axis", "v6378137")] }) else kr) }

/-- The reader as it is does not record that variable as referenced by the data variable (it does so
only for a grid mapping that becomes a coordinate reference): the variable is read as a second field.
With fixes/C01-vertical-datum-grid-mapping-referenced.patch one field is read.  Finding
`vertical-datum-grid-mapping-variable-read-as-field`.  (The field is outside `WFFieldB` all the same:
the datum comes back, but on a vertical reference only — CF has no place for it — see
`vertical-datum-without-matching-grid-mapping-adds-coordinate-reference`.) -/
theorem C01_vertical_datum_gm_old_code_counterexample :
    (match writeField {} exVDatumAlone with
     | .ok nc => (nc.gridMapping, (readFile nc).map (fun (g : MField) => g.ncvar), (readFileOld nc).map (fun (g : MField) => g.ncvar))
     | .error _ => ([], [], []))
      = ([("ta", [("rotated_pole", ["x", "y"]), ("crs", ["lat", "lon"]), ("latitude_longitude", ["z"])])],
         [some "ta"], [some "latitude_longitude", some "ta"]) := by
  decide +kernel

/-! ### What `WFField` excludes: witnesses on the model (each reproduced on cfdm, see known_findings.json) -/

/-- What comes back, reduced to what the witnesses look at: per field the number of data axes, the
number of domain axes and the construct types. -/
def roundTripShape (o : Opts) (f : MField) : List (Nat × Nat × List CType) :=
  match writeField o f with
  | .ok nc => (readFile nc).map (fun g => (g.dataAxes.length, g.axes.length, g.cons.map (fun e => e.con.ctype)))
  | .error _ => []

/-- A *numeric* auxiliary coordinate alone on a size-1 axis outside the data … -/
def exNumericScalarAux : MField :=
  { props := [("standard_name", "air_temperature")], ncvar := none, data := ⟨1, false⟩, dataAxes := ["domainaxis0"]
    axes := [("domainaxis0", ⟨3, none, false⟩), ("domainaxis1", ⟨1, none, false⟩)]
    cons := [("auxiliarycoordinate0", { ctype := .aux, props := [("standard_name", "height")], ncvar := none,
                                         data := some ⟨2, false⟩ }, ["domainaxis1"])]
    cms := [] }

/-- … is outside the proved class, and is read back as a *dimension* coordinate (CF 5.7: a numeric
scalar coordinate variable is a coordinate variable).  Finding
`numeric-scalar-auxiliary-coordinate-read-as-dimension-coordinate`. -/
theorem C01_numeric_scalar_aux_counterexample :
    ¬ WFField exNumericScalarAux ∧ roundTripShape {} exNumericScalarAux = [(1, 2, [.dim])] := by decide +kernel

/-- A size-1 axis outside the data with a dimension coordinate *and* a string-valued auxiliary
coordinate … -/
def exTwoOnScalarAxis : MField :=
  { props := [("standard_name", "air_temperature")], ncvar := none, data := ⟨1, false⟩, dataAxes := ["domainaxis0"]
    axes := [("domainaxis0", ⟨3, none, false⟩), ("domainaxis1", ⟨1, none, false⟩)]
    cons := [("dimensioncoordinate0", { ctype := .dim, props := [("standard_name", "height")], ncvar := none,
                                         data := some ⟨2, false⟩ }, ["domainaxis1"]),
             ("auxiliarycoordinate0", { ctype := .aux, props := [("long_name", "v1")], ncvar := none,
                                         data := some ⟨3, true⟩ }, ["domainaxis1"])]
    cms := [] }

/-- … is outside the proved class: the writer inserts the axis into the data (2 data axes instead
of 1; CF-netCDF has no other way to let two variables share the axis).  Finding
`size1-axis-outside-data-spanned-by-several-constructs`. -/
theorem C01_inserted_axis_counterexample :
    ¬ WFField exTwoOnScalarAxis ∧ roundTripShape {} exTwoOnScalarAxis = [(2, 2, [.dim, .aux])] := by decide +kernel

/-- A parametric vertical coordinate with bounds whose term `orog` does not span the vertical axis
but has bounds … -/
def exOrogBounds : MField :=
  { props := [("standard_name", "air_temperature")], ncvar := none, data := ⟨1, false⟩, dataAxes := ["domainaxis0", "domainaxis1"]
    axes := [("domainaxis0", ⟨2, none, false⟩), ("domainaxis1", ⟨3, none, false⟩)]
    cons := [("dimensioncoordinate0", { ctype := .dim, props := [("computed_standard_name", "v1"), ("standard_name", "atmosphere_hybrid_height_coordinate")], ncvar := none, data := some ⟨2, false⟩, bounds := some { props := [], ncvar := none, ncdim := none, data := ⟨3, false⟩, nverts := 2 } }, ["domainaxis0"]),
             ("domainancillary0", { ctype := .dan, props := [], ncvar := none, data := some ⟨4, false⟩ }, ["domainaxis0"]),
             ("domainancillary1", { ctype := .dan, props := [("standard_name", "surface_altitude")], ncvar := none, data := some ⟨5, false⟩, bounds := some { props := [], ncvar := none, ncdim := none, data := ⟨6, false⟩, nverts := 2 } }, ["domainaxis1"])]
    cms := []
    refs := [("coordinatereference0", { ncvar := none, coords := ["dimensioncoordinate0"], params := [("computed_standard_name", "v1"), ("standard_name", "atmosphere_hybrid_height_coordinate")], datum := [], terms := [("a", some "domainancillary0"), ("orog", some "domainancillary1")] })] }

/-- … is outside the proved class (`boundsEncodable`): the bounds variable of the parametric coordinate
names, in its `formula_terms`, only the bounds of terms that span the vertical axis (CF 7.1), and the
domain ancillary variable gets no `bounds` attribute — the bounds of `orog` are written to a variable
that nothing refers to, which is read as a second field, and `orog` comes back without bounds.
Finding `domain-ancillary-bounds-not-named-by-bounds-formula-terms`. -/
theorem C01_dan_bounds_counterexample :
    ¬ WFFieldB exOrogBounds ∧
    (match writeField {} exOrogBounds with
     | .ok nc => (readFile nc).map (fun (g : MField) => (g.ncvar, g.cons.map (fun (e : Entry) => (e.con.ctype, e.con.bounds.isSome))))
     | .error _ => [])
      = [(some "air_temperature", [(.dim, true), (.dan, false), (.dan, false)]), (some "bounds", [])] := by
  decide +kernel

def roundTripShapeOld (o : Opts) (f : MField) : List (Nat × Nat × List CType) :=
  match writeFieldOld o f with
  | .ok nc => (readFile nc).map (fun g => (g.dataAxes.length, g.axes.length, g.cons.map (fun e => e.con.ctype)))
  | .error _ => []

/-- The writer as it is (without fixes/C01-inserted-axis-auxiliary-coordinate.patch): the local
list `data_axes` is not updated after `insert_dimension`, the auxiliary coordinate is still written
as a scalar coordinate variable and is read back on a *third* axis of its own.  Finding
`auxiliary-coordinate-on-inserted-axis-written-as-scalar-coordinate`. -/
theorem C01_old_inserted_axis_counterexample :
    roundTripShapeOld {} exTwoOnScalarAxis = [(2, 3, [.dim, .aux])] := by decide +kernel

/-- On the proved class the two writers agree (nothing is inserted), so the round-trip theorem
holds for the writer as it is as well. -/
theorem C01_old_eq_new_on_wf (o : Opts) (ho : o.scalar = true) (f : MField) (hwf : WFField f) :
    writeFieldOld o f = writeField o f := by
  have h1 := axesPhase_wf o ho f hwf.toB
  have h2 := axesPhaseOld_wf o ho f hwf.toB
  unfold writeFieldOld writeField writeField'
  rw [applyCsn_wf hwf.toB]
  simp only
  rw [h1, h2]

/-- A netCDF variable name that the writer has already handed out (here the default dimension name
`dim` of the unnamed data axis) cannot be kept: `PinnedKept` fails, the round trip itself holds.
Finding `netcdf-name-already-in-use-when-requested`. -/
def exPinnedClash : MField :=
  { props := [], ncvar := none, data := ⟨1, false⟩, dataAxes := ["domainaxis0"]
    axes := [("domainaxis0", ⟨3, none, false⟩)]
    cons := [("auxiliarycoordinate0", { ctype := .aux, props := [], ncvar := some "dim", data := some ⟨2, false⟩ }, ["domainaxis0"])]
    cms := [] }

theorem C01_pinned_name_counterexample :
    WFField exPinnedClash ∧
    (match naming exPinnedClash (axesPhase {} exPinnedClash) with
     | .ok names => nameOf names (.con "auxiliarycoordinate0")
     | .error _ => "") = "dim_1" := by decide +kernel

/-! ### The `cell_methods` attribute: `_parse_cell_methods` undoes `CellMethod.__str__`

`NcVar.cellMethods` above is the parsed attribute.  On the level of the attribute's words
(`Cfdm.CellMethods`: the writer is `CellMethod.__str__`, the reader the token loop of
`_parse_cell_methods_string`) the reader with fixes/C01-cell-method-interval-units.patch gives back
every list of cell methods, whatever combination of `within` / `where` / `over`, intervals (with or
without units) and comment they carry. -/

open Cfdm.CellMethods in
/-- **parse ∘ write = id** for every list of cell methods `CellMethod.__str__` can write
(`WFCM`: the method is a plain word, interval values are literals, units and comment words are not
keywords, at most one interval or one per axis). -/
theorem C01_cell_methods_parse_write (lit : Word → Bool) (cms : List CM) (h : ∀ cm ∈ cms, WFCM lit cm) :
    parse stopNew lit (writeCMs cms) = some cms :=
  parse_writeCMs lit cms h

namespace CMExamples
open Cfdm.CellMethods

def numeral (w : Word) : Bool := !w.isEmpty && w.all (fun c => c.isDigit || c == '.')

/-- `area: mean where land over all_area_types` (two portion qualifiers, CF 7.3.3),
`lat: lon: maximum within days (interval: 1 hour interval: 0.5 comment: sampled twice)`,
`time: mean over years (masked)`. -/
def exCMs : List CM :=
  [ { axes := ["area".toList], method := "mean".toList, where_ := some "land".toList, over := some "all_area_types".toList },
    { axes := ["lat".toList, "lon".toList], method := "maximum".toList, within := some "days".toList,
      intervals := [("1".toList, some "hour".toList), ("0.5".toList, none)],
      comment := some ["sampled".toList, "twice".toList] },
    { axes := ["time".toList], method := "mean".toList, over := some "years".toList, comment := some ["masked".toList] } ]

/-- The examples meet the hypothesis of `C01_cell_methods_parse_write` … -/
example : ∀ cm ∈ exCMs, WFCM numeral cm := by decide
/-- … they are written as CF writes them … -/
example : (writeCMs exCMs).map String.ofList =
    ["area:", "mean", "where", "land", "over", "all_area_types",
     "lat:", "lon:", "maximum", "within", "days", "(", "interval:", "1", "hour", "interval:", "0.5", "comment:", "sampled", "twice", ")",
     "time:", "mean", "over", "years", "(", "masked", ")"] := by decide
/-- … and read back. -/
example : parse stopNew numeral (writeCMs exCMs) = some exCMs := by decide

/-- `lat: mean (interval: 1 comment: sampled twice)`: an interval without units before a comment. -/
def exUnitless : List CM :=
  [ { axes := ["lat".toList], method := "mean".toList, intervals := [("1".toList, none)],
      comment := some ["sampled".toList, "twice".toList] } ]

end CMExamples

open Cfdm.CellMethods CMExamples in
/-- The reader as it is (`stopOld`: the word after an interval value is its units unless it is
`)`) takes the keyword `comment:` for the units of a unitless interval and loses the comment; the
patched reader does not.  Finding `cell-method-interval-without-units-followed-by-interval-or-comment`. -/
theorem C01_cell_methods_old_code_counterexample :
    (∀ cm ∈ exUnitless, WFCM numeral cm) ∧
    parse stopNew numeral (writeCMs exUnitless) = some exUnitless ∧
    parse stopOld numeral (writeCMs exUnitless) =
      some [ { axes := ["lat".toList], method := "mean".toList, intervals := [("1".toList, some "comment:".toList)] } ] := by
  decide

end Cfdm.Props.C01
