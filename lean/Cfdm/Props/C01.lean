import Cfdm.Lemmas.CodecFile
/-
C01 — write then read returns the same field construct.

Property (properties.jsonl, C01): for every construct the writer accepts whose data types netCDF
can store, under every supported format and every write option documented as lossless, reading
the new file yields exactly one construct that is equal to the original in both directions, with
the same data values, masks, data types and axis-to-construct mapping and with every netCDF
variable and dimension name that had been set.

Full-strength statement on the model (all construct classes):

    theorem C01_roundtrip (o : Opts) (f : MField) (nc : NcFile) (hwf : WFFieldAll f)
        (hw : writeField o f = .ok nc) :
        ∃ g, readFile nc = [g] ∧ Equiv f g ∧ NamesKept κ f g

where `WFFieldAll` also admits coordinate references with datums and formula terms / domain
ancillaries (stage B), domains, external cell measures, ragged / gathered compression and
geometry cells (stage C), and `o` ranges over `scalar` ∈ {true, false} too.

Proved here: `C01_roundtrip_partial`, the statement for **stage A** — any number of domain axes
(size-1, unlimited, spanned by the data or not), dimension coordinates, auxiliary coordinates
(N-d, string-valued, scalar), bounds (also climatological), cell measures, field ancillaries and
cell methods (over axes or free names), any properties (also global ones), any netCDF names, for
`scalar = True` (the only value `cfdm.write` can pass) and both values of `coordinates`.
Missing (open, outside the model, covered by the sampled oracle only): coordinate references and
domain ancillaries, domains, external cell measures, compression, geometries, `scalar = False`,
constructs sharing one netCDF variable (`_already_in_file`).
`WFField` excludes what CF-netCDF cannot hold; the exclusions that `cfdm.write` nevertheless
accepts are findings (`known_findings.json`) and have `decide`-checked witnesses below.
-/
namespace Cfdm.Props.C01
open Cfdm.Codec

/-- The names the writer allocated are the names that had been set. -/
def PinnedKept (f : MField) (names : List (Slot × String)) : Prop :=
  (∀ n, f.ncvar = some n → nameOf names .field = n) ∧
  ∀ e ∈ f.cons, (∀ n, e.con.ncvar = some n → nameOf names (.con e.key) = n) ∧
    (∀ b, e.con.bounds = some b → ∀ n, b.ncvar = some n → nameOf names (.bvar e.key) = n)

/-- Free cell-method names (`area`, standard names) do not clash with a netCDF name of the file. -/
def FreeNamesOK (f : MField) (nc : NcFile) : Prop :=
  ∀ cm ∈ f.cms, ∀ a ∈ cm.axes, a ∉ f.axisKeys → a ∉ nc.dims.map (·.name) ∧ a ∉ nc.vars.map (·.name)

instance (f : MField) (nc : NcFile) : Decidable (FreeNamesOK f nc) := by unfold FreeNamesOK; infer_instance

/-- **Round trip, stage A.**  Writing a well-formed field and reading the file back gives
exactly one field, which is the original up to construct keys and insertion order. -/
theorem C01_roundtrip_partial (o : Opts) (ho : o.scalar = true) (f : MField) (hwf : WFField f) (nc : NcFile)
    (hw : writeField o f = .ok nc) (hfree : FreeNamesOK f nc) :
    ∃ g, readFile nc = [g] ∧ Equiv f g := by
  obtain ⟨names, hn, rfl⟩ := writeField_wf ho hwf hw
  have hx : ∀ e ∈ f.ofType .msr, e.con.external = false := by
    intro e he
    exact (wf_entry hwf (mem_ofType.mp he).1).1.2.2.2.2.1
  have hg := naming_good hx hn
  exact ⟨_, readFile_wf hwf hg, read_equiv hwf hg hfree⟩

/-- **Names, stage A.**  The field read back carries on every construct (and on every bounds)
the netCDF variable name the writer gave it; so whenever the writer could use the names that had
been set (`PinnedKept`: no clash with a name handed out earlier), they are all found again. -/
theorem C01_names_kept_partial (o : Opts) (ho : o.scalar = true) (f : MField) (hwf : WFField f) (nc : NcFile)
    (hw : writeField o f = .ok nc) :
    ∃ names g, naming f (axesPhase o f) = .ok names ∧ readFile nc = [g] ∧
      (PinnedKept f names → NamesKept (kappaOf names) f g) := by
  obtain ⟨names, hn, rfl⟩ := writeField_wf ho hwf hw
  have hx : ∀ e ∈ f.ofType .msr, e.con.external = false := by
    intro e he
    exact (wf_entry hwf (mem_ofType.mp he).1).1.2.2.2.2.1
  have hg := naming_good hx hn
  refine ⟨names, _, by rw [axesPhase_wf o ho f hwf]; exact hn, readFile_wf hwf hg, ?_⟩
  intro hp
  refine ⟨fun n h => by rw [← hp.1 n h]; rfl, ?_⟩
  intro e he e' he' hk
  -- `e'` is what the reader made of `e`
  rw [read_cons hwf hg] at he'
  obtain ⟨e0, he0, rfl⟩ := List.mem_map.mp he'
  have he0' := (readOrder_perm hwf).mem_iff.mp he0
  have hkk : e0.key = e.key :=
    kappa_inj hwf hg _ (List.mem_map_of_mem he0') _ (List.mem_map_of_mem he) hk
  have hee := wf_keys_inj hwf he0' he hkk
  subst hee
  obtain ⟨hp1, hp2⟩ := hp.2 e0 he
  have hnc : (rd o f names e0).con.ncvar = some (nameOf names (.con e0.key)) := by
    unfold rd Entry.con rdCon
    simp only
    cases ht : e0.con.ctype <;> simp only [readCoord, mainVar_name]
  constructor
  · intro n h
    rw [hnc, hp1 n h]
  · intro b hb n hbn
    have hc := wf_bounds_coord hwf hg he hb
    have hrb := readBounds_exact (o := o) hwf hg he hc
    rw [hb] at hrb
    simp only [Option.map_some] at hrb
    have hmv : mainVar f names (wfAx f) e0 = coordVar f names e0 (cdimsOf names (wfAx f) e0) := by
      unfold mainVar isCoord at *
      cases ht : e0.con.ctype <;> simp [ht] at hc ⊢
    have hbb : (rd o f names e0).con.bounds = readBounds (wfFile o f names) (coordVar f names e0 (cdimsOf names (wfAx f) e0)) := by
      unfold rd Entry.con rdCon
      simp only
      unfold isCoord at hc
      cases ht : e0.con.ctype with
      | dim => simp only [readCoord]; rw [hmv]
      | aux => simp only [readCoord]; rw [hmv]
      | msr => simp [ht] at hc
      | fan => simp [ht] at hc
    rw [hrb] at hbb
    exact ⟨_, hbb, by simp only; rw [hp2 b hb n hbn]⟩

/-! ### Non-vacuity: concrete fields meeting the hypotheses -/

/-- The abstraction of `cfdm.example_field(0)` (harness/corr/C01.py `abstract_field`). -/
def exField0 : MField :=
  { props := [("project", "vc6f9ad87955e"), ("standard_name", "v134d8ca88f87"), ("units", "v29cbb7869e9f")]
    ncvar := (some "q")
    data := ⟨113466478714639, false⟩
    dataAxes := ["domainaxis0", "domainaxis1"]
    axes := [("domainaxis0", ⟨5, (some "lat"), false⟩), ("domainaxis1", ⟨8, (some "lon"), false⟩), ("domainaxis2", ⟨1, none, false⟩)]
    cons := [
      ("dimensioncoordinate0", { ctype := .dim, props := [("standard_name", "v5d98911dde95"), ("units", "v965568b13bc4")], ncvar := (some "lat"), data := (some ⟨31003398717956, false⟩), bounds := (some { props := [], ncvar := (some "lat_bnds"), ncdim := none, data := ⟨84135050802323, false⟩, nverts := 2 }), climatology := false, measure := none, external := false }, ["domainaxis0"]),
      ("dimensioncoordinate1", { ctype := .dim, props := [("standard_name", "v2f0a8d9145e8"), ("units", "v5a60b51200f3")], ncvar := (some "lon"), data := (some ⟨20026789590814, false⟩), bounds := (some { props := [], ncvar := (some "lon_bnds"), ncdim := none, data := ⟨278409288180425, false⟩, nverts := 2 }), climatology := false, measure := none, external := false }, ["domainaxis1"]),
      ("dimensioncoordinate2", { ctype := .dim, props := [("standard_name", "ve9c781433dbe"), ("units", "vef285725dc60")], ncvar := (some "time"), data := (some ⟨39281972191842, false⟩), bounds := none, climatology := false, measure := none, external := false }, ["domainaxis2"])]
    cms := [{ axes := ["area"], method := (some "mean"), quals := [] }] }

/-- The abstraction of `cfdm.example_field(1)` without its two coordinate references and three domain
ancillaries (stage B). -/
def exField1A : MField :=
  { props := [("project", "vc6f9ad87955e"), ("standard_name", "va2c0afe2d795"), ("units", "vf3d578838536")]
    ncvar := (some "ta")
    data := ⟨107348807817608, false⟩
    dataAxes := ["domainaxis0", "domainaxis1", "domainaxis2"]
    axes := [("domainaxis0", ⟨1, (some "atmosphere_hybrid_height_coordinate"), false⟩), ("domainaxis1", ⟨10, (some "y"), false⟩), ("domainaxis2", ⟨9, (some "x"), false⟩), ("domainaxis3", ⟨1, none, false⟩)]
    cons := [
      ("dimensioncoordinate0", { ctype := .dim, props := [("computed_standard_name", "vb8168e650227"), ("standard_name", "v9d9153dd3c91"), ("units", "vdd4d60ebd9f2")], ncvar := (some "atmosphere_hybrid_height_coordinate"), data := (some ⟨171351176160285, false⟩), bounds := (some { props := [], ncvar := (some "atmosphere_hybrid_height_coordinate_bounds"), ncdim := none, data := ⟨54059169475299, false⟩, nverts := 2 }), climatology := false, measure := none, external := false }, ["domainaxis0"]),
      ("dimensioncoordinate1", { ctype := .dim, props := [("standard_name", "v627c6e5c3229"), ("units", "v5327eba8a019")], ncvar := (some "y"), data := (some ⟨155059457251685, false⟩), bounds := (some { props := [], ncvar := (some "y_bnds"), ncdim := none, data := ⟨207653800254386, false⟩, nverts := 2 }), climatology := false, measure := none, external := false }, ["domainaxis1"]),
      ("dimensioncoordinate2", { ctype := .dim, props := [("standard_name", "vfca41deda192"), ("units", "v5327eba8a019")], ncvar := (some "x"), data := (some ⟨125435908724873, false⟩), bounds := (some { props := [], ncvar := (some "x_bnds"), ncdim := none, data := ⟨271378814485813, false⟩, nverts := 2 }), climatology := false, measure := none, external := false }, ["domainaxis2"]),
      ("dimensioncoordinate3", { ctype := .dim, props := [("standard_name", "ve9c781433dbe"), ("units", "vef285725dc60")], ncvar := (some "time"), data := (some ⟨39281972191842, false⟩), bounds := none, climatology := false, measure := none, external := false }, ["domainaxis3"]),
      ("auxiliarycoordinate0", { ctype := .aux, props := [("standard_name", "v5d98911dde95"), ("units", "vbbabcede06af")], ncvar := (some "latitude_1"), data := (some ⟨31615526774531, false⟩), bounds := none, climatology := false, measure := none, external := false }, ["domainaxis1", "domainaxis2"]),
      ("auxiliarycoordinate1", { ctype := .aux, props := [("standard_name", "v2f0a8d9145e8"), ("units", "vf7b4babfddae")], ncvar := (some "longitude_1"), data := (some ⟨186196797358962, false⟩), bounds := none, climatology := false, measure := none, external := false }, ["domainaxis2", "domainaxis1"]),
      ("auxiliarycoordinate2", { ctype := .aux, props := [("long_name", "v9fe682034973")], ncvar := (some "auxiliary"), data := (some ⟨182283487050647, true⟩), bounds := none, climatology := false, measure := none, external := false }, ["domainaxis1"]),
      ("cellmeasure0", { ctype := .msr, props := [("units", "v01ec0a57f26c")], ncvar := (some "cell_measure"), data := (some ⟨18864733469660, false⟩), bounds := none, climatology := false, measure := (some "area"), external := false }, ["domainaxis2", "domainaxis1"]),
      ("fieldancillary0", { ctype := .fan, props := [("standard_name", "v360905a84116"), ("units", "vf3d578838536")], ncvar := (some "air_temperature_standard_error"), data := (some ⟨75429202923086, false⟩), bounds := none, climatology := false, measure := none, external := false }, ["domainaxis1", "domainaxis2"])]
    cms := [{ axes := ["domainaxis1", "domainaxis2"], method := (some "mean"), quals := [("where", "v280cc979b9e3"), ("interval", "v951a3303b8bc")] }, { axes := ["domainaxis3"], method := (some "maximum"), quals := [] }] }


/-- `cfdm.example_field(0)` is in the proved class, … -/
example : WFField exField0 := by decide
/-- The hypotheses of `C01_roundtrip_partial` about the writer, as one decidable check. -/
def accepts (o : Opts) (f : MField) : Bool :=
  match writeField o f with
  | .ok nc => decide (FreeNamesOK f nc)
  | .error _ => false

theorem accepts_spec {o : Opts} {f : MField} (h : accepts o f = true) :
    ∃ nc, writeField o f = .ok nc ∧ FreeNamesOK f nc := by
  unfold accepts at h
  split at h
  · rename_i nc hnc; exact ⟨nc, hnc, by simpa using h⟩
  · cases h

/-- … the writer accepts it and its free cell-method name `area` clashes with nothing, … -/
example : accepts {} exField0 = true := by decide +kernel
/-- … so the theorem applies to it (and to the stage-A part of `cfdm.example_field(1)`). -/
example : ∃ g, (∃ nc, writeField {} exField0 = .ok nc ∧ readFile nc = [g]) ∧ Equiv exField0 g := by
  obtain ⟨nc, hw, hf⟩ := accepts_spec (o := {}) (f := exField0) (by decide +kernel)
  obtain ⟨g, hr, he⟩ := C01_roundtrip_partial {} rfl exField0 (by decide) nc hw hf
  exact ⟨g, ⟨nc, hw, hr⟩, he⟩
example : WFField exField1A := by decide
example : accepts { coordinates := true } exField1A = true := by decide +kernel

/-! ### What `WFField` excludes: witnesses on the model (each reproduced on cfdm, see known_findings.json) -/

/-- What comes back, reduced to what the witnesses look at: per field the number of data axes, the
number of domain axes and the construct types. -/
def roundTripShape (o : Opts) (f : MField) : List (Nat × Nat × List CType) :=
  match writeField o f with
  | .ok nc => (readFile nc).map (fun g => (g.dataAxes.length, g.axes.length, g.cons.map (fun e => e.con.ctype)))
  | .error _ => []

/-- A *numeric* auxiliary coordinate alone on a size-1 axis outside the data … -/
def exNumericScalarAux : MField :=
  { props := [("standard_name", "air_temperature")], ncvar := none, data := ⟨1, false⟩, dataAxes := ["domainaxis0"]
    axes := [("domainaxis0", ⟨3, none, false⟩), ("domainaxis1", ⟨1, none, false⟩)]
    cons := [("auxiliarycoordinate0", { ctype := .aux, props := [("standard_name", "height")], ncvar := none,
                                         data := some ⟨2, false⟩ }, ["domainaxis1"])]
    cms := [] }

/-- … is outside the proved class, and is read back as a *dimension* coordinate (CF 5.7: a numeric
scalar coordinate variable is a coordinate variable).  Finding
`numeric-scalar-auxiliary-coordinate-read-as-dimension-coordinate`. -/
theorem C01_numeric_scalar_aux_counterexample :
    ¬ WFField exNumericScalarAux ∧ roundTripShape {} exNumericScalarAux = [(1, 2, [.dim])] := by decide +kernel

/-- A size-1 axis outside the data with a dimension coordinate *and* a string-valued auxiliary
coordinate … -/
def exTwoOnScalarAxis : MField :=
  { props := [("standard_name", "air_temperature")], ncvar := none, data := ⟨1, false⟩, dataAxes := ["domainaxis0"]
    axes := [("domainaxis0", ⟨3, none, false⟩), ("domainaxis1", ⟨1, none, false⟩)]
    cons := [("dimensioncoordinate0", { ctype := .dim, props := [("standard_name", "height")], ncvar := none,
                                         data := some ⟨2, false⟩ }, ["domainaxis1"]),
             ("auxiliarycoordinate0", { ctype := .aux, props := [("long_name", "v1")], ncvar := none,
                                         data := some ⟨3, true⟩ }, ["domainaxis1"])]
    cms := [] }

/-- … is outside the proved class: the writer inserts the axis into the data (2 data axes instead
of 1; CF-netCDF has no other way to let two variables share the axis).  Finding
`size1-axis-outside-data-spanned-by-several-constructs`. -/
theorem C01_inserted_axis_counterexample :
    ¬ WFField exTwoOnScalarAxis ∧ roundTripShape {} exTwoOnScalarAxis = [(2, 2, [.dim, .aux])] := by decide +kernel

def roundTripShapeOld (o : Opts) (f : MField) : List (Nat × Nat × List CType) :=
  match writeFieldOld o f with
  | .ok nc => (readFile nc).map (fun g => (g.dataAxes.length, g.axes.length, g.cons.map (fun e => e.con.ctype)))
  | .error _ => []

/-- The writer as it is (without fixes/C01-inserted-axis-auxiliary-coordinate.patch): the local
list `data_axes` is not updated after `insert_dimension`, the auxiliary coordinate is still written
as a scalar coordinate variable and is read back on a *third* axis of its own.  Finding
`auxiliary-coordinate-on-inserted-axis-written-as-scalar-coordinate`. -/
theorem C01_old_inserted_axis_counterexample :
    roundTripShapeOld {} exTwoOnScalarAxis = [(2, 3, [.dim, .aux])] := by decide +kernel

/-- On the proved class the two writers agree (nothing is inserted), so the round-trip theorem
holds for the writer as it is as well. -/
theorem C01_old_eq_new_on_wf (o : Opts) (ho : o.scalar = true) (f : MField) (hwf : WFField f) :
    writeFieldOld o f = writeField o f := by
  have h1 := axesPhase_wf o ho f hwf
  have h2 := axesPhaseOld_wf o ho f hwf
  unfold writeFieldOld writeField
  rw [h1, h2]

/-- A netCDF variable name that the writer has already handed out (here the default dimension name
`dim` of the unnamed data axis) cannot be kept: `PinnedKept` fails, the round trip itself holds.
Finding `netcdf-name-already-in-use-when-requested`. -/
def exPinnedClash : MField :=
  { props := [], ncvar := none, data := ⟨1, false⟩, dataAxes := ["domainaxis0"]
    axes := [("domainaxis0", ⟨3, none, false⟩)]
    cons := [("auxiliarycoordinate0", { ctype := .aux, props := [], ncvar := some "dim", data := some ⟨2, false⟩ }, ["domainaxis0"])]
    cms := [] }

theorem C01_pinned_name_counterexample :
    WFField exPinnedClash ∧
    (match naming exPinnedClash (axesPhase {} exPinnedClash) with
     | .ok names => nameOf names (.con "auxiliarycoordinate0")
     | .error _ => "") = "dim_1" := by decide +kernel

end Cfdm.Props.C01
