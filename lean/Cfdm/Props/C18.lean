import Cfdm.Lemmas.Select
/-
C18 — construct selection agrees with construct identities and keys.
Property theorems only; the model and the specification are in `Model/Select.lean`,
helper lemmas in `Lemmas/Select.lean`.

The model mirrors cfdm *after* the four repairs proposed in `fixes/C18-*.patch`.
For each repaired defect the behaviour of the unrepaired code is kept (`…Old`) and
refuted below by a concrete witness (`C18_…_old_counterexample`).
-/
namespace Cfdm.Props.C18
open Cfdm.Select Cfdm.Select.Examples

/-! ### identities -/

/-- The `short` iteration (only the first identity of the body / of the bounds is
generated when every value is a plain string without `=`, `:`, `%`) loses nothing:
a value matches a generated identity iff it matches one of *all* the identities
that the construct reports. -/
theorem C18_short_iteration_loses_nothing (c : Construct) (qs : List Q)
    (hb : (∀ s ∈ c.idBody.drop 1, bareStr s = false) ∧ (∀ s ∈ c.idPost.drop 1, bareStr s = false))
    (hq : qs.all Q.bare = true) :
    (∃ q ∈ qs, ∃ s ∈ c.idsFor true, q.matches s = true) ↔
      (∃ q ∈ qs, ∃ s ∈ c.identities, q.matches s = true) := by
  constructor
  · rintro ⟨q, hq', s, hs, hm⟩; exact ⟨q, hq', s, idsFor_subset hs, hm⟩
  · rintro ⟨q, hq', s, hs, hm⟩
    obtain ⟨t, ht, hbt⟩ := bare_str (List.all_eq_true.mp hq q hq')
    subst ht
    have : t = s := str_matches.mp hm
    subst this
    exact ⟨.str t, hq', t, short_complete hb hs hbt, hm⟩

example : (∃ q ∈ [Q.str "cell_area"], ∃ s ∈ area.idsFor true, q.matches s = true) :=
  (C18_short_iteration_loses_nothing area [.str "cell_area"] (by decide) (by decide)).mpr
    ⟨.str "cell_area", by simp, "cell_area", by decide, by decide⟩

/-- `filter_by_identity` (key pre-pass, short iteration, interleaved generators) selects
exactly the members whose key or one of whose reported identities matches one of
the values. -/
theorem C18_identity_sound_complete (cs : List Construct) (qs : List Q) (c : Construct) (hwf : WF cs) :
    c ∈ filterByIdentity cs qs ↔ c ∈ cs ∧ (qs = [] ∨ MatchesIdentity c qs) :=
  mem_filterByIdentity hwf

example : area ∈ filterByIdentity fld [.str "cell_area"] := by decide
example : filterByIdentity fld [.str "key%domainaxis1", .pat [(true, "lat")]] = [lat, ax1] := by decide

/-- Unrepaired code (`Container._iter` returns after the very first identity):
a cell measure that reports the identity `cell_area` is not selected by it, and a
coordinate is not selected by the standard name that its bounds contribute. -/
theorem C18_identity_old_counterexample :
    WF fld ∧ area ∈ fld ∧ MatchesIdentity area [.str "cell_area"] ∧ area ∉ filterByIdentityOld fld [.str "cell_area"]
      ∧ MatchesIdentity aux [.str "foo"] ∧ aux ∉ filterByIdentityOld fld [.str "foo"] :=
  ⟨fld_wf, by decide, Or.inr ⟨.str "cell_area", by simp, "cell_area", by decide, by decide⟩, by decide,
    Or.inr ⟨.str "foo", by simp, "foo", by decide, by decide⟩, by decide⟩

/-- The exclusion in `WF` is needed: when an identity of one construct is the key of
another, the key pre-pass consumes the value and the identity is never looked at
(code as it is; no repair proposed). -/
theorem C18_foreign_key_identity_counterexample :
    let odd := mkC "auxiliarycoordinate1" .auxiliary_coordinate [] ["dimensioncoordinate0"] [] (some ["domainaxis0"])
    odd ∈ [lat, odd] ∧ MatchesIdentity odd [.str "dimensioncoordinate0"] ∧
      odd ∉ filterByIdentity [lat, odd] [.str "dimensioncoordinate0"] :=
  ⟨by decide, Or.inr ⟨.str "dimensioncoordinate0", by simp, "dimensioncoordinate0", by decide, by decide⟩, by decide⟩

/-! ### every filter -/

/-- Each `filter_by_*` worker (either form, `todict` or not) returns exactly the
members that satisfy the documented predicate `Sat`. -/
theorem C18_filter_sound_complete (dict : Bool) (ctx : Ctx) (f : Filter) (cs : List Construct)
    (c : Construct) (hwf : WF cs) :
    c ∈ runFilter dict ctx ctx.base f cs ↔ c ∈ cs ∧ Sat ctx f c :=
  mem_runFilter hwf

example : runFilter false ctx ctx.base (.axis .exact [.str "latitude", .int (-1)]) fld = [area] := by decide
example : runFilter true ctx ctx.base (.property true [("units", some (.pat [(false, "north")])), ("foo", none)]) fld = [lat] := by
  decide
example : runFilter false ctx ctx.base (.axis .subset [.str "ncdim%lon"]) fld = [lon, aux] := by decide

/-- Filtering returns a sub-collection (members in their original order, none added);
in the functional model the source is untouched by construction. -/
theorem C18_filter_subcollection (dict : Bool) (ctx : Ctx) (fs : List Filter) (cs : List Construct) :
    (chainItems dict ctx fs cs).Sublist cs :=
  chainItems_sublist

example : (chainItems true ctx [.type [.dimension_coordinate, .cell_measure], .naxes [2]] fld).Sublist fld :=
  C18_filter_subcollection true ctx _ fld

/-- A chain of filters — one `filter(**kw)` call — selects the intersection. -/
theorem C18_chain_intersection (ctx : Ctx) (fs : List Filter) (coll : Coll) (c : Construct)
    (hwf : WF coll.items) :
    c ∈ (filterChain ctx fs coll).items ↔ c ∈ coll.items ∧ ∀ f ∈ fs, Sat ctx f c := by
  rw [filterChain_items]; exact mem_chainItems hwf

/-- `c.filter_by_a(…).filter_by_b(…)` is the same collection, history included, as
`c.filter(filter_by_a=…, filter_by_b=…)`. -/
theorem C18_method_chain_eq_kwargs (ctx : Ctx) (fs : List Filter) (coll : Coll) :
    runOps ctx (fs.map Op.meth) coll = filterChain ctx fs coll := by
  induction fs generalizing coll with
  | nil => rfl
  | cons f rest ih => exact ih (applyFilter ctx f coll)

/-- The order of the filters in a chain does not matter. -/
theorem C18_chain_order_independent (ctx : Ctx) (fs fs' : List Filter) (coll : Coll) (c : Construct)
    (hwf : WF coll.items) (hp : fs.Perm fs') :
    c ∈ (filterChain ctx fs coll).items ↔ c ∈ (filterChain ctx fs' coll).items := by
  rw [C18_chain_intersection ctx fs coll c hwf, C18_chain_intersection ctx fs' coll c hwf]
  exact ⟨fun h => ⟨h.1, fun f hf => h.2 f (hp.mem_iff.mpr hf)⟩, fun h => ⟨h.1, fun f hf => h.2 f (hp.mem_iff.mp hf)⟩⟩

example : (filterChain ctx [.naxes [1], .type [.dimension_coordinate, .auxiliary_coordinate], .identity [.pat [(false, "lon")]]]
    (Coll.ofBase fld)).items = [lon, aux] := by decide

example : area ∈ (filterChain ctx [.naxes [2], .measure [.str "area"]] (Coll.ofBase fld)).items ↔
    area ∈ (filterChain ctx [.measure [.str "area"], .naxes [2]] (Coll.ofBase fld)).items :=
  C18_chain_order_independent ctx _ _ (Coll.ofBase fld) area fld_wf (List.Perm.swap _ _ [])

/-- The dictionary form (`todict=True`) and the `Constructs` form have the same members. -/
theorem C18_todict_same_members (ctx : Ctx) (fs : List Filter) (coll : Coll) (c : Construct)
    (hwf : WF coll.items) :
    c ∈ chainDict ctx fs coll.items ↔ c ∈ (filterChain ctx fs coll).items := by
  rw [C18_chain_intersection ctx fs coll c hwf]
  exact mem_chainItems (dict := true) hwf

example : lat ∈ chainDict ctx [.type [.dimension_coordinate], .ncvar []] (Coll.ofBase fld).items ↔
    lat ∈ (filterChain ctx [.type [.dimension_coordinate], .ncvar []] (Coll.ofBase fld)).items :=
  C18_todict_same_members ctx _ (Coll.ofBase fld) lat fld_wf
example : chainDict ctx [.type [.dimension_coordinate], .ncvar []] fld = [lat, lon] := by decide

/-! ### `unfilter`, `inverse_filter` -/

/-- `unfilter(n)` after `n` further filters returns the collection they were applied
to (members *and* history); in particular `unfilter(1)` undoes the last filter. -/
theorem C18_unfilter_chain (ctx : Ctx) (fs gs : List Filter) (coll : Coll) :
    unfilter (filterChain ctx (fs ++ gs) coll) (some gs.length) = filterChain ctx fs coll := by
  have : filterChain ctx (fs ++ gs) coll = filterChain ctx gs (filterChain ctx fs coll) := by
    simp only [filterChain, List.foldl_append]
  rw [this]; exact unfilter_filterChain ctx gs _

example : (unfilter (filterChain ctx [.naxes [1], .type [.dimension_coordinate]] (Coll.ofBase fld)) (some 1)).items = [lat, lon, aux] := by
  decide

/-- Whatever program of filters, inverse filters and unfilters has been run on the
constructs of a field, `unfilter()` returns all of them. -/
theorem C18_unfilter_returns_base (ctx : Ctx) (ops : List Op) (base : List Construct) :
    (unfilter (runOps ctx ops (Coll.ofBase base)) none).items = base :=
  unfilter_none_items ((Inv.ofBase base).runOps ctx ops)

example : (unfilter (runOps ctx [.meth (.type [.domain_axis]), .inv none, .filt [.naxes [2]]] (Coll.ofBase fld)) none).items = fld := by
  decide

/-- `inverse_filter(depth)` is the complement of the current members within
`unfilter(depth)` — within all constructs of the field for the default depth —
for every collection reachable by a program (excluded: a depth given directly
after another inverse filter, for which the documentation is inconsistent). -/
theorem C18_inverse_complement (ctx : Ctx) (ops : List Op) (base : List Construct) (d : Option Nat)
    (x : Construct) (hb : (base.map (·.key)).Nodup)
    (hn : ¬ (depthTruthy d = true ∧ (runOps ctx ops (Coll.ofBase base)).applied.getLast? = some true)) :
    x ∈ (inverseFilter (runOps ctx ops (Coll.ofBase base)) d).items ↔
      x ∈ (unfilter (runOps ctx ops (Coll.ofBase base)) d).items ∧ x ∉ (runOps ctx ops (Coll.ofBase base)).items :=
  mem_inverseFilter hb ((Inv.ofBase base).runOps ctx ops) hn

/-- default depth: the complement within the field's constructs -/
theorem C18_inverse_complement_default (ctx : Ctx) (ops : List Op) (base : List Construct)
    (x : Construct) (hb : (base.map (·.key)).Nodup) :
    x ∈ (inverseFilter (runOps ctx ops (Coll.ofBase base)) none).items ↔
      x ∈ base ∧ x ∉ (runOps ctx ops (Coll.ofBase base)).items := by
  rw [C18_inverse_complement ctx ops base none x hb (by simp [depthTruthy]),
    C18_unfilter_returns_base]

example : (inverseFilter (runOps ctx [.filt [.naxes [1], .type [.dimension_coordinate]]] (Coll.ofBase fld)) (some 1)).items = [aux] := by
  decide

/-- Unrepaired `_filter_by_type` (records `self` as `_prefiltered`): after
`c.filter(filter_by_naxes=(1,), filter_by_type=("dimension_coordinate",))`, `unfilter(1)`
is not the collection selected by the first filter. -/
theorem C18_bytype_prefiltered_old_counterexample :
    (unfilter (filterChainOld ctx [.naxes [1], .type [.dimension_coordinate]] (Coll.ofBase fld)) (some 1)).items
      ≠ (filterChainOld ctx [.naxes [1]] (Coll.ofBase fld)).items := by
  decide

/-- Unrepaired `inverse_filter(1)` on a collection with no filter applied indexes an
empty tuple; the repaired one returns the empty complement. -/
theorem C18_inverse_depth_old_counterexample :
    (match inverseFilterOld (Coll.ofBase fld) (some 1) with | .error e => e | .ok _ => "") = "IndexError"
      ∧ (inverseFilter (Coll.ofBase fld) (some 1)).items = [] := by
  decide

/-- Unrepaired `_filter_convert_to_domain_axis` looks a domain axis identity up among
the members of `self`: on a collection already filtered by type the axis filter
selects nothing, although the intersection is not empty. -/
theorem C18_axis_identity_old_counterexample :
    let self := applyFilter ctx (.type [.dimension_coordinate]) (Coll.ofBase fld)
    (applyFilterOld ctx self (.axis .and [.str "ncdim%lon"]) self).items = []
      ∧ (applyFilter ctx (.axis .and [.str "ncdim%lon"]) self).items = [lon] := by
  decide

/-! ### single-construct accessors -/

/-- `f.construct(...)`, `f.coordinate(...)`, … return the construct with key `k` exactly
when the set of constructs satisfying every criterion is `{that construct}`. -/
theorem C18_unique_accessor (ctx : Ctx) (ts : List CType) (ids : List Q) (fs : List Filter) (d : Default)
    (k : String) (hwf : WF ctx.base) :
    accessor ctx ts ids fs d = .found k ↔
      ∃ c ∈ ctx.base, c.key = k ∧ (∀ f ∈ accessorFilters ts ids fs, Sat ctx f c) ∧
        ∀ c' ∈ ctx.base, (∀ f ∈ accessorFilters ts ids fs, Sat ctx f c') → c' = c := by
  have hmem : ∀ c, c ∈ chainDict ctx (accessorFilters ts ids fs) ctx.base ↔
      c ∈ ctx.base ∧ ∀ f ∈ accessorFilters ts ids fs, Sat ctx f c := fun c => mem_chainItems (dict := true) hwf
  have hnd : (chainDict ctx (accessorFilters ts ids fs) ctx.base).Nodup :=
    List.Nodup.sublist (chainItems_sublist (dict := true)) (nodup_of_map_nodup hwf.keysNodup)
  have hret : ∀ sel : List Construct, returnConstruct sel d = .found k ↔ ∃ c, sel = [c] ∧ c.key = k := by
    intro sel
    cases sel with
    | nil => cases d <;> simp [returnConstruct]
    | cons a rest =>
      cases rest with
      | nil => simp [returnConstruct]
      | cons b rest' => cases d <;> simp [returnConstruct]
  simp only [accessor, hret]
  constructor
  · rintro ⟨c, hsel, hk⟩
    obtain ⟨hc, hall⟩ := (eq_singleton_iff hnd).mp hsel
    exact ⟨c, ((hmem c).mp hc).1, hk, ((hmem c).mp hc).2,
      fun c' hc' hs => hall c' ((hmem c').mpr ⟨hc', hs⟩)⟩
  · rintro ⟨c, hc, hk, hs, hall⟩
    exact ⟨c, (eq_singleton_iff hnd).mpr ⟨(hmem c).mpr ⟨hc, hs⟩,
      fun c' hc' => hall c' ((hmem c').mp hc').1 ((hmem c').mp hc').2⟩, hk⟩

/-- Otherwise the accessor returns the default, or raises when the default is an exception. -/
theorem C18_accessor_default (sel : List Construct) (d : Default) (h : sel.length ≠ 1) :
    returnConstruct sel d = (if d = .exc then .raised else .default) := by
  cases sel with
  | nil => cases d <;> rfl
  | cons a rest =>
    cases rest with
    | nil => simp at h
    | cons b rest' => cases d <;> rfl

example : accessor ctx [.dimension_coordinate, .auxiliary_coordinate] [.str "latitude"] [] .exc = .found "dimensioncoordinate0" := by
  decide
example : accessor ctx [] [.pat [(false, "l")]] [.naxes [1]] .exc = .raised := by decide
example : accessor ctx [.cell_measure] [.str "cell_area"] [] .none = .found "cellmeasure0" := by decide
/-- `f.domain_axes(*identities)` — matched directly or through a 1-d coordinate /
a position — only ever returns domain axis constructs of the field. -/
theorem C18_domain_axes_subcollection (ctx : Ctx) (ids : List Q) (x : Construct)
    (h : x ∈ domainAxes ctx ids) : x ∈ ctx.base ∧ x.ctype = .domain_axis := by
  have hda : ∀ y, y ∈ byTypeDict [.domain_axis] ctx.base → y ∈ ctx.base ∧ y.ctype = .domain_axis := by
    intro y hy
    have := mem_byTypeDict.mp hy
    exact ⟨this.1, by simpa using this.2⟩
  simp only [domainAxes, identityReturnMatched] at h
  split at h
  · exact hda x h
  · split at h
    · rename_i out heq
      split at heq
      · cases heq
        exact hda x (List.mem_filter.mp h).1
      · cases heq
    · have hk : ∀ (b : Bool) (L : List Q),
          x ∈ (if b = true then [] else byKey L (byTypeDict [.domain_axis] ctx.base)) →
            x ∈ byTypeDict [.domain_axis] ctx.base := by
        intro b L hx
        cases b
        · exact (mem_byKey.mp (by simpa using hx)).1
        · simp at hx
      exact hda x (hk _ _ h)

example : domainAxes ctx [.str "longitude"] = [ax1] := by decide
example : domainAxes ctx [.int 0, .str "ncdim%lon"] = [ax0, ax1] := by decide

end Cfdm.Props.C18
