import Cfdm.Lemmas.SelectId
/-
C18 — construct selection agrees with construct identities and keys.
Property theorems only; the model and the specification are in `Model/Select.lean`,
helper lemmas in `Lemmas/Select.lean`.

The model mirrors cfdm at /repo HEAD, where three defects found by this check have
been repaired (57d098c, 6f196c8, e712ce0: the `…Old` variants and
`C18_{axis_identity,bytype_prefiltered,inverse_depth}_old_counterexample` keep the code
before those commits), and as it will be after the patches proposed for the open
findings (fixes/C18-short-iteration, C18-cell-methods-identities,
C18-domain-axes-keywords: there `…Old` is HEAD, refuted by
`C18_{identity,cell_methods,domain_axes_kw}_old_counterexample`).
-/
namespace Cfdm.Props.C18
open Cfdm.Select Cfdm.Select.Examples

/-! ### identities -/

/-- The `short` iteration (only the first identity of the body / of the bounds is
generated when every value is a plain string without `=`, `:`, `%`) loses nothing:
a value matches a generated identity iff it matches one of *all* the identities
that the construct reports. -/
theorem C18_short_iteration_loses_nothing (c : Construct) (qs : List Q)
    (hb : (∀ s ∈ c.idBody.drop 1, bareStr s = false) ∧ (∀ s ∈ c.idPost.drop 1, bareStr s = false))
    (hq : qs.all Q.bare = true) :
    (∃ q ∈ qs, ∃ s ∈ c.idsFor true, q.matches s = true) ↔
      (∃ q ∈ qs, ∃ s ∈ c.identities, q.matches s = true) := by
  constructor
  · rintro ⟨q, hq', s, hs, hm⟩; exact ⟨q, hq', s, idsFor_subset hs, hm⟩
  · rintro ⟨q, hq', s, hs, hm⟩
    obtain ⟨t, ht, hbt⟩ := bare_str (List.all_eq_true.mp hq q hq')
    subst ht
    have : t = s := str_matches.mp hm
    subst this
    exact ⟨.str t, hq', t, short_complete hb hs hbt, hm⟩

example : (∃ q ∈ [Q.str "cell_area"], ∃ s ∈ area.idsFor true, q.matches s = true) :=
  (C18_short_iteration_loses_nothing area [.str "cell_area"] (by decide) (by decide)).mpr
    ⟨.str "cell_area", by simp, "cell_area", by decide, by decide⟩

/-- `filter_by_identity` (key pre-pass, short iteration, interleaved generators) selects
exactly the members whose key or one of whose reported identities matches one of
the values. -/
theorem C18_identity_sound_complete (cs : List Construct) (qs : List Q) (c : Construct) (hwf : WF cs) :
    c ∈ filterByIdentity cs qs ↔ c ∈ cs ∧ (qs = [] ∨ MatchesIdentity c qs) :=
  mem_filterByIdentity hwf

example : area ∈ filterByIdentity fld [.str "cell_area"] := by decide
example : filterByIdentity fld [.str "key%domainaxis1", .pat [(true, "lat")]] = [lat, ax1] := by decide

/-- HEAD (`Container._iter` returns after the very first identity; open finding):
a cell measure that reports the identity `cell_area` is not selected by it, and a
coordinate is not selected by the standard name that its bounds contribute. -/
theorem C18_identity_old_counterexample :
    WF fld ∧ area ∈ fld ∧ MatchesIdentity area [.str "cell_area"] ∧ area ∉ filterByIdentityOld fld [.str "cell_area"]
      ∧ MatchesIdentity aux [.str "foo"] ∧ aux ∉ filterByIdentityOld fld [.str "foo"] :=
  ⟨fld_wf, by decide, Or.inr ⟨.str "cell_area", by simp, "cell_area", by decide, by decide⟩, by decide,
    Or.inr ⟨.str "foo", by simp, "foo", by decide, by decide⟩, by decide⟩

/-- The same with NO exclusion (`WF0` = `WF` without `noForeignKey`), exactly as the code
behaves: a member is selected when a value names its key, or — unless EVERY given value
is the key (or `key%`key) of a member, so that the key pre-pass consumes them all —
when one of its reported identities matches.  Hence the exclusion only matters for
calls in which all the values are keys (`C18_foreign_key_identity_counterexample`). -/
theorem C18_identity_exact (cs : List Construct) (qs : List Q) (c : Construct) (hwf : WF0 cs) :
    c ∈ filterByIdentity cs qs ↔
      c ∈ cs ∧ (qs = [] ∨ (∃ q ∈ qs, KeyMatch c q) ∨
        ((∃ q ∈ qs, ¬ Consumed (cs.map (·.key)) q) ∧ ∃ q ∈ qs, ∃ s ∈ c.identities, q.matches s = true)) :=
  mem_filterByIdentity_exact hwf

/-- … so with at least one value that is not a key, selection is sound and complete
even when an identity equals the key of another construct. -/
theorem C18_identity_sound_complete_not_all_keys (cs : List Construct) (qs : List Q) (c : Construct) (hwf : WF0 cs)
    (hq : ∃ q ∈ qs, ¬ Consumed (cs.map (·.key)) q) :
    c ∈ filterByIdentity cs qs ↔ c ∈ cs ∧ MatchesIdentity c qs := by
  rw [mem_filterByIdentity_exact hwf]
  have hne : qs ≠ [] := by
    obtain ⟨q, hq', _⟩ := hq
    exact List.ne_nil_of_mem hq'
  simp only [hne, false_or, MatchesIdentity, hq, true_and]

example :
    let odd := mkC "auxiliarycoordinate1" .auxiliary_coordinate [] ["dimensioncoordinate0"] [] (some ["domainaxis0"])
    filterByIdentity [lat, odd] [.str "dimensioncoordinate0", .str "zzz"] = [lat, odd] := by decide

/-- The exclusion in `WF` is needed: when an identity of one construct is the key of
another, the key pre-pass consumes the value and the identity is never looked at
(code as it is; no repair proposed). -/
theorem C18_foreign_key_identity_counterexample :
    let odd := mkC "auxiliarycoordinate1" .auxiliary_coordinate [] ["dimensioncoordinate0"] [] (some ["domainaxis0"])
    odd ∈ [lat, odd] ∧ MatchesIdentity odd [.str "dimensioncoordinate0"] ∧
      odd ∉ filterByIdentity [lat, odd] [.str "dimensioncoordinate0"] :=
  ⟨by decide, Or.inr ⟨.str "dimensioncoordinate0", by simp, "dimensioncoordinate0", by decide, by decide⟩, by decide⟩

/-! ### every filter -/

/-- Each `filter_by_*` worker (either form, `todict` or not) returns exactly the
members that satisfy the documented predicate `Sat`. -/
theorem C18_filter_sound_complete (dict : Bool) (ctx : Ctx) (f : Filter) (cs : List Construct)
    (c : Construct) (hwf : WF cs) :
    c ∈ runFilter dict ctx ctx.base f cs ↔ c ∈ cs ∧ Sat ctx f c :=
  mem_runFilter hwf

example : runFilter false ctx ctx.base (.axis .exact [.str "latitude", .int (-1)]) fld = [area] := by decide
example : runFilter true ctx ctx.base (.property true [("units", some (.pat [(false, "north")])), ("foo", none)]) fld = [lat] := by
  decide
example : runFilter false ctx ctx.base (.axis .subset [.str "ncdim%lon"]) fld = [lon, aux] := by decide
example : runFilter false ctx ctx.base (.cell [.str "face", .pat [(true, "ed")]]) (topo :: fld) = [topo] := by decide

/-- Filtering returns a sub-collection (members in their original order, none added);
in the functional model the source is untouched by construction. -/
theorem C18_filter_subcollection (dict : Bool) (ctx : Ctx) (fs : List Filter) (cs : List Construct) :
    (chainItems dict ctx fs cs).Sublist cs :=
  chainItems_sublist

example : (chainItems true ctx [.type [.dimension_coordinate, .cell_measure], .naxes [2]] fld).Sublist fld :=
  C18_filter_subcollection true ctx _ fld

/-- A chain of filters — one `filter(**kw)` call — selects the intersection. -/
theorem C18_chain_intersection (ctx : Ctx) (fs : List Filter) (coll : Coll) (c : Construct)
    (hwf : WF coll.items) :
    c ∈ (filterChain ctx fs coll).items ↔ c ∈ coll.items ∧ ∀ f ∈ fs, Sat ctx f c := by
  rw [filterChain_items]; exact mem_chainItems hwf

/-- `c.filter_by_a(…).filter_by_b(…)` is the same collection, history included, as
`c.filter(filter_by_a=…, filter_by_b=…)`. -/
theorem C18_method_chain_eq_kwargs (ctx : Ctx) (fs : List Filter) (coll : Coll) :
    runOps ctx (fs.map Op.meth) coll = filterChain ctx fs coll := by
  induction fs generalizing coll with
  | nil => rfl
  | cons f rest ih => exact ih (applyFilter ctx f coll)

/-- The order of the filters in a chain does not matter. -/
theorem C18_chain_order_independent (ctx : Ctx) (fs fs' : List Filter) (coll : Coll) (c : Construct)
    (hwf : WF coll.items) (hp : fs.Perm fs') :
    c ∈ (filterChain ctx fs coll).items ↔ c ∈ (filterChain ctx fs' coll).items := by
  rw [C18_chain_intersection ctx fs coll c hwf, C18_chain_intersection ctx fs' coll c hwf]
  exact ⟨fun h => ⟨h.1, fun f hf => h.2 f (hp.mem_iff.mpr hf)⟩, fun h => ⟨h.1, fun f hf => h.2 f (hp.mem_iff.mp hf)⟩⟩

example : (filterChain ctx [.naxes [1], .type [.dimension_coordinate, .auxiliary_coordinate], .identity [.pat [(false, "lon")]]]
    (Coll.ofBase fld)).items = [lon, aux] := by decide

example : area ∈ (filterChain ctx [.naxes [2], .measure [.str "area"]] (Coll.ofBase fld)).items ↔
    area ∈ (filterChain ctx [.measure [.str "area"], .naxes [2]] (Coll.ofBase fld)).items :=
  C18_chain_order_independent ctx _ _ (Coll.ofBase fld) area fld_wf (List.Perm.swap _ _ [])

/-- The dictionary form (`todict=True`) and the `Constructs` form have the same members. -/
theorem C18_todict_same_members (ctx : Ctx) (fs : List Filter) (coll : Coll) (c : Construct)
    (hwf : WF coll.items) :
    c ∈ chainDict ctx fs coll.items ↔ c ∈ (filterChain ctx fs coll).items := by
  rw [C18_chain_intersection ctx fs coll c hwf]
  exact mem_chainItems (dict := true) hwf

example : lat ∈ chainDict ctx [.type [.dimension_coordinate], .ncvar []] (Coll.ofBase fld).items ↔
    lat ∈ (filterChain ctx [.type [.dimension_coordinate], .ncvar []] (Coll.ofBase fld)).items :=
  C18_todict_same_members ctx _ (Coll.ofBase fld) lat fld_wf
example : chainDict ctx [.type [.dimension_coordinate], .ncvar []] fld = [lat, lon] := by decide

/-! ### `unfilter`, `inverse_filter` -/

/-- `unfilter(n)` after `n` further filters returns the collection they were applied
to (members *and* history); in particular `unfilter(1)` undoes the last filter. -/
theorem C18_unfilter_chain (ctx : Ctx) (fs gs : List Filter) (coll : Coll) :
    unfilter (filterChain ctx (fs ++ gs) coll) (some gs.length) = filterChain ctx fs coll := by
  have : filterChain ctx (fs ++ gs) coll = filterChain ctx gs (filterChain ctx fs coll) := by
    simp only [filterChain, List.foldl_append]
  rw [this]; exact unfilter_filterChain ctx gs _

example : (unfilter (filterChain ctx [.naxes [1], .type [.dimension_coordinate]] (Coll.ofBase fld)) (some 1)).items = [lat, lon, aux] := by
  decide

/-- Whatever program of filters, inverse filters and unfilters has been run on the
constructs of a field, `unfilter()` returns all of them. -/
theorem C18_unfilter_returns_base (ctx : Ctx) (ops : List Op) (base : List Construct) :
    (unfilter (runOps ctx ops (Coll.ofBase base)) none).items = base :=
  unfilter_none_items ((Inv.ofBase base).runOps ctx ops)

example : (unfilter (runOps ctx [.meth (.type [.domain_axis]), .inv none, .filt [.naxes [2]]] (Coll.ofBase fld)) none).items = fld := by
  decide

/-- `inverse_filter(depth)` is the complement of the current members within
`unfilter(depth)` — within all constructs of the field for the default depth —
for every collection reachable by a program (excluded: a depth given directly
after another inverse filter, for which the documentation is inconsistent). -/
theorem C18_inverse_complement (ctx : Ctx) (ops : List Op) (base : List Construct) (d : Option Nat)
    (x : Construct) (hb : (base.map (·.key)).Nodup)
    (hn : ¬ (depthTruthy d = true ∧ (runOps ctx ops (Coll.ofBase base)).applied.getLast? = some true)) :
    x ∈ (inverseFilter (runOps ctx ops (Coll.ofBase base)) d).items ↔
      x ∈ (unfilter (runOps ctx ops (Coll.ofBase base)) d).items ∧ x ∉ (runOps ctx ops (Coll.ofBase base)).items :=
  mem_inverseFilter hb ((Inv.ofBase base).runOps ctx ops) hn

/-- default depth: the complement within the field's constructs -/
theorem C18_inverse_complement_default (ctx : Ctx) (ops : List Op) (base : List Construct)
    (x : Construct) (hb : (base.map (·.key)).Nodup) :
    x ∈ (inverseFilter (runOps ctx ops (Coll.ofBase base)) none).items ↔
      x ∈ base ∧ x ∉ (runOps ctx ops (Coll.ofBase base)).items := by
  rw [C18_inverse_complement ctx ops base none x hb (by simp [depthTruthy]),
    C18_unfilter_returns_base]

example : (inverseFilter (runOps ctx [.filt [.naxes [1], .type [.dimension_coordinate]]] (Coll.ofBase fld)) (some 1)).items = [aux] := by
  decide

/-- `_filter_by_type` before 6f196c8 (records `self` as `_prefiltered`): after
`c.filter(filter_by_naxes=(1,), filter_by_type=("dimension_coordinate",))`, `unfilter(1)`
is not the collection selected by the first filter. -/
theorem C18_bytype_prefiltered_old_counterexample :
    (unfilter (filterChainOld ctx [.naxes [1], .type [.dimension_coordinate]] (Coll.ofBase fld)) (some 1)).items
      ≠ (filterChainOld ctx [.naxes [1]] (Coll.ofBase fld)).items := by
  decide

/-- `inverse_filter(1)` before e712ce0 on a collection with no filter applied indexes an
empty tuple; the repaired one (HEAD) returns the empty complement. -/
theorem C18_inverse_depth_old_counterexample :
    (match inverseFilterOld (Coll.ofBase fld) (some 1) with | .error e => e | .ok _ => "") = "IndexError"
      ∧ (inverseFilter (Coll.ofBase fld) (some 1)).items = [] := by
  decide

/-- `_filter_convert_to_domain_axis` before 57d098c looks a domain axis identity up among
the members of `self`: on a collection already filtered by type the axis filter
selects nothing, although the intersection is not empty. -/
theorem C18_axis_identity_old_counterexample :
    let self := applyFilter ctx (.type [.dimension_coordinate]) (Coll.ofBase fld)
    (applyFilterOld ctx self (.axis .and [.str "ncdim%lon"]) self).items = []
      ∧ (applyFilter ctx (.axis .and [.str "ncdim%lon"]) self).items = [lon] := by
  decide

/-! ### single-construct accessors -/

/-- `f.construct(...)`, `f.coordinate(...)`, … return the construct with key `k` exactly
when the set of constructs satisfying every criterion is `{that construct}`. -/
theorem C18_unique_accessor (ctx : Ctx) (ts : List CType) (ids : List Q) (fs : List Filter) (d : Default)
    (k : String) (hwf : WF ctx.base) :
    accessor ctx ts ids fs d = .found k ↔
      ∃ c ∈ ctx.base, c.key = k ∧ (∀ f ∈ accessorFilters ts ids fs, Sat ctx f c) ∧
        ∀ c' ∈ ctx.base, (∀ f ∈ accessorFilters ts ids fs, Sat ctx f c') → c' = c := by
  have hmem : ∀ c, c ∈ chainDict ctx (accessorFilters ts ids fs) ctx.base ↔
      c ∈ ctx.base ∧ ∀ f ∈ accessorFilters ts ids fs, Sat ctx f c := fun c => mem_chainItems (dict := true) hwf
  have hnd : (chainDict ctx (accessorFilters ts ids fs) ctx.base).Nodup :=
    List.Nodup.sublist (chainItems_sublist (dict := true)) (nodup_of_map_nodup hwf.keysNodup)
  have hret : ∀ sel : List Construct, returnConstruct sel d = .found k ↔ ∃ c, sel = [c] ∧ c.key = k := by
    intro sel
    cases sel with
    | nil => cases d <;> simp [returnConstruct]
    | cons a rest =>
      cases rest with
      | nil => simp [returnConstruct]
      | cons b rest' => cases d <;> simp [returnConstruct]
  simp only [accessor, hret]
  constructor
  · rintro ⟨c, hsel, hk⟩
    obtain ⟨hc, hall⟩ := (eq_singleton_iff hnd).mp hsel
    exact ⟨c, ((hmem c).mp hc).1, hk, ((hmem c).mp hc).2,
      fun c' hc' hs => hall c' ((hmem c').mpr ⟨hc', hs⟩)⟩
  · rintro ⟨c, hc, hk, hs, hall⟩
    exact ⟨c, (eq_singleton_iff hnd).mpr ⟨(hmem c).mpr ⟨hc, hs⟩,
      fun c' hc' => hall c' ((hmem c').mp hc').1 ((hmem c').mp hc').2⟩, hk⟩

/-- Otherwise the accessor returns the default, or raises when the default is an exception. -/
theorem C18_accessor_default (sel : List Construct) (d : Default) (h : sel.length ≠ 1) :
    returnConstruct sel d = (if d = .exc then .raised else .default) := by
  cases sel with
  | nil => cases d <;> rfl
  | cons a rest =>
    cases rest with
    | nil => simp at h
    | cons b rest' => cases d <;> rfl

example : accessor ctx [.dimension_coordinate, .auxiliary_coordinate] [.str "latitude"] [] .exc = .found "dimensioncoordinate0" := by
  decide
example : accessor ctx [] [.pat [(false, "l")]] [.naxes [1]] .exc = .raised := by decide
example : accessor ctx [.cell_measure] [.str "cell_area"] [] .none = .found "cellmeasure0" := by decide
/-- The plural accessors (`f.coordinates(...)`, `f.cell_measures(...)`, …, also what the
single-construct accessors choose from) select exactly the constructs of the
accessor's types that satisfy every keyword filter and match one of the identities. -/
theorem C18_plural_accessor (ctx : Ctx) (ts : List CType) (ids : List Q) (fs : List Filter) (c : Construct)
    (hwf : WF ctx.base) :
    c ∈ accessorAll ctx ts ids fs ↔
      c ∈ ctx.base ∧ (ts = [] ∨ c.ctype ∈ ts) ∧ (∀ f ∈ fs, Sat ctx f c) ∧ (ids = [] ∨ MatchesIdentity c ids) := by
  have h := mem_chainItems (dict := true) (ctx := ctx) (fs := accessorFilters ts ids fs) (c := c) hwf
  rw [show accessorAll ctx ts ids fs = chainItems true ctx (accessorFilters ts ids fs) ctx.base from rfl, h]
  simp only [accessorFilters, List.mem_append]
  constructor
  · rintro ⟨hc, hall⟩
    refine ⟨hc, ?_, fun f hf => hall f (Or.inl (Or.inr hf)), ?_⟩
    · by_cases ht : ts = []
      · exact Or.inl ht
      · have : ts.isEmpty = false := by cases ts <;> simp_all
        have := hall (.type ts) (Or.inl (Or.inl (by simp [this])))
        simpa [Sat] using this
    · by_cases hi : ids = []
      · exact Or.inl hi
      · have : ids.isEmpty = false := by cases ids <;> simp_all
        have := hall (.identity ids) (Or.inr (by simp [this]))
        simpa [Sat] using this
  · rintro ⟨hc, ht, hfs, hi⟩
    refine ⟨hc, ?_⟩
    rintro f ((hf | hf) | hf)
    · split at hf
      · cases hf
      · simp only [List.mem_singleton] at hf; subst hf; exact ht
    · exact hfs f hf
    · split at hf
      · cases hf
      · simp only [List.mem_singleton] at hf; subst hf; exact hi

example : accessorAll ctx [.dimension_coordinate, .auxiliary_coordinate] [.pat [(false, "lon")]] [.naxes [1]] = [lon, aux] := by
  decide

/-- `f.domain_axis_key(*identity, **filter_kwargs)` returns the key `k` exactly when the
selected 1-d coordinate constructs span at least one domain axis of the field and
all of those axes are `k`; otherwise the default, or the stated error. -/
theorem C18_domain_axis_key (ctx : Ctx) (ids : List Q) (fs : List Filter) (d : Default) (k : String) :
    domainAxisKey ctx ids fs d = .found k ↔
      (∃ x ∈ accessorAll ctx [.dimension_coordinate, .auxiliary_coordinate] ids (fs ++ [.naxes [1]]),
          x.axes.bind List.head? = some k ∧ k ∈ (byTypeDict [.domain_axis] ctx.base).map (·.key)) ∧
        ∀ x ∈ accessorAll ctx [.dimension_coordinate, .auxiliary_coordinate] ids (fs ++ [.naxes [1]]),
          ∀ a, x.axes.bind List.head? = some a → a ∈ (byTypeDict [.domain_axis] ctx.base).map (·.key) → a = k := by
  have hret : ∀ (keys : List String), returnKey keys d = .found k ↔ keys = [k] := by
    intro keys
    cases keys with
    | nil => cases d <;> simp [returnKey]
    | cons a rest =>
      cases rest with
      | nil => simp [returnKey]
      | cons b rest' => cases d <;> simp [returnKey]
  simp only [domainAxisKey]
  rw [hret, eraseDups_singleton]
  constructor
  · rintro ⟨hne, hall⟩
    refine ⟨?_, ?_⟩
    · obtain ⟨a, ha⟩ := List.exists_mem_of_ne_nil _ hne
      have hak := hall a ha
      subst hak
      obtain ⟨ha1, ha2⟩ := List.mem_filter.mp ha
      obtain ⟨x, hx, hxa⟩ := List.mem_filterMap.mp ha1
      exact ⟨x, hx, hxa, List.contains_iff_mem.mp ha2⟩
    · intro x hx a hxa hda
      exact hall a (List.mem_filter.mpr ⟨List.mem_filterMap.mpr ⟨x, hx, hxa⟩, List.contains_iff_mem.mpr hda⟩)
  · rintro ⟨⟨x, hx, hxa, hda⟩, hall⟩
    refine ⟨List.ne_nil_of_mem (List.mem_filter.mpr ⟨List.mem_filterMap.mpr ⟨x, hx, hxa⟩, List.contains_iff_mem.mpr hda⟩), ?_⟩
    intro a ha
    obtain ⟨ha1, ha2⟩ := List.mem_filter.mp ha
    obtain ⟨y, hy, hya⟩ := List.mem_filterMap.mp ha1
    exact hall y hy a hya (List.contains_iff_mem.mp ha2)

example : domainAxisKey ctx [.str "longitude"] [] .exc = .found "domainaxis1" := by decide
example : domainAxisKey ctx [.pat [(false, "l")]] [] .exc = .raised
    ∧ domainAxisKey ctx [.pat [(false, "lon")], .str "long_name=x"] [] .none = .found "domainaxis1" := by decide

/-! ### several identities in one call -/

/-- The `short` flag of `_filter_by_identity`, computed by the loop with its `break`, is
the conjunction over ALL the given identities: it does not depend on which identity
comes first. -/
theorem C18_short_flag_is_conjunction (qs : List Q) :
    shortFlag qs = true ↔ ∀ q ∈ qs, q.bare = true := by
  rw [shortFlag_eq_all, List.all_eq_true]

example : shortFlag [.str "latitude", .str "long_name=x"] = false ∧ shortFlag [.str "long_name=x", .str "latitude"] = false
    ∧ shortFlag [.str "latitude", .str "cell_area"] = true := by decide

/-- `filter_by_identity(a, b, …)` depends only on the SET of identities given: not on
their order, not on repetitions — whatever forms are mixed (bare names, `name=value`,
`ncvar%…`, `key%…`, regular expressions, non-strings), for any collection (no
well-formedness assumed) and for any identity generator, in particular for HEAD's
(`Construct.idsForOld`) and for the patched one (`Construct.idsFor`). -/
theorem C18_identity_order_independent (gen : Bool → Construct → List String) (cs : List Construct)
    (qs qs' : List Q) (h : ∀ q, q ∈ qs ↔ q ∈ qs') :
    filterByIdentityWith gen cs qs = filterByIdentityWith gen cs qs' :=
  filterByIdentityWith_congr gen cs h

theorem C18_identity_perm (cs : List Construct) (qs qs' : List Q) (h : qs.Perm qs') :
    filterByIdentity cs qs = filterByIdentity cs qs' ∧ filterByIdentityOld cs qs = filterByIdentityOld cs qs' :=
  ⟨filterByIdentityWith_congr _ cs fun _ => h.mem_iff, filterByIdentityWith_congr _ cs fun _ => h.mem_iff⟩

/-- a construct found only through the second, non-bare identity: both orders -/
example : filterByIdentity fld [.str "latitude", .str "long_name=x"] = [lat, aux]
    ∧ filterByIdentity fld [.str "long_name=x", .str "latitude"] = [lat, aux]
    ∧ filterByIdentityOld fld [.str "units=m2", .pat [(true, "lon")], .str "foo"] = [lon, area, aux] := by decide

/-! ### `inverse_filter(1)` directly after an inverse filter -/

/-- The inverse of an inverse, taken relative to the previous collection
(`c.inverse_filter(d).inverse_filter(1)`), is the collection `c` itself — members and
history — whenever `c` was not itself produced by an inverse filter.  (It is also the
complement of `c.inverse_filter(d)` within `c`'s members, see the example.) -/
theorem C18_inverse_of_inverse (ctx : Ctx) (ops : List Op) (base : List Construct) (d : Option Nat)
    (h : (runOps ctx ops (Coll.ofBase base)).applied.getLast? ≠ some true) :
    inverseFilter (inverseFilter (runOps ctx ops (Coll.ofBase base)) d) (some 1) = runOps ctx ops (Coll.ofBase base) :=
  inverse_of_inverse_one _ d h

example : (inverseFilter (inverseFilter (runOps ctx [.meth (.type [.dimension_coordinate])] (Coll.ofBase fld)) none) (some 1)).items
    = [lat, lon] := by decide

/-! ### `domain_axes(*identities, **filter_kwargs)` -/

/-- Soundness: `f.domain_axes(*identities, **filter_kwargs)` only returns domain axis
constructs of the field that satisfy every keyword filter and that are named by one
of the values: directly (key or identity), or through `_filter_convert_to_domain_axis`
(the single axis of the 1-d coordinates with that identity, a position of the data). -/
theorem C18_domain_axes_sound (ctx : Ctx) (ids : List Q) (fs : List Filter) (x : Construct) (hwf : WF ctx.base)
    (h : x ∈ domainAxes ctx ids fs) :
    x ∈ ctx.base ∧ x.ctype = .domain_axis ∧ (∀ f ∈ fs, Sat ctx f x) ∧
      (ids = [] ∨ MatchesIdentity x ids ∨ ∃ q ∈ ids, resolveAxis ctx ctx.base false q = some x.key) := by
  obtain ⟨hx, hr⟩ := (mem_domainAxes_exact hwf).mp h
  obtain ⟨hb, ht, hf⟩ := (mem_scopeOf hwf).mp hx
  refine ⟨hb, ht, hf, ?_⟩
  rcases hr with h | h | ⟨q, hq, hres⟩
  · exact Or.inl h
  · exact Or.inr (Or.inl h)
  · exact Or.inr (Or.inr ⟨q, misses_subset hq, hres⟩)

/-- Completeness: a domain axis that satisfies the keyword filters is returned when one
of the values names it directly, or when a value that names no (eligible) domain axis
directly resolves to it through a coordinate or a position. -/
theorem C18_domain_axes_complete (ctx : Ctx) (ids : List Q) (fs : List Filter) (x : Construct) (hwf : WF ctx.base)
    (hb : x ∈ ctx.base) (ht : x.ctype = .domain_axis) (hf : ∀ f ∈ fs, Sat ctx f x)
    (h : ids = [] ∨ MatchesIdentity x ids ∨
      ∃ q ∈ ids, (∀ y ∈ ctx.base, y.ctype = .domain_axis → (∀ f ∈ fs, Sat ctx f y) → ¬ MatchesIdentity y [q]) ∧
        resolveAxis ctx ctx.base false q = some x.key) :
    x ∈ domainAxes ctx ids fs := by
  refine (mem_domainAxes_exact hwf).mpr ⟨(mem_scopeOf hwf).mpr ⟨hb, ht, hf⟩, ?_⟩
  rcases h with h | h | ⟨q, hq, hno, hres⟩
  · exact Or.inl h
  · exact Or.inr (Or.inl h)
  · refine Or.inr (Or.inr ⟨q, miss_of_no_match hq ?_, hres⟩)
    intro y hy
    obtain ⟨hyb, hyt, hyf⟩ := (mem_scopeOf hwf).mp hy
    exact hno y hyb hyt hyf

/-- With ONE value the two bounds meet: the domain axes it names directly if there are
any, otherwise the axis it resolves to. -/
theorem C18_domain_axes_single (ctx : Ctx) (q : Q) (fs : List Filter) (x : Construct) (hwf : WF ctx.base) :
    x ∈ domainAxes ctx [q] fs ↔
      x ∈ ctx.base ∧ x.ctype = .domain_axis ∧ (∀ f ∈ fs, Sat ctx f x) ∧
        (MatchesIdentity x [q] ∨
          ((∀ y ∈ ctx.base, y.ctype = .domain_axis → (∀ f ∈ fs, Sat ctx f y) → ¬ MatchesIdentity y [q]) ∧
            resolveAxis ctx ctx.base false q = some x.key)) := by
  have hwfs : WF (scopeOf ctx .domain_axis fs) := WF.of_sublist scopeOf_sublist hwf
  constructor
  · intro h
    obtain ⟨hx, hr⟩ := (mem_domainAxes_exact hwf).mp h
    obtain ⟨hb, ht, hf⟩ := (mem_scopeOf hwf).mp hx
    refine ⟨hb, ht, hf, ?_⟩
    rcases hr with h | h | ⟨q', hq', hres⟩
    · cases h
    · exact Or.inl h
    · have : q' = q := by simpa using misses_subset hq'
      subst this
      refine Or.inr ⟨fun y hyb hyt hyf => ?_, hres⟩
      exact (single_miss_iff hwfs).mp hq' y ((mem_scopeOf hwf).mpr ⟨hyb, hyt, hyf⟩)
  · rintro ⟨hb, ht, hf, h⟩
    refine C18_domain_axes_complete ctx [q] fs x hwf hb ht hf (Or.inr ?_)
    rcases h with h | ⟨hno, hres⟩
    · exact Or.inl h
    · exact Or.inr ⟨q, by simp, hno, hres⟩

example : domainAxes ctx [.str "longitude"] [] = [ax1] := by decide
example : domainAxes ctx [.int 0, .str "ncdim%lon"] [] = [ax0, ax1] := by decide
example : domainAxes ctx [.str "latitude", .str "longitude"] [.size [8]] = [ax1] := by decide

example : ax1 ∈ ctx.base ∧ ax1.ctype = .domain_axis :=
  let h := C18_domain_axes_sound ctx [.str "longitude"] [] ax1 fld_wf (by decide)
  ⟨h.1, h.2.1⟩
example : ax0 ∈ domainAxes ctx [.str "zzz", .str "key%domainaxis0"] [.size [5]] :=
  C18_domain_axes_complete ctx _ _ ax0 fld_wf (by decide) rfl
    (by intro f hf; simp only [List.mem_singleton] at hf; subst hf; exact ⟨rfl, Or.inr ⟨5, rfl, by simp⟩⟩)
    (Or.inr (Or.inl (Or.inl ⟨.str "key%domainaxis0", by simp, Or.inr ⟨"key%domainaxis0", rfl, by decide⟩⟩)))

/-- The gap between the two bounds is real, and in it the code depends on the ORDER of
the values: a pattern that names the `lon` axis directly (`ncdim%lon`) and also stands
for the `lat` axis (the 1-d coordinate `latitude`) goes through the second route only
when another value has already claimed the identity `ncdim%lon` (the `break` after the
first matching value makes the pattern a "miss").  Both results lie between the bounds
of `C18_domain_axes_sound` / `C18_domain_axes_complete`; the docstring ("additionally")
allows the larger one, the code's intention the smaller.  Not recorded as a defect. -/
theorem C18_domain_axes_order_dependence_witness :
    domainAxes ctx [.str "ncdim%lon", .pat [(false, "ncdim%lon"), (true, "latitude")]] [] = [ax0, ax1]
      ∧ domainAxes ctx [.pat [(false, "ncdim%lon"), (true, "latitude")], .str "ncdim%lon"] [] = [ax1] := by
  decide

/-- HEAD (open finding): the axis found through a coordinate is selected by key among
ALL domain axes, so a keyword filter is ignored —
`f.domain_axes('latitude', filter_by_size=(99,))` returns the latitude axis of size 5.
With the proposed patch the result is the intersection. -/
theorem C18_domain_axes_kw_old_counterexample :
    domainAxesOld ctx [.str "latitude"] [.size [99]] = [ax0] ∧ ¬ Sat ctx (.size [99]) ax0
      ∧ domainAxes ctx [.str "latitude"] [.size [99]] = [] := by
  refine ⟨by decide, ?_, by decide⟩
  simp only [Sat, List.cons_ne_nil, false_or, not_and, not_exists]
  intro _ n hn
  have : n = 5 := by
    have h5 : ax0.size = some 5 := rfl
    rw [h5] at hn; exact (Option.some.inj hn).symm
  subst this
  decide

/-! ### `Field.cell_methods(*identities, **filter_kwargs)` -/

/-- Soundness (patched code): a returned cell method satisfies the keyword filters and
either matches one of the values by key / identity, or spans exactly one axis and
that axis is a domain axis of the field named by one of the values. -/
theorem C18_cell_methods_sound (ctx : Ctx) (ids : List Q) (fs : List Filter) (x : Construct) (hwf : WF ctx.base)
    (h : x ∈ cellMethods ctx ids fs) :
    x ∈ ctx.base ∧ x.ctype = .cell_method ∧ (∀ f ∈ fs, Sat ctx f x) ∧
      (ids = [] ∨ MatchesIdentity x ids ∨
        ∃ a, x.cmAxes = some [a] ∧ ∃ d ∈ ctx.base, d.ctype = .domain_axis ∧ d.key = a ∧
          (MatchesIdentity d ids ∨ ∃ q ∈ ids, resolveAxis ctx ctx.base false q = some a)) := by
  obtain ⟨hx, hr⟩ := (mem_cellMethods_exact hwf).mp h
  obtain ⟨hb, ht, hf⟩ := (mem_scopeOf hwf).mp hx
  refine ⟨hb, ht, hf, ?_⟩
  rcases hr with h | h | ⟨hne, a, ha, d, hd, hdk⟩
  · exact Or.inl h
  · exact Or.inr (Or.inl h)
  · obtain ⟨hdb, hdt, _, hdr⟩ := C18_domain_axes_sound ctx _ [] d hwf hd
    refine Or.inr (Or.inr ⟨a, ha, d, hdb, hdt, hdk, ?_⟩)
    rcases hdr with h | h | ⟨q, hq, hres⟩
    · exact absurd h hne
    · exact Or.inl (monoMatches (fun q hq => misses_subset hq) h)
    · exact Or.inr ⟨q, misses_subset hq, hdk ▸ hres⟩

/-- Completeness (patched code): a cell method that satisfies the keyword filters is
returned when a value matches it directly, or when it spans exactly one axis named by
a value that matches no (eligible) cell method. -/
theorem C18_cell_methods_complete (ctx : Ctx) (ids : List Q) (fs : List Filter) (x : Construct) (hwf : WF ctx.base)
    (hb : x ∈ ctx.base) (ht : x.ctype = .cell_method) (hf : ∀ f ∈ fs, Sat ctx f x)
    (h : ids = [] ∨ MatchesIdentity x ids ∨
      ∃ q ∈ ids, (∀ y ∈ ctx.base, y.ctype = .cell_method → (∀ f ∈ fs, Sat ctx f y) → ¬ MatchesIdentity y [q]) ∧
        ∃ a, x.cmAxes = some [a] ∧ ∃ d ∈ ctx.base, d.ctype = .domain_axis ∧ d.key = a ∧
          (MatchesIdentity d [q] ∨
            ((∀ y ∈ ctx.base, y.ctype = .domain_axis → ¬ MatchesIdentity y [q]) ∧
              resolveAxis ctx ctx.base false q = some a))) :
    x ∈ cellMethods ctx ids fs := by
  refine (mem_cellMethods_exact hwf).mpr ⟨(mem_scopeOf hwf).mpr ⟨hb, ht, hf⟩, ?_⟩
  rcases h with h | h | ⟨q, hq, hno, a, ha, d, hdb, hdt, hdk, hd⟩
  · exact Or.inl h
  · exact Or.inr (Or.inl h)
  · have hmiss : q ∈ (identityReturnMatched Construct.idsFor (scopeOf ctx .cell_method fs) ids).2.2 := by
      refine miss_of_no_match hq ?_
      intro y hy
      obtain ⟨hyb, hyt, hyf⟩ := (mem_scopeOf hwf).mp hy
      exact hno y hyb hyt hyf
    refine Or.inr (Or.inr ⟨List.ne_nil_of_mem hmiss, a, ha, d, ?_, hdk⟩)
    refine C18_domain_axes_complete ctx _ [] d hwf hdb hdt (by simp) (Or.inr ?_)
    rcases hd with hd | ⟨hnd, hres⟩
    · exact Or.inl (matches_single.mpr ⟨q, hmiss, hd⟩)
    · exact Or.inr ⟨q, hmiss, fun y hyb hyt _ => hnd y hyb hyt, hdk ▸ hres⟩

example : cellMethods ctx2 [.str "method:mean"] [] = [cm0] := by decide
example : cellMethods ctx2 [.str "longitude"] [] = [cm1] := by decide
example : cellMethods ctx2 [.str "cellmethod0", .int 1] [.method [.str "maximum", .str "mean"]] = [cm0, cm1] := by decide

example : cm1.ctype = .cell_method :=
  (C18_cell_methods_sound ctx2 [.str "longitude"] [] cm1 fld2_wf (by decide)).2.1
example : cm0 ∈ cellMethods ctx2 [.str "method:mean", .str "zzz"] [] :=
  C18_cell_methods_complete ctx2 _ _ cm0 fld2_wf (by decide) rfl (by simp)
    (Or.inr (Or.inl (Or.inr ⟨.str "method:mean", by simp, "method:mean", by decide, by decide⟩)))

/-- HEAD (open findings): (1) a value that matches nothing leaves no key, and
`filter_by_key()` with no key selects EVERY cell method — `f.cell_methods('nonexistent')`
returns all of them, `f.cell_method('nonexistent')` the only one; (2) a cell method
found through its axis is selected among ALL cell methods, ignoring the keyword
filters — `f.cell_methods('longitude', filter_by_method=('mean',))` returns the
`maximum` cell method.  With the proposed patch both are empty. -/
theorem C18_cell_methods_old_counterexample :
    cellMethodsOld ctx2 [.str "nonexistent"] [] = [cm0, cm1] ∧ cellMethods ctx2 [.str "nonexistent"] [] = []
      ∧ cellMethodsOld ctx2 [.str "longitude"] [.method [.str "mean"]] = [cm1]
      ∧ cellMethods ctx2 [.str "longitude"] [.method [.str "mean"]] = []
      ∧ ¬ MatchesIdentity cm0 [.str "nonexistent"] := by
  refine ⟨by decide, by decide, by decide, by decide, ?_⟩
  rintro (⟨q, hq, hk⟩ | ⟨q, hq, s, hs, hm⟩)
  · simp only [List.mem_singleton] at hq; subst hq
    rcases hk with hk | ⟨s, hs, hk⟩
    · exact absurd hk (by decide)
    · cases hs; exact absurd hk (by decide)
  · simp only [List.mem_singleton] at hq; subst hq
    have : s = "method:mean" := by simpa [cm0, mkC, Construct.identities] using hs
    subst this
    exact absurd hm (by decide)

/-! ### numeric property values -/

/-- A numeric property is selected only by the same number with the same data type
(`valid_max=90` stored as a Python / int64 integer is matched by `90`, not by `90.0`,
not by `'90'`, not by a pattern). -/
example : byProperty false [("valid_max", some (.int 90))] fld = [lat]
    ∧ byProperty false [("valid_max", some (.num "float64" true [360]))] fld = []
    ∧ byProperty false [("valid_max", some (.str "90"))] fld = []
    ∧ byProperty false [("valid_max", some (.pat [(false, "9")]))] fld = []
    ∧ byProperty true [("valid_max", some (.str "90")), ("units", some (.pat [(true, "degrees")]))] fld = [lat] := by decide

end Cfdm.Props.C18
