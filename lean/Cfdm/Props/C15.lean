import Cfdm.Lemmas.Ugrid
import Cfdm.Lemmas.UgridNormalise
import Cfdm.Lemmas.UgridNormMeaning
import Cfdm.Lemmas.UgridRead
/-
C15 — UGRID meshes are mapped to topology constructs correctly.  Property theorems only.

The point-cell functions model the code after the fix commits 00b4eb1, 9a9f570, 2c54535 (applied
to /repo) and after the proposed patches fixes/C15-point-edges-padded.patch,
fixes/C15-edge-face-cells-start-index.patch, fixes/C15-cell-connectivity-start-index-kept.patch,
fixes/C15-location-index-set.patch; the unpatched behaviour is kept as `…Old` and the
`…counterexample…` theorems show where it breaks the property.
-/
namespace Cfdm.Props.C15
open Cfdm.Ugrid

/-- **Point cells, row by row.**  For every mesh (any number of faces/edges of any
sizes, padded or not), either start index and every node `k`, row `k` of the point
topology is: `k`, then the strictly increasing list of exactly those `m` for which
`{k, m}` is an edge of some face (resp. an edge of the network), then padding —
all zero-based, whatever `start_index` the file used. -/
theorem C15_point_rows (src : Src) (si nNodes : Nat) (conn : Mat) (hsi : si ≤ 1)
    (hwf : ∀ r ∈ conn, ∀ v, some v ∈ r → si ≤ v) (k : Nat) (hk : k < nNodes) :
    ∃ (nb : List Nat) (pad : Nat), nb.Pairwise (· < ·) ∧ (∀ m, m ∈ nb ↔ Neighbour src si conn k m) ∧
      (pointTopology src si (some nNodes) conn)[k]? =
        some (some k :: nb.map some ++ List.replicate pad none) := by
  have hc1 := toOneBased_eq si conn hsi hwf
  simp only [pointTopology, hc1]
  generalize hc0 : specCells si conn = c0
  have hrowsLen : (pointRows src nNodes (mapVals (· + 1) c0)).length = nNodes := by
    simp [pointRows]
  have hrow : ∀ i (hi : i < nNodes),
      (pointRows src nNodes (mapVals (· + 1) c0))[i]'(by rw [hrowsLen]; exact hi) =
        connected src (i + 1) (mapVals (· + 1) c0) := by
    intro i hi; simp [pointRows]
  have hpos : ∀ r ∈ pointRows src nNodes (mapVals (· + 1) c0), ∀ v ∈ r, 0 < v := by
    intro r hr v hv
    simp only [pointRows, List.mem_map, List.mem_range] at hr
    obtain ⟨i, _, rfl⟩ := hr
    rw [connected_head] at hv
    rcases List.mem_cons.mp hv with rfl | hv
    · omega
    · obtain ⟨m, rfl, _⟩ := (connected_tail_iff src c0 i v).mp hv; omega
  have hd := dense_row _ hpos k (by rw [hrowsLen]; exact hk)
  rw [hrow k hk] at hd
  have hsorted := connected_tail_sorted src (k + 1) (mapVals (· + 1) c0)
  have hmem := connected_tail_iff src c0 k
  rw [connected_head] at hd
  generalize (connected src (k + 1) (mapVals (· + 1) c0)).tail = tl at hd hsorted hmem
  have htl_eq : tl = (tl.map (· - 1)).map (· + 1) := by
    rw [List.map_map]
    conv => lhs; rw [← List.map_id tl]
    apply List.map_congr_left
    intro x hx
    obtain ⟨m, rfl, _⟩ := (hmem x).mp hx
    simp
  refine ⟨tl.map (· - 1),
    maxLen (pointRows src nNodes (mapVals (· + 1) c0)) - ((k + 1) :: tl).length, ?_, ?_, ?_⟩
  · rw [htl_eq, List.pairwise_map] at hsorted
    exact hsorted.imp (fun h => by omega)
  · intro m
    rw [neighbour_iff_nbr0, hc0]
    constructor
    · intro hm
      obtain ⟨x, hx, rfl⟩ := List.mem_map.mp hm
      obtain ⟨m', rfl, h⟩ := (hmem x).mp hx
      simpa using h
    · intro h
      have : m + 1 ∈ tl := (hmem (m + 1)).mpr ⟨m, rfl, h⟩
      exact List.mem_map.mpr ⟨m + 1, this, by simp⟩
  · rw [hd]
    simp only [List.map_cons, List.cons_append, Nat.add_sub_cancel, List.map_map]
    rfl

example : pointTopology .faces 1 (some 6) [[some 1, some 2, some 3, none], [some 2, some 5, some 6, some 3]]
    = [[some 0, some 1, some 2, none], [some 1, some 0, some 2, some 4], [some 2, some 0, some 1, some 5],
       [some 3, none, none, none], [some 4, some 1, some 5, none], [some 5, some 2, some 4, none]] := by decide

/-- Row `k` of an array (`[]` outside the array). -/
abbrev row {α} (out : List (List α)) (k : Nat) : List α := out.getD k []

/-- **Neighbour membership = the edge relation.**  `m` is listed after node `k`
exactly when `{k, m}` is an edge of some face (an edge of the network). -/
theorem C15_point_neighbours (src : Src) (si nNodes : Nat) (conn : Mat) (hsi : si ≤ 1)
    (hwf : ∀ r ∈ conn, ∀ v, some v ∈ r → si ≤ v) (k : Nat) (hk : k < nNodes) (m : Nat) :
    some m ∈ (row (pointTopology src si (some nNodes) conn) k).tail ↔ Neighbour src si conn k m := by
  obtain ⟨nb, pad, _, hnb, hrow⟩ := C15_point_rows src si nNodes conn hsi hwf k hk
  simp only [row, List.getD_eq_getElem?_getD, hrow, Option.getD_some, List.cons_append, List.tail_cons]
  rw [some_mem_row_tail, hnb]

example : Neighbour .faces 0 [[some 0, some 1, some 2]] 0 1 :=
  ⟨_, List.mem_singleton.mpr rfl, 0, by decide, Or.inl ⟨rfl, rfl⟩⟩

/-- The neighbour relation that comes out is **symmetric** (this is what the
unpatched code broke on every boundary edge). -/
theorem C15_point_neighbours_symm (src : Src) (si nNodes : Nat) (conn : Mat) (hsi : si ≤ 1)
    (hwf : ∀ r ∈ conn, ∀ v, some v ∈ r → si ≤ v) (k m : Nat) (hk : k < nNodes) (hm : m < nNodes) :
    some m ∈ (row (pointTopology src si (some nNodes) conn) k).tail ↔
      some k ∈ (row (pointTopology src si (some nNodes) conn) m).tail := by
  rw [C15_point_neighbours src si nNodes conn hsi hwf k hk m,
    C15_point_neighbours src si nNodes conn hsi hwf m hm k, neighbour_iff_nbr0, neighbour_iff_nbr0]
  exact ⟨Nbr0.symm, Nbr0.symm⟩

example : some 1 ∈ (row (pointTopology .faces 0 (some 3) [[some 0, some 1, some 2]]) 0).tail ∧
    some 0 ∈ (row (pointTopology .faces 0 (some 3) [[some 0, some 1, some 2]]) 1).tail := by decide

/-- **Zero-based output.**  With valid stored ids (`start_index ≤ v < start_index + nNodes`)
row `k` starts with `k` itself and every value in the array is a node index `< nNodes`,
for `start_index` 0 and 1 alike. -/
theorem C15_zero_based (src : Src) (si nNodes : Nat) (conn : Mat) (hsi : si ≤ 1)
    (hwf : WF si nNodes conn) (k : Nat) (hk : k < nNodes) :
    (row (pointTopology src si (some nNodes) conn) k).head? = some (some k) ∧
    ∀ v, some v ∈ row (pointTopology src si (some nNodes) conn) k → v < nNodes := by
  have hwf' : ∀ r ∈ conn, ∀ v, some v ∈ r → si ≤ v := fun r hr v hv => (hwf r hr v hv).1
  obtain ⟨nb, pad, _, hnb, hrow⟩ := C15_point_rows src si nNodes conn hsi hwf' k hk
  simp only [row, List.getD_eq_getElem?_getD, hrow, Option.getD_some, List.cons_append, List.head?_cons, true_and]
  intro v hv
  rcases List.mem_cons.mp hv with hv | hv
  · cases hv; exact hk
  · rw [some_mem_row_tail, hnb, neighbour_iff_nbr0] at hv
    obtain ⟨r0, hr0, hv⟩ := hv.mem
    simp only [specCells, List.mem_map] at hr0
    obtain ⟨r, hr, rfl⟩ := hr0
    simp only [specRow, List.mem_map] at hv
    obtain ⟨o, ho, e⟩ := hv
    cases o with
    | none => simp at e
    | some w =>
      have := hwf r hr w ho
      simp at e; omega

example : WF 1 3 [[some 1, some 2, some 3]] := by
  intro r hr v hv
  simp only [List.mem_singleton] at hr; subst hr
  simp at hv; omega

/-- **Padding masked, and only padding.**  Every row is unmasked values followed
by masked padding, and all rows have the same length. -/
theorem C15_padding_masked (src : Src) (si nNodes : Nat) (conn : Mat) (hsi : si ≤ 1)
    (hwf : ∀ r ∈ conn, ∀ v, some v ∈ r → si ≤ v) :
    (∀ r ∈ pointTopology src si (some nNodes) conn,
        ∃ (vs : List Nat) (pad : Nat), r = vs.map some ++ List.replicate pad none) ∧
    (∀ r1 ∈ pointTopology src si (some nNodes) conn, ∀ r2 ∈ pointTopology src si (some nNodes) conn,
        r1.length = r2.length) := by
  constructor
  · intro r hr
    obtain ⟨k, hk⟩ := List.mem_iff_getElem?.mp hr
    have hlt : k < nNodes := by
      have := (List.getElem?_eq_some_iff.mp hk).1
      rwa [pointTopology_length] at this
    obtain ⟨nb, pad, _, _, hrow⟩ := C15_point_rows src si nNodes conn hsi hwf k hlt
    rw [hk] at hrow
    cases hrow
    exact ⟨k :: nb, pad, rfl⟩
  · intro r1 h1 r2 h2
    simp only [pointTopology] at h1 h2
    rw [dense_rect _ _ h1, dense_rect _ _ h2]

example : (pointTopology .edges 0 (some 4) [[some 0, some 1], [some 1, some 3]]) =
    [[some 0, some 1, none], [some 1, some 0, some 3], [some 2, none, none], [some 3, some 1, none]] := by
  decide

/-! ### Unpatched point-topology code: where it breaks the property -/

/-- Unpatched `_connected_nodes` for faces lists only the node *before* `node`
in each face: for the single triangle `[0,1,2]` node 0 gets `[0, 2]` — the edge
{0,1} is lost and the relation is not symmetric (node 1 does list 0). -/
theorem C15_old_code_counterexample_neighbours :
    pointTopologyOld .faces 0 [[some 0, some 1, some 2]] =
      some [[some 0, some 2], [some 1, some 0], [some 2, some 1]] ∧
    pointTopology .faces 0 (some 3) [[some 0, some 1, some 2]] =
      [[some 0, some 1, some 2], [some 1, some 0, some 2], [some 2, some 0, some 1]] := by
  decide

/-- Unpatched: with `start_index = 1` the result stays one-based. -/
theorem C15_old_code_counterexample_start_index :
    pointTopologyOld .edges 1 [[some 1, some 2]] = some [[some 1, some 2], [some 2, some 1]] ∧
    pointTopology .edges 1 (some 2) [[some 1, some 2]] = [[some 0, some 1], [some 1, some 0]] := by
  decide

/-- Unpatched: a node that no cell references gets no row (3 nodes, 2 rows). -/
theorem C15_old_code_counterexample_unreferenced :
    pointTopologyOld .edges 0 [[some 0, some 2]] = some [[some 0, some 2], [some 2, some 0]] ∧
    pointTopology .edges 0 (some 3) [[some 0, some 2]] =
      [[some 0, some 2], [some 1, none], [some 2, some 0]] := by
  decide

/-- Unpatched: a padded face array makes `np.unique` yield the masked element,
and the assembly raises `TypeError`. -/
theorem C15_old_code_counterexample_padded :
    pointTopologyOld .faces 0 [[some 0, some 1, some 2, none], [some 0, some 2, some 3, some 1]] =
      none := by
  decide

/-! ### Edge and face cells -/

/-- Edge/face cells: each row lists the cell's nodes, **zero-based whatever `start_index` the file
used**, with the padding masked (the code after `fixes/C15-edge-face-cells-start-index.patch`). -/
theorem C15_cells_zero_based (cd si : Nat) (stored : Mat) :
    cellTopology si cd stored = specCells si (selectData cd stored) := by
  unfold cellTopology specCells specRow
  by_cases hsi : si = 0
  · subst hsi
    simp only [ne_eq, not_true_eq_false, if_false, Nat.sub_zero]
    conv => lhs; rw [← List.map_id (selectData cd stored)]
    apply List.map_congr_left
    intro r _
    conv => lhs; rw [id, ← List.map_id r]
    apply List.map_congr_left
    intro o _
    cases o <;> rfl
  · simp only [ne_eq, hsi, not_false_eq_true, if_true, mapVals]

example : cellTopology 1 1 [[some 1, some 2], [some 2, some 4], [some 3, some 5], [none, some 3]] =
    [[some 0, some 1, some 2, none], [some 1, some 3, some 4, some 2]] := by decide

/-- The code as it is (`cellTopologyOld`): with `start_index = 1` the edge/face domain topology
keeps the one-based stored values (known finding `edge-face-cells-start-index-1-not-shifted`). -/
theorem C15_cells_start_index_counterexample :
    cellTopologyOld 0 [[some 1, some 2, some 3]] ≠ specCells 1 (selectData 0 [[some 1, some 2, some 3]]) ∧
    cellTopology 1 0 [[some 1, some 2, some 3]] = specCells 1 (selectData 0 [[some 1, some 2, some 3]]) := by
  decide

/-- Point cells from an edge array with a masked element: the code before
`fixes/C15-point-edges-padded.patch` raises `TypeError` (modelled as `none`); the patched code
ignores the missing node, as it does for faces. -/
theorem C15_old_code_counterexample_padded_edges :
    pointTopologyEdgesOld 0 (some 3) [[some 0, some 1], [some 1, some 2], [some 2, none]] = none ∧
    pointTopology .edges 0 (some 3) [[some 0, some 1], [some 1, some 2], [some 2, none]] =
      [[some 0, some 1, none], [some 1, some 0, some 2], [some 2, some 1, none]] := by
  decide

/-- Stored (node, cell) arrays are read as (cell, node): entry `(cell i, node j)`
of the selected data is entry `(j, i)` of the stored array. -/
theorem C15_transposed_storage (stored : Mat) (w : Nat) (hrect : ∀ r ∈ stored, r.length = w)
    (i j : Nat) (hi : i < stored.length) (hj : j < w) :
    (row (selectData 1 stored) j).getD i none = (row stored i).getD j none := by
  simp only [selectData, if_true, row]
  exact transpose_entry stored w hrect i j hi hj

example : selectData 1 [[some 0, some 1], [some 1, some 3], [none, some 2]] =
    [[some 0, some 1, none], [some 1, some 3, some 2]] := by decide

/-! ### Cell connectivity -/

/-- Row `i` is cell `i` followed by the cells it touches, zero-based, padding
masked, for `start_index` 0 and 1. -/
theorem C15_cell_connectivity (si : Nat) (data : Mat) (hsi : si ≤ 1) :
    cellConnectivity si data = specCellConnectivity si data := by
  apply List.ext_getElem?
  intro i
  by_cases hi : i < data.length
  · by_cases h0 : si = 0
    · subst h0
      simp [cellConnectivity, specCellConnectivity, List.getElem?_zipIdx, hi, specRow]
    · have h1 : si = 1 := by omega
      subst h1
      simp [cellConnectivity, specCellConnectivity, List.getElem?_zipIdx, hi, specRow, mapVals]
  · by_cases h0 : si = 0
    · subst h0
      simp [cellConnectivity, specCellConnectivity, hi]
    · have h1 : si = 1 := by omega
      subst h1
      simp [cellConnectivity, specCellConnectivity, hi, mapVals]

example : cellConnectivity 1 [[some 2, none], [some 1, none]] =
    [[some 0, some 1, none], [some 1, some 0, none]] := by decide

/-! ### Bounds from nodes -/

/-- The bounds of every cell are the node coordinates gathered through the
connectivity (index `v - start_index`), with the padding masked; compress →
gather → scatter puts every coordinate back at the position it was taken for. -/
theorem C15_bounds_gather (si : Nat) (conn : Mat) (coords : List Int) :
    boundsFromNodes si conn coords = specBounds si conn coords := by
  simp only [boundsFromNodes, specBounds]
  exact scatter_map (fun v => coords.getD (v - si) 0) conn

/-- … and under `WF` the gathered index is a real position of the coordinate array. -/
theorem C15_bounds_gather_inrange (si : Nat) (conn : Mat) (coords : List Int)
    (hwf : WF si coords.length conn) (r : Row) (hr : r ∈ conn) (v : Nat) (hv : some v ∈ r) :
    v - si < coords.length := by
  have := hwf r hr v hv; omega

example : boundsFromNodes 1 [[some 1, some 2, some 3, none], [some 2, some 4, some 5, some 3]] [0, 10, 20, 30, 40] =
    [[some 0, some 10, some 20, none], [some 10, some 30, some 40, some 20]] := by decide

/-! ### `normalise` -/

/-- **A second normalisation changes nothing** (point cells and cell
connectivity, `Topology._normalise_cell_ids` as coded: relabel / not-relabel
branches, negative-id shift, the sequential `copyto` loop, redundant-id masking
and the conditional row sort), for every array with at least one row whose
first-column ids are unmasked and distinct, and either `start_index`. -/
theorem C15_normalise_idem (oneBased : Bool) (m : IMat) (h : WFIds m) :
    normaliseCellIds oneBased (normaliseCellIds oneBased m) = normaliseCellIds oneBased m :=
  normaliseCellIds_idem oneBased m h

example : WFIds [[some 4, some 1, some 10, some 125], [some 1, some 4, none, none], [some 125, some 4, none, none]] :=
  ⟨by decide, by decide, by decide⟩

example : normaliseCellIds false [[some 4, some 1, some 10, some 125], [some 1, some 4, none, none], [some 125, some 4, none, none]] =
    [[some 0, some 1, some 2, none], [some 1, some 0, none, none], [some 2, some 0, none, none]] := by decide

/-- What the normalised array looks like: row `k` starts with `k + start_index`
and every remaining value is one of those ids. -/
theorem C15_normalise_normal_form (oneBased : Bool) (m : IMat) (h : WFIds m) :
    firstCol (normaliseCellIds oneBased m) = arange (baseOf oneBased) m.length ∧
    (normaliseCellIds oneBased m).length = m.length ∧
    ∀ v ∈ vals (normaliseCellIds oneBased m), baseOf oneBased ≤ v ∧ v < baseOf oneBased + m.length :=
  let nf := NF_normaliseCellIds oneBased m h
  ⟨nf.ids, nf.len, nf.range⟩

/-- **A second normalisation changes nothing** (edge and face cells: node ids
replaced by their rank among the distinct ids, `np.unique(…, return_inverse=True)`),
for every array. -/
theorem C15_normalise_nodes_idem (oneBased : Bool) (m : Mat) :
    normaliseNodes oneBased (normaliseNodes oneBased m) = normaliseNodes oneBased m :=
  normaliseNodes_idem oneBased m

example : normaliseNodes false [[some 1, some 4, some 5, some 2], [some 4, some 10, some 1, none]] =
    [[some 0, some 2, some 3, some 1], [some 2, some 4, some 0, none]] := by decide

/-- **What `normalise` means** (point cells and cell connectivity, `_normalise_cell_ids` as coded:
both branches, the negative-id shift, the sequential `copyto` loop, the masking of redundant ids and
the conditional sort).  Row `k` of the result starts with `k + start_index`, and its unmasked values
are exactly the new identifiers (`relabelOf` = row number + `start_index`) of those values of row
`k` of the input that identify a cell of the array; identifiers of cells that are not in the array
are dropped.  This is the statement that makes `normalise` after a subspace meaningful: the
neighbours that were cut away disappear, the others are renumbered by their new position. -/
theorem C15_normalise_meaning (oneBased : Bool) (m : IMat) (h : WFIds m) (k : Nat) (hk : k < m.length) :
    (row (normaliseCellIds oneBased m) k).head? = some (some (baseOf oneBased + (k : Int))) ∧
    ∀ w, w ∈ rowVals (normaliseCellIds oneBased m) k ↔
      ∃ v ∈ rowVals m k, relabelOf (firstCol m) (baseOf oneBased) v = some w := by
  refine ⟨?_, fun w => normaliseCellIds_rows oneBased m h k w⟩
  have nf := NF_normaliseCellIds oneBased m h
  -- the first column of the result has one (unmasked) entry per row, equal to base + k
  have hlen : (normaliseCellIds oneBased m).length = m.length := nf.len
  have hfc : firstCol (normaliseCellIds oneBased m) = arange (baseOf oneBased) m.length := nf.ids
  have hl : (firstCol (normaliseCellIds oneBased m)).length = (normaliseCellIds oneBased m).length := by
    rw [hfc, length_arange, hlen]
  have hk' : k < (normaliseCellIds oneBased m).length := by omega
  have hrow : (normaliseCellIds oneBased m)[k]? = some (normaliseCellIds oneBased m)[k] :=
    List.getElem?_eq_getElem hk'
  have hh := Cfdm.UgridRead.head?_of_firstCol _ hl k _ hrow
  have hget : (arange (baseOf oneBased) m.length)[k]? = some (baseOf oneBased + (k : Int)) := by
    simp [arange, List.getElem?_map, List.getElem?_range hk]
  rw [hfc, hget] at hh
  simp only [row, List.getD_eq_getElem?_getD, hrow, Option.getD_some]
  cases hd : (normaliseCellIds oneBased m)[k].head? with
  | none => rw [hd] at hh; simp at hh
  | some o =>
    rw [hd] at hh
    simp only [Option.join_some] at hh
    rw [hh]

example : normaliseCellIds false [[some 7, some 3, some 9], [some 3, some 7, none], [some 5, some 9, some 3]] =
    [[some 0, some 1, none], [some 1, some 0, none], [some 2, some 1, none]] := by decide

example : relabelOf [7, 3, 5] 0 3 = some 1 ∧ relabelOf [7, 3, 5] 0 9 = none := by decide

open Cfdm.UgridRead

/-- **`normalise` does not depend on how the cells are labelled.**  Renaming the cell identifiers
of a point-cell domain topology / cell connectivity array by any injective map (first column and
references alike) does not change which cells each row of the normalised array lists: two arrays
that describe the same connectivity under different labels normalise to the same rows (as sets of
values; the first column is `0..n-1` in both by `C15_normalise_normal_form`). -/
theorem C15_normalise_label_invariant (ob : Bool) (m : IMat) (h : WFIds m) (σ : Int → Int)
    (hσ : ∀ a b, σ a = σ b → a = b) (k : Nat) (w : Int) :
    w ∈ rowVals (normaliseCellIds ob (mapVals σ m)) k ↔ w ∈ rowVals (normaliseCellIds ob m) k := by
  have hwf : WFIds (mapVals σ m) := by
    refine ⟨by rw [length_mapVals]; exact h.nonempty, ?_, ?_⟩
    · rw [firstCol_mapVals, List.length_map, length_mapVals]; exact h.heads
    · rw [firstCol_mapVals]
      exact List.Pairwise.map σ (fun a b (hab : a ≠ b) e => hab (hσ a b e)) h.nodup
  rw [normaliseCellIds_rows ob _ hwf k w, normaliseCellIds_rows ob m h k w, rowVals_mapVals,
    firstCol_mapVals]
  constructor
  · rintro ⟨v', hv', hrel⟩
    obtain ⟨v, hv, rfl⟩ := List.mem_map.mp hv'
    refine ⟨v, hv, ?_⟩
    unfold relabelOf at hrel ⊢
    rwa [idxOf_map_inj _ σ hσ, List.length_map] at hrel
  · rintro ⟨v, hv, hrel⟩
    refine ⟨σ v, List.mem_map.mpr ⟨v, hv, rfl⟩, ?_⟩
    unfold relabelOf at hrel ⊢
    rwa [idxOf_map_inj _ σ hσ, List.length_map]

example : normaliseCellIds false (mapVals (fun v => 100 - 3 * v) [[some 4, some 1, some 10], [some 1, some 4, none]]) =
    normaliseCellIds false [[some 4, some 1, some 10], [some 1, some 4, none]] := by decide

/-- **`normalise` after a subspace.**  Let `m` be a normalised (zero-based) point-cell or
cell-connectivity array — row `i` starts with `i` — and `pos` a non-empty list of distinct in-range
positions (what `Field.__getitem__` or a location index set selects).  Then the values of row `k`
of `normalise(m[pos])` are exactly `j + start_index` for those `j` whose cell `pos[j]` is listed in
row `pos[k]` of `m`: the neighbours that the subspace cut away disappear and the others are
renumbered by their new position. -/
theorem C15_subspace_normalise (ob : Bool) (m : IMat) (pos : List Nat)
    (hids : firstCol m = arange 0 m.length) (hne : pos ≠ []) (hnd : pos.Nodup)
    (hpos : ∀ i ∈ pos, i < m.length) (k : Nat) (hk : k < pos.length) (w : Int) :
    w ∈ rowVals (normaliseCellIds ob (takeRows pos m)) k ↔
      ∃ j, ∃ (hj : j < pos.length), ((pos[j] : Nat) : Int) ∈ rowVals m pos[k] ∧ w = baseOf ob + (j : Int) := by
  have hfc := firstCol_takeRows m pos hids hpos
  have hlen : (takeRows pos m).length = pos.length := takeRows_length pos m hpos
  have hwf : WFIds (takeRows pos m) := by
    refine ⟨?_, ?_, ?_⟩
    · rw [hlen]; cases pos with
      | nil => exact absurd rfl hne
      | cons _ _ => simp
    · rw [hfc, List.length_map, hlen]
    · rw [hfc]
      exact List.Pairwise.map _ (fun a b (hab : a ≠ b) => by simp only [ne_eq]; omega) hnd
  rw [normaliseCellIds_rows ob _ hwf k w]
  have hrow : rowVals (takeRows pos m) k = rowVals m pos[k] := by
    have hpk : pos[k] < m.length := hpos _ (List.getElem_mem hk)
    simp only [rowVals, List.getD_eq_getElem?_getD, takeRows_getElem? pos m hpos k,
      List.getElem?_eq_getElem hk, Option.bind_some]
  rw [hrow, hfc]
  constructor
  · rintro ⟨v, hv, hrel⟩
    unfold relabelOf at hrel
    by_cases hlt : (pos.map (fun (i : Nat) => (i : Int))).idxOf v < (pos.map (fun (i : Nat) => (i : Int))).length
    · rw [if_pos hlt] at hrel
      have hj : (pos.map (fun (i : Nat) => (i : Int))).idxOf v < pos.length := by simpa using hlt
      refine ⟨_, hj, ?_, (Option.some.inj hrel).symm⟩
      have := List.getElem_idxOf hlt
      simp only [List.getElem_map] at this
      rw [this]; exact hv
    · rw [if_neg hlt] at hrel; cases hrel
  · rintro ⟨j, hj, hmem, rfl⟩
    refine ⟨_, hmem, ?_⟩
    unfold relabelOf
    have hndm : (pos.map (fun (i : Nat) => (i : Int))).Nodup :=
      List.Pairwise.map _ (fun a b (hab : a ≠ b) => by simp only [ne_eq]; omega) hnd
    have hjl : j < (pos.map (fun (i : Nat) => (i : Int))).length := by simpa using hj
    have hidx := List.Nodup.idxOf_getElem hndm j hjl
    simp only [List.getElem_map] at hidx
    rw [hidx, if_pos hjl]

example : normaliseCellIds false (takeRows [2, 0]
      [[some 0, some 1, some 2], [some 1, some 0, some 2], [some 2, some 0, some 1]]) =
    [[some 0, some 1, none], [some 1, some 0, none]] := by decide

/-! ### The reader: which variable feeds which construct, in which orientation -/

/-- **The cell dimension is found per connectivity variable.**  With a `<location>_dimension`
attribute naming a dimension of the variable, the computed position is the position of that
dimension among the dimensions of THIS variable (any rank, any order); without the attribute it is
0, the UGRID default. -/
theorem C15_cell_dimension_per_variable (m : Mesh) (loc : Loc) (v : ConnVar) :
    (dimAttr m loc = none → cellDimension m loc v = some 0) ∧
    (∀ d, dimAttr m loc = some d → d ∈ v.dims →
      ∃ cd, cellDimension m loc v = some cd ∧ v.dims[cd]? = some d ∧ ∀ j < cd, v.dims[j]? ≠ some d) := by
  constructor
  · intro h; simp [cellDimension, h]
  · intro d h hd
    have hlt : v.dims.idxOf d < v.dims.length := List.idxOf_lt_length_iff.mpr hd
    refine ⟨v.dims.idxOf d, by simp [cellDimension, h, hlt], ?_, ?_⟩
    · rw [List.getElem?_eq_getElem hlt, List.getElem_idxOf hlt]
    · intro j hj hjd
      have hjl : j < v.dims.length := by omega
      rw [List.getElem?_eq_getElem hjl] at hjd
      have := Cfdm.UgridRead.idxOf_le_of_getElem? v.dims d j (by rw [List.getElem?_eq_getElem hjl]; exact hjd)
      omega

/-- a mesh topology variable with a `face_dimension` attribute -/
def exAttrMesh : Mesh where
  nodeDim := "n"
  nNodes := 3
  faceDim := some "nface"
  edgeDim := none
  faceNode := none
  edgeNode := none
  faceFace := none
  coords := []

example : cellDimension exAttrMesh .face ⟨["ffW", "nface"], 0, []⟩ = some 1 ∧
    cellDimension exAttrMesh .face ⟨["nface", "fW"], 0, []⟩ = some 0 ∧
    cellDimension exAttrMesh .edge ⟨["Two", "nedge"], 0, []⟩ = some 0 := by decide

/-- **Every construct is oriented (cell, node) and zero-based, whatever the storage of each
variable separately.**  For every well-formed logical mesh and every valid combination of storage
choices — `face_node_connectivity`, `edge_node_connectivity` and `face_face_connectivity` each
stored (cell, other) or (other, cell) independently of the others, each with its own `start_index`
0 or 1, the `<location>_dimension` attributes written whenever UGRID requires them or also when it
does not — the constructs that the reader builds for each location are those that the property
prescribes from the logical mesh: point cells from the edges if there are edges else from the
faces, edge/face cells = the logical rows, cell connectivity = face followed by the faces it
touches, bounds = node coordinates gathered through the logical rows. -/
theorem C15_read_storage_independent (lm : LMesh) (enc : MeshEnc) (hwf : lm.WF) (hv : enc.Valid)
    (loc : Loc) : readLocation (encode lm enc) loc = specConstructs lm loc := by
  obtain ⟨hfsi, hesi, hffsi, hfcd, hecd, hffcd, hfattr, heattr⟩ := hv
  -- the three oriented arrays
  have hF : ∀ f, lm.faces = some f →
      oriented (encode lm enc) .face (storeVar "nface" "fW" enc.fn f) = some (mapVals (· + enc.fn.si) f) := by
    intro f hf
    apply oriented_storeVar _ _ _ _ _ _ (by decide) hfcd _ _ (hwf.faces f hf)
    · simp only [dimAttr, encode]; cases enc.faceDimAttr <;> simp
    · intro h; simp [dimAttr, encode, hfattr (Or.inl h)]
  have hFF : ∀ x, lm.ff = some x →
      oriented (encode lm enc) .face (storeVar "nface" "ffW" enc.ff x) = some (mapVals (· + enc.ff.si) x) := by
    intro x hx
    apply oriented_storeVar _ _ _ _ _ _ (by decide) hffcd _ _ (hwf.ff x hx)
    · simp only [dimAttr, encode]; cases enc.faceDimAttr <;> simp
    · intro h; simp [dimAttr, encode, hfattr (Or.inr h)]
  have hE : ∀ e, lm.edges = some e →
      oriented (encode lm enc) .edge (storeVar "nedge" "Two" enc.en e) = some (mapVals (· + enc.en.si) e) := by
    intro e he
    apply oriented_storeVar _ _ _ _ _ _ (by decide) hecd _ _ (hwf.edges e he)
    · simp only [dimAttr, encode]; cases enc.edgeDimAttr <;> simp
    · intro h; simp [dimAttr, encode, heattr h]
  cases loc with
  | node =>
    simp only [readLocation, specConstructs, domainTopology, cellConnectivities, cellBounds,
      LMesh.pointCells]
    cases he : lm.edges with
    | some e =>
      have h1 : (encode lm enc).edgeNode = some (storeVar "nedge" "Two" enc.en e) := by simp [encode, he]
      have hn : (encode lm enc).nNodes = lm.nNodes := rfl
      simp only [h1, hE e he, Option.map_some, hn]
      have : (storeVar "nedge" "Two" enc.en e).si = enc.en.si := rfl
      rw [this, pointTopology_add .edges enc.en.si lm.nNodes e hesi]
    | none =>
      have h1 : (encode lm enc).edgeNode = none := by simp [encode, he]
      simp only [h1]
      cases hf : lm.faces with
      | some f =>
        have h2 : (encode lm enc).faceNode = some (storeVar "nface" "fW" enc.fn f) := by simp [encode, hf]
        have hn : (encode lm enc).nNodes = lm.nNodes := rfl
        simp only [h2, Option.bind_some, hF f hf, Option.map_some, hn]
        have : (storeVar "nface" "fW" enc.fn f).si = enc.fn.si := rfl
        rw [this, pointTopology_add .faces enc.fn.si lm.nNodes f hfsi]
      | none =>
        have h2 : (encode lm enc).faceNode = none := by simp [encode, hf]
        simp [h2]
  | edge =>
    simp only [readLocation, specConstructs, domainTopology, cellConnectivities, cellBounds, nodeConn]
    cases he : lm.edges with
    | some e =>
      have h1 : (encode lm enc).edgeNode = some (storeVar "nedge" "Two" enc.en e) := by simp [encode, he]
      simp only [h1, Option.bind_some, hE e he, Option.map_some]
      have hb := C15_bounds_gather enc.en.si (mapVals (· + enc.en.si) e) lm.coords
      rw [specBounds_add] at hb
      simp [storeVar, shiftCells_add, encode, hb]
    | none =>
      have h1 : (encode lm enc).edgeNode = none := by simp [encode, he]
      simp [h1]
  | face =>
    simp only [readLocation, specConstructs, domainTopology, cellConnectivities, cellBounds, nodeConn]
    have hcc : (encode lm enc).faceFace.bind (fun v => (oriented (encode lm enc) .face v).map (cellConnectivity v.si))
        = lm.ff.map (specCellConnectivity 0) := by
      cases hx : lm.ff with
      | some x =>
        have h1 : (encode lm enc).faceFace = some (storeVar "nface" "ffW" enc.ff x) := by simp [encode, hx]
        simp only [h1, Option.bind_some, hFF x hx, Option.map_some]
        have := C15_cell_connectivity enc.ff.si (mapVals (· + enc.ff.si) x) hffsi
        rw [specCellConnectivity_add] at this
        simp [storeVar, this]
      | none =>
        have h1 : (encode lm enc).faceFace = none := by simp [encode, hx]
        simp [h1]
    rw [hcc]
    cases hf : lm.faces with
    | some f =>
      have h1 : (encode lm enc).faceNode = some (storeVar "nface" "fW" enc.fn f) := by simp [encode, hf]
      simp only [h1, Option.bind_some, hF f hf, Option.map_some]
      have hb := C15_bounds_gather enc.fn.si (mapVals (· + enc.fn.si) f) lm.coords
      rw [specBounds_add] at hb
      simp [storeVar, shiftCells_add, encode, hb]
    | none =>
      have h1 : (encode lm enc).faceNode = none := by simp [encode, hf]
      simp [h1]

/-- a small mixed mesh: a triangle and a quadrilateral, all five edges, face-face links -/
def exMesh : LMesh :=
  { nNodes := 5,
    faces := some [[some 0, some 1, some 2, none], [some 1, some 3, some 4, some 2]],
    edges := some [[some 0, some 1], [some 1, some 2], [some 2, some 0], [some 1, some 3], [some 3, some 4], [some 4, some 2]],
    ff := some [[some 1], [some 0]],
    coords := [0, 10, 20, 30, 40] }

/-- faces (cell, node) one-based, face links (node, cell) zero-based, edges (node, cell) one-based -/
def exEnc : MeshEnc :=
  { fn := { si := 1, cd := 0 }, en := { si := 1, cd := 1 }, ff := { si := 0, cd := 1 },
    faceDimAttr := true, edgeDimAttr := true }

example : exEnc.Valid := by decide
example : exMesh.WF :=
  ⟨fun f h => by cases h; exact ⟨4, by decide, by decide, by decide⟩,
   fun e h => by cases h; exact ⟨2, by decide, by decide, by decide⟩,
   fun x h => by cases h; exact ⟨1, by decide, by decide, by decide⟩⟩
example : (readLocation (encode exMesh exEnc) .face).cconn = some [[some 0, some 1], [some 1, some 0]] := by decide
example : (readLocation (encode exMesh exEnc) .face).bounds =
    some [[some 0, some 10, some 20, none], [some 10, some 30, some 40, some 20]] := by decide

/-- **A cell dimension cached per (mesh, location) would be wrong**: with `face_node_connectivity`
stored (face, node) and `face_face_connectivity` stored (link, face), reusing the position found for
the first variable reads the second one untransposed. -/
theorem C15_cell_dimension_cache_counterexample :
    cellConnectivitiesCached (encode exMesh exEnc) .face ≠ (specConstructs exMesh .face).cconn ∧
    cellConnectivities (encode exMesh exEnc) .face = (specConstructs exMesh .face).cconn := by
  decide

/-- The netCDF dimension that carries the cells of a location (`mesh.ncdim[location]`, the axis the
constructs are attached to) is the cell dimension of `<location>_node_connectivity`, whichever way
that variable is stored. -/
theorem C15_mesh_ncdim (lm : LMesh) (enc : MeshEnc) (hv : enc.Valid) :
    meshNcdim (encode lm enc) .node = some "nnode" ∧
    (lm.faces.isSome → meshNcdim (encode lm enc) .face = some "nface") ∧
    (lm.edges.isSome → meshNcdim (encode lm enc) .edge = some "nedge") := by
  obtain ⟨_, _, _, hfcd, hecd, _, hfattr, heattr⟩ := hv
  refine ⟨rfl, ?_, ?_⟩
  · intro h
    obtain ⟨f, hf⟩ := Option.isSome_iff_exists.mp h
    have h1 : (encode lm enc).faceNode = some (storeVar "nface" "fW" enc.fn f) := by simp [encode, hf]
    have hcd := cellDimension_storeVar (encode lm enc) .face "nface" "fW" enc.fn f (by decide) hfcd
      (by simp only [dimAttr, encode]; cases enc.faceDimAttr <;> simp)
      (by intro h; simp [dimAttr, encode, hfattr (Or.inl h)])
    simp only [meshNcdim, nodeConn, h1, Option.bind_some, hcd]
    by_cases hc : enc.fn.cd = 1
    · simp [storeVar, hc]
    · have h0 : enc.fn.cd = 0 := by omega
      simp [storeVar, h0]
  · intro h
    obtain ⟨e, he⟩ := Option.isSome_iff_exists.mp h
    have h1 : (encode lm enc).edgeNode = some (storeVar "nedge" "Two" enc.en e) := by simp [encode, he]
    have hcd := cellDimension_storeVar (encode lm enc) .edge "nedge" "Two" enc.en e (by decide) hecd
      (by simp only [dimAttr, encode]; cases enc.edgeDimAttr <;> simp)
      (by intro h; simp [dimAttr, encode, heattr h])
    simp only [meshNcdim, nodeConn, h1, Option.bind_some, hcd]
    by_cases hc : enc.en.cd = 1
    · simp [storeVar, hc]
    · have h0 : enc.en.cd = 0 := by omega
      simp [storeVar, h0]

example : meshNcdim (encode exMesh exEnc) .edge = some "nedge" := by decide

/-- The code as it is pops `start_index` from the attribute dictionary of the connectivity variable
itself: the second mesh topology variable that names the same `face_face_connectivity` variable
reads it with start index 0 (known finding `cell-connectivity-start-index-lost-for-second-mesh`). -/
theorem C15_old_code_counterexample_shared_connectivity :
    cellConnectivitySharedOld 1 1 [[some 2], [some 1]] = [[some 0, some 2], [some 1, some 1]] ∧
    cellConnectivity 1 [[some 2], [some 1]] = specCellConnectivity 1 [[some 2], [some 1]] ∧
    cellConnectivitySharedOld 1 1 [[some 2], [some 1]] ≠ specCellConnectivity 1 [[some 2], [some 1]] := by
  decide

/-- **Several meshes in one dataset do not interfere**: what a data variable receives depends only
on the mesh (or location index set) it names; other mesh topology variables, with other names, in
front of or behind it, change nothing. -/
theorem C15_other_meshes_irrelevant (d : Dataset) (name other : String) (m' : Mesh) (loc : Loc)
    (hne : other ≠ name) :
    readField { d with meshes := (other, m') :: d.meshes } (.mesh name loc) = readField d (.mesh name loc) ∧
    (∀ m, d.meshes.lookup name = some m →
      readField { d with meshes := d.meshes ++ [(other, m')] } (.mesh name loc) = readField d (.mesh name loc)) := by
  have hb : (name == other) = false := by simpa using fun e => hne e.symm
  constructor
  · simp [readField, List.lookup, hb]
  · intro m hm
    have : (d.meshes ++ [(other, m')]).lookup name = some m := by
      rw [List.lookup_append, hm]; rfl
    simp [readField, this, hm]

example : readField { meshes := [("A", encode exMesh exEnc)], liss := [] } (.mesh "A" .edge) =
    some (specConstructs exMesh .edge) := by decide

/-! ### Subsets of the cells: location index sets and `Field.__getitem__` -/

/-- **Every construct of the cell axis is subspaced with the same positions.**  Row `k` of the
subspaced domain topology, cell connectivity and bounds is row `pos[k]` of the original one — the
same `pos[k]` for all three — and each has one row per selected cell. -/
theorem C15_subspace_rows (c : Constructs) (pos : List Nat) (n : Nat)
    (hn : (∀ t, c.topology = some t → t.length = n) ∧ (∀ t, c.cconn = some t → t.length = n) ∧
      (∀ t, c.bounds = some t → t.length = n))
    (hpos : ∀ i ∈ pos, i < n) :
    (∀ t, c.topology = some t → ∃ t' : Mat, (c.take pos).topology = some t' ∧ t'.length = pos.length ∧
      ∀ (k i : Nat), pos[k]? = some i → t'[k]? = t[i]?) ∧
    (∀ t, c.cconn = some t → ∃ t' : Mat, (c.take pos).cconn = some t' ∧ t'.length = pos.length ∧
      ∀ (k i : Nat), pos[k]? = some i → t'[k]? = t[i]?) ∧
    (∀ t, c.bounds = some t → ∃ t' : List (List (Option Int)), (c.take pos).bounds = some t' ∧ t'.length = pos.length ∧
      ∀ (k i : Nat), pos[k]? = some i → t'[k]? = t[i]?) := by
  have key : ∀ {α : Type} (t : List α), t.length = n →
      (takeRows pos t).length = pos.length ∧ ∀ (k i : Nat), pos[k]? = some i → (takeRows pos t)[k]? = t[i]? := by
    intro α t ht
    have hp : ∀ i ∈ pos, i < t.length := by rw [ht]; exact hpos
    refine ⟨takeRows_length pos t hp, ?_⟩
    intro k i hk
    rw [takeRows_getElem? pos t hp k, hk]; rfl
  refine ⟨?_, ?_, ?_⟩
  · intro t ht
    exact ⟨takeRows pos t, by simp [Constructs.take, ht], key t (hn.1 t ht)⟩
  · intro t ht
    exact ⟨takeRows pos t, by simp [Constructs.take, ht], key t (hn.2.1 t ht)⟩
  · intro t ht
    exact ⟨takeRows pos t, by simp [Constructs.take, ht], key t (hn.2.2 t ht)⟩

example : ((readLocation (encode exMesh exEnc) .face).take [1]).topology =
    some [[some 1, some 3, some 4, some 2]] := by decide

/-- A subspace of a subspace (a `Field.__getitem__` of a field on a location index set, or two
successive subspaces) is the subspace by the composed positions. -/
theorem C15_subspace_compose (c : Constructs) (p q : List Nat) (n : Nat)
    (hn : (∀ t, c.topology = some t → t.length = n) ∧ (∀ t, c.cconn = some t → t.length = n) ∧
      (∀ t, c.bounds = some t → t.length = n))
    (hq : ∀ i ∈ q, i < n) :
    (c.take q).take p = c.take (takeRows p q) := by
  obtain ⟨h1, h2, h3⟩ := hn
  have key : ∀ {α : Type} (o : Option (List α)), (∀ t, o = some t → t.length = n) →
      (o.map (takeRows q)).map (takeRows p) = o.map (takeRows (takeRows p q)) := by
    intro α o ho
    cases o with
    | none => rfl
    | some t =>
      simp only [Option.map_some]
      rw [takeRows_takeRows p q t (by rw [ho t rfl]; exact hq)]
  simp only [Constructs.take]
  rw [key c.topology h1, key c.cconn h2, key c.bounds h3]

example : takeRows [1, 0] (takeRows [2, 0, 1] [10, 20, 30]) = takeRows (takeRows [1, 0] [2, 0, 1]) [10, 20, 30] := by
  decide

/-- `Field.__getitem__` as coded (`takeIx`): the domain topology and the cell connectivity are
always the selected rows; so are the bounds **unless the index reverses the axis** (slice with a
negative step, or a list whose last position lies before its first) — then
`PropertiesDataBounds.__getitem__` also reverses the trailing dimension of the bounds (the CF 7.1
rule for 1-d coordinates).  Full statement `c.takeIx step pos = c.take pos` fails for reversing
indices (`C15_subspace_bounds_reversed_counterexample`, known finding
`ugrid-bounds-reversed-by-descending-subspace`). -/
theorem C15_subspace_bounds_partial (c : Constructs) (step : Option Int) (pos : List Nat) :
    (c.takeIx step pos).topology = (c.take pos).topology ∧
    (c.takeIx step pos).cconn = (c.take pos).cconn ∧
    ((∀ b, c.bounds = some b → boundsReversed step pos (arrSize b) = false) →
      c.takeIx step pos = c.take pos) := by
  refine ⟨rfl, rfl, ?_⟩
  intro h
  simp only [Constructs.takeIx, Constructs.take]
  cases hb : c.bounds with
  | none => rfl
  | some b => simp [h b hb]

example : boundsReversed (some 2) [0, 2] 8 = false ∧ boundsReversed none [0, 1] 8 = false ∧
    boundsReversed none [1, 0] 8 = true ∧ boundsReversed (some (-1)) [1, 0] 8 = true := by decide

/-- After `f[::-1]` the bounds of a face are no longer the node coordinates gathered through the
(subspaced) domain topology: each row is reversed and its padding comes first. -/
theorem C15_subspace_bounds_reversed_counterexample :
    ((readLocation (encode exMesh exEnc) .face).takeIx (some (-1)) [1, 0]).bounds =
      some [[some 20, some 40, some 30, some 10], [none, some 20, some 10, some 0]] ∧
    ((readLocation (encode exMesh exEnc) .face).takeIx (some (-1)) [1, 0]).topology =
      some [[some 1, some 3, some 4, some 2], [some 0, some 1, some 2, none]] ∧
    specBounds 0 [[some 1, some 3, some 4, some 2], [some 0, some 1, some 2, none]] exMesh.coords =
      [[some 10, some 30, some 40, some 20], [some 0, some 10, some 20, none]] := by
  decide

/-- **A location index set composed with the topology** (the code after
`fixes/C15-location-index-set.patch`): the data variable gets one row per index, and row `k` of its
domain topology and of its cell connectivity is row `idx[k] - start_index` of the construct of the
whole mesh at that location. -/
theorem C15_location_index_set (m : Mesh) (l : Lis) (n : Nat)
    (hn : (∀ t, (readLocation m l.loc).topology = some t → t.length = n) ∧
      (∀ t, (readLocation m l.loc).cconn = some t → t.length = n) ∧
      (∀ t, (readLocation m l.loc).bounds = some t → t.length = n))
    (hidx : ∀ i ∈ l.idx, l.si ≤ i ∧ i < l.si + n) :
    (∀ t, (readLocation m l.loc).topology = some t → ∃ t' : Mat, (readLis m l).topology = some t' ∧
      t'.length = l.idx.length ∧ ∀ (k i : Nat), l.idx[k]? = some i → t'[k]? = t[i - l.si]?) ∧
    (∀ t, (readLocation m l.loc).cconn = some t → ∃ t' : Mat, (readLis m l).cconn = some t' ∧
      t'.length = l.idx.length ∧ ∀ (k i : Nat), l.idx[k]? = some i → t'[k]? = t[i - l.si]?) := by
  have hpos : ∀ i ∈ l.positions, i < n := by
    intro i hi
    simp only [Lis.positions, List.mem_map] at hi
    obtain ⟨j, hj, rfl⟩ := hi
    have := hidx j hj; omega
  have hrows := C15_subspace_rows (readLocation m l.loc) l.positions n hn hpos
  constructor
  · intro t ht
    obtain ⟨t', h1, h2, h3⟩ := hrows.1 t ht
    refine ⟨t', h1, by simpa [Lis.positions] using h2, ?_⟩
    intro k i hk
    apply h3
    simp [Lis.positions, hk]
  · intro t ht
    obtain ⟨t', h1, h2, h3⟩ := hrows.2.1 t ht
    refine ⟨t', h1, by simpa [Lis.positions] using h2, ?_⟩
    intro k i hk
    apply h3
    simp [Lis.positions, hk]

example : (readLis (encode exMesh exEnc) { loc := .face, si := 1, idx := [2] }).topology =
    some [[some 1, some 3, some 4, some 2]] := by decide

/-- The code as it is gives a data variable on a location index set no construct at all (the mesh
is ignored with a warning) — known finding `location-index-set-ignored`. -/
theorem C15_old_code_counterexample_location_index_set :
    (readLisOld (encode exMesh exEnc) { loc := .face, si := 1, idx := [2] }).topology = none ∧
    (readLis (encode exMesh exEnc) { loc := .face, si := 1, idx := [2] }).topology =
      ((specConstructs exMesh .face).take [1]).topology := by
  decide

end Cfdm.Props.C15
