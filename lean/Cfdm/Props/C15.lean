import Cfdm.Lemmas.Ugrid
import Cfdm.Lemmas.UgridNormalise
/-
C15 — UGRID meshes are mapped to topology constructs correctly.  Property theorems only.

The point-cell functions model the code after the proposed patches
(fixes/C15-*.patch); the unpatched behaviour is `pointTopologyOld` and the four
`C15_old_code_counterexample_*` theorems show where it breaks the property.
-/
namespace Cfdm.Props.C15
open Cfdm.Ugrid

/-- **Point cells, row by row.**  For every mesh (any number of faces/edges of any
sizes, padded or not), either start index and every node `k`, row `k` of the point
topology is: `k`, then the strictly increasing list of exactly those `m` for which
`{k, m}` is an edge of some face (resp. an edge of the network), then padding —
all zero-based, whatever `start_index` the file used. -/
theorem C15_point_rows (src : Src) (si nNodes : Nat) (conn : Mat) (hsi : si ≤ 1)
    (hwf : ∀ r ∈ conn, ∀ v, some v ∈ r → si ≤ v) (k : Nat) (hk : k < nNodes) :
    ∃ (nb : List Nat) (pad : Nat), nb.Pairwise (· < ·) ∧ (∀ m, m ∈ nb ↔ Neighbour src si conn k m) ∧
      (pointTopology src si (some nNodes) conn)[k]? =
        some (some k :: nb.map some ++ List.replicate pad none) := by
  have hc1 := toOneBased_eq si conn hsi hwf
  simp only [pointTopology, hc1]
  generalize hc0 : specCells si conn = c0
  have hrowsLen : (pointRows src nNodes (mapVals (· + 1) c0)).length = nNodes := by
    simp [pointRows]
  have hrow : ∀ i (hi : i < nNodes),
      (pointRows src nNodes (mapVals (· + 1) c0))[i]'(by rw [hrowsLen]; exact hi) =
        connected src (i + 1) (mapVals (· + 1) c0) := by
    intro i hi; simp [pointRows]
  have hpos : ∀ r ∈ pointRows src nNodes (mapVals (· + 1) c0), ∀ v ∈ r, 0 < v := by
    intro r hr v hv
    simp only [pointRows, List.mem_map, List.mem_range] at hr
    obtain ⟨i, _, rfl⟩ := hr
    rw [connected_head] at hv
    rcases List.mem_cons.mp hv with rfl | hv
    · omega
    · obtain ⟨m, rfl, _⟩ := (connected_tail_iff src c0 i v).mp hv; omega
  have hd := dense_row _ hpos k (by rw [hrowsLen]; exact hk)
  rw [hrow k hk] at hd
  have hsorted := connected_tail_sorted src (k + 1) (mapVals (· + 1) c0)
  have hmem := connected_tail_iff src c0 k
  rw [connected_head] at hd
  generalize (connected src (k + 1) (mapVals (· + 1) c0)).tail = tl at hd hsorted hmem
  have htl_eq : tl = (tl.map (· - 1)).map (· + 1) := by
    rw [List.map_map]
    conv => lhs; rw [← List.map_id tl]
    apply List.map_congr_left
    intro x hx
    obtain ⟨m, rfl, _⟩ := (hmem x).mp hx
    simp
  refine ⟨tl.map (· - 1),
    maxLen (pointRows src nNodes (mapVals (· + 1) c0)) - ((k + 1) :: tl).length, ?_, ?_, ?_⟩
  · rw [htl_eq, List.pairwise_map] at hsorted
    exact hsorted.imp (fun h => by omega)
  · intro m
    rw [neighbour_iff_nbr0, hc0]
    constructor
    · intro hm
      obtain ⟨x, hx, rfl⟩ := List.mem_map.mp hm
      obtain ⟨m', rfl, h⟩ := (hmem x).mp hx
      simpa using h
    · intro h
      have : m + 1 ∈ tl := (hmem (m + 1)).mpr ⟨m, rfl, h⟩
      exact List.mem_map.mpr ⟨m + 1, this, by simp⟩
  · rw [hd]
    simp only [List.map_cons, List.cons_append, Nat.add_sub_cancel, List.map_map]
    rfl

example : pointTopology .faces 1 (some 6) [[some 1, some 2, some 3, none], [some 2, some 5, some 6, some 3]]
    = [[some 0, some 1, some 2, none], [some 1, some 0, some 2, some 4], [some 2, some 0, some 1, some 5],
       [some 3, none, none, none], [some 4, some 1, some 5, none], [some 5, some 2, some 4, none]] := by decide

/-- Row `k` of an array (`[]` outside the array). -/
abbrev row {α} (out : List (List α)) (k : Nat) : List α := out.getD k []

/-- **Neighbour membership = the edge relation.**  `m` is listed after node `k`
exactly when `{k, m}` is an edge of some face (an edge of the network). -/
theorem C15_point_neighbours (src : Src) (si nNodes : Nat) (conn : Mat) (hsi : si ≤ 1)
    (hwf : ∀ r ∈ conn, ∀ v, some v ∈ r → si ≤ v) (k : Nat) (hk : k < nNodes) (m : Nat) :
    some m ∈ (row (pointTopology src si (some nNodes) conn) k).tail ↔ Neighbour src si conn k m := by
  obtain ⟨nb, pad, _, hnb, hrow⟩ := C15_point_rows src si nNodes conn hsi hwf k hk
  simp only [row, List.getD_eq_getElem?_getD, hrow, Option.getD_some, List.cons_append, List.tail_cons]
  rw [some_mem_row_tail, hnb]

example : Neighbour .faces 0 [[some 0, some 1, some 2]] 0 1 :=
  ⟨_, List.mem_singleton.mpr rfl, 0, by decide, Or.inl ⟨rfl, rfl⟩⟩

/-- The neighbour relation that comes out is **symmetric** (this is what the
unpatched code broke on every boundary edge). -/
theorem C15_point_neighbours_symm (src : Src) (si nNodes : Nat) (conn : Mat) (hsi : si ≤ 1)
    (hwf : ∀ r ∈ conn, ∀ v, some v ∈ r → si ≤ v) (k m : Nat) (hk : k < nNodes) (hm : m < nNodes) :
    some m ∈ (row (pointTopology src si (some nNodes) conn) k).tail ↔
      some k ∈ (row (pointTopology src si (some nNodes) conn) m).tail := by
  rw [C15_point_neighbours src si nNodes conn hsi hwf k hk m,
    C15_point_neighbours src si nNodes conn hsi hwf m hm k, neighbour_iff_nbr0, neighbour_iff_nbr0]
  exact ⟨Nbr0.symm, Nbr0.symm⟩

example : some 1 ∈ (row (pointTopology .faces 0 (some 3) [[some 0, some 1, some 2]]) 0).tail ∧
    some 0 ∈ (row (pointTopology .faces 0 (some 3) [[some 0, some 1, some 2]]) 1).tail := by decide

/-- **Zero-based output.**  With valid stored ids (`start_index ≤ v < start_index + nNodes`)
row `k` starts with `k` itself and every value in the array is a node index `< nNodes`,
for `start_index` 0 and 1 alike. -/
theorem C15_zero_based (src : Src) (si nNodes : Nat) (conn : Mat) (hsi : si ≤ 1)
    (hwf : WF si nNodes conn) (k : Nat) (hk : k < nNodes) :
    (row (pointTopology src si (some nNodes) conn) k).head? = some (some k) ∧
    ∀ v, some v ∈ row (pointTopology src si (some nNodes) conn) k → v < nNodes := by
  have hwf' : ∀ r ∈ conn, ∀ v, some v ∈ r → si ≤ v := fun r hr v hv => (hwf r hr v hv).1
  obtain ⟨nb, pad, _, hnb, hrow⟩ := C15_point_rows src si nNodes conn hsi hwf' k hk
  simp only [row, List.getD_eq_getElem?_getD, hrow, Option.getD_some, List.cons_append, List.head?_cons, true_and]
  intro v hv
  rcases List.mem_cons.mp hv with hv | hv
  · cases hv; exact hk
  · rw [some_mem_row_tail, hnb, neighbour_iff_nbr0] at hv
    obtain ⟨r0, hr0, hv⟩ := hv.mem
    simp only [specCells, List.mem_map] at hr0
    obtain ⟨r, hr, rfl⟩ := hr0
    simp only [specRow, List.mem_map] at hv
    obtain ⟨o, ho, e⟩ := hv
    cases o with
    | none => simp at e
    | some w =>
      have := hwf r hr w ho
      simp at e; omega

example : WF 1 3 [[some 1, some 2, some 3]] := by
  intro r hr v hv
  simp only [List.mem_singleton] at hr; subst hr
  simp at hv; omega

/-- **Padding masked, and only padding.**  Every row is unmasked values followed
by masked padding, and all rows have the same length. -/
theorem C15_padding_masked (src : Src) (si nNodes : Nat) (conn : Mat) (hsi : si ≤ 1)
    (hwf : ∀ r ∈ conn, ∀ v, some v ∈ r → si ≤ v) :
    (∀ r ∈ pointTopology src si (some nNodes) conn,
        ∃ (vs : List Nat) (pad : Nat), r = vs.map some ++ List.replicate pad none) ∧
    (∀ r1 ∈ pointTopology src si (some nNodes) conn, ∀ r2 ∈ pointTopology src si (some nNodes) conn,
        r1.length = r2.length) := by
  constructor
  · intro r hr
    obtain ⟨k, hk⟩ := List.mem_iff_getElem?.mp hr
    have hlt : k < nNodes := by
      have := (List.getElem?_eq_some_iff.mp hk).1
      rwa [pointTopology_length] at this
    obtain ⟨nb, pad, _, _, hrow⟩ := C15_point_rows src si nNodes conn hsi hwf k hlt
    rw [hk] at hrow
    cases hrow
    exact ⟨k :: nb, pad, rfl⟩
  · intro r1 h1 r2 h2
    simp only [pointTopology] at h1 h2
    rw [dense_rect _ _ h1, dense_rect _ _ h2]

example : (pointTopology .edges 0 (some 4) [[some 0, some 1], [some 1, some 3]]) =
    [[some 0, some 1, none], [some 1, some 0, some 3], [some 2, none, none], [some 3, some 1, none]] := by
  decide

/-! ### Unpatched point-topology code: where it breaks the property -/

/-- Unpatched `_connected_nodes` for faces lists only the node *before* `node`
in each face: for the single triangle `[0,1,2]` node 0 gets `[0, 2]` — the edge
{0,1} is lost and the relation is not symmetric (node 1 does list 0). -/
theorem C15_old_code_counterexample_neighbours :
    pointTopologyOld .faces 0 [[some 0, some 1, some 2]] =
      some [[some 0, some 2], [some 1, some 0], [some 2, some 1]] ∧
    pointTopology .faces 0 (some 3) [[some 0, some 1, some 2]] =
      [[some 0, some 1, some 2], [some 1, some 0, some 2], [some 2, some 0, some 1]] := by
  decide

/-- Unpatched: with `start_index = 1` the result stays one-based. -/
theorem C15_old_code_counterexample_start_index :
    pointTopologyOld .edges 1 [[some 1, some 2]] = some [[some 1, some 2], [some 2, some 1]] ∧
    pointTopology .edges 1 (some 2) [[some 1, some 2]] = [[some 0, some 1], [some 1, some 0]] := by
  decide

/-- Unpatched: a node that no cell references gets no row (3 nodes, 2 rows). -/
theorem C15_old_code_counterexample_unreferenced :
    pointTopologyOld .edges 0 [[some 0, some 2]] = some [[some 0, some 2], [some 2, some 0]] ∧
    pointTopology .edges 0 (some 3) [[some 0, some 2]] =
      [[some 0, some 2], [some 1, none], [some 2, some 0]] := by
  decide

/-- Unpatched: a padded face array makes `np.unique` yield the masked element,
and the assembly raises `TypeError`. -/
theorem C15_old_code_counterexample_padded :
    pointTopologyOld .faces 0 [[some 0, some 1, some 2, none], [some 0, some 2, some 3, some 1]] =
      none := by
  decide

/-! ### Edge and face cells -/

/- Full statement (what the property says):
     ∀ si ≤ 1, cellTopology cd stored = specCells si (selectData cd stored)
   It does not hold for the code as it is: the reader pops `start_index` and hands
   over the stored values (`C15_cells_start_index_counterexample`); known finding
   `edge-face-cells-start-index-1-not-shifted`.  Proved with the excluding
   hypothesis `si = 0`: -/
/-- Edge/face cells: each row lists the cell's nodes with the padding masked —
zero-based **when the file is zero-based**. -/
theorem C15_cells_zero_based_partial (cd si : Nat) (stored : Mat) (hsi : si = 0) :
    cellTopology cd stored = specCells si (selectData cd stored) := by
  subst hsi
  simp only [cellTopology, specCells, specRow, Nat.sub_zero]
  conv => lhs; rw [← List.map_id (selectData cd stored)]
  apply List.map_congr_left
  intro r _
  conv => lhs; rw [id, ← List.map_id r]
  apply List.map_congr_left
  intro o _
  cases o <;> rfl

example : cellTopology 1 [[some 0, some 1], [some 1, some 3], [some 2, some 4], [none, some 2]] =
    [[some 0, some 1, some 2, none], [some 1, some 3, some 4, some 2]] := by decide

/-- With `start_index = 1` the edge/face domain topology keeps the one-based
stored values. -/
theorem C15_cells_start_index_counterexample :
    cellTopology 0 [[some 1, some 2, some 3]] ≠ specCells 1 (selectData 0 [[some 1, some 2, some 3]]) := by
  decide

/-- Stored (node, cell) arrays are read as (cell, node): entry `(cell i, node j)`
of the selected data is entry `(j, i)` of the stored array. -/
theorem C15_transposed_storage (stored : Mat) (w : Nat) (hrect : ∀ r ∈ stored, r.length = w)
    (i j : Nat) (hi : i < stored.length) (hj : j < w) :
    (row (selectData 1 stored) j).getD i none = (row stored i).getD j none := by
  simp only [selectData, if_true, row]
  exact transpose_entry stored w hrect i j hi hj

example : selectData 1 [[some 0, some 1], [some 1, some 3], [none, some 2]] =
    [[some 0, some 1, none], [some 1, some 3, some 2]] := by decide

/-! ### Cell connectivity -/

/-- Row `i` is cell `i` followed by the cells it touches, zero-based, padding
masked, for `start_index` 0 and 1. -/
theorem C15_cell_connectivity (si : Nat) (data : Mat) (hsi : si ≤ 1) :
    cellConnectivity si data = specCellConnectivity si data := by
  apply List.ext_getElem?
  intro i
  by_cases hi : i < data.length
  · by_cases h0 : si = 0
    · subst h0
      simp [cellConnectivity, specCellConnectivity, List.getElem?_zipIdx, hi, specRow]
    · have h1 : si = 1 := by omega
      subst h1
      simp [cellConnectivity, specCellConnectivity, List.getElem?_zipIdx, hi, specRow, mapVals]
  · by_cases h0 : si = 0
    · subst h0
      simp [cellConnectivity, specCellConnectivity, hi]
    · have h1 : si = 1 := by omega
      subst h1
      simp [cellConnectivity, specCellConnectivity, hi, mapVals]

example : cellConnectivity 1 [[some 2, none], [some 1, none]] =
    [[some 0, some 1, none], [some 1, some 0, none]] := by decide

/-! ### Bounds from nodes -/

/-- The bounds of every cell are the node coordinates gathered through the
connectivity (index `v - start_index`), with the padding masked; compress →
gather → scatter puts every coordinate back at the position it was taken for. -/
theorem C15_bounds_gather (si : Nat) (conn : Mat) (coords : List Int) :
    boundsFromNodes si conn coords = specBounds si conn coords := by
  simp only [boundsFromNodes, specBounds]
  exact scatter_map (fun v => coords.getD (v - si) 0) conn

/-- … and under `WF` the gathered index is a real position of the coordinate array. -/
theorem C15_bounds_gather_inrange (si : Nat) (conn : Mat) (coords : List Int)
    (hwf : WF si coords.length conn) (r : Row) (hr : r ∈ conn) (v : Nat) (hv : some v ∈ r) :
    v - si < coords.length := by
  have := hwf r hr v hv; omega

example : boundsFromNodes 1 [[some 1, some 2, some 3, none], [some 2, some 4, some 5, some 3]] [0, 10, 20, 30, 40] =
    [[some 0, some 10, some 20, none], [some 10, some 30, some 40, some 20]] := by decide

/-! ### `normalise` -/

/-- **A second normalisation changes nothing** (point cells and cell
connectivity, `Topology._normalise_cell_ids` as coded: relabel / not-relabel
branches, negative-id shift, the sequential `copyto` loop, redundant-id masking
and the conditional row sort), for every array with at least one row whose
first-column ids are unmasked and distinct, and either `start_index`. -/
theorem C15_normalise_idem (oneBased : Bool) (m : IMat) (h : WFIds m) :
    normaliseCellIds oneBased (normaliseCellIds oneBased m) = normaliseCellIds oneBased m :=
  normaliseCellIds_idem oneBased m h

example : WFIds [[some 4, some 1, some 10, some 125], [some 1, some 4, none, none], [some 125, some 4, none, none]] :=
  ⟨by decide, by decide, by decide⟩

example : normaliseCellIds false [[some 4, some 1, some 10, some 125], [some 1, some 4, none, none], [some 125, some 4, none, none]] =
    [[some 0, some 1, some 2, none], [some 1, some 0, none, none], [some 2, some 0, none, none]] := by decide

/-- What the normalised array looks like: row `k` starts with `k + start_index`
and every remaining value is one of those ids. -/
theorem C15_normalise_normal_form (oneBased : Bool) (m : IMat) (h : WFIds m) :
    firstCol (normaliseCellIds oneBased m) = arange (baseOf oneBased) m.length ∧
    (normaliseCellIds oneBased m).length = m.length ∧
    ∀ v ∈ vals (normaliseCellIds oneBased m), baseOf oneBased ≤ v ∧ v < baseOf oneBased + m.length :=
  let nf := NF_normaliseCellIds oneBased m h
  ⟨nf.ids, nf.len, nf.range⟩

/-- **A second normalisation changes nothing** (edge and face cells: node ids
replaced by their rank among the distinct ids, `np.unique(…, return_inverse=True)`),
for every array. -/
theorem C15_normalise_nodes_idem (oneBased : Bool) (m : Mat) :
    normaliseNodes oneBased (normaliseNodes oneBased m) = normaliseNodes oneBased m :=
  normaliseNodes_idem oneBased m

example : normaliseNodes false [[some 1, some 4, some 5, some 2], [some 4, some 10, some 1, none]] =
    [[some 0, some 2, some 3, some 1], [some 2, some 4, some 0, none]] := by decide

end Cfdm.Props.C15
