import Cfdm.Lemmas.Settings
import Cfdm.Lemmas.SettingsOld
import Cfdm.Lemmas.SettingsMid
import Cfdm.Lemmas.SettingsFine
import Cfdm.Lemmas.SettingsCm
import Cfdm.Spec.Settings
/-
C20 — global settings changed for a call or a block are always restored.
Property theorems only.  Three decorators (Model/Settings.lean):
  `run`    = `runWith decoNew`: what the property demands of every decorated call (the code after
             fixes/C20-verbose-scope-full.patch, which cannot be applied: a test of the suite pins
             the third defect);
  `runMid` = `runWith decoMid`: the code after fixes/C20-verbose-scope.patch (passes the unedited
             suite; repairs the counter leak and the nested calls, leaves the outermost
             `verbose=0`-under-DISABLE behaviour);
  `runOld` = `runWith decoOld`: the decorator of 1.11.2.0.
The driver executes the statement-by-statement versions (`decoOldFine`, `decoMidFine`,
Model/SettingsFine.lean), proved equal to the compact ones below (`C20_helpers_refine`).
-/
namespace Cfdm.Props.C20
open Cfdm.Settings Cfdm.Generated

/-- The model's enumeration is the one in cfdm/constants.py (regenerated on every run), and the
numeric logging levels are those of `logging` / cfdm/__init__.py. -/
theorem C20_enum_table :
    LogLevels.validLogLevels = Level.all.map (fun l => (l.name, l.value))
    ∧ LogLevels.loggingNo = (Level.all.filter (· ≠ .DISABLE)).map (fun l => (l.name, l.no))
    ∧ LogLevels.critical = 50 ∧ LogLevels.notset = 0
    ∧ LogLevels.constantsKeys = ["ATOL", "RTOL", "LOG_LEVEL"] := by decide

/-- Setting one returns the previous value: whatever the argument, a setter call that returns
hands back exactly what was stored before it, leaves the other two settings alone, and a call
without argument changes nothing; a call that raises changes nothing at all. -/
theorem C20_setter_returns_old (d : Deco) (op : SetOp) (s : State) :
    (∀ old s', access op s = .ok (old, s') →
        old = getVal op.key s
        ∧ (∀ k, k ≠ op.key → getVal k s' = getVal k s)
        ∧ (op = .atol none ∨ op = .rtol none ∨ op = .log none → s' = s))
    ∧ (∀ e, access op s = .error e → runWith d (.set op) s = (s, .raised e)) := by
  refine ⟨fun old s' h => ⟨access_old op s s' old h, ?_, ?_⟩, fun e h => by simp [runWith, h]⟩
  · intro k hk
    cases op with
    | atol a =>
      rcases a with _ | a | _ <;> simp [access] at h <;> cases k <;> simp_all [getVal, SetOp.key]
      all_goals simp [← h.2]
    | rtol a =>
      rcases a with _ | a | _ <;> simp [access] at h <;> cases k <;> simp_all [getVal, SetOp.key]
      all_goals simp [← h.2]
    | log a =>
      cases a with
      | none => simp [access] at h; simp [h.2]
      | some a =>
        simp only [access] at h
        cases hp : a.parse <;> rw [hp] at h <;> simp at h
        cases k <;> simp_all [getVal, SetOp.key]
        all_goals simp [← h.2, resetEmergence_atol, resetEmergence_rtol]
  · rintro (rfl | rfl | rfl) <;> simp [access] at h <;> exact h.2.symm

example : access (.log (some (.str "Debug"))) State.init
    = .ok (.lvl .WARNING, { State.init with level := .DEBUG, root := 10 }) := by rfl
example : access (.atol (some .bad)) State.init = .error .ValueError := by rfl

/-- A `with cfdm.atol(x):` / `rtol` / `log_level` block restores that setting on exit, for every
body, whether the body completes or raises, from any state and under any decorator; the body's
exception (if any) propagates; if the setter itself raises nothing is changed. -/
theorem C20_with_restores (d : Deco) (op : SetOp) (body : Prog) (s : State) :
    getVal op.key (runWith d (.withSet op body) s).1 = getVal op.key s
    ∧ (∀ old s1, access op s = .ok (old, s1) →
        (runWith d (.withSet op body) s).2 = (runWith d body s1).2)
    ∧ (∀ e, access op s = .error e → runWith d (.withSet op body) s = (s, .raised e)) := by
  refine ⟨?_, ?_, ?_⟩
  · simp only [runWith]
    cases h : access op s with
    | error e => rfl
    | ok r =>
      obtain ⟨old, s1⟩ := r
      have := access_old op s s1 old h
      subst this
      exact getVal_exitConst _ _ _
  · intro old s1 h; simp [runWith, h]
  · intro e h; simp [runWith, h]

/-- … and for the log level the logging state goes back with it: from a state as `log_level`
leaves it, the level, the disable level and the effective root level after the block are those
before it. -/
theorem C20_with_restores_logging (d : Deco) (a : Option LvlArg) (body : Prog) (s : State)
    (hc : Consistent s) :
    obsLog (runWith d (.withSet (.log a) body) s).1 = obsLog s := by
  simp only [runWith]
  cases h : access (.log a) s with
  | error e => rfl
  | ok r =>
    obtain ⟨old, s1⟩ := r
    have := access_old _ s s1 old h
    subst this
    simp only [SetOp.key, getVal, exitConst_log, obsLog_reset]
    exact ((consistent_iff s).mp hc).symm

example : Consistent State.init := by decide
example : (run (.withSet (.log (some (.int (-1)))) (.seq (.set (.log (some (.int 0)))) (.raise .KeyError)))
    State.init) = (State.init, .raised .KeyError) := by decide

/-- The whole configuration as a context manager: all three settings are restored for every
body and outcome, and (from a state as `log_level` leaves it) the logging state too. -/
theorem C20_with_cfg_restores (d : Deco) (c : CfgArgs) (body : Prog) (s : State) :
    settings (runWith d (.withCfg c body) s).1 = settings s
    ∧ (Consistent s → obsLog (runWith d (.withCfg c body) s).1 = obsLog s) := by
  simp only [runWith]
  rcases h : cfgCall c s with ⟨e, old, s1⟩
  have hold : old = snapshot s := by
    have := congrArg (fun r => r.2.1) h
    simpa [cfgCall] using this.symm
  cases e with
  | some e =>
    have := cfgCall_error c s e old s1 h
    subst this
    exact ⟨rfl, fun _ => rfl⟩
  | none =>
    subst hold
    refine ⟨?_, fun hc => ?_⟩
    · simp [exitCfg_eq, settings, snapshot, resetEmergence_atol, resetEmergence_rtol]
    · simp only [exitCfg_eq, snapshot, obsLog_reset]
      exact ((consistent_iff s).mp hc).symm

example : run (.withCfg { a := some (.val 3), r := none, l := some (.str "info") }
    (.seq (.set (.rtol (some (.val 5)))) (.raise .TypeError))) State.init
    = (State.init, .raised .TypeError) := by decide

/-- `_configuration` rolls back: a `configuration(...)` call that raises leaves the state as it
found it, whichever argument was the invalid one. -/
theorem C20_configuration_rollback (c : CfgArgs) (s : State) (e : Exc) (old : Cfg) (s' : State)
    (h : cfgCall c s = (some e, old, s')) : s' = s :=
  cfgCall_error c s e old s' h

example : cfgCall { a := some (.val 3), r := some (.val 4), l := some (.int 7) } State.init
    = (some .ValueError, snapshot State.init, State.init) := by decide

/-- One decorated call around *any* computation whatsoever (`body` is an arbitrary function,
returning or raising): an invalid `verbose` raises `ValueError` and changes nothing, not even
transiently; otherwise the outcome is the body's, the three settings are as the body left them,
and the root level and the disable level are exactly those found on entry — unless the body
itself changed the global log level, in which case the logging state is the one `log_level`
establishes for that new level. -/
theorem C20_verbose_call_restores (v : Verbose) (body : State → State × Outcome) (s : State) :
    (∀ e, v.resolve = .error e → decorated decoNew v body s = (s, .raised e))
    ∧ (∀ lv, v.resolve = .ok lv →
        let s1 := match lv with | none => s | some l => resetEmergence l s
        let r := decorated decoNew v body s
        r.2 = (body s1).2 ∧ settings r.1 = settings (body s1).1
        ∧ (lv ≠ none → (body s1).1.level = s.level → logState r.1 = logState s)
        ∧ (lv ≠ none → (body s1).1.level ≠ s.level → obsLog r.1 = canon (body s1).1.level)) := by
  refine ⟨fun e h => by simp [decorated, decoNew, h], fun lv h => ?_⟩
  cases lv with
  | none => simp [decorated, decoNew, h, frameOf]
  | some l =>
    simp only [decorated, decoNew, h, frameOf]
    refine ⟨by first | rfl | trivial, ?_, fun _ hl => ?_, fun _ hl => ?_⟩
    · by_cases hh : (body (resetEmergence l s)).1.level = s.level <;>
        simp [hh, settings, resetEmergence_atol, resetEmergence_rtol, resetEmergence_level]
    · simp [hl, logState]
    · simp only [ne_eq, hl, not_false_eq_true, if_true]
      generalize (body (resetEmergence l s)).1 = t
      have := obsLog_reset t.level { t with root := s.root, disable := s.disable }
      have he : ({ resetEmergence t.level { t with root := s.root, disable := s.disable } with level := t.level } : State)
          = resetEmergence t.level { t with root := s.root, disable := s.disable } := by
        unfold resetEmergence; split <;> rfl
      rw [he] at this
      exact this

example : (Verbose.str "DeTaIl").resolve = .ok (some .DETAIL) ∧ (Verbose.int 7).resolve = .error .ValueError
    ∧ (Verbose.bool false).resolve = .ok (some .DISABLE) ∧ (Verbose.str "loud").resolve = .error .ValueError :=
  ⟨rfl, rfl, rfl, rfl⟩

/-- **Verbosity is call-scoped.**  For every tree of decorated calls — any depth, any `verbose`
values (None, integers, names in any case, booleans, invalid ones), opaque cfdm functions, any
body outcome, try blocks, equality tests, tolerance settings and tolerance `with` blocks — run
from *any* state (also one in the middle of another call), the global level, the root logger's
level and the disable level afterwards are exactly those before.  Induction on the tree. -/
theorem C20_verbose_scoped (p : Prog) (hp : LogFree p) (s : State) :
    logState (run p s).1 = logState s := by
  induction p generalizing s with
  | skip => rfl
  | seq p q ihp ihq =>
    simp only [run, runWith]
    cases h : (runWith decoNew p s).2 with
    | ok => simp only []; exact (ihq hp.2 _).trans (ihp hp.1 s)
    | raised e => exact ihp hp.1 s
  | set op =>
    simp only [LogFree] at hp
    cases op with
    | atol a => rcases a with _ | a | _ <;> simp [run, runWith, access, logState]
    | rtol a => rcases a with _ | a | _ <;> simp [run, runWith, access, logState]
    | log a =>
      cases a with
      | none => simp [run, runWith, access]
      | some a => simp [SetOp.touchesLog] at hp
  | cfg c =>
    simp only [LogFree] at hp
    have := cfgCall_nolog c s hp
    simp only [run, runWith]
    rcases h : cfgCall c s with ⟨e, old, s1⟩
    rw [h] at this
    cases e <;> exact this
  | withSet op body ih =>
    obtain ⟨hop, hb⟩ := hp
    simp only [run, runWith]
    cases op with
    | atol a =>
      rcases a with _ | a | _ <;> simp only [access, SetOp.key]
      · rw [exitConst_atol]; exact ih hb s
      · rw [exitConst_atol]; exact ih hb _
    | rtol a =>
      rcases a with _ | a | _ <;> simp only [access, SetOp.key]
      · rw [exitConst_rtol]; exact ih hb s
      · rw [exitConst_rtol]; exact ih hb _
    | log a => simp [SetOp.key] at hop
  | withCfg c body ih => exact hp.elim
  | call v body ih =>
    have hb : LogFree body := hp
    simp only [run, runWith]
    have hc := C20_verbose_call_restores v (runWith decoNew body) s
    cases hr : v.resolve with
    | error e => rw [hc.1 e hr]
    | ok lv =>
      have h2 := hc.2 lv hr
      cases lv with
      | none =>
        simp only [decorated, decoNew, hr, frameOf]
        exact ih hb s
      | some l =>
        simp only at h2
        apply h2.2.2.1 (by simp)
        have := ih hb (resetEmergence l s)
        simp only [run, logState, Prod.mk.injEq] at this
        rw [this.1, resetEmergence_level]
  | real v raises inner =>
    simp only [run, runWith]
    -- the call the function makes itself leaves the logging state of its caller alone …
    have hin : ∀ s1, logState (decorated decoNew inner (fun s2 => (s2, Outcome.ok)) s1).1 = logState s1 := by
      intro s1
      have hi := C20_verbose_call_restores inner (fun s2 => (s2, Outcome.ok)) s1
      cases hr : inner.resolve with
      | error e => rw [hi.1 e hr]
      | ok lv =>
        have h2 := hi.2 lv hr
        cases lv with
        | none => simp [decorated, decoNew, hr, frameOf]
        | some l =>
          simp only at h2
          exact h2.2.2.1 (by simp) (resetEmergence_level l s1)
    -- … and so does the function
    have hc := C20_verbose_call_restores v (fun s1 =>
      ((decorated decoNew inner (fun s2 => (s2, Outcome.ok)) s1).1,
        if raises then Outcome.raised Exc.TypeError else Outcome.ok)) s
    cases hr : v.resolve with
    | error e => rw [hc.1 e hr]
    | ok lv =>
      have h2 := hc.2 lv hr
      cases lv with
      | none =>
        simp only [decorated, decoNew, hr, frameOf]
        exact hin s
      | some l =>
        simp only at h2
        apply h2.2.2.1 (by simp)
        have := hin (resetEmergence l s)
        simp only [logState, Prod.mk.injEq] at this
        rw [this.1, resetEmergence_level]
  | try_ body ih => exact ih hp s
  | raise e => rfl
  | eq r a m => simp [run, runWith, decorated, decoNew, Verbose.resolve, Verbose.toInt, frameOf]
  | verdict r a m => rfl

/-- Non-vacuity: outer `verbose=None`, inner `verbose=3`, then an invalid one inside a `try`,
then a raising cfdm function called with a name — a tree on which the unfixed code fails. -/
example : LogFree (.seq (.call .none (.seq (.call (.int 3) (.raise .KeyError)) .skip))
    (.seq (.try_ (.call (.int 7) .skip)) (.real (.str "debug") true (.int 0)))) := by
  simp [LogFree]
example : (run (.seq (.call .none (.call (.int 3) .skip)) (.seq (.try_ (.call (.int 7) .skip))
    (.real (.str "debug") true (.int 0)))) State.init) = (State.init, .raised .TypeError) := by decide

/-- The same with `with` blocks of `log_level` and `configuration` interleaved at any depth
(inside and around decorated calls): the global level is preserved from any state, and from a
state as `log_level` leaves it so are the disable level and the effective root level.
(Inside a call with a `verbose` the exit of such a block re-derives the logging state from the
restored global level, so the exact-state form of `C20_verbose_scoped` is not available.) -/
theorem C20_verbose_scoped_with_blocks (p : Prog) (hp : Balanced p) (s : State) :
    (run p s).1.level = s.level ∧ (Consistent s → obsLog (run p s).1 = obsLog s) := by
  induction p generalizing s with
  | skip => exact ⟨rfl, fun _ => rfl⟩
  | seq p q ihp ihq =>
    have h1 := ihp hp.1 s
    simp only [run, runWith]
    cases h : (runWith decoNew p s).2 with
    | raised e => exact h1
    | ok =>
      have h2 := ihq hp.2 (runWith decoNew p s).1
      simp only [run] at h1 h2
      refine ⟨h2.1.trans h1.1, fun hc => ?_⟩
      have := h1.2 hc
      exact (h2.2 (consistent_of_obsLog this hc)).trans this
  | set op =>
    have := C20_verbose_scoped (.set op) hp s
    exact ⟨by simpa [logState] using (congrArg Prod.fst this), fun _ => obsLog_of_logState this⟩
  | cfg c =>
    have := C20_verbose_scoped (.cfg c) hp s
    exact ⟨by simpa [logState] using (congrArg Prod.fst this), fun _ => obsLog_of_logState this⟩
  | withSet op body ih =>
    have hb : Balanced body := hp
    cases op with
    | log a =>
      refine ⟨?_, C20_with_restores_logging decoNew a body s⟩
      have := (C20_with_restores decoNew (.log a) body s).1
      simpa [getVal, SetOp.key, run] using this
    | atol a =>
      simp only [run, runWith]
      rcases a with _ | a | _ <;> simp only [access, SetOp.key]
      · rw [exitConst_atol]; exact ih hb s
      · rw [exitConst_atol]; exact ih hb { s with atol := a }
      · exact ⟨trivial, fun _ => trivial⟩
    | rtol a =>
      simp only [run, runWith]
      rcases a with _ | a | _ <;> simp only [access, SetOp.key]
      · rw [exitConst_rtol]; exact ih hb s
      · rw [exitConst_rtol]; exact ih hb { s with rtol := a }
      · exact ⟨trivial, fun _ => trivial⟩
  | withCfg c body ih =>
    have h := C20_with_cfg_restores decoNew c body s
    refine ⟨?_, h.2⟩
    have := congrArg (fun t => t.2.2) h.1
    simpa [settings, run] using this
  | call v body ih =>
    have hb : Balanced body := hp
    simp only [run, runWith]
    have hc := C20_verbose_call_restores v (runWith decoNew body) s
    cases hr : v.resolve with
    | error e => rw [hc.1 e hr]; exact ⟨rfl, fun _ => rfl⟩
    | ok lv =>
      have h2 := hc.2 lv hr
      cases lv with
      | none =>
        simp only [decorated, decoNew, hr, frameOf]
        exact ih hb s
      | some l =>
        simp only at h2
        have hl : (runWith decoNew body (resetEmergence l s)).1.level = s.level := by
          have := (ih hb (resetEmergence l s)).1
          simp only [run] at this
          rw [this, resetEmergence_level]
        have := h2.2.2.1 (by simp) hl
        exact ⟨by simpa [logState] using (congrArg Prod.fst this), fun _ => obsLog_of_logState this⟩
  | real v raises inner =>
    have := C20_verbose_scoped (.real v raises inner) (by simp [LogFree]) s
    exact ⟨by simpa [logState] using (congrArg Prod.fst this), fun _ => obsLog_of_logState this⟩
  | try_ body ih => exact ih hp s
  | raise e => exact ⟨rfl, fun _ => rfl⟩
  | eq r a m =>
    have := C20_verbose_scoped (.eq r a m) (by simp [LogFree]) s
    exact ⟨by simpa [logState] using (congrArg Prod.fst this), fun _ => obsLog_of_logState this⟩
  | verdict r a m => exact ⟨rfl, fun _ => rfl⟩

example : Balanced (.call (.int 3) (.seq (.withSet (.log (some (.str "debug"))) (.call (.bool false) .skip))
    (.withCfg { a := none, r := none, l := some (.int 2) } (.raise .KeyError)))) := by simp [Balanced]

/-- A decorated call around any computation keeps the logging state in agreement with the
global level if it found it so (for `verbose=None`, a plain call, the computation itself must). -/
theorem C20_decorated_call_keeps_consistency (v : Verbose) (body : State → State × Outcome) (s : State)
    (hc : Consistent s) (hb : v.resolve = .ok none → Consistent (body s).1) :
    Consistent (decorated decoNew v body s).1 := by
  have h := C20_verbose_call_restores v body s
  cases hr : v.resolve with
  | error e => rw [h.1 e hr]; exact hc
  | ok lv =>
    have h2 := h.2 lv hr
    cases lv with
    | none =>
      simp only [decorated, decoNew, hr, frameOf]
      exact hb hr
    | some l =>
      simp only at h2
      by_cases hl : (body (resetEmergence l s)).1.level = s.level
      · exact consistent_of_obsLog (obsLog_of_logState (h2.2.2.1 (by simp) hl)) hc
      · have := h2.2.2.2 (by simp) hl
        have hs := congrArg (fun t => t.2.2) h2.2.1
        simp only [settings] at hs
        rw [← hs] at this
        exact (consistent_iff _).mpr this

/-- **No verbosity leaves a trace, whatever the program.**  For *every* program — global
settings changed for good anywhere (also inside decorated calls), `with` blocks, decorated
calls of any depth with any `verbose`, raises — started in a state as `log_level` leaves it,
the logging state at the end is again the one `log_level()` dictates: level, disable level and
effective root level agree with the global setting.  (Invariant by induction on the program;
a decorated call needs no hypothesis on its body: `C20_verbose_call_restores`.) -/
theorem C20_logging_follows_global_level (p : Prog) (s : State) (hc : Consistent s) :
    Consistent (run p s).1 := by
  induction p generalizing s with
  | skip => exact hc
  | seq p q ihp ihq =>
    simp only [run, runWith]
    cases h : (runWith decoNew p s).2 with
    | ok => exact ihq _ (ihp s hc)
    | raised e => exact ihp s hc
  | set op =>
    simp only [run, runWith]
    cases op with
    | atol a => rcases a with _ | a | _ <;> simp only [access] <;> exact hc
    | rtol a => rcases a with _ | a | _ <;> simp only [access] <;> exact hc
    | log a =>
      cases a with
      | none => exact hc
      | some a =>
        simp only [access]
        cases hp : a.parse with
        | none => exact hc
        | some l => exact (consistent_iff _).mpr (obsLog_reset l s)
  | cfg c =>
    simp only [run, runWith]
    rcases h : cfgCall c s with ⟨e, old, s1⟩
    rcases c with ⟨a, r, l⟩
    cases e with
    | some e => rw [cfgCall_error _ s e old s1 h]; exact hc
    | none =>
      simp only
      cases l with
      | none =>
        have := cfgCall_nolog ⟨a, r, none⟩ s rfl
        rw [h] at this
        exact consistent_of_obsLog (obsLog_of_logState this) hc
      | some l =>
        -- the log-level setter ran last and succeeded
        have hs1 : s1 = (cfgCall ⟨a, r, some l⟩ s).2.2 := by rw [h]
        rw [hs1]
        rcases a with _ | a | _ <;> rcases r with _ | r | _ <;> cases hp : l.parse <;>
          simp_all [cfgCall, CfgArgs.ops, cfgLoop, access, rollback, SetOp.key, getVal, exitConst_atol,
            exitConst_rtol] <;>
          exact (consistent_iff _).mpr (obsLog_reset _ _)
  | withSet op body ih =>
    simp only [run, runWith]
    cases op with
    | atol a =>
      rcases a with _ | a | _ <;> simp only [access, SetOp.key]
      · rw [exitConst_atol]; exact ih s hc
      · rw [exitConst_atol]; exact ih { s with atol := a } hc
      · exact hc
    | rtol a =>
      rcases a with _ | a | _ <;> simp only [access, SetOp.key]
      · rw [exitConst_rtol]; exact ih s hc
      · rw [exitConst_rtol]; exact ih { s with rtol := a } hc
      · exact hc
    | log a =>
      cases h : access (.log a) s with
      | error e => exact hc
      | ok r =>
        obtain ⟨old, s1⟩ := r
        have := access_old _ s s1 old h
        subst this
        simp only [SetOp.key, getVal, exitConst_log]
        exact (consistent_iff _).mpr (obsLog_reset _ _)
  | withCfg c body ih =>
    simp only [run, runWith]
    rcases h : cfgCall c s with ⟨e, old, s1⟩
    cases e with
    | some e => rw [cfgCall_error c s e old s1 h]; exact hc
    | none =>
      simp only [exitCfg_eq]
      exact (consistent_iff _).mpr (obsLog_reset _ _)
  | call v body ih =>
    simp only [run, runWith]
    exact C20_decorated_call_keeps_consistency v _ s hc (fun _ => ih s hc)
  | real v raises inner =>
    simp only [run, runWith]
    exact C20_decorated_call_keeps_consistency v _ s hc (fun _ => C20_decorated_call_keeps_consistency inner _ s hc (fun _ => hc))
  | try_ body ih => exact ih s hc
  | raise e => exact hc
  | eq r a m =>
    simp only [run, runWith]
    exact C20_decorated_call_keeps_consistency .none _ s hc (fun _ => hc)
  | verdict r a m => exact hc

/-- Non-vacuity / contrast: a global change made inside a call with a verbosity survives the
call, with the matching logging state — and the unpatched decorator breaks the invariant. -/
example : run (.call (.int 3) (.seq (.set (.log (some (.str "info")))) (.raise .KeyError))) State.init
    = ({ State.init with level := .INFO, root := 20 }, .raised .KeyError) := by decide
example : ¬ Consistent (runOld (.call .none (.call (.int 0) .skip)) State.init).1 := by decide

/-- Tolerances passed to an equality test are local: with both given, the verdict is the same
in every global state (the global ones are not read), and in any case the test leaves the
state — tolerances and logging — exactly as it was. -/
theorem C20_tol_args_local (r a m : Nat) (s s' : State) (r' a' : Option Nat) :
    eqResult (some r) (some a) m s = eqResult (some r) (some a) m s'
    ∧ run (.eq r' a' m) s = (s, .ok) := by
  constructor
  · rfl
  · simp [run, runWith, decorated, decoNew, Verbose.resolve, Verbose.toInt, frameOf]

/-- Non-vacuity: an omitted tolerance *is* read from the global setting (2 + 7·2^-22 against 2
is equal under atol = 2^-12, not under the default 2^-52), a given one is not — and an explicit
**zero** (tolerance number 8) is a given one: with loose globals (0.5) and operands differing by
7·2^-5 the test with `atol=0, rtol=0` says "not equal", with nothing passed "equal"; conversely
tight globals and a loose passed tolerance say "equal". -/
example : eqResult none none 22 { State.init with atol := 4 } = true
    ∧ eqResult none none 22 State.init = false
    ∧ eqResult (some 0) (some 0) 22 { State.init with atol := 4, rtol := 4 } = false
    ∧ eqResult (some 8) (some 8) 5 { State.init with atol := 7, rtol := 7 } = false
    ∧ eqResult none none 5 { State.init with atol := 7, rtol := 7 } = true
    ∧ eqResult (some 8) none 5 { State.init with atol := 7, rtol := 8 } = true
    ∧ eqResult (some 8) (some 7) 5 { State.init with atol := 8, rtol := 8 } = true
    ∧ tolUnits 8 = 0 := by decide

/-! ### The decorator as it is in 1.11.2.0 violates the property (concrete witnesses) -/

/-- An invalid `verbose` leaks the nesting counter (`calls[0] += 1` precedes validation): the
next, perfectly valid call `f(verbose=3)` then never resets the root logger (30 → 15 for good). -/
theorem C20_old_invalid_verbose_leaks_counter :
    logState (runOld (.seq (.try_ (.call (.int 7) .skip)) (.call (.int 3) .skip)) State.init).1
      = (.WARNING, 15, 0)
    ∧ logState (run (.seq (.try_ (.call (.int 7) .skip)) (.call (.int 3) .skip)) State.init).1
      = logState State.init := by decide

/-- Outer `verbose=None`, inner `verbose=3`: only the outermost call resets, and only according
to its own `verbose`, so the inner call's level stays. -/
theorem C20_old_nested_verbose_not_restored :
    logState (runOld (.call .none (.call (.int 3) .skip)) State.init).1 = (.WARNING, 15, 0)
    ∧ logState (run (.call .none (.call (.int 3) .skip)) State.init).1 = logState State.init := by
  decide

/-- The same through the plain public API: `Constructs.equals` compares candidate pairs with a
hard-coded `verbose=0`, so `f.equals(g)` with default arguments (outer `verbose=None`) leaves
logging disabled for the rest of the process while `log_level()` still says WARNING. -/
theorem C20_old_equals_disables_logging :
    logState (runOld (.real .none false (.int 0)) State.init).1 = (.WARNING, 30, 50)
    ∧ logState (run (.real .none false (.int 0)) State.init).1 = logState State.init := by decide

/-- With the global level DISABLE, `f(verbose=0)` (or `False`) switches logging back *on*. -/
theorem C20_old_verbose_zero_reenables_logging :
    (runOld (.seq (.set (.log (some (.str "disable")))) (.call (.int 0) .skip)) State.init).1.disable = 0
    ∧ (run (.seq (.set (.log (some (.str "disable")))) (.call (.int 0) .skip)) State.init).1.disable
        = critical := by decide

/-! ### The decorator as it is in 1.11.2.0, under the hypothesis that excludes its three defects

The patch above is proposed, not applied: the code under test keeps `decoOld`.  Full-strength
statement (false for `decoOld`, see the four counter-examples above; true for `decoNew`,
`C20_verbose_scoped`):

    ∀ p, LogFree p → ∀ s, logState (runOld p s).1 = logState s

What holds of the code as it is: the same conclusion for every tree, of any depth, that passes
the decidable guard `guarded s.level none p` (`Spec/Settings.lean`), which excludes exactly
* an invalid `verbose` anywhere (leaks the counter:  `C20_old_invalid_verbose_leaks_counter`),
* a nested call whose verbosity is neither `None` nor the verbosity of the outermost call
  (never undone: `C20_old_nested_verbose_not_restored`, `C20_old_equals_disables_logging`),
* an outermost call with `verbose` = 0/False/"DISABLE" while the global level is DISABLE
  (`C20_old_verbose_zero_reenables_logging`),
started outside any decorated call (counter 0) in a state as `log_level` leaves it. -/

/-- One call of the decorator *as coded* around an arbitrary computation `body` (returning or
raising), outside any other decorated call: if `verbose` is valid, is not 0 under a global
DISABLE, and the body leaves counter, level, root level and disable level as it found them
(which is what nested calls with `verbose=None` or the same `verbose` do), then afterwards the
counter is 0 again and level, disable level and effective root level are those before the call;
outcome and settings are the body's. -/
theorem C20_old_single_call_restores_partial (v : Verbose) (lv : Option Level)
    (body : State → State × Outcome) (s : State)
    (hres : v.resolve = .ok lv) (hz : ¬ (s.level = .DISABLE ∧ lv = some .DISABLE))
    (hc : s.calls = 0) (hcons : Consistent s)
    (hb : ∀ t, Inv s.level (some lv) t → Post (some lv) t (body t).1) :
    (decorated decoOld v body s).1.calls = 0
    ∧ obsLog (decorated decoOld v body s).1 = obsLog s
    ∧ (s.level ≠ .DISABLE → logState (decorated decoOld v body s).1 = logState s)
    ∧ ∃ t, Inv s.level (some lv) t ∧ (decorated decoOld v body s).2 = (body t).2
        ∧ settings (decorated decoOld v body s).1 = settings (body t).1 := by
  obtain ⟨⟨h1, h2, h3⟩, hex⟩ := old_top_call_post body s hres hz hc hcons hb
  simp only at h3
  have hs := consistent_same h3 hcons h2
  refine ⟨h1.trans hc, ?_, fun hd => ?_, hex⟩
  · rw [(consistent_iff _).mp h3, (consistent_iff _).mp hcons, h2]
  · have hd0 : s.disable = 0 := (hcons.2 hd).1
    simp only [logState, Prod.mk.injEq]
    exact ⟨h2, hs.2 (hs.1.trans hd0), hs.1⟩

/-- **Verbosity is call-scoped in the code as it is, on guarded trees.**  For every tree of
decorated calls — any depth, opaque cfdm functions, raises, try blocks, equality tests,
tolerance settings and blocks — that passes the guard, run with `decoOld` from a state with
counter 0 that agrees with `log_level()`: the counter is 0 again, the global level, the disable
level and the effective root level are those before, and exactly so (raw root level included)
unless the global level is DISABLE.  (Induction on the tree: `oldNewSim`.) -/
theorem C20_old_verbose_scoped_partial (p : Prog) (s : State)
    (hg : guarded s.level none p = true) (hc : s.calls = 0) (hcons : Consistent s) :
    (runOld p s).1.calls = 0
    ∧ obsLog (runOld p s).1 = obsLog s
    ∧ (s.level ≠ .DISABLE → logState (runOld p s).1 = logState s) := by
  obtain ⟨_, _, ⟨h1, h2, h3⟩, _⟩ := oldNewSim s.level p none s s hg ⟨rfl, hc, hcons⟩ (rel_refl s)
  simp only at h3
  have hs := consistent_same h3 hcons h2
  refine ⟨h1.trans hc, ?_, fun hd => ?_⟩
  · simp only [runOld]
    rw [(consistent_iff _).mp h3, (consistent_iff _).mp hcons, h2]
  · have hd0 : s.disable = 0 := (hcons.2 hd).1
    simp only [logState, Prod.mk.injEq, runOld]
    exact ⟨h2, hs.2 (hs.1.trans hd0), hs.1⟩

/-- On guarded trees the decorator as coded and the patched one are observationally the same:
same outcome, same final settings and observable logging state, and the same observation after
every step at every depth — so everything proved for `run` above transfers to the code as it is
on those trees (and the correspondence stream compares the implementation with either). -/
theorem C20_old_eq_new_on_guarded (p : Prog) (s : State)
    (hg : guarded s.level none p = true) (hc : s.calls = 0) (hcons : Consistent s) :
    fullTrace decoOld p s = fullTrace decoNew p s
    ∧ (runOld p s).2 = (run p s).2
    ∧ settings (runOld p s).1 = settings (run p s).1
    ∧ obsLog (runOld p s).1 = obsLog (run p s).1 := by
  obtain ⟨h1, h2, _, h4⟩ := oldNewSim s.level p none s s hg ⟨rfl, hc, hcons⟩ (rel_refl s)
  refine ⟨?_, h1, h2.1, h2.2⟩
  simp only [fullTrace]
  rw [h4, h1, ev_of_rel _ h2]

/-- Non-vacuity: a three-deep tree of the kind cfdm's own methods produce — the outer verbosity
passed through (`verbose=verbose`), inner calls with `None`, an opaque cfdm function that
raises, a raise inside a nested call, a try block, a tolerance block, then a call with
`verbose=False` whose function compares with a hard-coded `verbose=0` — passes the guard under
WARNING; each defect class is rejected by it. -/
example : guarded .WARNING none
    (.seq (.try_ (.call (.str "Detail") (.seq (.call (.int 3) (.seq (.real (.bool true) true (.int 3))
                                                    (.call .none (.raise .KeyError))))
                                           (.withSet (.atol (some (.val 4))) (.eq none (some 2) 20)))))
          (.real (.bool false) false (.int 0))) = true := by decide
example : State.init.calls = 0 ∧ Consistent State.init := by decide
example : guarded .WARNING none (.call (.int 7) .skip) = false
    ∧ guarded .WARNING none (.call .none (.call (.int 3) .skip)) = false
    ∧ guarded .WARNING none (.call (.int 3) (.call (.int 1) .skip)) = false
    ∧ guarded .WARNING none (.real .none false (.int 0)) = false
    ∧ guarded .DISABLE none (.call (.int 0) .skip) = false
    ∧ guarded .DISABLE none (.call (.int 3) (.call (.str "detail") .skip)) = true := by decide

/-! ### The decorator after fixes/C20-verbose-scope.patch (`decoMid`)

Full-strength statement (true for `decoNew`: `C20_verbose_scoped`; false for `decoMid`:
`C20_mid_verbose_zero_still_reenables_logging`):

    ∀ p, LogFree p → ∀ s, logState (runMid p s).1 = logState s

What holds of the patched code: everything, except an *outermost* call with `verbose` =
0/False/"DISABLE" under a global DISABLE (`guardedMid`): invalid values anywhere and arbitrary
nested verbosities are repaired. -/

/-- **Repaired (1): an invalid `verbose` leaves no trace at all** — not even in the private
counter — whatever the state, nested or not. -/
theorem C20_mid_invalid_verbose_no_trace (v : Verbose) (e : Exc) (body : State → State × Outcome) (s : State)
    (h : v.resolve = .error e) : decorated decoMid v body s = (s, .raised e) := by
  simp [decorated, mid_enter_error h]

example : (Verbose.int 7).resolve = .error .ValueError
    ∧ decorated decoMid (.int 7) (fun s => ({ s with atol := 5 }, .ok)) { State.init with calls := 2 }
        = ({ State.init with calls := 2 }, .raised .ValueError)
    ∧ (decorated decoOld (.int 7) (fun s => (s, .ok)) State.init).1.calls = 1 := ⟨rfl, by decide, by decide⟩

/-- **Repaired (2): a call made inside another decorated call** (counter ≥ 1) around *any*
computation that leaves the counter as it found it: the outcome is the body's; if the body leaves
the global level alone, the global level, the root logger's level and the disable level afterwards
are exactly those before, whatever `verbose` (None, valid, any body outcome) — so the enclosing
call keeps its own verbosity; and the counter is back where it was. -/
theorem C20_mid_nested_call_restores (v : Verbose) (lv : Option Level) (body : State → State × Outcome)
    (s : State) (hres : v.resolve = .ok lv) (hc : 1 ≤ s.calls)
    (hb : ∀ t, (body t).1.calls = t.calls ∧ (body t).1.level = t.level
               ∧ (lv = none → logState (body t).1 = logState t)) :
    (decorated decoMid v body s).1.calls = s.calls
    ∧ logState (decorated decoMid v body s).1 = logState s
    ∧ ∃ t, (decorated decoMid v body s).2 = (body t).2 ∧ settings (decorated decoMid v body s).1 = settings (body t).1 := by
  obtain ⟨fro, so1, heo, hfv, hc1, ha1, hr1, hl1, hlog1⟩ := old_enter_fields hres s
  have hem : decoMid.enter v s = (.ok fro, so1) := (mid_enter_valid hres s).trans heo
  obtain ⟨hbc, hbl, hbn⟩ := hb so1
  have h2 : 2 ≤ (body so1).1.calls := by omega
  have hfro : fro = frameOf lv { s with calls := s.calls + 1 } := by
    cases lv with
    | none => have := old_enter_none hres s; rw [heo] at this; exact (congrArg Prod.fst this |> Except.ok.inj)
    | some l => have := old_enter_some hres s; rw [heo] at this; exact (congrArg Prod.fst this |> Except.ok.inj)
  simp only [decorated, hem, mid_exit_nested fro _ h2]
  rw [hfro]
  cases lv with
  | none =>
    simp only [new_exit_none]
    have hso1 : so1 = { s with calls := s.calls + 1 } := by
      have := old_enter_none hres s; rw [heo] at this; exact congrArg Prod.snd this
    refine ⟨by show (body so1).1.calls - 1 = s.calls; omega, ?_, so1, rfl, by simp [settings]⟩
    have := hbn rfl
    simp only [logState, Prod.mk.injEq] at this ⊢
    rw [this.1, this.2.1, this.2.2, hso1]
    exact ⟨rfl, rfl, rfl⟩
  | some l =>
    have hlv : ({ (body so1).1 with calls := (body so1).1.calls - 1 } : State).level
        = ({ s with calls := s.calls + 1 } : State).level := by simp only; rw [hbl, hl1]
    rw [new_exit_some l _ _ hlv]
    refine ⟨by show (body so1).1.calls - 1 = s.calls; omega, ?_, so1, rfl, by simp [settings]⟩
    simp [logState, hbl, hl1]

/-- Non-vacuity: inside an outer `verbose=3` call (counter 1, root 15) an inner `verbose=0` call
whose body changes a tolerance and raises: hypotheses met, logging state back to the outer call's. -/
example : (Verbose.bool false).resolve = .ok (some .DISABLE)
    ∧ decorated decoMid (.bool false) (fun t => ({ t with atol := 4 }, .raised .KeyError))
          { State.init with calls := 1, root := 15 }
        = ({ State.init with calls := 1, root := 15, atol := 4 }, .raised .KeyError)
    ∧ (decorated decoOld (.bool false) (fun t => ({ t with atol := 4 }, .raised .KeyError))
          { State.init with calls := 1, root := 15 }).1.disable = critical := ⟨rfl, by decide, by decide⟩

/-- Non-vacuity: the two histories on which 1.11.2.0 fails (`C20_old_invalid_verbose_leaks_counter`,
`C20_old_nested_verbose_not_restored`, `C20_old_equals_disables_logging`) leave the logging state
as it was under the patched decorator, counter included. -/
theorem C20_mid_repairs_leak_and_nested :
    (runMid (.seq (.try_ (.call (.int 7) .skip)) (.call (.int 3) .skip)) State.init).1 = State.init
    ∧ (runMid (.call .none (.call (.int 3) .skip)) State.init).1 = State.init
    ∧ (runMid (.real .none false (.int 0)) State.init).1 = State.init
    ∧ (runMid (.call (.int 3) (.seq (.call (.int 1) .skip) (.call (.str "nonsense") .skip))) State.init).1
        = State.init := by decide

/-- **Left open (3)**: with the global level DISABLE an outermost `f(verbose=0)` still switches
logging back on under the patched decorator (as `test_decorators.py` expects); the guard of the
theorems below excludes exactly this. -/
theorem C20_mid_verbose_zero_still_reenables_logging :
    (runMid (.seq (.set (.log (some (.str "disable")))) (.call (.int 0) .skip)) State.init).1.disable = 0
    ∧ guardedMid .DISABLE true (.call (.int 0) .skip) = false
    ∧ guardedMid .DISABLE true (.call (.int 3) (.call (.int 0) .skip)) = true
    ∧ guardedMid .WARNING true (.call (.bool false) (.call (.int 9) .skip)) = true := by decide

/-- **Verbosity is call-scoped in the patched code, on `guardedMid` trees.**  For every tree of
decorated calls — any depth, *any* `verbose` values nested at any depth (valid or not), opaque
cfdm functions, raises, try blocks, equality tests, tolerance settings and blocks — whose
outermost calls avoid `verbose`=0 under a global DISABLE, run with `decoMid` from a state with
counter 0 that agrees with `log_level()`: the counter is 0 again, the global level, the disable
level and the effective root level are those before, and exactly so (raw root level included)
unless the global level is DISABLE.  (Induction on the tree: `midNewSim`.) -/
theorem C20_mid_verbose_scoped_partial (p : Prog) (s : State)
    (hg : guardedMid s.level true p = true) (hc : s.calls = 0) (hcons : Consistent s) :
    (runMid p s).1.calls = 0
    ∧ obsLog (runMid p s).1 = obsLog s
    ∧ (s.level ≠ .DISABLE → logState (runMid p s).1 = logState s) := by
  obtain ⟨_, _, ⟨h1, h2, h3⟩, _⟩ := midNewSim s.level p true s s hg ⟨rfl, hc, hcons⟩ (rel_refl s)
  have h3' : Consistent (runWith decoMid p s).1 := h3
  have hs := consistent_same h3' hcons h2
  refine ⟨h1.trans hc, ?_, fun hd => ?_⟩
  · simp only [runMid]
    rw [(consistent_iff _).mp h3', (consistent_iff _).mp hcons, h2]
  · have hd0 : s.disable = 0 := (hcons.2 hd).1
    simp only [logState, Prod.mk.injEq, runMid]
    exact ⟨h2, hs.2 (hs.1.trans hd0), hs.1⟩

/-- On `guardedMid` trees the patched decorator and `decoNew` are observationally the same: same
outcome, same final settings and observable logging state, and the same observation after every
step at every depth — so everything proved for `run` above transfers to the patched code on those
trees, and the correspondence stream may compare the implementation with `decoNew`'s prediction. -/
theorem C20_mid_eq_new_on_guarded (p : Prog) (s : State)
    (hg : guardedMid s.level true p = true) (hc : s.calls = 0) (hcons : Consistent s) :
    fullTrace decoMid p s = fullTrace decoNew p s
    ∧ (runMid p s).2 = (run p s).2
    ∧ settings (runMid p s).1 = settings (run p s).1
    ∧ obsLog (runMid p s).1 = obsLog (run p s).1 := by
  obtain ⟨h1, h2, _, h4⟩ := midNewSim s.level p true s s hg ⟨rfl, hc, hcons⟩ (rel_refl s)
  refine ⟨?_, h1, h2.1, h2.2⟩
  simp only [fullTrace]
  rw [h4, h1, ev_of_rel _ h2]

/-- Non-vacuity: under WARNING every tree without log-level operations passes the guard — here
one with an invalid value nested, an inner verbosity different from the outer one, an opaque cfdm
function that compares with a hard-coded `verbose=0` under an outer `None` (all three rejected by
the guard of the unpatched decorator); under DISABLE only an outermost 0 is rejected. -/
example : guardedMid .WARNING true
    (.seq (.try_ (.call (.int 3) (.seq (.call (.int 1) (.call (.str "loud") .skip)) (.real .none true (.int 0)))))
          (.seq (.try_ (.call (.int 7) .skip)) (.call (.bool false) (.eq none (some 8) 5)))) = true := by decide
example : guarded .WARNING none
    (.seq (.try_ (.call (.int 3) (.seq (.call (.int 1) (.call (.str "loud") .skip)) (.real .none true (.int 0)))))
          (.seq (.try_ (.call (.int 7) .skip)) (.call (.bool false) (.eq none (some 8) 5)))) = false := by decide
example : guardedMid .DISABLE true (.call (.str "Disable") .skip) = false
    ∧ guardedMid .DISABLE true (.call (.int 2) (.call (.bool false) (.call (.int 7) .skip))) = true := by decide

/-! ### Every global level × every outermost `verbose` × every nested `verbose` -/

/-- The state `cfdm.log_level(g)` establishes (tolerances arbitrary). -/
def stateAt (g : Level) (a r : Nat) : State :=
  { resetEmergence g { State.init with atol := a, rtol := r } with level := g }

theorem stateAt_consistent (g : Level) (a r : Nat) : Consistent (stateAt g a r) :=
  (consistent_iff _).mpr (obsLog_reset g _)

/-- **The table.**  For every global level `g`, every outermost `verbose` `vo` and every nested
`verbose` `vi` — `None`, integers (0, -1, …, invalid ones), names in any case ("DISABLE", "debug", no
level name), `True`, `False` — whether the inner call is a synthetic one or the one an opaque cfdm
function makes itself (and that function returns or raises): after the outermost call the triple
(`LOG_LEVEL`, root logger level, `manager.disable`) is the triple before it
* with `decoNew`, always and exactly;
* with the patched decorator, unless `vo` is 0/False/"DISABLE" under `g` = DISABLE, exactly when
  `g` ≠ DISABLE and up to the (then ineffective) root level when `g` = DISABLE;
* with the decorator of 1.11.2.0, under its guard (valid values, `vi` ∈ {None, `vo`}, …) likewise. -/
theorem C20_nested_verbose_table (g : Level) (vo vi : Verbose) (raises : Bool) (a r : Nat)
    (p : Prog) (hp : p = .call vo (.call vi .skip) ∨ p = .real vo raises vi) :
    logState (run p (stateAt g a r)).1 = logState (stateAt g a r)
    ∧ (midOK g true vo = true →
        (runMid p (stateAt g a r)).1.calls = 0
        ∧ obsLog (runMid p (stateAt g a r)).1 = obsLog (stateAt g a r)
        ∧ (g ≠ .DISABLE → logState (runMid p (stateAt g a r)).1 = logState (stateAt g a r)))
    ∧ (guarded g none p = true →
        (runOld p (stateAt g a r)).1.calls = 0
        ∧ obsLog (runOld p (stateAt g a r)).1 = obsLog (stateAt g a r)
        ∧ (g ≠ .DISABLE → logState (runOld p (stateAt g a r)).1 = logState (stateAt g a r))) := by
  have hlf : LogFree p := by rcases hp with rfl | rfl <;> simp [LogFree]
  have hlev : (stateAt g a r).level = g := rfl
  have hcalls : (stateAt g a r).calls = 0 := by simp [stateAt, resetEmergence_calls, State.init]
  refine ⟨C20_verbose_scoped p hlf _, fun hm => ?_, fun hg => ?_⟩
  · have hgm : guardedMid (stateAt g a r).level true p = true := by
      rw [hlev]
      rcases hp with rfl | rfl
      · simp [guardedMid, hm, midOK_nested]
      · simp [guardedMid, hm]
    have := C20_mid_verbose_scoped_partial p _ hgm hcalls (stateAt_consistent g a r)
    rw [hlev] at this
    exact this
  · have := C20_old_verbose_scoped_partial p _ (by rw [hlev]; exact hg) hcalls (stateAt_consistent g a r)
    rw [hlev] at this
    exact this

/-- Non-vacuity: the guards hold on the combinations that matter — `Field.equals(g, verbose=3)`
whose `Constructs.equals` compares with `verbose=0` is fine for the patched decorator at every
global level, while 1.11.2.0 fails it (the nested 0 is never undone … until the outermost exit
re-derives the state, which then hides it: its guard rejects the tree). -/
example : midOK .DISABLE true (.int 3) = true ∧ midOK .WARNING true (.bool false) = true
    ∧ midOK .DISABLE true (.str "disable") = false
    ∧ guarded .INFO none (.real (.int 3) false (.int 0)) = false
    ∧ guarded .INFO none (.real (.int (-1)) false (.int (-1))) = true := by decide

/-! ### The helpers, statement by statement -/

/-- **Refinement**: the statement-by-statement models of `_disable_logging`,
`_is_valid_log_level_int`, `_reset_log_emergence_level` (every form of argument its callers use:
a `Constant`, a valid integer, a name), `log_level._parse`, `ConstantAccess.__new__` and of the
two wrappers (Model/SettingsFine.lean — what the driver executes, over the *regenerated* tables)
compute exactly the compact definitions the theorems above are stated on. -/
theorem C20_helpers_refine :
    (∀ (l : Level) (s : State),
        resetLogEmergenceLevel (.const l.name) s = (resetEmergence l s, none)
        ∧ resetLogEmergenceLevel (.int l.value) s = (resetEmergence l s, none)
        ∧ resetLogEmergenceLevel (.str l.name) s = (resetEmergence l s, none))
    ∧ (∀ i : Int, isValidLogLevelInt i
        = (match Level.ofValue? i with | some _ => .ok true | none => .error .ValueError))
    ∧ (∀ (a : Option LvlArg) (s : State), constantAccessLog a s = access (.log a) s)
    ∧ decoOldFine = decoOld ∧ decoMidFine = decoMid :=
  ⟨fun l s => ⟨resetLogEmergenceLevel_const l s, resetLogEmergenceLevel_int l s, resetLogEmergenceLevel_str l s⟩,
   isValidLogLevelInt_eq, constantAccessLog_eq, decoOldFine_eq, decoMidFine_eq⟩

example : resetLogEmergenceLevel (.int (-1)) { State.init with disable := 50 }
    = ({ State.init with disable := 0, root := 10 }, none) := by decide
example : resetLogEmergenceLevel (.int 7) State.init = (State.init, some .ValueError) := by decide
example : (logLevelParse (.str "deTail") State.init).1 = some "DETAIL"
    ∧ (logLevelParse (.str "critical") State.init) = (none, (State.init, some .ValueError)) := by decide

/-- **A verbosity is in force inside its call**, whatever the state on entry (also inside a
`verbose=0` region, where logging is disabled, and under a global DISABLE): with any of the three
decorators, after the wrapper's `enter` with a `verbose` that resolves to `l`, logging is
disabled iff `l` is DISABLE, and otherwise enabled with the root logger at `l`'s numeric level;
the three settings are untouched. -/
theorem C20_verbose_in_force (d : Deco) (hd : d = decoNew ∨ d = decoMid ∨ d = decoOld)
    (v : Verbose) (l : Level) (s : State) (h : v.resolve = .ok (some l)) :
    ∃ fr s1, d.enter v s = (.ok fr, s1) ∧ settings s1 = settings s
      ∧ s1.disable = (if l = .DISABLE then critical else 0) ∧ (l ≠ .DISABLE → s1.root = l.no) := by
  have key : ∀ t : State, settings (resetEmergence l t) = settings t
      ∧ (resetEmergence l t).disable = (if l = .DISABLE then critical else 0)
      ∧ (l ≠ .DISABLE → (resetEmergence l t).root = l.no) := by
    intro t
    by_cases hl : l = .DISABLE <;> simp [resetEmergence, hl, settings]
  rcases hd with rfl | rfl | rfl
  · exact ⟨_, _, new_enter_some h s, key s⟩
  · refine ⟨_, _, (mid_enter_valid h s).trans (old_enter_some h s), ?_⟩
    exact key { s with calls := s.calls + 1 }
  · exact ⟨_, _, old_enter_some h s, key { s with calls := s.calls + 1 }⟩

example : (Verbose.str "Info").resolve = .ok (some .INFO)
    ∧ (decoMid.enter (.str "Info") { State.init with level := .DISABLE, disable := 50, calls := 3 }).2.disable = 0
    ∧ (decoOld.enter (.str "Info") { State.init with disable := 50 }).2.root = 20
    ∧ (decoNew.enter (.int 0) State.init).2.disable = critical := ⟨rfl, by decide, by decide, by decide⟩

/-- … and that rests on the lift of a previous `logging.disable` in `_reset_log_emergence_level`
being **unconditional**: with the lift made to depend on the stored constant
(`resetEmergenceCond`: only when `CONSTANTS["LOG_LEVEL"]` is DISABLE) a `verbose=3` call inside a
`verbose=0` call stays silent, and under the decorator of 1.11.2.0 `f(verbose=3)` whose function
compares with `verbose=0` (`Field.equals` → `Constructs.equals`) leaves logging disabled for good;
the two helpers agree wherever logging is not disabled behind the constant's back. -/
theorem C20_lift_must_be_unconditional :
    (resetEmergenceCond .DETAIL (resetEmergence .DISABLE State.init)).disable = critical
    ∧ (resetEmergence .DETAIL (resetEmergence .DISABLE State.init)).disable = 0
    ∧ (runWith (decoOldWith resetEmergenceCond) (.real (.int 3) false (.int 0)) State.init).1.disable = critical
    ∧ (runWith (decoOldWith resetEmergence) (.real (.int 3) false (.int 0)) State.init).1 = State.init
    ∧ decoOldWith resetEmergence = decoOld
    ∧ (∀ (l : Level) (s : State), (s.level ≠ .DISABLE → s.disable = 0) →
        resetEmergenceCond l s = resetEmergence l s) := by
  refine ⟨by decide, by decide, by decide, by decide, rfl, fun l s hs => ?_⟩
  unfold resetEmergenceCond resetEmergence
  by_cases hl : l = .DISABLE
  · simp [hl]
  · by_cases hg : s.level = .DISABLE
    · simp [hl, hg]
    · simp only [hl, hg, if_false]
      rw [← hs hg]

/-! ### Tolerances travel down the whole call tree of an equality test -/

/-- **A passed tolerance wins at every comparison of the call tree, also when it is falsy.**
For every shape and depth of the tree of `equals` methods (which hand `rtol=rtol, atol=atol` on
as they received them) and `_equals` helper calls (the one place where `None` is replaced by the
global value), every array comparison is made with the passed number where one was passed —
zero included — and with the global one otherwise; with both passed the verdict is the same in
every global state; and the test of the `eq` statement of the programs above is the instance
`Data.equals`.  (Induction on the tree.) -/
theorem C20_passed_tolerances_reach_every_comparison (t : Cmp) (r a : Option Nat) (s s' : State) (m : Nat) :
    evalWith resolveTol s r a t = specEval (r.getD s.rtol) (a.getD s.atol) t
    ∧ (r.isSome → a.isSome → evalWith resolveTol s r a t = evalWith resolveTol s' r a t)
    ∧ eqResult r a m s = evalWith resolveTol s r a (Cmp.data m) := by
  refine ⟨?_, fun hr ha => ?_, ?_⟩
  · rw [evalWith_resolveTol]; cases r <;> cases a <;> rfl
  · rw [evalWith_resolveTol, evalWith_resolveTol]
    cases r with
    | none => cases hr
    | some x => cases a with
      | none => cases ha
      | some y => rfl
  · cases r <;> cases a <;> rfl

/-- Non-vacuity and contrast: a field whose data are equal but one of whose metadata constructs
has bounds differing by 7·2^-5 (five calls deep: `Field.equals` → `Constructs.equals` → the
construct's `equals` → `Bounds.equals` → `Data.equals`), tested with explicit zeros under loose
globals (0.5): "not equal" — and with a resolution that tests truthiness the zeros are replaced
by the loose globals at the first helper and the verdict flips. -/
example :
    let t := Cmp.field none [Cmp.construct none none, Cmp.construct none (some 5)]
    let s := { State.init with atol := 7, rtol := 7 }
    evalWith resolveTol s (some 8) (some 8) t = false
    ∧ evalWith resolveTol s none none t = true
    ∧ evalWith resolveTolTruthy s (some 8) (some 8) t = true
    ∧ evalWith resolveTol State.init (some 7) (some 8) t = true := by decide

/-! ### Context managers as objects: any interleaving, re-entrancy, suspended generators -/

/-- **An object restores what it captured, whatever happened since.**  `c = cfdm.atol(x)` (or
`rtol`, `log_level`) executed after any history; then *any* further history `es` — other objects
created, entered and left in any order (not nested: generators suspended inside `with` blocks),
plain setter calls, the same object entered several times, blocks left normally, by an exception
or by `close()`; then the exit of any block `j` that was entered on that object: the setting is
the one in force just before `c` was created — and for `log_level`, from a state as `log_level`
leaves it, so is the logging state. -/
theorem C20_cm_exit_restores_what_the_object_captured (c : CmState) (op : SetOp) (old : Val) (s' : State)
    (h : access op c.st = .ok (old, s')) (es : List Ev) (j : Nat)
    (hj : (runEvs (stepEv c (.mk op)) es).acts[j]? = some c.objs.length) :
    getVal op.key (stepEv (runEvs (stepEv c (.mk op)) es) (.exit j)).st = getVal op.key c.st
    ∧ (op.key = .log → Consistent c.st →
        obsLog (stepEv (runEvs (stepEv c (.mk op)) es) (.exit j)).st = obsLog c.st) := by
  have hold := access_old op c.st s' old h
  have hobj : (stepEv c (.mk op)).objs[c.objs.length]? = some (.const op.key old) := by
    simp [stepEv, h]
  have hkept := runEvs_obj_kept _ es _ _ hobj
  rw [stepEv_exit_of _ j _ _ hj hkept, hold]
  refine ⟨getVal_exitConst _ _ _, fun hk hc => ?_⟩
  simp only [exitObj, hk, getVal, exitConst_log, obsLog_reset]
  exact ((consistent_iff c.st).mp hc).symm

/-- The same for `c = cfdm.configuration(...)`: after the exit of any block entered on it, in
any interleaving, all three settings — and, from a consistent state, the logging state — are
those in force just before `c` was created. -/
theorem C20_cm_exit_restores_configuration (c : CmState) (a : CfgArgs) (old : Cfg) (s' : State)
    (h : cfgCall a c.st = (none, old, s')) (es : List Ev) (j : Nat)
    (hj : (runEvs (stepEv c (.mkCfg a)) es).acts[j]? = some c.objs.length) :
    settings (stepEv (runEvs (stepEv c (.mkCfg a)) es) (.exit j)).st = settings c.st
    ∧ (Consistent c.st → obsLog (stepEv (runEvs (stepEv c (.mkCfg a)) es) (.exit j)).st = obsLog c.st) := by
  have hold : old = snapshot c.st := by
    have := congrArg (fun r => r.2.1) h
    simpa [cfgCall] using this.symm
  have hobj : (stepEv c (.mkCfg a)).objs[c.objs.length]? = some (.config old) := by
    simp [stepEv, h]
  have hkept := runEvs_obj_kept _ es _ _ hobj
  rw [stepEv_exit_of _ j _ _ hj hkept, hold]
  refine ⟨?_, fun hc => ?_⟩
  · simp [exitObj, exitCfg_eq, settings, snapshot, resetEmergence_atol, resetEmergence_rtol]
  · simp only [exitObj, exitCfg_eq, snapshot, obsLog_reset]
    exact ((consistent_iff c.st).mp hc).symm

/-- Non-vacuity: re-entrancy and a non-nested interleaving.  `a = cfdm.atol(t3)` (object 0);
`with a:` entered twice (blocks 0, 1); `b = cfdm.configuration(atol=t5, log_level="debug")`
(object 1) entered (block 2) inside; block 0 is left *before* block 2 (a suspended generator),
then block 2, then block 1: each exit puts back what its object captured — the last one the
value before `a`.  Interleaved blocks are not a stack: after `exit 2` the tolerance is `a`'s
*new* value (what `b` captured), not the initial one. -/
example :
    let es := [Ev.mk (.atol (some (.val 3))), .enter 0, .enter 0,
               .mkCfg { a := some (.val 5), r := none, l := some (.str "debug") }, .enter 1,
               .exit 0, .exit 2, .exit 1]
    let c := runEvs (CmState.init State.init) es
    c.st = State.init
    ∧ (runEvs (CmState.init State.init) (es.take 6)).st.atol = 0
    ∧ (runEvs (CmState.init State.init) (es.take 7)).st = { State.init with atol := 3 }
    ∧ c.acts = [0, 0, 1] := by decide

/-! ### Nothing but `with` blocks: everything is restored -/

/-- **Every setting changed only for a block is restored.**  For every program in which all
changes are made by `with` blocks — of `atol`, `rtol`, `log_level`, `configuration`, with valid
or invalid arguments, nested in any order and depth (`with cfdm.atol(x): with
cfdm.configuration(atol=y, log_level=z): …`), with decorated calls of any `verbose`, raises and
try blocks inside and around — the three settings at the end are those at the start, from any
state; and from a state as `log_level` leaves it so is the logging state. -/
theorem C20_blocks_restore_everything (p : Prog) (hp : Bracketed p) (s : State) :
    settings (run p s).1 = settings s ∧ (Consistent s → obsLog (run p s).1 = obsLog s) := by
  have hbal : ∀ q, Bracketed q → Balanced q := by
    intro q
    induction q with
    | skip => intro _; trivial
    | seq a b iha ihb => intro h; exact ⟨iha h.1, ihb h.2⟩
    | set op => intro h; rcases h with rfl | rfl | rfl <;> rfl
    | cfg c => intro h; exact h.2.2
    | withSet op body ih => intro h; exact ih h
    | withCfg c body ih => intro h; exact ih h
    | call v body ih => intro h; exact ih h
    | real v x i => intro _; trivial
    | try_ body ih => intro h; exact ih h
    | raise e => intro _; trivial
    | eq r a m => intro _; trivial
    | verdict r a m => intro _; trivial
  refine ⟨?_, (C20_verbose_scoped_with_blocks p (hbal p hp) s).2⟩
  clear hbal
  induction p generalizing s with
  | skip => rfl
  | seq p q ihp ihq =>
    simp only [run, runWith]
    cases h : (runWith decoNew p s).2 with
    | ok => simp only []; exact (ihq hp.2 _).trans (ihp hp.1 s)
    | raised e => exact ihp hp.1 s
  | set op => rcases hp with rfl | rfl | rfl <;> rfl
  | cfg c =>
    rcases c with ⟨a, r, l⟩
    obtain ⟨rfl, rfl, rfl⟩ := hp
    rfl
  | withSet op body ih =>
    have hb : Bracketed body := hp
    simp only [run, runWith]
    cases h : access op s with
    | error e => rfl
    | ok res =>
      obtain ⟨old, s1⟩ := res
      have hold := access_old op s s1 old h
      have hoth := (C20_setter_returns_old decoNew op s).1 old s1 h
      have hbody := ih hb s1
      simp only [run, settings, Prod.mk.injEq] at hbody
      subst hold
      simp only [settings, Prod.mk.injEq]
      cases op with
      | atol a =>
        have h1 := hoth.2.1 .rtol (by simp [SetOp.key])
        have h2 := hoth.2.1 .log (by simp [SetOp.key])
        simp only [getVal, Val.tol.injEq, Val.lvl.injEq] at h1 h2
        simp only [SetOp.key, getVal, exitConst_atol]
        exact ⟨trivial, hbody.2.1.trans h1, hbody.2.2.trans h2⟩
      | rtol a =>
        have h1 := hoth.2.1 .atol (by simp [SetOp.key])
        have h2 := hoth.2.1 .log (by simp [SetOp.key])
        simp only [getVal, Val.tol.injEq, Val.lvl.injEq] at h1 h2
        simp only [SetOp.key, getVal, exitConst_rtol]
        exact ⟨hbody.1.trans h1, trivial, hbody.2.2.trans h2⟩
      | log a =>
        have h1 := hoth.2.1 .atol (by simp [SetOp.key])
        have h2 := hoth.2.1 .rtol (by simp [SetOp.key])
        simp only [getVal, Val.tol.injEq, Val.lvl.injEq] at h1 h2
        simp only [SetOp.key, getVal, exitConst_log, resetEmergence_atol, resetEmergence_rtol]
        exact ⟨hbody.1.trans h1, hbody.2.1.trans h2, trivial⟩
  | withCfg c body ih => exact (C20_with_cfg_restores decoNew c body s).1
  | call v body ih =>
    have hb : Bracketed body := hp
    simp only [run, runWith]
    have hc := C20_verbose_call_restores v (runWith decoNew body) s
    cases hr : v.resolve with
    | error e => rw [hc.1 e hr]
    | ok lv =>
      have h2 := (hc.2 lv hr).2.1
      rw [h2]
      cases lv with
      | none => exact ih hb s
      | some l =>
        have := ih hb (resetEmergence l s)
        simp only [run] at this
        rw [this]
        simp [settings, resetEmergence_atol, resetEmergence_rtol, resetEmergence_level]
  | real v raises inner =>
    have := C20_verbose_scoped (.real v raises inner) (by simp [LogFree]) s
    have hc := C20_verbose_call_restores v (fun s1 =>
      ((decorated decoNew inner (fun s2 => (s2, Outcome.ok)) s1).1,
        if raises then Outcome.raised Exc.TypeError else Outcome.ok)) s
    simp only [run, runWith]
    cases hr : v.resolve with
    | error e => rw [hc.1 e hr]
    | ok lv =>
      have h2 := (hc.2 lv hr).2.1
      rw [h2]
      have hin : ∀ s1, settings (decorated decoNew inner (fun s2 => (s2, Outcome.ok)) s1).1 = settings s1 := by
        intro s1
        have hi := C20_verbose_call_restores inner (fun s2 => (s2, Outcome.ok)) s1
        cases hri : inner.resolve with
        | error e => rw [hi.1 e hri]
        | ok li =>
          rw [(hi.2 li hri).2.1]
          cases li with
          | none => rfl
          | some l => simp [settings, resetEmergence_atol, resetEmergence_rtol, resetEmergence_level]
      cases lv with
      | none => exact hin s
      | some l =>
        simp only
        rw [hin]
        simp [settings, resetEmergence_atol, resetEmergence_rtol, resetEmergence_level]
  | try_ body ih => exact ih hp s
  | raise e => rfl
  | eq r a m => simp [run, runWith, decorated, decoNew, Verbose.resolve, Verbose.toInt, frameOf]
  | verdict r a m => rfl

/-- Non-vacuity: the nesting named in the property's quantifier, with an exception thrown from
the innermost block through both exits and a decorated call in between. -/
example : Bracketed (.try_ (.withSet (.atol (some (.val 3)))
    (.withCfg { a := some (.val 5), r := none, l := some (.str "Detail") }
      (.call (.int 0) (.seq (.withSet (.log (some (.int (-1)))) (.eq none none 9)) (.raise .KeyError)))))) := by
  simp [Bracketed]
example : run (.try_ (.withSet (.atol (some (.val 3)))
    (.withCfg { a := some (.val 5), r := none, l := some (.str "Detail") }
      (.call (.int 0) (.seq (.withSet (.log (some (.int (-1)))) (.eq none none 9)) (.raise .KeyError))))))
    State.init = (State.init, .ok) := by decide

end Cfdm.Props.C20
