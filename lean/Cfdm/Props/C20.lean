import Cfdm.Lemmas.Settings
import Cfdm.Lemmas.SettingsOld
import Cfdm.Spec.Settings
/-
C20 — global settings changed for a call or a block are always restored.
Property theorems only.  `run` is the semantics with the verbosity decorator as patched by
fixes/C20-verbose-scope.patch; `runOld` the decorator of 1.11.2.0 (counter-examples at the end).
-/
namespace Cfdm.Props.C20
open Cfdm.Settings Cfdm.Generated

/-- The model's enumeration is the one in cfdm/constants.py (regenerated on every run), and the
numeric logging levels are those of `logging` / cfdm/__init__.py. -/
theorem C20_enum_table :
    LogLevels.validLogLevels = Level.all.map (fun l => (l.name, l.value))
    ∧ LogLevels.loggingNo = (Level.all.filter (· ≠ .DISABLE)).map (fun l => (l.name, l.no))
    ∧ LogLevels.critical = 50 ∧ LogLevels.notset = 0
    ∧ LogLevels.constantsKeys = ["ATOL", "RTOL", "LOG_LEVEL"] := by decide

/-- Setting one returns the previous value: whatever the argument, a setter call that returns
hands back exactly what was stored before it, leaves the other two settings alone, and a call
without argument changes nothing; a call that raises changes nothing at all. -/
theorem C20_setter_returns_old (d : Deco) (op : SetOp) (s : State) :
    (∀ old s', access op s = .ok (old, s') →
        old = getVal op.key s
        ∧ (∀ k, k ≠ op.key → getVal k s' = getVal k s)
        ∧ (op = .atol none ∨ op = .rtol none ∨ op = .log none → s' = s))
    ∧ (∀ e, access op s = .error e → runWith d (.set op) s = (s, .raised e)) := by
  refine ⟨fun old s' h => ⟨access_old op s s' old h, ?_, ?_⟩, fun e h => by simp [runWith, h]⟩
  · intro k hk
    cases op with
    | atol a =>
      rcases a with _ | a | _ <;> simp [access] at h <;> cases k <;> simp_all [getVal, SetOp.key]
      all_goals simp [← h.2]
    | rtol a =>
      rcases a with _ | a | _ <;> simp [access] at h <;> cases k <;> simp_all [getVal, SetOp.key]
      all_goals simp [← h.2]
    | log a =>
      cases a with
      | none => simp [access] at h; simp [h.2]
      | some a =>
        simp only [access] at h
        cases hp : a.parse <;> rw [hp] at h <;> simp at h
        cases k <;> simp_all [getVal, SetOp.key]
        all_goals simp [← h.2, resetEmergence_atol, resetEmergence_rtol]
  · rintro (rfl | rfl | rfl) <;> simp [access] at h <;> exact h.2.symm

example : access (.log (some (.str "Debug"))) State.init
    = .ok (.lvl .WARNING, { State.init with level := .DEBUG, root := 10 }) := by rfl
example : access (.atol (some .bad)) State.init = .error .ValueError := by rfl

/-- A `with cfdm.atol(x):` / `rtol` / `log_level` block restores that setting on exit, for every
body, whether the body completes or raises, from any state and under any decorator; the body's
exception (if any) propagates; if the setter itself raises nothing is changed. -/
theorem C20_with_restores (d : Deco) (op : SetOp) (body : Prog) (s : State) :
    getVal op.key (runWith d (.withSet op body) s).1 = getVal op.key s
    ∧ (∀ old s1, access op s = .ok (old, s1) →
        (runWith d (.withSet op body) s).2 = (runWith d body s1).2)
    ∧ (∀ e, access op s = .error e → runWith d (.withSet op body) s = (s, .raised e)) := by
  refine ⟨?_, ?_, ?_⟩
  · simp only [runWith]
    cases h : access op s with
    | error e => rfl
    | ok r =>
      obtain ⟨old, s1⟩ := r
      have := access_old op s s1 old h
      subst this
      exact getVal_exitConst _ _ _
  · intro old s1 h; simp [runWith, h]
  · intro e h; simp [runWith, h]

/-- … and for the log level the logging state goes back with it: from a state as `log_level`
leaves it, the level, the disable level and the effective root level after the block are those
before it. -/
theorem C20_with_restores_logging (d : Deco) (a : Option LvlArg) (body : Prog) (s : State)
    (hc : Consistent s) :
    obsLog (runWith d (.withSet (.log a) body) s).1 = obsLog s := by
  simp only [runWith]
  cases h : access (.log a) s with
  | error e => rfl
  | ok r =>
    obtain ⟨old, s1⟩ := r
    have := access_old _ s s1 old h
    subst this
    simp only [SetOp.key, getVal, exitConst_log, obsLog_reset]
    exact ((consistent_iff s).mp hc).symm

example : Consistent State.init := by decide
example : (run (.withSet (.log (some (.int (-1)))) (.seq (.set (.log (some (.int 0)))) (.raise .KeyError)))
    State.init) = (State.init, .raised .KeyError) := by decide

/-- The whole configuration as a context manager: all three settings are restored for every
body and outcome, and (from a state as `log_level` leaves it) the logging state too. -/
theorem C20_with_cfg_restores (d : Deco) (c : CfgArgs) (body : Prog) (s : State) :
    settings (runWith d (.withCfg c body) s).1 = settings s
    ∧ (Consistent s → obsLog (runWith d (.withCfg c body) s).1 = obsLog s) := by
  simp only [runWith]
  rcases h : cfgCall c s with ⟨e, old, s1⟩
  have hold : old = snapshot s := by
    have := congrArg (fun r => r.2.1) h
    simpa [cfgCall] using this.symm
  cases e with
  | some e =>
    have := cfgCall_error c s e old s1 h
    subst this
    exact ⟨rfl, fun _ => rfl⟩
  | none =>
    subst hold
    refine ⟨?_, fun hc => ?_⟩
    · simp [exitCfg_eq, settings, snapshot, resetEmergence_atol, resetEmergence_rtol]
    · simp only [exitCfg_eq, snapshot, obsLog_reset]
      exact ((consistent_iff s).mp hc).symm

example : run (.withCfg { a := some (.val 3), r := none, l := some (.str "info") }
    (.seq (.set (.rtol (some (.val 5)))) (.raise .TypeError))) State.init
    = (State.init, .raised .TypeError) := by decide

/-- `_configuration` rolls back: a `configuration(...)` call that raises leaves the state as it
found it, whichever argument was the invalid one. -/
theorem C20_configuration_rollback (c : CfgArgs) (s : State) (e : Exc) (old : Cfg) (s' : State)
    (h : cfgCall c s = (some e, old, s')) : s' = s :=
  cfgCall_error c s e old s' h

example : cfgCall { a := some (.val 3), r := some (.val 4), l := some (.int 7) } State.init
    = (some .ValueError, snapshot State.init, State.init) := by decide

/-- One decorated call around *any* computation whatsoever (`body` is an arbitrary function,
returning or raising): an invalid `verbose` raises `ValueError` and changes nothing, not even
transiently; otherwise the outcome is the body's, the three settings are as the body left them,
and the root level and the disable level are exactly those found on entry — unless the body
itself changed the global log level, in which case the logging state is the one `log_level`
establishes for that new level. -/
theorem C20_verbose_call_restores (v : Verbose) (body : State → State × Outcome) (s : State) :
    (∀ e, v.resolve = .error e → decorated decoNew v body s = (s, .raised e))
    ∧ (∀ lv, v.resolve = .ok lv →
        let s1 := match lv with | none => s | some l => resetEmergence l s
        let r := decorated decoNew v body s
        r.2 = (body s1).2 ∧ settings r.1 = settings (body s1).1
        ∧ (lv ≠ none → (body s1).1.level = s.level → logState r.1 = logState s)
        ∧ (lv ≠ none → (body s1).1.level ≠ s.level → obsLog r.1 = canon (body s1).1.level)) := by
  refine ⟨fun e h => by simp [decorated, decoNew, h], fun lv h => ?_⟩
  cases lv with
  | none => simp [decorated, decoNew, h, frameOf]
  | some l =>
    simp only [decorated, decoNew, h, frameOf]
    refine ⟨by first | rfl | trivial, ?_, fun _ hl => ?_, fun _ hl => ?_⟩
    · by_cases hh : (body (resetEmergence l s)).1.level = s.level <;>
        simp [hh, settings, resetEmergence_atol, resetEmergence_rtol, resetEmergence_level]
    · simp [hl, logState]
    · simp only [ne_eq, hl, not_false_eq_true, if_true]
      generalize (body (resetEmergence l s)).1 = t
      have := obsLog_reset t.level { t with root := s.root, disable := s.disable }
      have he : ({ resetEmergence t.level { t with root := s.root, disable := s.disable } with level := t.level } : State)
          = resetEmergence t.level { t with root := s.root, disable := s.disable } := by
        unfold resetEmergence; split <;> rfl
      rw [he] at this
      exact this

example : (Verbose.str "DeTaIl").resolve = .ok (some .DETAIL) ∧ (Verbose.int 7).resolve = .error .ValueError
    ∧ (Verbose.bool false).resolve = .ok (some .DISABLE) ∧ (Verbose.str "loud").resolve = .error .ValueError :=
  ⟨rfl, rfl, rfl, rfl⟩

/-- **Verbosity is call-scoped.**  For every tree of decorated calls — any depth, any `verbose`
values (None, integers, names in any case, booleans, invalid ones), opaque cfdm functions, any
body outcome, try blocks, equality tests, tolerance settings and tolerance `with` blocks — run
from *any* state (also one in the middle of another call), the global level, the root logger's
level and the disable level afterwards are exactly those before.  Induction on the tree. -/
theorem C20_verbose_scoped (p : Prog) (hp : LogFree p) (s : State) :
    logState (run p s).1 = logState s := by
  induction p generalizing s with
  | skip => rfl
  | seq p q ihp ihq =>
    simp only [run, runWith]
    cases h : (runWith decoNew p s).2 with
    | ok => simp only []; exact (ihq hp.2 _).trans (ihp hp.1 s)
    | raised e => exact ihp hp.1 s
  | set op =>
    simp only [LogFree] at hp
    cases op with
    | atol a => rcases a with _ | a | _ <;> simp [run, runWith, access, logState]
    | rtol a => rcases a with _ | a | _ <;> simp [run, runWith, access, logState]
    | log a =>
      cases a with
      | none => simp [run, runWith, access]
      | some a => simp [SetOp.touchesLog] at hp
  | cfg c =>
    simp only [LogFree] at hp
    have := cfgCall_nolog c s hp
    simp only [run, runWith]
    rcases h : cfgCall c s with ⟨e, old, s1⟩
    rw [h] at this
    cases e <;> exact this
  | withSet op body ih =>
    obtain ⟨hop, hb⟩ := hp
    simp only [run, runWith]
    cases op with
    | atol a =>
      rcases a with _ | a | _ <;> simp only [access, SetOp.key]
      · rw [exitConst_atol]; exact ih hb s
      · rw [exitConst_atol]; exact ih hb _
    | rtol a =>
      rcases a with _ | a | _ <;> simp only [access, SetOp.key]
      · rw [exitConst_rtol]; exact ih hb s
      · rw [exitConst_rtol]; exact ih hb _
    | log a => simp [SetOp.key] at hop
  | withCfg c body ih => exact hp.elim
  | call v body ih =>
    have hb : LogFree body := hp
    simp only [run, runWith]
    have hc := C20_verbose_call_restores v (runWith decoNew body) s
    cases hr : v.resolve with
    | error e => rw [hc.1 e hr]
    | ok lv =>
      have h2 := hc.2 lv hr
      cases lv with
      | none =>
        simp only [decorated, decoNew, hr, frameOf]
        exact ih hb s
      | some l =>
        simp only at h2
        apply h2.2.2.1 (by simp)
        have := ih hb (resetEmergence l s)
        simp only [run, logState, Prod.mk.injEq] at this
        rw [this.1, resetEmergence_level]
  | real v raises inner =>
    simp only [run, runWith]
    -- the call the function makes itself leaves the logging state of its caller alone …
    have hin : ∀ s1, logState (decorated decoNew inner (fun s2 => (s2, Outcome.ok)) s1).1 = logState s1 := by
      intro s1
      have hi := C20_verbose_call_restores inner (fun s2 => (s2, Outcome.ok)) s1
      cases hr : inner.resolve with
      | error e => rw [hi.1 e hr]
      | ok lv =>
        have h2 := hi.2 lv hr
        cases lv with
        | none => simp [decorated, decoNew, hr, frameOf]
        | some l =>
          simp only at h2
          exact h2.2.2.1 (by simp) (resetEmergence_level l s1)
    -- … and so does the function
    have hc := C20_verbose_call_restores v (fun s1 =>
      ((decorated decoNew inner (fun s2 => (s2, Outcome.ok)) s1).1,
        if raises then Outcome.raised Exc.TypeError else Outcome.ok)) s
    cases hr : v.resolve with
    | error e => rw [hc.1 e hr]
    | ok lv =>
      have h2 := hc.2 lv hr
      cases lv with
      | none =>
        simp only [decorated, decoNew, hr, frameOf]
        exact hin s
      | some l =>
        simp only at h2
        apply h2.2.2.1 (by simp)
        have := hin (resetEmergence l s)
        simp only [logState, Prod.mk.injEq] at this
        rw [this.1, resetEmergence_level]
  | try_ body ih => exact ih hp s
  | raise e => rfl
  | eq r a m => simp [run, runWith, decorated, decoNew, Verbose.resolve, Verbose.toInt, frameOf]

/-- Non-vacuity: outer `verbose=None`, inner `verbose=3`, then an invalid one inside a `try`,
then a raising cfdm function called with a name — a tree on which the unfixed code fails. -/
example : LogFree (.seq (.call .none (.seq (.call (.int 3) (.raise .KeyError)) .skip))
    (.seq (.try_ (.call (.int 7) .skip)) (.real (.str "debug") true (.int 0)))) := by
  simp [LogFree]
example : (run (.seq (.call .none (.call (.int 3) .skip)) (.seq (.try_ (.call (.int 7) .skip))
    (.real (.str "debug") true (.int 0)))) State.init) = (State.init, .raised .TypeError) := by decide

/-- The same with `with` blocks of `log_level` and `configuration` interleaved at any depth
(inside and around decorated calls): the global level is preserved from any state, and from a
state as `log_level` leaves it so are the disable level and the effective root level.
(Inside a call with a `verbose` the exit of such a block re-derives the logging state from the
restored global level, so the exact-state form of `C20_verbose_scoped` is not available.) -/
theorem C20_verbose_scoped_with_blocks (p : Prog) (hp : Balanced p) (s : State) :
    (run p s).1.level = s.level ∧ (Consistent s → obsLog (run p s).1 = obsLog s) := by
  induction p generalizing s with
  | skip => exact ⟨rfl, fun _ => rfl⟩
  | seq p q ihp ihq =>
    have h1 := ihp hp.1 s
    simp only [run, runWith]
    cases h : (runWith decoNew p s).2 with
    | raised e => exact h1
    | ok =>
      have h2 := ihq hp.2 (runWith decoNew p s).1
      simp only [run] at h1 h2
      refine ⟨h2.1.trans h1.1, fun hc => ?_⟩
      have := h1.2 hc
      exact (h2.2 (consistent_of_obsLog this hc)).trans this
  | set op =>
    have := C20_verbose_scoped (.set op) hp s
    exact ⟨by simpa [logState] using (congrArg Prod.fst this), fun _ => obsLog_of_logState this⟩
  | cfg c =>
    have := C20_verbose_scoped (.cfg c) hp s
    exact ⟨by simpa [logState] using (congrArg Prod.fst this), fun _ => obsLog_of_logState this⟩
  | withSet op body ih =>
    have hb : Balanced body := hp
    cases op with
    | log a =>
      refine ⟨?_, C20_with_restores_logging decoNew a body s⟩
      have := (C20_with_restores decoNew (.log a) body s).1
      simpa [getVal, SetOp.key, run] using this
    | atol a =>
      simp only [run, runWith]
      rcases a with _ | a | _ <;> simp only [access, SetOp.key]
      · rw [exitConst_atol]; exact ih hb s
      · rw [exitConst_atol]; exact ih hb { s with atol := a }
      · exact ⟨trivial, fun _ => trivial⟩
    | rtol a =>
      simp only [run, runWith]
      rcases a with _ | a | _ <;> simp only [access, SetOp.key]
      · rw [exitConst_rtol]; exact ih hb s
      · rw [exitConst_rtol]; exact ih hb { s with rtol := a }
      · exact ⟨trivial, fun _ => trivial⟩
  | withCfg c body ih =>
    have h := C20_with_cfg_restores decoNew c body s
    refine ⟨?_, h.2⟩
    have := congrArg (fun t => t.2.2) h.1
    simpa [settings, run] using this
  | call v body ih =>
    have hb : Balanced body := hp
    simp only [run, runWith]
    have hc := C20_verbose_call_restores v (runWith decoNew body) s
    cases hr : v.resolve with
    | error e => rw [hc.1 e hr]; exact ⟨rfl, fun _ => rfl⟩
    | ok lv =>
      have h2 := hc.2 lv hr
      cases lv with
      | none =>
        simp only [decorated, decoNew, hr, frameOf]
        exact ih hb s
      | some l =>
        simp only at h2
        have hl : (runWith decoNew body (resetEmergence l s)).1.level = s.level := by
          have := (ih hb (resetEmergence l s)).1
          simp only [run] at this
          rw [this, resetEmergence_level]
        have := h2.2.2.1 (by simp) hl
        exact ⟨by simpa [logState] using (congrArg Prod.fst this), fun _ => obsLog_of_logState this⟩
  | real v raises inner =>
    have := C20_verbose_scoped (.real v raises inner) (by simp [LogFree]) s
    exact ⟨by simpa [logState] using (congrArg Prod.fst this), fun _ => obsLog_of_logState this⟩
  | try_ body ih => exact ih hp s
  | raise e => exact ⟨rfl, fun _ => rfl⟩
  | eq r a m =>
    have := C20_verbose_scoped (.eq r a m) (by simp [LogFree]) s
    exact ⟨by simpa [logState] using (congrArg Prod.fst this), fun _ => obsLog_of_logState this⟩

example : Balanced (.call (.int 3) (.seq (.withSet (.log (some (.str "debug"))) (.call (.bool false) .skip))
    (.withCfg { a := none, r := none, l := some (.int 2) } (.raise .KeyError)))) := by simp [Balanced]

/-- A decorated call around any computation keeps the logging state in agreement with the
global level if it found it so (for `verbose=None`, a plain call, the computation itself must). -/
theorem C20_decorated_call_keeps_consistency (v : Verbose) (body : State → State × Outcome) (s : State)
    (hc : Consistent s) (hb : v.resolve = .ok none → Consistent (body s).1) :
    Consistent (decorated decoNew v body s).1 := by
  have h := C20_verbose_call_restores v body s
  cases hr : v.resolve with
  | error e => rw [h.1 e hr]; exact hc
  | ok lv =>
    have h2 := h.2 lv hr
    cases lv with
    | none =>
      simp only [decorated, decoNew, hr, frameOf]
      exact hb hr
    | some l =>
      simp only at h2
      by_cases hl : (body (resetEmergence l s)).1.level = s.level
      · exact consistent_of_obsLog (obsLog_of_logState (h2.2.2.1 (by simp) hl)) hc
      · have := h2.2.2.2 (by simp) hl
        have hs := congrArg (fun t => t.2.2) h2.2.1
        simp only [settings] at hs
        rw [← hs] at this
        exact (consistent_iff _).mpr this

/-- **No verbosity leaves a trace, whatever the program.**  For *every* program — global
settings changed for good anywhere (also inside decorated calls), `with` blocks, decorated
calls of any depth with any `verbose`, raises — started in a state as `log_level` leaves it,
the logging state at the end is again the one `log_level()` dictates: level, disable level and
effective root level agree with the global setting.  (Invariant by induction on the program;
a decorated call needs no hypothesis on its body: `C20_verbose_call_restores`.) -/
theorem C20_logging_follows_global_level (p : Prog) (s : State) (hc : Consistent s) :
    Consistent (run p s).1 := by
  induction p generalizing s with
  | skip => exact hc
  | seq p q ihp ihq =>
    simp only [run, runWith]
    cases h : (runWith decoNew p s).2 with
    | ok => exact ihq _ (ihp s hc)
    | raised e => exact ihp s hc
  | set op =>
    simp only [run, runWith]
    cases op with
    | atol a => rcases a with _ | a | _ <;> simp only [access] <;> exact hc
    | rtol a => rcases a with _ | a | _ <;> simp only [access] <;> exact hc
    | log a =>
      cases a with
      | none => exact hc
      | some a =>
        simp only [access]
        cases hp : a.parse with
        | none => exact hc
        | some l => exact (consistent_iff _).mpr (obsLog_reset l s)
  | cfg c =>
    simp only [run, runWith]
    rcases h : cfgCall c s with ⟨e, old, s1⟩
    rcases c with ⟨a, r, l⟩
    cases e with
    | some e => rw [cfgCall_error _ s e old s1 h]; exact hc
    | none =>
      simp only
      cases l with
      | none =>
        have := cfgCall_nolog ⟨a, r, none⟩ s rfl
        rw [h] at this
        exact consistent_of_obsLog (obsLog_of_logState this) hc
      | some l =>
        -- the log-level setter ran last and succeeded
        have hs1 : s1 = (cfgCall ⟨a, r, some l⟩ s).2.2 := by rw [h]
        rw [hs1]
        rcases a with _ | a | _ <;> rcases r with _ | r | _ <;> cases hp : l.parse <;>
          simp_all [cfgCall, CfgArgs.ops, cfgLoop, access, rollback, SetOp.key, getVal, exitConst_atol,
            exitConst_rtol] <;>
          exact (consistent_iff _).mpr (obsLog_reset _ _)
  | withSet op body ih =>
    simp only [run, runWith]
    cases op with
    | atol a =>
      rcases a with _ | a | _ <;> simp only [access, SetOp.key]
      · rw [exitConst_atol]; exact ih s hc
      · rw [exitConst_atol]; exact ih { s with atol := a } hc
      · exact hc
    | rtol a =>
      rcases a with _ | a | _ <;> simp only [access, SetOp.key]
      · rw [exitConst_rtol]; exact ih s hc
      · rw [exitConst_rtol]; exact ih { s with rtol := a } hc
      · exact hc
    | log a =>
      cases h : access (.log a) s with
      | error e => exact hc
      | ok r =>
        obtain ⟨old, s1⟩ := r
        have := access_old _ s s1 old h
        subst this
        simp only [SetOp.key, getVal, exitConst_log]
        exact (consistent_iff _).mpr (obsLog_reset _ _)
  | withCfg c body ih =>
    simp only [run, runWith]
    rcases h : cfgCall c s with ⟨e, old, s1⟩
    cases e with
    | some e => rw [cfgCall_error c s e old s1 h]; exact hc
    | none =>
      simp only [exitCfg_eq]
      exact (consistent_iff _).mpr (obsLog_reset _ _)
  | call v body ih =>
    simp only [run, runWith]
    exact C20_decorated_call_keeps_consistency v _ s hc (fun _ => ih s hc)
  | real v raises inner =>
    simp only [run, runWith]
    exact C20_decorated_call_keeps_consistency v _ s hc (fun _ => C20_decorated_call_keeps_consistency inner _ s hc (fun _ => hc))
  | try_ body ih => exact ih s hc
  | raise e => exact hc
  | eq r a m =>
    simp only [run, runWith]
    exact C20_decorated_call_keeps_consistency .none _ s hc (fun _ => hc)

/-- Non-vacuity / contrast: a global change made inside a call with a verbosity survives the
call, with the matching logging state — and the unpatched decorator breaks the invariant. -/
example : run (.call (.int 3) (.seq (.set (.log (some (.str "info")))) (.raise .KeyError))) State.init
    = ({ State.init with level := .INFO, root := 20 }, .raised .KeyError) := by decide
example : ¬ Consistent (runOld (.call .none (.call (.int 0) .skip)) State.init).1 := by decide

/-- Tolerances passed to an equality test are local: with both given, the verdict is the same
in every global state (the global ones are not read), and in any case the test leaves the
state — tolerances and logging — exactly as it was. -/
theorem C20_tol_args_local (r a m : Nat) (s s' : State) (r' a' : Option Nat) :
    eqResult (some r) (some a) m s = eqResult (some r) (some a) m s'
    ∧ run (.eq r' a' m) s = (s, .ok) := by
  constructor
  · rfl
  · simp [run, runWith, decorated, decoNew, Verbose.resolve, Verbose.toInt, frameOf]

/-- Non-vacuity: an omitted tolerance *is* read from the global setting (2 + 7·2^-22 against 2
is equal under atol = 2^-12, not under the default 2^-52), a given one is not — and an explicit
**zero** (tolerance number 8) is a given one: with loose globals (0.5) and operands differing by
7·2^-5 the test with `atol=0, rtol=0` says "not equal", with nothing passed "equal"; conversely
tight globals and a loose passed tolerance say "equal". -/
example : eqResult none none 22 { State.init with atol := 4 } = true
    ∧ eqResult none none 22 State.init = false
    ∧ eqResult (some 0) (some 0) 22 { State.init with atol := 4, rtol := 4 } = false
    ∧ eqResult (some 8) (some 8) 5 { State.init with atol := 7, rtol := 7 } = false
    ∧ eqResult none none 5 { State.init with atol := 7, rtol := 7 } = true
    ∧ eqResult (some 8) none 5 { State.init with atol := 7, rtol := 8 } = true
    ∧ eqResult (some 8) (some 7) 5 { State.init with atol := 8, rtol := 8 } = true
    ∧ tolUnits 8 = 0 := by decide

/-! ### The decorator as it is in 1.11.2.0 violates the property (concrete witnesses) -/

/-- An invalid `verbose` leaks the nesting counter (`calls[0] += 1` precedes validation): the
next, perfectly valid call `f(verbose=3)` then never resets the root logger (30 → 15 for good). -/
theorem C20_old_invalid_verbose_leaks_counter :
    logState (runOld (.seq (.try_ (.call (.int 7) .skip)) (.call (.int 3) .skip)) State.init).1
      = (.WARNING, 15, 0)
    ∧ logState (run (.seq (.try_ (.call (.int 7) .skip)) (.call (.int 3) .skip)) State.init).1
      = logState State.init := by decide

/-- Outer `verbose=None`, inner `verbose=3`: only the outermost call resets, and only according
to its own `verbose`, so the inner call's level stays. -/
theorem C20_old_nested_verbose_not_restored :
    logState (runOld (.call .none (.call (.int 3) .skip)) State.init).1 = (.WARNING, 15, 0)
    ∧ logState (run (.call .none (.call (.int 3) .skip)) State.init).1 = logState State.init := by
  decide

/-- The same through the plain public API: `Constructs.equals` compares candidate pairs with a
hard-coded `verbose=0`, so `f.equals(g)` with default arguments (outer `verbose=None`) leaves
logging disabled for the rest of the process while `log_level()` still says WARNING. -/
theorem C20_old_equals_disables_logging :
    logState (runOld (.real .none false (.int 0)) State.init).1 = (.WARNING, 30, 50)
    ∧ logState (run (.real .none false (.int 0)) State.init).1 = logState State.init := by decide

/-- With the global level DISABLE, `f(verbose=0)` (or `False`) switches logging back *on*. -/
theorem C20_old_verbose_zero_reenables_logging :
    (runOld (.seq (.set (.log (some (.str "disable")))) (.call (.int 0) .skip)) State.init).1.disable = 0
    ∧ (run (.seq (.set (.log (some (.str "disable")))) (.call (.int 0) .skip)) State.init).1.disable
        = critical := by decide

/-! ### The decorator as it is in 1.11.2.0, under the hypothesis that excludes its three defects

The patch above is proposed, not applied: the code under test keeps `decoOld`.  Full-strength
statement (false for `decoOld`, see the four counter-examples above; true for `decoNew`,
`C20_verbose_scoped`):

    ∀ p, LogFree p → ∀ s, logState (runOld p s).1 = logState s

What holds of the code as it is: the same conclusion for every tree, of any depth, that passes
the decidable guard `guarded s.level none p` (`Spec/Settings.lean`), which excludes exactly
* an invalid `verbose` anywhere (leaks the counter:  `C20_old_invalid_verbose_leaks_counter`),
* a nested call whose verbosity is neither `None` nor the verbosity of the outermost call
  (never undone: `C20_old_nested_verbose_not_restored`, `C20_old_equals_disables_logging`),
* an outermost call with `verbose` = 0/False/"DISABLE" while the global level is DISABLE
  (`C20_old_verbose_zero_reenables_logging`),
started outside any decorated call (counter 0) in a state as `log_level` leaves it. -/

/-- One call of the decorator *as coded* around an arbitrary computation `body` (returning or
raising), outside any other decorated call: if `verbose` is valid, is not 0 under a global
DISABLE, and the body leaves counter, level, root level and disable level as it found them
(which is what nested calls with `verbose=None` or the same `verbose` do), then afterwards the
counter is 0 again and level, disable level and effective root level are those before the call;
outcome and settings are the body's. -/
theorem C20_old_single_call_restores_partial (v : Verbose) (lv : Option Level)
    (body : State → State × Outcome) (s : State)
    (hres : v.resolve = .ok lv) (hz : ¬ (s.level = .DISABLE ∧ lv = some .DISABLE))
    (hc : s.calls = 0) (hcons : Consistent s)
    (hb : ∀ t, Inv s.level (some lv) t → Post (some lv) t (body t).1) :
    (decorated decoOld v body s).1.calls = 0
    ∧ obsLog (decorated decoOld v body s).1 = obsLog s
    ∧ (s.level ≠ .DISABLE → logState (decorated decoOld v body s).1 = logState s)
    ∧ ∃ t, Inv s.level (some lv) t ∧ (decorated decoOld v body s).2 = (body t).2
        ∧ settings (decorated decoOld v body s).1 = settings (body t).1 := by
  obtain ⟨⟨h1, h2, h3⟩, hex⟩ := old_top_call_post body s hres hz hc hcons hb
  simp only at h3
  have hs := consistent_same h3 hcons h2
  refine ⟨h1.trans hc, ?_, fun hd => ?_, hex⟩
  · rw [(consistent_iff _).mp h3, (consistent_iff _).mp hcons, h2]
  · have hd0 : s.disable = 0 := (hcons.2 hd).1
    simp only [logState, Prod.mk.injEq]
    exact ⟨h2, hs.2 (hs.1.trans hd0), hs.1⟩

/-- **Verbosity is call-scoped in the code as it is, on guarded trees.**  For every tree of
decorated calls — any depth, opaque cfdm functions, raises, try blocks, equality tests,
tolerance settings and blocks — that passes the guard, run with `decoOld` from a state with
counter 0 that agrees with `log_level()`: the counter is 0 again, the global level, the disable
level and the effective root level are those before, and exactly so (raw root level included)
unless the global level is DISABLE.  (Induction on the tree: `oldNewSim`.) -/
theorem C20_old_verbose_scoped_partial (p : Prog) (s : State)
    (hg : guarded s.level none p = true) (hc : s.calls = 0) (hcons : Consistent s) :
    (runOld p s).1.calls = 0
    ∧ obsLog (runOld p s).1 = obsLog s
    ∧ (s.level ≠ .DISABLE → logState (runOld p s).1 = logState s) := by
  obtain ⟨_, _, ⟨h1, h2, h3⟩, _⟩ := oldNewSim s.level p none s s hg ⟨rfl, hc, hcons⟩ (rel_refl s)
  simp only at h3
  have hs := consistent_same h3 hcons h2
  refine ⟨h1.trans hc, ?_, fun hd => ?_⟩
  · simp only [runOld]
    rw [(consistent_iff _).mp h3, (consistent_iff _).mp hcons, h2]
  · have hd0 : s.disable = 0 := (hcons.2 hd).1
    simp only [logState, Prod.mk.injEq, runOld]
    exact ⟨h2, hs.2 (hs.1.trans hd0), hs.1⟩

/-- On guarded trees the decorator as coded and the patched one are observationally the same:
same outcome, same final settings and observable logging state, and the same observation after
every step at every depth — so everything proved for `run` above transfers to the code as it is
on those trees (and the correspondence stream compares the implementation with either). -/
theorem C20_old_eq_new_on_guarded (p : Prog) (s : State)
    (hg : guarded s.level none p = true) (hc : s.calls = 0) (hcons : Consistent s) :
    fullTrace decoOld p s = fullTrace decoNew p s
    ∧ (runOld p s).2 = (run p s).2
    ∧ settings (runOld p s).1 = settings (run p s).1
    ∧ obsLog (runOld p s).1 = obsLog (run p s).1 := by
  obtain ⟨h1, h2, _, h4⟩ := oldNewSim s.level p none s s hg ⟨rfl, hc, hcons⟩ (rel_refl s)
  refine ⟨?_, h1, h2.1, h2.2⟩
  simp only [fullTrace]
  rw [h4, h1, ev_of_rel _ h2]

/-- Non-vacuity: a three-deep tree of the kind cfdm's own methods produce — the outer verbosity
passed through (`verbose=verbose`), inner calls with `None`, an opaque cfdm function that
raises, a raise inside a nested call, a try block, a tolerance block, then a call with
`verbose=False` whose function compares with a hard-coded `verbose=0` — passes the guard under
WARNING; each defect class is rejected by it. -/
example : guarded .WARNING none
    (.seq (.try_ (.call (.str "Detail") (.seq (.call (.int 3) (.seq (.real (.bool true) true (.int 3))
                                                    (.call .none (.raise .KeyError))))
                                           (.withSet (.atol (some (.val 4))) (.eq none (some 2) 20)))))
          (.real (.bool false) false (.int 0))) = true := by decide
example : State.init.calls = 0 ∧ Consistent State.init := by decide
example : guarded .WARNING none (.call (.int 7) .skip) = false
    ∧ guarded .WARNING none (.call .none (.call (.int 3) .skip)) = false
    ∧ guarded .WARNING none (.call (.int 3) (.call (.int 1) .skip)) = false
    ∧ guarded .WARNING none (.real .none false (.int 0)) = false
    ∧ guarded .DISABLE none (.call (.int 0) .skip) = false
    ∧ guarded .DISABLE none (.call (.int 3) (.call (.str "detail") .skip)) = true := by decide

end Cfdm.Props.C20
