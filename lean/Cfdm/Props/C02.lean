import Cfdm.Lemmas.ConstructsStep
import Cfdm.Lemmas.ConstructsSeq
import Cfdm.Lemmas.ConstructsView
import Cfdm.Lemmas.ConstructsInPlace
/-
C02 — the construct container keeps referential integrity over any history.
Property theorems only.  Model: `Cfdm/Model/Constructs.lean` (`step` = the container with the repairs
fixes/C02-*.patch: commits 0a6b21e, 05dfd6b, fba0f94, 7ccd512, 7a00732 and
C02-insert-dimension-skips-topology-constructs.patch; `stepOld` = the container before them) and
`Cfdm/Model/ConstructsSeq.lean` (the bodies of the mutating methods as sequences of reads, guards and
writes in the order of the code);
specification: `Cfdm/Spec/Constructs.lean` (`Inv`).

  FULL STATEMENT (what the property demands):
    theorem C02_inv_step (s : St) (op : Op) : Inv s → Inv (step s op).1
    theorem C02_inv_reachable (ops : List Op) : Inv (run init ops)
  It is FALSE for cfdm at HEAD: `C02_axis_resize_breaks_inv`,
  `C02_dangling_cell_method_breaks_inv`, `C02_dangling_reference_breaks_inv`,
  `C02_replace_unchecked_breaks_inv` and `C02_direct_mutation_breaks_inv` below are accepted calls that
  break `Inv` (open findings without a patch).  What is proved is the statement for every other argument choice (`Admissible`): every
  operation of the model, with any arguments, except that for `set_construct` exactly those three classes
  are excluded (`SetOK`: domain axis resized while spanned; cell method / coordinate reference naming a
  missing construct) together with constructs that are inconsistent in themselves (which cfdm's own
  `set_bounds` refuses to build), for `constructs.replace` the caller must supply what the documented
  absence of checks leaves to him (`ReplaceOK`), and a mutator called directly on a contained construct
  must keep it fitting its recorded axes (`MutOK`).
-/
namespace Cfdm.Props.C02
open Cfdm.Constructs

/-- **The empty field satisfies the invariant.** -/
theorem C02_inv_init : Inv init := by decide

example : decide (Inv init) = true := by decide

/-- **Every admissible call — accepted or rejected — preserves the invariant**, for every state,
every operation (set_construct, del_construct, set_data, del_data, set_data_axes, del_data_axes, each
also through the domain view where the API offers it, constructs.replace, copy, subspace, squeeze,
transpose and insert_dimension with and without constructs / in place, convert) and every argument
choice in `Admissible`.
The result state is the state after the call whether the call was accepted or rejected. -/
theorem C02_inv_step_partial (s : St) (op : Op) (h : Inv s) (hok : Admissible s op) : Inv (step s op).1 :=
  (inv_iff_core _).mpr (step_core ((inv_iff_core s).mp h) op hok)

/-- a field with one axis of size 3 spanned by an auxiliary coordinate with bounds, and by the data -/
def exField : St :=
  { cons := [((.axis, ⟨"domainaxis", 0⟩), { size := some 3 }),
             ((.aux, ⟨"auxiliarycoordinate", 0⟩), { data := some [3], bounds := some [3, 2] }),
             ((.cm, ⟨"cellmethod", 0⟩), { cmAxes := [.key ⟨"domainaxis", 0⟩, .name "area"] })],
    ctype := [(⟨"domainaxis", 0⟩, .axis), (⟨"auxiliarycoordinate", 0⟩, .aux), (⟨"cellmethod", 0⟩, .cm)],
    caxes := [(⟨"auxiliarycoordinate", 0⟩, [⟨"domainaxis", 0⟩])],
    data := some [3], dataAxes := some [⟨"domainaxis", 0⟩], fda := some [⟨"domainaxis", 0⟩] }

example : Inv exField := by decide
-- a rejected call (the axis is in use) and an accepted one (through the domain view), both admissible
example : Admissible exField (.delc true ⟨"domainaxis", 0⟩) := trivial
example : (step exField (.delc true ⟨"domainaxis", 0⟩)).2 = .rejected := by decide
example : (step exField (.insdim none 0 true false)).2.isOk = true := by decide
example : Inv (step exField (.insdim none 0 true false)).1 := by decide

/-- **Lifted to every history**: from any state that satisfies the invariant (in particular the empty
field), after any finite sequence of admissible calls (no bound on the length) the invariant holds. -/
theorem C02_inv_reachable_partial (s : St) (ops : List Op) (h : Inv s) (hok : AdmissibleRun s ops) :
    Inv (run s ops) :=
  (inv_iff_core _).mpr (run_core ((inv_iff_core s).mp h) ops hok)

example : AdmissibleRun init [.setc false .axis { size := some 2 } none none, .setd [2] (some [⟨"domainaxis", 0⟩]),
    .transpose none true false, .delc true ⟨"domainaxis", 0⟩] := by
  refine ⟨?_, trivial, trivial, trivial, trivial⟩
  exact ⟨(by decide), (fun _ k old hk => by cases hk), (fun e => by cases e), (fun e => by cases e)⟩

/-- every history of calls that need no admissibility condition at all (no set_construct / replace)
keeps the invariant unconditionally -/
theorem C02_inv_reachable_unconditional (s : St) (ops : List Op) (h : Inv s)
    (hops : ∀ o ∈ ops, Admissible s o ∧ ∀ s', Admissible s' o) : Inv (run s ops) := by
  apply C02_inv_reachable_partial s ops h
  induction ops generalizing s with
  | nil => trivial
  | cons o r ih =>
    exact ⟨(hops o (by simp)).1, ih _ (C02_inv_step_partial s o h (hops o (by simp)).1)
      (fun o' ho' => ⟨(hops o' (by simp [ho'])).2 _, (hops o' (by simp [ho'])).2⟩)⟩

example : ∀ s', Admissible s' (.delc true ⟨"domainaxis", 0⟩) := fun _ => trivial
example : ∀ s', Admissible s' (.sub [(0, 2)]) ∧ Admissible s' (.convert ⟨"auxiliarycoordinate", 0⟩ true) :=
  fun _ => ⟨trivial, trivial⟩
example : (step exField (.sub [(1, 3)])).2.isOk = true ∧ (step exField (.convert ⟨"auxiliarycoordinate", 0⟩ true)).2.isOk = true := by
  decide

/-- **The clauses of the statement, read off the invariant**: in every state that satisfies it, a construct
with recorded axes exists under exactly one type, its axes exist, and their sizes are its shape, the
leading dimensions of its bounds and of its interior ring. -/
theorem C02_inv_axes (s : St) (h : Inv s) (k : Key) (A : List Key) (hk : s.caxes.get k = some A) :
    ∃ t c, s.ctype.get k = some t ∧ s.cons.get (t, k) = some c ∧ AxesExist s A ∧
      (∀ shp, c.shape t = some shp → Fits s A shp ∧
        (∀ b, c.bounds = some b → Fits s A (b.take A.length)) ∧ (∀ r, c.ring = some r → Fits s A (r.take A.length))) := by
  have hc := ((inv_iff_core s).mp h).cax k A hk
  unfold conOf at hc
  cases ht : s.ctype.get k with
  | none => simp [ht] at hc
  | some t =>
    cases hg : s.cons.get (t, k) with
    | none => simp [ht, hg] at hc
    | some c =>
      simp only [ht, hg, Option.map_some] at hc
      refine ⟨t, c, rfl, hg, hc.1, ?_⟩
      intro shp hs
      have h2 := hc.2
      simp only [hs] at h2
      refine ⟨h2.1, fun b hb => ?_, fun r hr => ?_⟩
      · have := h2.2.1; simp only [hb] at this; exact this
      · have := h2.2.2; simp only [hr] at this; exact this

example : exField.caxes.get ⟨"auxiliarycoordinate", 0⟩ = some [⟨"domainaxis", 0⟩] := by decide

/-- in every state that satisfies the invariant, `repr`, `str` and `dump` of the field and of its domain
perform only successful look-ups (through C19's model of the formatters) -/
theorem C02_inv_describe (s : St) (h : Inv s) :
    Cfdm.Describe.describe (toM s false) ≠ none ∧ Cfdm.Describe.describe (toM s true) ≠ none :=
  h.2.2.2.2.2.2.2.2

example : Cfdm.Describe.describe (toM exField false) ≠ none := by decide

/-- **An accepted `del_construct` leaves no reference to the deleted key**, whatever the term maps of the
coordinate references are: the key may be the value of several terms of one coordinate conversion, of terms
of several references, and a coordinate of several references (`ancils` / `coords` are arbitrary lists). -/
theorem C02_del_construct_cleans_references (s : St) (h : Inv s) (view : Bool) (k : Key)
    (hok : (step s (.delc view k)).2.isOk = true) :
    ∀ q c, (step s (.delc view k)).1.cons.get q = some c → q.1 = CType.ref →
      k ∉ c.coords ∧ some k ∉ c.ancils := by
  have hinv := (inv_iff_core _).mp (C02_inv_step_partial s (.delc view k) h trivial)
  -- the deleted key is no longer registered
  have key : ∀ s' o, delConstruct true s view k = (s', Out.ok o) → s'.ctype.get k = none := by
    intro s' o hd
    unfold delConstruct at hd
    repeat' split at hd
    all_goals first
      | (simp at hd; done)
      | (simp only [Prod.mk.injEq] at hd; obtain ⟨rfl, _⟩ := hd; simp [pop, cleanRefs, Dict.get_del])
  have hgone : (step s (.delc view k)).1.ctype.get k = none := by
    have e : step s (.delc view k) = delConstruct true s view k := rfl
    rw [e] at hok ⊢
    cases hd : delConstruct true s view k with
    | mk s' o =>
      rw [hd] at hok
      cases o with
      | rejected => simp [Out.isOk] at hok
      | ok ko => exact key s' ko hd
  intro q c hq hr
  have hn := hinv.refs q c hq hr
  refine ⟨fun hx => ?_, fun hx => ?_⟩
  · rcases hn.1 k hx with h1 | h1
    · cases hg : (step s (.delc view k)).1.cons.get (.dim, k) with
      | none => simp [hg] at h1
      | some c0 => have := hinv.tos _ c0 hg; simp only at this; rw [hgone] at this; cases this
    · cases hg : (step s (.delc view k)).1.cons.get (.aux, k) with
      | none => simp [hg] at h1
      | some c0 => have := hinv.tos _ c0 hg; simp only at this; rw [hgone] at this; cases this
  · have h1 := hn.2 (some k) hx
    simp only at h1
    cases hg : (step s (.delc view k)).1.cons.get (.dan, k) with
    | none => simp [hg] at h1
    | some c0 => have := hinv.tos _ c0 hg; simp only at this; rw [hgone] at this; cases this

/-- one domain ancillary under TWO terms (`a`, `b`) of one coordinate conversion and under a term of a
second reference, which also shares the coordinate -/
def exShared : St :=
  { cons := [((.axis, ⟨"domainaxis", 0⟩), { size := some 3 }),
             ((.dim, ⟨"dimensioncoordinate", 0⟩), { data := some [3] }),
             ((.dan, ⟨"domainancillary", 0⟩), { data := some [3] }),
             ((.dan, ⟨"domainancillary", 1⟩), { data := some [3] }),
             ((.ref, ⟨"coordinatereference", 0⟩),
                { coords := [⟨"dimensioncoordinate", 0⟩], terms := ["a", "b", "orog"],
                  ancils := [some ⟨"domainancillary", 0⟩, some ⟨"domainancillary", 0⟩, some ⟨"domainancillary", 1⟩] }),
             ((.ref, ⟨"coordinatereference", 1⟩),
                { coords := [⟨"dimensioncoordinate", 0⟩], terms := ["a"], ancils := [some ⟨"domainancillary", 0⟩] })],
    ctype := [(⟨"domainaxis", 0⟩, .axis), (⟨"dimensioncoordinate", 0⟩, .dim), (⟨"domainancillary", 0⟩, .dan),
              (⟨"domainancillary", 1⟩, .dan), (⟨"coordinatereference", 0⟩, .ref), (⟨"coordinatereference", 1⟩, .ref)],
    caxes := [(⟨"dimensioncoordinate", 0⟩, [⟨"domainaxis", 0⟩]), (⟨"domainancillary", 0⟩, [⟨"domainaxis", 0⟩]),
              (⟨"domainancillary", 1⟩, [⟨"domainaxis", 0⟩])] }

example : Inv exShared := by decide
-- both routes accept, every term of every reference is reset, the other term is kept
example : ∀ view, (step exShared (.delc view ⟨"domainancillary", 0⟩)).2.isOk = true ∧
    ((step exShared (.delc view ⟨"domainancillary", 0⟩)).1.cons.get (.ref, ⟨"coordinatereference", 0⟩)).map (·.ancils)
      = some [none, none, some ⟨"domainancillary", 1⟩] ∧
    ((step exShared (.delc view ⟨"domainancillary", 0⟩)).1.cons.get (.ref, ⟨"coordinatereference", 1⟩)).map (·.ancils)
      = some [none] := by decide
-- a coordinate shared by two references is removed from both
example : ∀ view, ((step exShared (.delc view ⟨"dimensioncoordinate", 0⟩)).1.cons.live.filter (fun p => p.1.1 = .ref)).map (·.2.coords)
    = [[], []] := by decide

/-- a rejected `set_construct` leaves the container exactly as it was -/
theorem C02_set_rejected_unchanged (s s' : St) (view : Bool) (t : CType) (c : Con) (key : Option Key)
    (axes : Option (List Key)) (h : step s (.setc view t c key axes) = (s', .rejected)) : s' = s := by
  unfold step stepP at h
  simp only at h
  unfold setConstruct at h
  split at h
  · simp_all
  split at h
  · simp_all
  · unfold storeAt at h
    split at h
    · split at h
      · split at h <;> simp_all
      · simp_all
    · split at h <;> simp_all

/-- a rejected `set_data` (wrong shape, non-existent axis) or `set_data_axes` leaves data, data axes and
everything else exactly as they were -/
theorem C02_set_data_rejected_unchanged (s s' : St) (shp : List Nat) (axes : Option (List Key)) :
    (step s (.setd shp axes) = (s', .rejected) → s' = s) ∧
    (∀ A, step s (.setda A) = (s', .rejected) → s' = s) := by
  have hda : ∀ A sh s'', setDataAxes true s A sh = (s'', Out.rejected) → s'' = s := by
    intro A sh s'' h
    unfold setDataAxes at h
    split at h <;> split at h <;> simp_all
  refine ⟨fun h => ?_, fun A h => hda A s.data s' h⟩
  unfold step stepP at h
  simp only at h
  unfold setData at h
  split at h
  · split at h <;> simp_all
  · simp_all

example : step exField (.setd [4] none) = (exField, .rejected) ∧
    step exField (.setd [3] (some [⟨"domainaxis", 9⟩])) = (exField, .rejected) := by decide

example : step exField (.setc false .aux { data := some [4] } none (some [⟨"domainaxis", 0⟩])) = (exField, .rejected) := by
  decide

/-! ### the order of guards and writes: a rejected call leaves the state literally unchanged -/

/-- **The sequenced bodies compute the steps of the model**: running the reads, guards and writes of
`set_construct`, `del_construct`, `set_data`, `del_data`, `set_data_axes` (field and per construct),
`del_data_axes` (field and per construct) and `constructs.replace` in the order of the code — stopping,
with the state reached so far, at the first guard that fails — gives exactly `step`.  So every theorem
about `step` (and the correspondence, which runs `step`) is about the code in its order. -/
theorem C02_seq_refines (op : Op) (p : Prog) (h : progOf op = some p) (s : St) : p.exec s = step s op :=
  progOf_exec h s

example : progOf (.setd [4] none) = some (pSetData [4] none) := rfl
example : (pSetData [4] none).exec exField = (exField, .rejected) := by decide

/-- **Guards before writes ⇒ atomic**: ANY program in which every guard precedes the first write leaves
the state it started from, literally, when it is rejected. -/
theorem C02_guards_first_atomic (p : Prog) (h : p.GuardsFirst) (s s' : St) (hr : p.exec s = (s', .rejected)) :
    s' = s :=
  guardsFirst_atomic h s s' hr

/-- every sequenced body except `del_construct` has all its guards before its first write
(`_del_construct` cleans the coordinate references before `_pop` looks the identifier up; that late
guard repeats the look-up that the public `del_construct` made first, see `C02_rejected_unchanged`) -/
theorem C02_seq_guards_first (op : Op) (p : Prog) (h : progOf op = some p) (hd : ∀ view key, op ≠ .delc view key) :
    p.GuardsFirst :=
  progOf_gf h hd

example : (pSetData [3] (some [⟨"domainaxis", 0⟩])).GuardsFirst := pSetData_gf _ _

/-- the order matters: the body of `set_data` with its two statements exchanged (data stored first, axes
checked afterwards) is rejected on the same input but leaves the new data behind — data of shape (4,) on
an axis of size 3 -/
theorem C02_order_matters :
    let p := pSetDataStoreFirst [4] [⟨"domainaxis", 0⟩]
    (p.exec exField).2 = .rejected ∧ (p.exec exField).1 ≠ exField ∧ ¬ Inv (p.exec exField).1 ∧
      (pSetData [4] (some [⟨"domainaxis", 0⟩])).exec exField = (exField, .rejected) := by decide

/-- **Every rejected call leaves the state literally unchanged** — `set_construct` (bad axes, wrong shape,
identifier in use, hidden type), `del_construct` (axis in use, unknown / hidden identifier), `set_data` in
place or not (shape fitting neither the given nor the existing axes, unknown axes, `axes=None` on a field
with data axes), `set_data_axes`, `del_data`, `del_data_axes`, `constructs.replace`, a mutator of a contained
construct, `copy`, subspace, `convert`, and `squeeze` / `transpose` / `insert_dimension` with
`inplace=False` — in every state, invariant or not.  (The in-place deriving calls are the exception, see
`C02_inplace_rejected_unchanged`, `C02_inplace_insert_dimension_leaves_axis`, `C02_inplace_loops_any_order`.) -/
theorem C02_rejected_unchanged (s s' : St) (op : Op) (hip : op.inPlaceDeriving = false)
    (h : step s op = (s', .rejected)) : s' = s :=
  step_rejected_unchanged s s' op hip h

example : step exField (.setdn [3, 1] none) = (exField, .rejected) := by decide
example : step exField (.setd [1, 3] (some [⟨"domainaxis", 0⟩])) = (exField, .rejected) := by decide
example : step exField (.delc false ⟨"domainaxis", 0⟩) = (exField, .rejected) := by decide
example : (step exField (.setdn [3] none)).2.isOk = true := by decide

/-- the hypothesis cannot be dropped: a rejected `insert_dimension(None, position=5, inplace=True)` has
already created its new domain axis (`f.set_construct(DomainAxis(1))` is the first statement); the
invariant still holds -/
theorem C02_inplace_insert_dimension_leaves_axis :
    let op := Op.insdim none 5 false true
    (step exField op).2 = .rejected ∧ (step exField op).1 ≠ exField ∧ Inv (step exField op).1 := by decide

/-- **In a state that satisfies the invariant a rejected in-place `squeeze`, `transpose` (without
constructs) or `insert_dimension` of an existing axis leaves the state unchanged too**: these bodies write
the new data before they re-set the data axes, but there the late `set_data_axes` cannot be the statement
that fails. -/
theorem C02_inplace_rejected_unchanged (s s' : St) (h : Inv s) (op : Op) (hop : op.inPlaceNoCreate = true)
    (hr : step s op = (s', .rejected)) : s' = s :=
  inplace_rejected_unchanged ((inv_iff_core s).mp h) op hop hr

example : step exField (.squeeze (some [0]) true) = (exField, .rejected) := by decide

/-- the invariant cannot be dropped from `C02_inplace_rejected_unchanged`: with data axes that name a
missing axis the in-place `squeeze` stores the squeezed data and is then rejected -/
theorem C02_inplace_needs_inv :
    let s : St := { cons := [((.axis, ⟨"domainaxis", 0⟩), { size := some 1 })], ctype := [(⟨"domainaxis", 0⟩, .axis)],
                    data := some [1, 3], dataAxes := some [⟨"domainaxis", 0⟩, ⟨"domainaxis", 9⟩],
                    fda := some [⟨"domainaxis", 0⟩, ⟨"domainaxis", 9⟩] }
    ¬ Inv s ∧ (step s (.squeeze none true)).2 = .rejected ∧ (step s (.squeeze none true)).1 ≠ s := by decide

/-- **The in-place loops over the metadata constructs keep the invariant whatever the order** (and
multiplicity) in which the constructs are visited - Python walks hash containers, the model a list -
and wherever they stop: a failing step of `transpose(constructs=True, inplace=True)` or of
`insert_dimension(constructs=True, inplace=True)` leaves its construct untouched, the constructs before it
changed (the final `set_data_axes` of a step cannot be the statement that fails; dimension coordinates,
domain topologies and cell connectivities are left as they are by `insert_dimension`). -/
theorem C02_inplace_loops_any_order (s : St) (h : Inv s) (order : List (CType × Key)) :
    Inv (foldIP transOne transDamage s order) ∧
    ∀ a, axSize s a = some (some 1) → ∀ position da0,
      Inv (foldIP (insOne true a position da0) (insDamage true a position da0) s order) :=
  ⟨(inv_iff_core _).mpr (transposeLoop_anyOrder ((inv_iff_core s).mp h) order),
   fun a ha position da0 =>
     (inv_iff_core _).mpr (insertLoop_anyOrder ⟨(inv_iff_core s).mp h, ha⟩ position da0 order).core⟩

-- an in-place call with constructs=True needs no admissibility condition and keeps the invariant
example : Admissible exField (.insdim none 0 true true) := trivial
example : Inv (step exField (.insdim none 0 true true)).1 := by decide

/-- a field on a mesh: three cells, a domain topology (cells x nodes) and data on the cell axis -/
def exMesh : St :=
  { cons := [((.axis, ⟨"domainaxis", 0⟩), { size := some 3 }),
             ((.top, ⟨"domaintopology", 0⟩), { data := some [3, 4] })],
    ctype := [(⟨"domainaxis", 0⟩, .axis), (⟨"domaintopology", 0⟩, .top)],
    caxes := [(⟨"domaintopology", 0⟩, [⟨"domainaxis", 0⟩])],
    data := some [3], dataAxes := some [⟨"domainaxis", 0⟩], fda := some [⟨"domainaxis", 0⟩] }

/-- Before fixes/C02-insert-dimension-skips-topology-constructs.patch: `insert_dimension(None, 0,
constructs=True, inplace=True)` on a field with a domain topology reshapes the topology ((1, 3, 4)), its new
axes are then refused - its shape is the first dimension alone - and the REJECTED call leaves it reshaped on
its one old axis: shape (1,) on an axis of size 3; with `inplace=False` the call could never succeed on such
a field.  With the patch the topology is left as it is: both calls are accepted and keep the invariant. -/
theorem C02_old_insert_dimension_topology_counterexample :
    let op := Op.insdim none 0 true true
    Inv exMesh ∧ (stepOld exMesh op).2 = .rejected ∧ ¬ Inv (stepOld exMesh op).1 ∧
      (stepOld exMesh (.insdim none 0 true false)).2 = .rejected ∧
      (step exMesh op).2.isOk = true ∧ Inv (step exMesh op).1 ∧
      (step exMesh (.insdim none 0 true false)).2.isOk = true ∧ Inv (step exMesh (.insdim none 0 true false)).1 := by
  decide

/-! ### live views -/

/-- **A call through a live view is the call through the field** (`f.domain`,
`Domain.fromconstructs(f.constructs)`, `Domain(source=f, copy=False)`, a view of a view: all share the
field's dictionaries) whenever it does not address a construct type / identifier that the view hides:
same outcome, same resulting state — in particular every guard of `del_construct` (axis spanned by a
field ancillary, named by a cell method, spanned by the field's data) fires exactly as through the field. -/
theorem C02_view_eq_field (s : St) (h : Inv s) (op : Op) (hv : op.hiddenTarget s = false) :
    step s op = step s op.viaField :=
  view_eq_field ((inv_iff_core s).mp h) op hv

example : (Op.delc true ⟨"domainaxis", 0⟩).hiddenTarget exField = false := by decide
example : (Op.delc true ⟨"domainaxis", 0⟩).viaField = .delc false ⟨"domainaxis", 0⟩ := rfl

/-- **A call through a view that addresses something hidden** (a field ancillary or cell method to be set;
the identifier of one to be deleted or re-axed) **is refused and changes nothing**. -/
theorem C02_view_hidden_refused (s : St) (op : Op) (hv : op.hiddenTarget s = true) : step s op = (s, .rejected) :=
  view_hidden_refused s op hv

example : (Op.delc true ⟨"cellmethod", 0⟩).hiddenTarget exField = true := by decide

/-- **An identifier in use by a construct of another type is refused on every route**, also through a view
that hides that construct (the guard of `_set_construct` reads the underlying `_construct_type`
dictionary): nothing changes, no key ends up under two types. -/
theorem C02_key_in_use_refused (s : St) (view : Bool) (t t' : CType) (c : Con) (k : Key) (axes : Option (List Key))
    (hk : s.ctype.get k = some t') (hne : t' ≠ t) :
    step s (.setc view t c (some k) axes) = (s, .rejected) :=
  setConstruct_key_in_use s view t t' c k axes hk hne

-- an auxiliary coordinate under the identifier of the cell method, through the domain view
example : exField.ctype.get ⟨"cellmethod", 0⟩ = some .cm := by decide
example : step exField (.setc true .aux { data := some [3] } (some ⟨"cellmethod", 0⟩) (some [⟨"domainaxis", 0⟩]))
    = (exField, .rejected) := by decide

/-! ### the code before the five repairs (`stepOld`): each repaired an accepted call that broke the invariant -/

/-- `new_identifier` (before the repair) returns `domainaxis1` although an auxiliary coordinate was stored under
that identifier: the key ends up under two types.  At HEAD (0a6b21e): `domainaxis2`. -/
theorem C02_old_new_identifier_counterexample :
    let s : St := { cons := [((.axis, ⟨"domainaxis", 0⟩), { size := some 3 }), ((.aux, ⟨"domainaxis", 1⟩), { data := some [3] })],
                    ctype := [(⟨"domainaxis", 0⟩, .axis), (⟨"domainaxis", 1⟩, .aux)],
                    caxes := [(⟨"domainaxis", 1⟩, [⟨"domainaxis", 0⟩])] }
    let op := Op.setc false .axis { size := some 4 } none none
    Inv s ∧ (stepOld s op).2.isOk = true ∧ ¬ Inv (stepOld s op).1 ∧ Inv (step s op).1 := by decide

/-- `set_construct(c, key=<existing key>)` without axes (before the repair) keeps the recorded axes although the new
construct has another shape.  At HEAD (05dfd6b): rejected. -/
theorem C02_old_set_construct_keeps_axes_counterexample :
    let op := Op.setc false .aux { data := some [4] } (some ⟨"auxiliarycoordinate", 0⟩) none
    Inv exField ∧ (stepOld exField op).2.isOk = true ∧ ¬ Inv (stepOld exField op).1 ∧
      (step exField op).2 = .rejected := by decide

/-- `f.domain.del_construct(axis)` (before the repair) deletes a domain axis that the field's data span (here after
the coordinate and the cell method were removed).  At HEAD (fba0f94): rejected. -/
theorem C02_old_domain_view_delete_counterexample :
    let s : St := { cons := [((.axis, ⟨"domainaxis", 0⟩), { size := some 3 })], ctype := [(⟨"domainaxis", 0⟩, .axis)],
                    data := some [3], dataAxes := some [⟨"domainaxis", 0⟩], fda := some [⟨"domainaxis", 0⟩] }
    let op := Op.delc true ⟨"domainaxis", 0⟩
    Inv s ∧ (stepOld s op).2.isOk = true ∧ ¬ Inv (stepOld s op).1 ∧ (step s op).2 = .rejected := by decide

/-- the same through a field ancillary, which the domain view does not see -/
theorem C02_old_domain_view_delete_ancillary_counterexample :
    let s : St := { cons := [((.axis, ⟨"domainaxis", 0⟩), { size := some 3 }), ((.fan, ⟨"fieldancillary", 0⟩), { data := some [3] })],
                    ctype := [(⟨"domainaxis", 0⟩, .axis), (⟨"fieldancillary", 0⟩, .fan)],
                    caxes := [(⟨"fieldancillary", 0⟩, [⟨"domainaxis", 0⟩])] }
    let op := Op.delc true ⟨"domainaxis", 0⟩
    Inv s ∧ (stepOld s op).2.isOk = true ∧ ¬ Inv (stepOld s op).1 ∧ (step s op).2 = .rejected := by decide

/-- `Field.set_data_axes` on a field without data (before the repair) accepts an axis that does not exist.
At HEAD (7ccd512): rejected. -/
theorem C02_old_set_data_axes_counterexample :
    let op := Op.setda [⟨"domainaxis", 9⟩]
    Inv init ∧ (stepOld init op).2.isOk = true ∧ ¬ Inv (stepOld init op).1 ∧ (step init op).2 = .rejected := by decide

/-- `insert_dimension(constructs=True)` (before the repair) inserts the new axis into the dimension coordinates too:
they become 2-d, which `DimensionCoordinate.set_data` itself refuses - the field can then neither be
copied, subspaced nor squeezed.  At HEAD (7a00732): dimension coordinates stay one-dimensional. -/
theorem C02_old_insert_dimension_counterexample :
    let s : St := { cons := [((.axis, ⟨"domainaxis", 0⟩), { size := some 3 }),
                             ((.dim, ⟨"dimensioncoordinate", 0⟩), { data := some [3] })],
                    ctype := [(⟨"domainaxis", 0⟩, .axis), (⟨"dimensioncoordinate", 0⟩, .dim)],
                    caxes := [(⟨"dimensioncoordinate", 0⟩, [⟨"domainaxis", 0⟩])] }
    let op := Op.insdim none 0 true false
    Inv s ∧ (stepOld s op).2.isOk = true ∧ ¬ Inv (stepOld s op).1 ∧
      (stepOld (stepOld s op).1 .copy).2 = .rejected ∧
      (step s op).2.isOk = true ∧ Inv (step s op).1 ∧ (step (step s op).1 .copy).2.isOk = true := by decide

/-! ### open findings without a patch: the excluded argument choices do break the invariant -/

/-- a domain axis of another size stored over an axis that constructs span (`SetOK`, second clause) -/
theorem C02_axis_resize_breaks_inv :
    let op := Op.setc false .axis { size := some 4 } (some ⟨"domainaxis", 0⟩) none
    Inv exField ∧ (step exField op).2.isOk = true ∧ ¬ Inv (step exField op).1 ∧ ¬ Admissible exField op := by
  refine ⟨by decide, by decide, by decide, ?_⟩
  intro h
  have := h.2.1 rfl ⟨"domainaxis", 0⟩ { size := some 3 } rfl (by decide)
  rcases this with h1 | h1
  · revert h1; decide
  · exact h1 (Or.inr (by decide))

/-- a cell method that names a domain axis which does not exist (`SetOK`, fourth clause) -/
theorem C02_dangling_cell_method_breaks_inv :
    let op := Op.setc false .cm { cmAxes := [.key ⟨"domainaxis", 9⟩] } none none
    Inv exField ∧ (step exField op).2.isOk = true ∧ ¬ Inv (step exField op).1 ∧ ¬ Admissible exField op := by
  refine ⟨by decide, by decide, by decide, ?_⟩
  intro h
  have := h.2.2.2 rfl (.key ⟨"domainaxis", 9⟩) (by simp)
  revert this; decide

/-- a coordinate reference that names a coordinate which does not exist (`SetOK`, third clause) -/
theorem C02_dangling_reference_breaks_inv :
    let op := Op.setc false .ref { coords := [⟨"auxiliarycoordinate", 9⟩] } none none
    Inv exField ∧ (step exField op).2.isOk = true ∧ ¬ Inv (step exField op).1 ∧ ¬ Admissible exField op := by
  refine ⟨by decide, by decide, by decide, ?_⟩
  intro h
  have := (h.2.2.1 rfl).1 ⟨"auxiliarycoordinate", 9⟩ (by simp)
  revert this; decide

/-- `constructs.replace` with a construct of another shape ("No checks on the axes are done") -/
theorem C02_replace_unchecked_breaks_inv :
    let op := Op.replace ⟨"auxiliarycoordinate", 0⟩ { data := some [5] } none
    Inv exField ∧ (step exField op).2.isOk = true ∧ ¬ Inv (step exField op).1 ∧ ¬ Admissible exField op := by
  refine ⟨by decide, by decide, by decide, ?_⟩
  intro h
  have := (h .aux (by decide)).2.1 [⟨"domainaxis", 0⟩] (by decide)
  revert this; decide

/-- a mutator called on the construct that the field holds (`f.construct(key).set_data(...)`): the container
is not asked (`MutOK` excludes it) -/
theorem C02_direct_mutation_breaks_inv :
    let op := Op.mutate ⟨"auxiliarycoordinate", 0⟩ (.setData [5])
    Inv exField ∧ (step exField op).2.isOk = true ∧ ¬ Inv (step exField op).1 ∧ ¬ Admissible exField op := by
  refine ⟨by decide, by decide, by decide, ?_⟩
  intro h
  have := ((h .aux { data := some [3], bounds := some [3, 2] } { data := some [5], bounds := some [3, 2] }
    (by decide) (by decide)) .aux (by decide)).1
  revert this; decide

-- a mutator that keeps the construct fitting is admissible
example : Admissible exField (.mutate ⟨"auxiliarycoordinate", 0⟩ .delBounds) := by
  intro t c c' hc hm
  have e : (t, c) = (.aux, { data := some [3], bounds := some [3, 2] }) := by
    have : conOf exField ⟨"auxiliarycoordinate", 0⟩ = some (.aux, { data := some [3], bounds := some [3, 2] }) := by decide
    rw [this] at hc; exact (Option.some.inj hc).symm
  cases e
  have e' : c' = { data := some [3] } := by
    have : mutCon .aux { data := some [3], bounds := some [3, 2] } .delBounds = some { data := some [3] } := by decide
    rw [this] at hm; exact (Option.some.inj hm).symm
  subst e'
  intro t' ht'
  have : t' = .aux := by
    have h0 : exField.ctype.get ⟨"auxiliarycoordinate", 0⟩ = some .aux := by decide
    rw [h0] at ht'; exact (Option.some.inj ht').symm
  subst this
  refine ⟨by decide, ?_, ?_, ?_, ?_⟩
  · intro A hA
    have : A = [⟨"domainaxis", 0⟩] := by
      have h0 : replaceAxes exField .aux ⟨"auxiliarycoordinate", 0⟩ none = some [⟨"domainaxis", 0⟩] := by decide
      rw [h0] at hA; exact (Option.some.inj hA).symm
    subst this
    decide
  · intro h; cases h
  · intro h; cases h
  · intro h; cases h

end Cfdm.Props.C02
