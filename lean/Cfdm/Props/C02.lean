import Cfdm.Lemmas.ConstructsStep
/-
C02 — the construct container keeps referential integrity over any history.
Property theorems only.  Model: `Cfdm/Model/Constructs.lean` (`step` = the container with the
proposed patches fixes/C02-*.patch, `stepOld` = the container as coded);
specification: `Cfdm/Spec/Constructs.lean` (`Inv`).

  FULL STATEMENT (what the property demands):
    theorem C02_inv_step (s : St) (op : Op) : Inv s → Inv (step s op).1
    theorem C02_inv_reachable (ops : List Op) : Inv (run init ops)
  It is FALSE for cfdm, also after the proposed patches: `C02_axis_resize_breaks_inv`,
  `C02_dangling_cell_method_breaks_inv`, `C02_dangling_reference_breaks_inv` and
  `C02_replace_unchecked_breaks_inv` below are accepted calls that break `Inv` (open findings without
  a patch).  What is proved is the statement for every other argument choice (`Admissible`): every
  operation of the model, with any arguments, except that for `set_construct` exactly those three classes
  are excluded (`SetOK`: domain axis resized while spanned; cell method / coordinate reference naming a
  missing construct) together with constructs that are inconsistent in themselves (which cfdm's own
  `set_bounds` refuses to build), and for `constructs.replace` the caller must supply what the documented
  absence of checks leaves to him (`ReplaceOK`).
-/
namespace Cfdm.Props.C02
open Cfdm.Constructs

/-- **The empty field satisfies the invariant.** -/
theorem C02_inv_init : Inv init := by decide

example : decide (Inv init) = true := by decide

/-- **Every admissible call — accepted or rejected — preserves the invariant**, for every state,
every operation (set_construct, del_construct, set_data, del_data, set_data_axes, del_data_axes, each
also through the domain view where the API offers it, constructs.replace, copy, subspace, squeeze,
transpose and insert_dimension with and without constructs / in place, convert) and every argument
choice in `Admissible`.
The result state is the state after the call whether the call was accepted or rejected. -/
theorem C02_inv_step_partial (s : St) (op : Op) (h : Inv s) (hok : Admissible s op) : Inv (step s op).1 :=
  (inv_iff_core _).mpr (step_core ((inv_iff_core s).mp h) op hok)

/-- a field with one axis of size 3 spanned by an auxiliary coordinate with bounds, and by the data -/
def exField : St :=
  { cons := [((.axis, ⟨"domainaxis", 0⟩), { size := some 3 }),
             ((.aux, ⟨"auxiliarycoordinate", 0⟩), { data := some [3], bounds := some [3, 2] }),
             ((.cm, ⟨"cellmethod", 0⟩), { cmAxes := [.key ⟨"domainaxis", 0⟩, .name "area"] })],
    ctype := [(⟨"domainaxis", 0⟩, .axis), (⟨"auxiliarycoordinate", 0⟩, .aux), (⟨"cellmethod", 0⟩, .cm)],
    caxes := [(⟨"auxiliarycoordinate", 0⟩, [⟨"domainaxis", 0⟩])],
    data := some [3], dataAxes := some [⟨"domainaxis", 0⟩], fda := some [⟨"domainaxis", 0⟩] }

example : Inv exField := by decide
-- a rejected call (the axis is in use) and an accepted one (through the domain view), both admissible
example : Admissible exField (.delc true ⟨"domainaxis", 0⟩) := trivial
example : (step exField (.delc true ⟨"domainaxis", 0⟩)).2 = .rejected := by decide
example : (step exField (.insdim none 0 true false)).2.isOk = true := by decide
example : Inv (step exField (.insdim none 0 true false)).1 := by decide

/-- **Lifted to every history**: from any state that satisfies the invariant (in particular the empty
field), after any finite sequence of admissible calls (no bound on the length) the invariant holds. -/
theorem C02_inv_reachable_partial (s : St) (ops : List Op) (h : Inv s) (hok : AdmissibleRun s ops) :
    Inv (run s ops) :=
  (inv_iff_core _).mpr (run_core ((inv_iff_core s).mp h) ops hok)

example : AdmissibleRun init [.setc false .axis { size := some 2 } none none, .setd [2] (some [⟨"domainaxis", 0⟩]),
    .transpose none true false, .delc true ⟨"domainaxis", 0⟩] := by
  refine ⟨?_, trivial, trivial, trivial, trivial⟩
  exact ⟨(by decide), (fun _ k old hk => by cases hk), (fun e => by cases e), (fun e => by cases e)⟩

/-- every history of calls that need no admissibility condition at all (no set_construct / replace)
keeps the invariant unconditionally -/
theorem C02_inv_reachable_unconditional (s : St) (ops : List Op) (h : Inv s)
    (hops : ∀ o ∈ ops, Admissible s o ∧ ∀ s', Admissible s' o) : Inv (run s ops) := by
  apply C02_inv_reachable_partial s ops h
  induction ops generalizing s with
  | nil => trivial
  | cons o r ih =>
    exact ⟨(hops o (by simp)).1, ih _ (C02_inv_step_partial s o h (hops o (by simp)).1)
      (fun o' ho' => ⟨(hops o' (by simp [ho'])).2 _, (hops o' (by simp [ho'])).2⟩)⟩

example : ∀ s', Admissible s' (.delc true ⟨"domainaxis", 0⟩) := fun _ => trivial
example : ∀ s', Admissible s' (.sub [(0, 2)]) ∧ Admissible s' (.convert ⟨"auxiliarycoordinate", 0⟩ true) :=
  fun _ => ⟨trivial, trivial⟩
example : (step exField (.sub [(1, 3)])).2.isOk = true ∧ (step exField (.convert ⟨"auxiliarycoordinate", 0⟩ true)).2.isOk = true := by
  decide

/-- **The clauses of the statement, read off the invariant**: in every state that satisfies it, a construct
with recorded axes exists under exactly one type, its axes exist, and their sizes are its shape, the
leading dimensions of its bounds and of its interior ring. -/
theorem C02_inv_axes (s : St) (h : Inv s) (k : Key) (A : List Key) (hk : s.caxes.get k = some A) :
    ∃ t c, s.ctype.get k = some t ∧ s.cons.get (t, k) = some c ∧ AxesExist s A ∧
      (∀ shp, c.shape t = some shp → Fits s A shp ∧
        (∀ b, c.bounds = some b → Fits s A (b.take A.length)) ∧ (∀ r, c.ring = some r → Fits s A (r.take A.length))) := by
  have hc := ((inv_iff_core s).mp h).cax k A hk
  unfold conOf at hc
  cases ht : s.ctype.get k with
  | none => simp [ht] at hc
  | some t =>
    cases hg : s.cons.get (t, k) with
    | none => simp [ht, hg] at hc
    | some c =>
      simp only [ht, hg, Option.map_some] at hc
      refine ⟨t, c, rfl, hg, hc.1, ?_⟩
      intro shp hs
      have h2 := hc.2
      simp only [hs] at h2
      refine ⟨h2.1, fun b hb => ?_, fun r hr => ?_⟩
      · have := h2.2.1; simp only [hb] at this; exact this
      · have := h2.2.2; simp only [hr] at this; exact this

example : exField.caxes.get ⟨"auxiliarycoordinate", 0⟩ = some [⟨"domainaxis", 0⟩] := by decide

/-- in every state that satisfies the invariant, `repr`, `str` and `dump` of the field and of its domain
perform only successful look-ups (through C19's model of the formatters) -/
theorem C02_inv_describe (s : St) (h : Inv s) :
    Cfdm.Describe.describe (toM s false) ≠ none ∧ Cfdm.Describe.describe (toM s true) ≠ none :=
  h.2.2.2.2.2.2.2.2

example : Cfdm.Describe.describe (toM exField false) ≠ none := by decide

/-- **An accepted `del_construct` leaves no reference to the deleted key**, whatever the term maps of the
coordinate references are: the key may be the value of several terms of one coordinate conversion, of terms
of several references, and a coordinate of several references (`ancils` / `coords` are arbitrary lists). -/
theorem C02_del_construct_cleans_references (s : St) (h : Inv s) (view : Bool) (k : Key)
    (hok : (step s (.delc view k)).2.isOk = true) :
    ∀ q c, (step s (.delc view k)).1.cons.get q = some c → q.1 = CType.ref →
      k ∉ c.coords ∧ some k ∉ c.ancils := by
  have hinv := (inv_iff_core _).mp (C02_inv_step_partial s (.delc view k) h trivial)
  -- the deleted key is no longer registered
  have key : ∀ s' o, delConstruct true s view k = (s', Out.ok o) → s'.ctype.get k = none := by
    intro s' o hd
    unfold delConstruct at hd
    repeat' split at hd
    all_goals first
      | (simp at hd; done)
      | (simp only [Prod.mk.injEq] at hd; obtain ⟨rfl, _⟩ := hd; simp [pop, cleanRefs, Dict.get_del])
  have hgone : (step s (.delc view k)).1.ctype.get k = none := by
    have e : step s (.delc view k) = delConstruct true s view k := rfl
    rw [e] at hok ⊢
    cases hd : delConstruct true s view k with
    | mk s' o =>
      rw [hd] at hok
      cases o with
      | rejected => simp [Out.isOk] at hok
      | ok ko => exact key s' ko hd
  intro q c hq hr
  have hn := hinv.refs q c hq hr
  refine ⟨fun hx => ?_, fun hx => ?_⟩
  · rcases hn.1 k hx with h1 | h1
    · cases hg : (step s (.delc view k)).1.cons.get (.dim, k) with
      | none => simp [hg] at h1
      | some c0 => have := hinv.tos _ c0 hg; simp only at this; rw [hgone] at this; cases this
    · cases hg : (step s (.delc view k)).1.cons.get (.aux, k) with
      | none => simp [hg] at h1
      | some c0 => have := hinv.tos _ c0 hg; simp only at this; rw [hgone] at this; cases this
  · have h1 := hn.2 (some k) hx
    simp only at h1
    cases hg : (step s (.delc view k)).1.cons.get (.dan, k) with
    | none => simp [hg] at h1
    | some c0 => have := hinv.tos _ c0 hg; simp only at this; rw [hgone] at this; cases this

/-- one domain ancillary under TWO terms (`a`, `b`) of one coordinate conversion and under a term of a
second reference, which also shares the coordinate -/
def exShared : St :=
  { cons := [((.axis, ⟨"domainaxis", 0⟩), { size := some 3 }),
             ((.dim, ⟨"dimensioncoordinate", 0⟩), { data := some [3] }),
             ((.dan, ⟨"domainancillary", 0⟩), { data := some [3] }),
             ((.dan, ⟨"domainancillary", 1⟩), { data := some [3] }),
             ((.ref, ⟨"coordinatereference", 0⟩),
                { coords := [⟨"dimensioncoordinate", 0⟩], terms := ["a", "b", "orog"],
                  ancils := [some ⟨"domainancillary", 0⟩, some ⟨"domainancillary", 0⟩, some ⟨"domainancillary", 1⟩] }),
             ((.ref, ⟨"coordinatereference", 1⟩),
                { coords := [⟨"dimensioncoordinate", 0⟩], terms := ["a"], ancils := [some ⟨"domainancillary", 0⟩] })],
    ctype := [(⟨"domainaxis", 0⟩, .axis), (⟨"dimensioncoordinate", 0⟩, .dim), (⟨"domainancillary", 0⟩, .dan),
              (⟨"domainancillary", 1⟩, .dan), (⟨"coordinatereference", 0⟩, .ref), (⟨"coordinatereference", 1⟩, .ref)],
    caxes := [(⟨"dimensioncoordinate", 0⟩, [⟨"domainaxis", 0⟩]), (⟨"domainancillary", 0⟩, [⟨"domainaxis", 0⟩]),
              (⟨"domainancillary", 1⟩, [⟨"domainaxis", 0⟩])] }

example : Inv exShared := by decide
-- both routes accept, every term of every reference is reset, the other term is kept
example : ∀ view, (step exShared (.delc view ⟨"domainancillary", 0⟩)).2.isOk = true ∧
    ((step exShared (.delc view ⟨"domainancillary", 0⟩)).1.cons.get (.ref, ⟨"coordinatereference", 0⟩)).map (·.ancils)
      = some [none, none, some ⟨"domainancillary", 1⟩] ∧
    ((step exShared (.delc view ⟨"domainancillary", 0⟩)).1.cons.get (.ref, ⟨"coordinatereference", 1⟩)).map (·.ancils)
      = some [none] := by decide
-- a coordinate shared by two references is removed from both
example : ∀ view, ((step exShared (.delc view ⟨"dimensioncoordinate", 0⟩)).1.cons.live.filter (fun p => p.1.1 = .ref)).map (·.2.coords)
    = [[], []] := by decide

/-- a rejected `set_construct` leaves the container exactly as it was -/
theorem C02_set_rejected_unchanged (s s' : St) (view : Bool) (t : CType) (c : Con) (key : Option Key)
    (axes : Option (List Key)) (h : step s (.setc view t c key axes) = (s', .rejected)) : s' = s := by
  unfold step stepP at h
  simp only at h
  unfold setConstruct at h
  split at h
  · simp_all
  split at h
  · simp_all
  · unfold storeAt at h
    split at h
    · split at h
      · split at h <;> simp_all
      · simp_all
    · split at h <;> simp_all

/-- a rejected `set_data` (wrong shape, non-existent axis) or `set_data_axes` leaves data, data axes and
everything else exactly as they were -/
theorem C02_set_data_rejected_unchanged (s s' : St) (shp : List Nat) (axes : Option (List Key)) :
    (step s (.setd shp axes) = (s', .rejected) → s' = s) ∧
    (∀ A, step s (.setda A) = (s', .rejected) → s' = s) := by
  have hda : ∀ A sh s'', setDataAxes true s A sh = (s'', Out.rejected) → s'' = s := by
    intro A sh s'' h
    unfold setDataAxes at h
    split at h <;> split at h <;> simp_all
  refine ⟨fun h => ?_, fun A h => hda A s.data s' h⟩
  unfold step stepP at h
  simp only at h
  unfold setData at h
  split at h
  · split at h <;> simp_all
  · simp_all

example : step exField (.setd [4] none) = (exField, .rejected) ∧
    step exField (.setd [3] (some [⟨"domainaxis", 9⟩])) = (exField, .rejected) := by decide

example : step exField (.setc false .aux { data := some [4] } none (some [⟨"domainaxis", 0⟩])) = (exField, .rejected) := by
  decide

/-! ### the code as it is: each proposed patch repairs an accepted call that breaks the invariant -/

/-- `new_identifier` (unpatched) returns `domainaxis1` although an auxiliary coordinate was stored under
that identifier: the key ends up under two types.  Patched: `domainaxis2`. -/
theorem C02_old_new_identifier_counterexample :
    let s : St := { cons := [((.axis, ⟨"domainaxis", 0⟩), { size := some 3 }), ((.aux, ⟨"domainaxis", 1⟩), { data := some [3] })],
                    ctype := [(⟨"domainaxis", 0⟩, .axis), (⟨"domainaxis", 1⟩, .aux)],
                    caxes := [(⟨"domainaxis", 1⟩, [⟨"domainaxis", 0⟩])] }
    let op := Op.setc false .axis { size := some 4 } none none
    Inv s ∧ (stepOld s op).2.isOk = true ∧ ¬ Inv (stepOld s op).1 ∧ Inv (step s op).1 := by decide

/-- `set_construct(c, key=<existing key>)` without axes (unpatched) keeps the recorded axes although the new
construct has another shape.  Patched: rejected. -/
theorem C02_old_set_construct_keeps_axes_counterexample :
    let op := Op.setc false .aux { data := some [4] } (some ⟨"auxiliarycoordinate", 0⟩) none
    Inv exField ∧ (stepOld exField op).2.isOk = true ∧ ¬ Inv (stepOld exField op).1 ∧
      (step exField op).2 = .rejected := by decide

/-- `f.domain.del_construct(axis)` (unpatched) deletes a domain axis that the field's data span (here after
the coordinate and the cell method were removed).  Patched: rejected. -/
theorem C02_old_domain_view_delete_counterexample :
    let s : St := { cons := [((.axis, ⟨"domainaxis", 0⟩), { size := some 3 })], ctype := [(⟨"domainaxis", 0⟩, .axis)],
                    data := some [3], dataAxes := some [⟨"domainaxis", 0⟩], fda := some [⟨"domainaxis", 0⟩] }
    let op := Op.delc true ⟨"domainaxis", 0⟩
    Inv s ∧ (stepOld s op).2.isOk = true ∧ ¬ Inv (stepOld s op).1 ∧ (step s op).2 = .rejected := by decide

/-- the same through a field ancillary, which the domain view does not see -/
theorem C02_old_domain_view_delete_ancillary_counterexample :
    let s : St := { cons := [((.axis, ⟨"domainaxis", 0⟩), { size := some 3 }), ((.fan, ⟨"fieldancillary", 0⟩), { data := some [3] })],
                    ctype := [(⟨"domainaxis", 0⟩, .axis), (⟨"fieldancillary", 0⟩, .fan)],
                    caxes := [(⟨"fieldancillary", 0⟩, [⟨"domainaxis", 0⟩])] }
    let op := Op.delc true ⟨"domainaxis", 0⟩
    Inv s ∧ (stepOld s op).2.isOk = true ∧ ¬ Inv (stepOld s op).1 ∧ (step s op).2 = .rejected := by decide

/-- `Field.set_data_axes` on a field without data (unpatched) accepts an axis that does not exist. -/
theorem C02_old_set_data_axes_counterexample :
    let op := Op.setda [⟨"domainaxis", 9⟩]
    Inv init ∧ (stepOld init op).2.isOk = true ∧ ¬ Inv (stepOld init op).1 ∧ (step init op).2 = .rejected := by decide

/-- `insert_dimension(constructs=True)` (unpatched) inserts the new axis into the dimension coordinates too:
they become 2-d, which `DimensionCoordinate.set_data` itself refuses - the field can then neither be
copied, subspaced nor squeezed.  Patched: dimension coordinates stay one-dimensional. -/
theorem C02_old_insert_dimension_counterexample :
    let s : St := { cons := [((.axis, ⟨"domainaxis", 0⟩), { size := some 3 }),
                             ((.dim, ⟨"dimensioncoordinate", 0⟩), { data := some [3] })],
                    ctype := [(⟨"domainaxis", 0⟩, .axis), (⟨"dimensioncoordinate", 0⟩, .dim)],
                    caxes := [(⟨"dimensioncoordinate", 0⟩, [⟨"domainaxis", 0⟩])] }
    let op := Op.insdim none 0 true false
    Inv s ∧ (stepOld s op).2.isOk = true ∧ ¬ Inv (stepOld s op).1 ∧
      (stepOld (stepOld s op).1 .copy).2 = .rejected ∧
      (step s op).2.isOk = true ∧ Inv (step s op).1 ∧ (step (step s op).1 .copy).2.isOk = true := by decide

/-! ### open findings without a patch: the excluded argument choices do break the invariant -/

/-- a domain axis of another size stored over an axis that constructs span (`SetOK`, second clause) -/
theorem C02_axis_resize_breaks_inv :
    let op := Op.setc false .axis { size := some 4 } (some ⟨"domainaxis", 0⟩) none
    Inv exField ∧ (step exField op).2.isOk = true ∧ ¬ Inv (step exField op).1 ∧ ¬ Admissible exField op := by
  refine ⟨by decide, by decide, by decide, ?_⟩
  intro h
  have := h.2.1 rfl ⟨"domainaxis", 0⟩ { size := some 3 } rfl (by decide)
  rcases this with h1 | h1
  · revert h1; decide
  · exact h1 (Or.inr (by decide))

/-- a cell method that names a domain axis which does not exist (`SetOK`, fourth clause) -/
theorem C02_dangling_cell_method_breaks_inv :
    let op := Op.setc false .cm { cmAxes := [.key ⟨"domainaxis", 9⟩] } none none
    Inv exField ∧ (step exField op).2.isOk = true ∧ ¬ Inv (step exField op).1 ∧ ¬ Admissible exField op := by
  refine ⟨by decide, by decide, by decide, ?_⟩
  intro h
  have := h.2.2.2 rfl (.key ⟨"domainaxis", 9⟩) (by simp)
  revert this; decide

/-- a coordinate reference that names a coordinate which does not exist (`SetOK`, third clause) -/
theorem C02_dangling_reference_breaks_inv :
    let op := Op.setc false .ref { coords := [⟨"auxiliarycoordinate", 9⟩] } none none
    Inv exField ∧ (step exField op).2.isOk = true ∧ ¬ Inv (step exField op).1 ∧ ¬ Admissible exField op := by
  refine ⟨by decide, by decide, by decide, ?_⟩
  intro h
  have := (h.2.2.1 rfl).1 ⟨"auxiliarycoordinate", 9⟩ (by simp)
  revert this; decide

/-- `constructs.replace` with a construct of another shape ("No checks on the axes are done") -/
theorem C02_replace_unchecked_breaks_inv :
    let op := Op.replace ⟨"auxiliarycoordinate", 0⟩ { data := some [5] } none
    Inv exField ∧ (step exField op).2.isOk = true ∧ ¬ Inv (step exField op).1 ∧ ¬ Admissible exField op := by
  refine ⟨by decide, by decide, by decide, ?_⟩
  intro h
  have := (h .aux (by decide)).2.1 [⟨"domainaxis", 0⟩] (by decide)
  revert this; decide

end Cfdm.Props.C02
