import Cfdm.Lemmas.Indexing
import Cfdm.Lemmas.LastSat
/-
C03 — indexing, assignment and subspacing.  Property theorems only.
-/
namespace Cfdm.Props.C03
open Cfdm.PySlice Cfdm.Indexing Cfdm.Arr

/-- Every position a slice selects is a valid position of the axis, whatever the
signs of start/stop/step and however far out of range they are. -/
theorem C03_slice_inrange (a b c : Option Int) (n : Nat) (hc : c ≠ some 0) (p : Int)
    (hp : p ∈ slicePositions a b c n) : 0 ≤ p ∧ p < n :=
  slicePositions_mem a b c n hc p hp

/-- Every position a well-formed selector selects is a valid position. -/
theorem C03_sel_inrange (n : Nat) (s : Sel) (h : s.wf n = true) (p : Int)
    (hp : p ∈ s.positions n) : 0 ≤ p ∧ p < n := by
  cases s with
  | slice a b c =>
    simp only [Sel.wf, bne_iff_ne, ne_eq] at h
    exact slicePositions_mem a b c n h p hp
  | list l =>
    simp only [Sel.wf, List.all_eq_true] at h
    simp only [Sel.positions, List.mem_map] at hp
    obtain ⟨i, hi, rfl⟩ := hp
    exact norm_bounds n i (h i hi)

/-- `netcdf_indexer._index`: applying the list axes one at a time gives the
orthogonal (numpy-per-axis) result, **whatever order** the `argmin` heuristic
picks (any duplicate-free order covering every axis). -/
theorem C03_getitem_order_irrelevant {α} (A : Arr α) (ps : List (List Nat)) (order : List Nat)
    (hps : ps.length = A.shape.length) (hnd : order.Nodup)
    (hcover : ∀ k, k ∈ order ↔ k < ps.length) :
    Eqv A.shape.length (seqTake A ps order) (takeAll A ps) := by
  have h := seqTake_general A ps hps order [] A
    (by
      constructor
      · simp only [takeSome, maskPs]
        apply List.ext_getElem?
        intro i
        by_cases hi : i < A.shape.length
        · simp [hps, hi, ext]
        · simp [hps, hi]
      · intro idx hidx
        simp only [takeSome, maskPs]
        congr 1
        apply List.ext_getElem?
        intro i
        by_cases hi : i < idx.length
        · simp [hps, hi, hidx ▸ hi, pick]
        · simp [hps, hi, hidx ▸ hi])
    (by intro k _; simp) hnd
  have hm : maskPs ps (order.reverse ++ []) = ps.map some := by
    apply List.ext_getElem?
    intro i
    by_cases hi : i < ps.length
    · have : i ∈ order := (hcover i).mpr hi
      simp [maskPs, hi, this, List.getD_eq_getElem?_getD]
    · simp [maskPs, hi]
  rw [hm] at h
  exact h

/-- `_set_subspace`: when no consecutive pair repeats a position the pieces
cover exactly the listed positions, in order (this is where the unfixed code
failed for a pair descending to element 0). -/
theorem C03_pieces (n : Nat) (l : List Int) (h : l.all (inRange n) = true)
    (hd : pairsDistinct n l = true) :
    (pairPieces n l).flatMap (Piece.positions n) = l.map (norm n) := by
  fun_induction pairPieces n l with
  | case1 => rfl
  | case2 a =>
    simp only [List.all_cons, List.all_nil, Bool.and_true] at h
    have hb := norm_bounds n a h
    simp [single_positions n _ hb.1 hb.2]
  | case3 a b rest ih =>
    simp only [List.all_cons, Bool.and_eq_true] at h
    obtain ⟨ha, hb, hr⟩ := h
    simp only [pairsDistinct, Bool.and_eq_true, bne_iff_ne, ne_eq] at hd
    have hab := norm_bounds n a ha
    have hbb := norm_bounds n b hb
    simp only [List.flatMap_cons, List.map_cons]
    rw [ih (by simpa using hr) hd.2]
    simp only [hd.1, if_false]
    rw [pairSlice_positions n _ _ hab.1 hab.2 hbb.1 hbb.2 hd.1]
    rfl

/-- `_set_subspace` along one list axis, *any* in-range list (negative, unsorted,
repeated): the final content of the axis is that of the sequential assignment
`for k: a[l[k]] = v[k]` (last write wins). -/
theorem C03_setitem_axis (n : Nat) (l : List Int) (h : l.all (inRange n) = true) (pos : Int) :
    lastWrite (algoWrites n l) pos = lastWrite (specWrites n l) pos := by
  have := algoW_specW n l h l.length 0 (by simp) pos
  simpa [algoW, specW, algoWrites, specWrites] using this

/-- `lastSat` is `find?` on the reversed list, so `lastWrite` is a `lastSat`. -/
theorem lastSat_eq_reverse_find {α : Type} (p : α → Bool) (l : List α) :
    lastSat p l = l.reverse.find? p := by
  induction l with
  | nil => rfl
  | cons x xs ih =>
    simp only [lastSat, List.reverse_cons, List.find?_append, ih]
    cases h : List.find? p xs.reverse <;> simp [List.find?]
    split <;> simp_all

theorem lastSat_of_lastWrite (A B : List W) (pos : Int)
    (h : lastWrite A pos = lastWrite B pos) : lastSat (qpos pos) A = lastSat (qpos pos) B := by
  unfold lastWrite at h
  have hA := lastSat_eq_reverse_find (qpos pos) A
  have hB := lastSat_eq_reverse_find (qpos pos) B
  have hq : (fun w : Int × Nat => w.1 == pos) = qpos pos := rfl
  rw [hq, ← hA, ← hB] at h
  cases ha : lastSat (qpos pos) A with
  | none =>
    cases hb : lastSat (qpos pos) B with
    | none => rfl
    | some w => rw [ha, hb] at h; simp at h
  | some w =>
    cases hb : lastSat (qpos pos) B with
    | none => rw [ha, hb] at h; simp at h
    | some v =>
      rw [ha, hb] at h
      simp only [Option.map_some, Option.some.injEq] at h
      have hw := lastSat_sat _ _ _ ha
      have hv := lastSat_sat _ _ _ hb
      simp only [qpos, beq_iff_eq] at hw hv
      congr 1
      exact Prod.ext (hw.trans hv.symm) h

/-- **N-d assignment, full strength.**  `ax` lists, per axis, the target position, the
groups of writes `_set_subspace` performs on that axis (one group per piece) and the
specification's writes (`value[k] → position l[k]`, in order).  If on every axis the
piecewise writes and the sequential writes leave the same final content (which
`C03_setitem_axis` proves for every in-range list, and which is trivial for slice
axes), then the element that finally lands on **any** target `t` under the code's
order of writes — Cartesian product of pieces, then row-major inside each piece — is
the one that numpy's sequential orthogonal assignment puts there (last write wins),
for any number of axes and any lists. -/
theorem C03_setitem_nd (ax : List (Int × List (List W) × List W))
    (h : ∀ a ∈ ax, ∀ pos, lastWrite a.2.1.flatten pos = lastWrite a.2.2 pos) :
    lastSat (matchAll (ax.map (fun a => qpos a.1))) (algoND (ax.map (·.2.1))) =
    lastSat (matchAll (ax.map (fun a => qpos a.1))) (product (ax.map (·.2.2))) := by
  have h1 := lastSat_algoND (ax.map (fun a => (a.1, a.2.1)))
  have h2 := lastSat_product (ax.map (fun a => (qpos a.1, a.2.2)))
  simp only [List.map_map, Function.comp_def] at h1 h2
  rw [h1, h2]
  congr 1
  apply List.map_congr_left
  intro a ha
  exact lastSat_of_lastWrite _ _ _ (h a ha a.1)

/-- The per-axis hypothesis of `C03_setitem_nd` holds for the groups the model builds
from any in-range list index. -/
theorem C03_listGroups_ok (n : Nat) (l : List Int) (h : l.all (inRange n) = true) (pos : Int) :
    lastWrite (listGroups n l).flatten pos = lastWrite (specWrites n l) pos := by
  have := C03_setitem_axis n l h pos
  simpa [listGroups, algoWrites, List.flatten_eq_flatMap, List.flatMap_map] using this

/-- Non-vacuity: two list axes, one with a pair descending to 0 and a repeated pair. -/
example : (lastSat (matchAll [qpos 0, qpos 2])
    (algoND [listGroups 3 [1, 0, 0], listGroups 4 [2, 2, -2]])).map (·.map Prod.snd) = some [2, 2] := by
  decide

/-- The unfixed code is wrong: on an axis of size 5 the pair `(1, 0)` selects nothing. -/
theorem C03_old_code_counterexample :
    (pairPiecesOld 5 [1, 0]).flatMap (Piece.positions 5) = [] := by decide

/-- Non-vacuity: a concrete unsorted, negative, repeated list meets the hypotheses. -/
example : ([3, -1, 2, 2, 0] : List Int).all (inRange 5) = true := by decide
example : pairsDistinct 5 [3, -1, 1, 0, 2] = true := by decide
example : (pairPieces 5 [3, -1, 1, 0, 2]).flatMap (Piece.positions 5) = [3, 4, 1, 0, 2] := by decide

/-- Bounds reversal rule, slices: for a slice selecting at least two cells, the
rule reverses the vertex axis exactly when the selected cells are in decreasing
order. -/
theorem C03_bounds_reversal_slice (a b : Option Int) (c : Int) (n : Nat) (hc : c ≠ 0)
    (p q : Int) (rest : List Int) (hpos : slicePositions a b (some c) n = p :: q :: rest) :
    boundsReversed (.slice a b (some c)) = decide (q < p) := by
  simp only [boundsReversed]
  simp only [slicePositions, Option.getD, rangeList] at hpos
  generalize (adjust a b c n).1 = s at hpos
  generalize (adjust a b c n).2 = e at hpos
  cases hl : rangeLen s e c with
  | zero => simp [hl] at hpos
  | succ k =>
    cases k with
    | zero => simp [hl, List.range_succ] at hpos
    | succ j =>
      rw [hl] at hpos
      simp only [List.range_succ_eq_map, List.map_cons, List.map_map, List.cons.injEq] at hpos
      obtain ⟨hp, hq, _⟩ := hpos
      subst hp
      have : q = s + c := by rw [← hq]; simp
      subst this
      by_cases h : c < 0
      · simp [h]
      · have : 0 < c := by omega
        simp [h]

end Cfdm.Props.C03
