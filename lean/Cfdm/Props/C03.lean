import Cfdm.Lemmas.Indexing
import Cfdm.Lemmas.LastSat
import Cfdm.Lemmas.IndexBackend
import Cfdm.Lemmas.FieldSubspace
/-
C03 — indexing, assignment and subspacing.  Property theorems only.
-/
namespace Cfdm.Props.C03
open Cfdm.PySlice Cfdm.Indexing Cfdm.Arr

/-- Every position a slice selects is a valid position of the axis, whatever the
signs of start/stop/step and however far out of range they are. -/
theorem C03_slice_inrange (a b c : Option Int) (n : Nat) (hc : c ≠ some 0) (p : Int)
    (hp : p ∈ slicePositions a b c n) : 0 ≤ p ∧ p < n :=
  slicePositions_mem a b c n hc p hp

/-- Every position a well-formed selector selects is a valid position. -/
theorem C03_sel_inrange (n : Nat) (s : Sel) (h : s.wf n = true) (p : Int)
    (hp : p ∈ s.positions n) : 0 ≤ p ∧ p < n := by
  cases s with
  | slice a b c =>
    simp only [Sel.wf, bne_iff_ne, ne_eq] at h
    exact slicePositions_mem a b c n h p hp
  | list l =>
    simp only [Sel.wf, List.all_eq_true] at h
    simp only [Sel.positions, List.mem_map] at hp
    obtain ⟨i, hi, rfl⟩ := hp
    exact norm_bounds n i (h i hi)

/-- `netcdf_indexer._index`: applying the list axes one at a time gives the
orthogonal (numpy-per-axis) result, **whatever order** the `argmin` heuristic
picks (any duplicate-free order covering every axis). -/
theorem C03_getitem_order_irrelevant {α} (A : Arr α) (ps : List (List Nat)) (order : List Nat)
    (hps : ps.length = A.shape.length) (hnd : order.Nodup)
    (hcover : ∀ k, k ∈ order ↔ k < ps.length) :
    Eqv A.shape.length (seqTake A ps order) (takeAll A ps) := by
  have h := seqTake_general A ps hps order [] A
    (by
      constructor
      · simp only [takeSome, maskPs]
        apply List.ext_getElem?
        intro i
        by_cases hi : i < A.shape.length
        · simp [hps, hi, ext]
        · simp [hps, hi]
      · intro idx hidx
        simp only [takeSome, maskPs]
        congr 1
        apply List.ext_getElem?
        intro i
        by_cases hi : i < idx.length
        · simp [hps, hi, hidx ▸ hi, pick]
        · simp [hps, hi, hidx ▸ hi])
    (by intro k _; simp) hnd
  have hm : maskPs ps (order.reverse ++ []) = ps.map some := by
    apply List.ext_getElem?
    intro i
    by_cases hi : i < ps.length
    · have : i ∈ order := (hcover i).mpr hi
      simp [maskPs, hi, this, List.getD_eq_getElem?_getD]
    · simp [maskPs, hi]
  rw [hm] at h
  exact h

/-- `_set_subspace`: when no consecutive pair repeats a position the pieces
cover exactly the listed positions, in order (this is where the unfixed code
failed for a pair descending to element 0). -/
theorem C03_pieces (n : Nat) (l : List Int) (h : l.all (inRange n) = true)
    (hd : pairsDistinct n l = true) :
    (pairPieces n l).flatMap (Piece.positions n) = l.map (norm n) := by
  fun_induction pairPieces n l with
  | case1 => rfl
  | case2 a =>
    simp only [List.all_cons, List.all_nil, Bool.and_true] at h
    have hb := norm_bounds n a h
    simp [single_positions n _ hb.1 hb.2]
  | case3 a b rest ih =>
    simp only [List.all_cons, Bool.and_eq_true] at h
    obtain ⟨ha, hb, hr⟩ := h
    simp only [pairsDistinct, Bool.and_eq_true, bne_iff_ne, ne_eq] at hd
    have hab := norm_bounds n a ha
    have hbb := norm_bounds n b hb
    simp only [List.flatMap_cons, List.map_cons]
    rw [ih (by simpa using hr) hd.2]
    simp only [hd.1, if_false]
    rw [pairSlice_positions n _ _ hab.1 hab.2 hbb.1 hbb.2 hd.1]
    rfl

/-- `_set_subspace` along one list axis, *any* in-range list (negative, unsorted,
repeated): the final content of the axis is that of the sequential assignment
`for k: a[l[k]] = v[k]` (last write wins). -/
theorem C03_setitem_axis (n : Nat) (l : List Int) (h : l.all (inRange n) = true) (pos : Int) :
    lastWrite (algoWrites n l) pos = lastWrite (specWrites n l) pos := by
  have := algoW_specW n l h l.length 0 (by simp) pos
  simpa [algoW, specW, algoWrites, specWrites] using this

/-- `lastSat` is `find?` on the reversed list, so `lastWrite` is a `lastSat`. -/
theorem lastSat_eq_reverse_find {α : Type} (p : α → Bool) (l : List α) :
    lastSat p l = l.reverse.find? p := by
  induction l with
  | nil => rfl
  | cons x xs ih =>
    simp only [lastSat, List.reverse_cons, List.find?_append, ih]
    cases h : List.find? p xs.reverse <;> simp [List.find?]
    split <;> simp_all

theorem lastSat_of_lastWrite (A B : List W) (pos : Int)
    (h : lastWrite A pos = lastWrite B pos) : lastSat (qpos pos) A = lastSat (qpos pos) B := by
  unfold lastWrite at h
  have hA := lastSat_eq_reverse_find (qpos pos) A
  have hB := lastSat_eq_reverse_find (qpos pos) B
  have hq : (fun w : Int × Nat => w.1 == pos) = qpos pos := rfl
  rw [hq, ← hA, ← hB] at h
  cases ha : lastSat (qpos pos) A with
  | none =>
    cases hb : lastSat (qpos pos) B with
    | none => rfl
    | some w => rw [ha, hb] at h; simp at h
  | some w =>
    cases hb : lastSat (qpos pos) B with
    | none => rw [ha, hb] at h; simp at h
    | some v =>
      rw [ha, hb] at h
      simp only [Option.map_some, Option.some.injEq] at h
      have hw := lastSat_sat _ _ _ ha
      have hv := lastSat_sat _ _ _ hb
      simp only [qpos, beq_iff_eq] at hw hv
      congr 1
      exact Prod.ext (hw.trans hv.symm) h

/-- **N-d assignment, full strength.**  `ax` lists, per axis, the target position, the
groups of writes `_set_subspace` performs on that axis (one group per piece) and the
specification's writes (`value[k] → position l[k]`, in order).  If on every axis the
piecewise writes and the sequential writes leave the same final content (which
`C03_setitem_axis` proves for every in-range list, and which is trivial for slice
axes), then the element that finally lands on **any** target `t` under the code's
order of writes — Cartesian product of pieces, then row-major inside each piece — is
the one that numpy's sequential orthogonal assignment puts there (last write wins),
for any number of axes and any lists. -/
theorem C03_setitem_nd (ax : List (Int × List (List W) × List W))
    (h : ∀ a ∈ ax, ∀ pos, lastWrite a.2.1.flatten pos = lastWrite a.2.2 pos) :
    lastSat (matchAll (ax.map (fun a => qpos a.1))) (algoND (ax.map (·.2.1))) =
    lastSat (matchAll (ax.map (fun a => qpos a.1))) (product (ax.map (·.2.2))) := by
  have h1 := lastSat_algoND (ax.map (fun a => (a.1, a.2.1)))
  have h2 := lastSat_product (ax.map (fun a => (qpos a.1, a.2.2)))
  simp only [List.map_map, Function.comp_def] at h1 h2
  rw [h1, h2]
  congr 1
  apply List.map_congr_left
  intro a ha
  exact lastSat_of_lastWrite _ _ _ (h a ha a.1)

/-- **Values and masks.**  Whatever the elements are — in particular `β = Option α`, an element
with its mask, `none` being `numpy.ma.masked` — the element finally found on any target after
`_set_subspace`'s writes is the one numpy's sequential orthogonal assignment leaves there: the
assigned value's element (masked or not) of the last write, or the original element (masked or
not) if the target is not selected.  So a masked value element masks its target, an unmasked one
unmasks it, and `cfdm.masked` (a value whose only element is `none`) masks exactly the selection. -/
theorem C03_setitem_values_and_mask {β : Type} (orig : β) (value : List Nat → β)
    (ax : List (Int × List (List W) × List W))
    (h : ∀ a ∈ ax, ∀ pos, lastWrite a.2.1.flatten pos = lastWrite a.2.2 pos) :
    finalElem orig value (matchAll (ax.map (fun a => qpos a.1))) (algoND (ax.map (·.2.1))) =
    finalElem orig value (matchAll (ax.map (fun a => qpos a.1))) (product (ax.map (·.2.2))) := by
  unfold finalElem
  rw [C03_setitem_nd ax h]

/-- Non-vacuity: the value `[some 7, none, some 9]` (middle element masked) assigned through the
list `[1, 0, 0]` on an unmasked axis of 3: position 0 ends with `some 9` (last write), position 1
with `some 7`, position 2 keeps the original. -/
example : (fun t => finalElem (some 100) (fun i => [some 7, none, some 9].getD (i.headD 0) none)
      (matchAll [qpos t]) (algoND [listGroups 3 [1, 0, 0]])) <$> [0, 1, 2] =
    [some 9, some 7, some 100] := by decide

/-- The per-axis hypothesis of `C03_setitem_nd` holds for the groups the model builds
from any in-range list index. -/
theorem C03_listGroups_ok (n : Nat) (l : List Int) (h : l.all (inRange n) = true) (pos : Int) :
    lastWrite (listGroups n l).flatten pos = lastWrite (specWrites n l) pos := by
  have := C03_setitem_axis n l h pos
  simpa [listGroups, algoWrites, List.flatten_eq_flatMap, List.flatMap_map] using this

/-- Non-vacuity: two list axes, one with a pair descending to 0 and a repeated pair. -/
example : (lastSat (matchAll [qpos 0, qpos 2])
    (algoND [listGroups 3 [1, 0, 0], listGroups 4 [2, 2, -2]])).map (·.map Prod.snd) = some [2, 2] := by
  decide

/-- The unfixed code is wrong: on an axis of size 5 the pair `(1, 0)` selects nothing. -/
theorem C03_old_code_counterexample :
    (pairPiecesOld 5 [1, 0]).flatMap (Piece.positions 5) = [] := by decide

/-- Non-vacuity: a concrete unsorted, negative, repeated list meets the hypotheses. -/
example : ([3, -1, 2, 2, 0] : List Int).all (inRange 5) = true := by decide
example : pairsDistinct 5 [3, -1, 1, 0, 2] = true := by decide
example : (pairPieces 5 [3, -1, 1, 0, 2]).flatMap (Piece.positions 5) = [3, 4, 1, 0, 2] := by decide

/-- Bounds reversal rule, slices: for a slice selecting at least two cells, the
rule reverses the vertex axis exactly when the selected cells are in decreasing
order. -/
theorem C03_bounds_reversal_slice (a b : Option Int) (c : Int) (n : Nat) (hc : c ≠ 0)
    (p q : Int) (rest : List Int) (hpos : slicePositions a b (some c) n = p :: q :: rest) :
    boundsReversed (.slice a b (some c)) = decide (q < p) := by
  simp only [boundsReversed]
  simp only [slicePositions, Option.getD, rangeList] at hpos
  generalize (adjust a b c n).1 = s at hpos
  generalize (adjust a b c n).2 = e at hpos
  cases hl : rangeLen s e c with
  | zero => simp [hl] at hpos
  | succ k =>
    cases k with
    | zero => simp [hl, List.range_succ] at hpos
    | succ j =>
      rw [hl] at hpos
      simp only [List.range_succ_eq_map, List.map_cons, List.map_map, List.cons.injEq] at hpos
      obtain ⟨hp, hq, _⟩ := hpos
      subst hp
      have : q = s + c := by rw [← hq]; simp
      subst this
      by_cases h : c < 0
      · simp [h]
      · have : 0 < c := by omega
        simp [h]

/-- `netcdf_indexer.index_shape` (floating-point `abs((stop - start) / step)` rounded up, here in
integer arithmetic) is the number of selected positions, for every slice on every axis size. -/
theorem C03_index_shape (a b c : Option Int) (n : Nat) (hc : c ≠ some 0) :
    indexShapeSlice a b c n = (slicePositions a b c n).length :=
  Cfdm.IndexBackend.indexShapeSlice_eq a b c n hc

example : indexShapeSlice (some 7) (some 1) (some (-3)) 10 = 2 := by decide
example : indexShapeSlice (some (-20)) none (some 4) 9 = 3 := by decide

/-! ### Variables that are not natively orthogonal (h5netcdf / h5py): `_variable_subspace` -/

section Backend
open Cfdm.IndexBackend

/-- **Negative-step slice → ascending read + reversal.**  For every axis size and every
start/stop/negative step (any sign, any distance out of range), the slice the code hands to the
library — anchored on the LAST selected element — followed by `[::-1]` in memory selects exactly
the positions of the original slice, in its order; and what goes to the library has a positive
step (h5py accepts it). -/
theorem C03_negstep_read (a b : Option Int) (c : Int) (n : Nat) (hc : c < 0) :
    delivered n (convSlice a b (some c) n) = posNat n (.slice a b (some c)) ∧
    h5Accepts n (convSlice a b (some c) n).read = true :=
  ⟨convSlice_delivered a b (some c) n (by simp; omega), convSlice_accepted a b (some c) n (by simp; omega)⟩

/-- Non-vacuity: `7:1:-3` on an axis of 10 selects 7, 4; `|step|` does not divide the span, the
read is `4:8:3`. -/
example : convSlice (some 7) (some 1) (some (-3)) 10 =
    ⟨.slice (some 4) (some 8) (some 3), some (.slice none none (some (-1)))⟩ := by decide
example : delivered 10 (convSlice (some 7) (some 1) (some (-3)) 10) = [7, 4] := by decide
example : delivered 5 (convSlice (some (-7)) none (some (-2)) 5) = [] := by decide

/-- Why the anchoring matters: swapping the adjusted bounds (`slice(stop+1, start+1, -step)`)
selects other elements as soon as `|step|` does not divide the span. -/
theorem C03_naive_conversion_counterexample :
    delivered 10 (convSliceNaive (some 7) (some 1) (-3) 10) = [5, 2] ∧
    posNat 10 (.slice (some 7) (some 1) (some (-3))) = [7, 4] := by decide

/-- **Unsorted / repeated list → `np.unique` read + inverse.**  For every in-range list, the
sorted distinct values read from the library (strictly increasing, as h5py demands) re-ordered by
the inverse permutation are the listed positions, in order, repeats included. -/
theorem C03_list_read (n : Nat) (l : List Int) (h : l.all (inRange n) = true) :
    delivered n (convSel n (.list l)) = posNat n (.list l) ∧
    h5Accepts n (convSel n (.list l)).read = true :=
  ⟨convSel_delivered n (.list l) h, convSel_accepted n (.list l) h⟩

example : convSel 5 (.list [3, -4, 3, 2]) =
    ⟨.list [1, 2, 3], some (.list [2, 0, 2, 1])⟩ := by decide
example : delivered 5 (convSel 5 (.list [3, -4, 3, 2])) = [3, 1, 3, 2] := by decide

/-- `_variable_subspace` on a whole index tuple (every axis converted, one read, one re-order in
memory) is the orthogonal per-axis take on every valid index. -/
theorem C03_variable_subspace {α} (A : Arr α) (sels : List Sel)
    (hwf : IndexBackend.selsWf A.shape sels = true) :
    EqvIn (variableSubspace A sels) (takeAll A (IndexBackend.positionsNat A.shape sels)) :=
  variableSubspace_eqv A sels hwf

/-- **`netcdf_indexer._index` on such a variable with two or more sequence indices.**  The slices
and ONE sequence go to `_variable_subspace`, the other sequences are applied one at a time in
memory; whichever sequence the `argmin` heuristic sends first and in whatever order the rest
follow, the result is the orthogonal per-axis take. -/
theorem C03_index_nonorthogonal {α} (A : Arr α) (sels : List Sel) (first : Nat) (rest : List Nat)
    (hwf : IndexBackend.selsWf A.shape sels = true) (hnd : rest.Nodup) (hf : first ∉ rest)
    (hlists : ∀ k (h : k < sels.length), isList (sels[k]) = true ↔ (k = first ∨ k ∈ rest))
    (hrest : ∀ k ∈ rest, k < sels.length) :
    EqvIn (indexNonOrth A sels first rest) (takeAll A (IndexBackend.positionsNat A.shape sels)) :=
  indexNonOrth_eqv A sels first rest hwf hnd hf hlists hrest

/-- Non-vacuity: a 3-d array, a reversed strided slice between two unsorted lists. -/
example : toList (indexNonOrth (iota [3, 5, 2])
      [.list [2, 0, 2], .slice none (some 0) (some (-2)), .list [1, 0]] 2 [0]) =
    toList (takeAll (iota [3, 5, 2]) [[2, 0, 2], [4, 2], [1, 0]]) := by decide

end Backend

/-! ### `Field.__getitem__`: the per-construct dice -/

section FieldDice
open Cfdm.IndexBackend Cfdm.FieldSubspace

/-- **Subspacing a field.**  For every well-formed field (any number of constructs, each spanning
any domain axes in ITS OWN order, with or without bounds / interior ring, whether or not the data
span the axis) and every index expression that `Field.__getitem__` accepts: the data are the
orthogonal per-axis take; no selected axis is empty; every domain axis spanned by the data is
resized to the number of positions selected on it and the others keep their size; a construct
spanning no data axis is untouched; every other construct receives exactly the per-axis take of
its own array at the positions selected on the domain axes it spans (every position on the axes
the data do not span), its interior ring and bounds follow on their leading axes, and the vertex
axis of the bounds is kept whole, reversed exactly when `vertexReversed` (1-d constructs only)
says so. -/
theorem C03_field {α} (f g : FieldSubspace.Field α) (ix : List RawIx) (hwf : WF f)
    (h : subspaceField f ix = .ok g) :
    ∃ sels, parseIndices f.data.shape ix = .ok sels ∧ IndexBackend.selsWf f.data.shape sels = true ∧
      g.dataAxes = f.dataAxes ∧
      EqvIn g.data (takeAll f.data (IndexBackend.positionsNat f.data.shape sels)) ∧
      (∀ p ∈ IndexBackend.positionsNat f.data.shape sels, p ≠ []) ∧
      (∀ a ∈ f.axes.map Prod.fst, sizeOf g.axes a =
        ((axisPositions f.dataAxes (IndexBackend.positionsNat f.data.shape sels) a).map List.length).getD
          (sizeOf f.axes a)) ∧
      g.constructs.length = f.constructs.length ∧
      ∀ i (h1 : i < f.constructs.length) (h2 : i < g.constructs.length),
        (needsSlicing f.dataAxes (f.constructs[i]).axes = false → g.constructs[i] = f.constructs[i]) ∧
        (needsSlicing f.dataAxes (f.constructs[i]).axes = true →
          ConstructSpec (f.constructs[i]) (g.constructs[i])
            (specPositions f.dataAxes (IndexBackend.positionsNat f.data.shape sels) (f.constructs[i]).axes
              (f.constructs[i]).data.shape)
            (fun nv => vertexReversed (f.constructs[i]).data.shape nv
              (diceOf f.dataAxes sels (f.constructs[i]).axes))) :=
  subspaceField_ok f g ix hwf h

/-- Non-vacuity: a well-formed 3 x 2 field with a 2-d construct stored in the OTHER axis order, a
1-d coordinate with 2-vertex bounds and a coordinate on an axis the data do not span, subspaced
with `[::-1, [1, 0]]` (full-length reversal, full-length permutation of a size-2 axis): the
transposed construct is reversed along ITS second axis and permuted along its first, the bounds
follow and their vertices are reversed, the unspanned coordinate is untouched. -/
example : WF exField := exField_wf
example : exSummary (subspaceField exField exIndex) =
    [[3, 2, 1], [5, 4, 3, 2, 1, 0],
     [2, 3], [5, 4, 3, 2, 1, 0], [],
     [3], [2, 1, 0], [5, 4, 3, 2, 1, 0],
     [1], [0], []] := by decide
example : exSummary (subspaceField exField [.int (-1), .slice (some 5) none none]) = [] := by decide

/-- An index expression selecting nothing on some data axis is refused (`IndexError`). -/
theorem C03_field_rejects_empty {α} (f : FieldSubspace.Field α) (ix : List RawIx) (sels : List Sel)
    (hp : parseIndices f.data.shape ix = .ok sels) (hwf : IndexBackend.selsWf f.data.shape sels = true)
    (hempty : [] ∈ IndexBackend.positionsNat f.data.shape sels) :
    subspaceField f ix = .error "IndexError" :=
  subspaceField_rejects_empty f ix sels hp hwf hempty

/-- ... and nothing else is refused: a well-formed field whose arrays have no zero extent accepts
every well-formed index expression that selects something on every data axis.  (Together with
`C03_field_rejects_empty`: a subspace is refused exactly when it would be empty.) -/
theorem C03_field_accepts_nonempty {α} (f : FieldSubspace.Field α) (ix : List RawIx) (sels : List Sel)
    (hwf : WF f) (hpos : Positive f)
    (hp : parseIndices f.data.shape ix = .ok sels) (hs : IndexBackend.selsWf f.data.shape sels = true)
    (hne : ∀ p ∈ IndexBackend.positionsNat f.data.shape sels, p ≠ []) :
    ∃ g, subspaceField f ix = .ok g :=
  subspaceField_accepts f ix sels hwf hpos hp hs hne

example : Positive exField := exField_positive

/-- For a construct spanning no data axis the specification asks for every position of every
axis, i.e. for the array itself: leaving it untouched is the per-axis take. -/
theorem C03_field_unspanned {α} (f : FieldSubspace.Field α) (c : Construct α) (P : List (List Nat))
    (hc : c.data.shape.length = c.axes.length) (h : needsSlicing f.dataAxes c.axes = false) :
    EqvIn c.data (takeAll c.data (specPositions f.dataAxes P c.axes c.data.shape)) := by
  rw [specPositions_unspanned _ _ _ _ hc h]
  exact takeAll_ranges c.data

/-- Re-parsing an already parsed index tuple (what every construct's `Data.__getitem__` does with
the dice) returns it unchanged, padded with `slice(None)` for trailing axes (bounds, rings). -/
theorem C03_parse_idempotent (shape : List Nat) (ix : List RawIx) (sels : List Sel) (extra : List Nat)
    (h : parseIndices shape ix = .ok sels) (hlen : sels.length = shape.length) :
    parseIndices (shape ++ extra) (sels.map toRaw) = .ok (sels ++ List.replicate extra.length full) := by
  have := parse_reparse (shape ++ extra) sels (by simp [hlen])
    (by intro h0; simp only [List.length_append] at h0; exact List.eq_nil_of_length_eq_zero (by omega))
    (parse_parsedForm _ _ _ h)
  simpa [hlen] using this

/-- The list rule of the bounds reversal (on normalised entries): a strictly decreasing selection
of at least two cells reverses the vertices, a strictly increasing one does not.  (Slices:
`C03_bounds_reversal_slice`.) -/
theorem C03_bounds_reversal_list (a b : Int) (mid : List Int) :
    ((a :: (mid ++ [b])).Pairwise (· > ·) → boundsReversed (.list (a :: (mid ++ [b]))) = true) ∧
    ((a :: (mid ++ [b])).Pairwise (· < ·) → boundsReversed (.list (a :: (mid ++ [b]))) = false) :=
  ⟨boundsReversed_list_decreasing a b mid, boundsReversed_list_increasing a b mid⟩

end FieldDice

end Cfdm.Props.C03
