import Cfdm.Lemmas.Append
import Cfdm.Lemmas.AppendNames
import Cfdm.Lemmas.AppendRead
/-
C17 — Appending preserves everything already in the dataset.

  "Appending fields to an existing dataset leaves every field that could be read from it beforehand
   readable and equal afterwards, leaves the dataset's global attributes as they were, and adds for
   each appended construct one field equal to it in everything except properties held by the dataset
   as global attributes, sharing coordinate variables only where the constructs are equal.  A request
   that append mode documents as unsupported is refused before the file is modified."

The model (Cfdm/Model/Append.lean) is the two-pass writer of `NetCDFWrite.write(mode='a')` with the
patches fixes/C17-*.patch applied (`Fix.new`); `Fix.old` is the code as it was.  The theorems hold for
every dataset, every list of fields read back, every batch and every sequence of batches: they are
proved by induction on writer programs (`Prog`), of which the emission of any field is an instance.

Proved here at full strength: the refusal clause (pure, and exactly the documented cases), the dry run,
"everything already there is preserved" for one append and for any sequence — whatever the outcome,
including an append that fails half-way —, names handed out are never names in use, and old fields have
the same read footprint afterwards.

Proved as `_partial`, the full statement kept in a comment: "one new field equal to each appended
construct" — the writer side (one new data variable per construct, which references only variables
whose contents equal the construct's) is proved; that the reader turns it back into an equal field is
the C01 round trip, sampled here by the correspondence stream against `cfdm.read`.
-/
namespace Cfdm.Props.C17
open Cfdm.Append

/-! ## Refusal -/

/-- A refused request returns the dataset untouched: the predicate is evaluated on the fields read
back and on the batch, before the dataset is opened for writing (no program is run at all). -/
theorem C17_refusal_pure (fx : Fix) (nc4 : Bool) (E : Ds) (rb S : List FieldReq) (why : String)
    (h : refuse fx nc4 (fileFT E) S = some why) : append fx nc4 E rb S = (.refused why, E) := by
  simp [append, appendFull, h]

/-- The patched code refuses exactly the requests that the documentation lists as unsupported. -/
theorem C17_refusal_iff_documented (nc4 : Bool) (E : Ds) (rb S : List FieldReq) :
    (∃ why, (append Fix.new nc4 E rb S).1 = .refused why) ↔ DocumentedUnsupported nc4 (fileFT E) S := by
  rw [← refuse_new_iff]
  constructor
  · rintro ⟨why, h⟩
    cases hr : refuse Fix.new nc4 (fileFT E) S with
    | some w => rfl
    | none =>
      exfalso
      simp only [append, appendFull, hr] at h
      split at h
      · cases h
      · split at h <;> cases h
  · intro h
    cases hr : refuse Fix.new nc4 (fileFT E) S with
    | some w => exact ⟨w, by simp [append, appendFull, hr]⟩
    | none => rw [hr] at h; cases h

/-- non-vacuity: a timeSeries field appended to a dataset without featureType is refused, and a field
without featureType is not. -/
example : append Fix.new true {} [] [{ reqs := [], featureType := some "timeSeries" }] = (.refused "featureType", {}) := by
  decide
example : ¬ DocumentedUnsupported true none [{ reqs := [] }] := by
  rw [← refuse_new_iff]; decide

/-- The code as it was accepted a featureType on a dataset that has none (the value sits in the property,
which the old predicate never looks at) … -/
theorem C17_old_featureType_not_refused :
    refuse Fix.old true none [{ reqs := [], featureType := some "timeSeries" }] = none ∧
    DocumentedUnsupported true none [{ reqs := [], featureType := some "timeSeries" }] := by
  constructor
  · decide
  · rw [← refuse_new_iff]; decide

/-- … and refused a forced featureType equal to the dataset's own. -/
theorem C17_old_featureType_refuses_compatible :
    refuse Fix.old true (some "timeSeries") [{ reqs := [], featureType := some "timeSeries", ftForced := some "timeSeries" }]
      = some "featureType" ∧
    ¬ DocumentedUnsupported true (some "timeSeries") [{ reqs := [], featureType := some "timeSeries", ftForced := some "timeSeries" }] := by
  constructor
  · decide
  · rw [← refuse_new_iff]; decide

/-! ## The dry run -/

/-- Whatever program the dry run executes — in particular the emission of all the fields read back —
the dataset is not touched: every command on it is skipped. -/
theorem C17_dry_run_writes_nothing (fx : Fix) {α : Type} (p : Prog α) (r : Reg) (fs : FileSt) :
    (run fx .dry p r fs).2.2 = fs :=
  run_dry_file fx p r fs

example : (run Fix.new .dry (Prog.createVar ⟨"q", [], [], 0⟩ (.pure ())) {} {}).2.2.ds.vars = [] := by
  rw [C17_dry_run_writes_nothing]

/-! ## Everything already in the dataset is preserved -/

/-- non-vacuity: an append that adds a variable and a dimension to a non-empty dataset. -/
def exE : Ds := { dims := [⟨"lat", 5, false⟩], vars := [⟨"lat", ["lat"], [], 1⟩, ⟨"q", ["lat"], [], 2⟩], gattrs := [("Conventions", "CF-1.11")] }
def exS : FieldReq :=
  { reqs := [.dimCoord 0 0 ⟨7, 0, [], none⟩ (some "lon") none 8 false none, .data ⟨9, 7, [], none⟩ "ua" [0] [] false] }


theorem appendFull_extends (fx : Fix) (hg : fx.globalsGuarded = true) (nc4 : Bool) (E : Ds) (rb S : List FieldReq) :
    Extends E (appendFull fx nc4 E rb S).2.1 := by
  unfold appendFull
  split
  · exact Extends.refl E
  · split
    · exact Extends.refl E
    · rename_i r _ _
      have h := run_post_inv fx hg E (emitAll fx E.gattrs S) (startPost fx E r) ⟨E, []⟩ (PostInv.init E)
      split
      · rename_i heq; rw [heq] at h; exact h.ext
      · rename_i heq; rw [heq] at h; exact h.ext

/-- One append, patched or not, successful, refused or failed half-way: the global attributes are
unchanged, every old variable is still there with the same dimensions, attributes and contents, every
old dimension with the same size, and nothing added bears the name of an old variable / dimension. -/
theorem C17_monotone (fx : Fix) (hg : fx.globalsGuarded = true) (nc4 : Bool) (E : Ds) (rb S : List FieldReq) :
    Extends E (append fx nc4 E rb S).2 :=
  appendFull_extends fx hg nc4 E rb S

/-- Any sequence of appends (each given whatever the reader returns for the dataset at that time). -/
theorem C17_monotone_sequence (fx : Fix) (hg : fx.globalsGuarded = true) (nc4 : Bool) (readBack : Ds → List FieldReq) :
    ∀ (batches : List (List FieldReq)) (E : Ds), Extends E (appendSeq fx nc4 readBack E batches).2 := by
  intro batches
  induction batches with
  | nil => intro E; exact Extends.refl E
  | cons S rest ih =>
    intro E
    simp only [appendSeq]
    exact (C17_monotone fx hg nc4 E (readBack E) S).trans (ih _)

/-- non-vacuity: two successive appends, the second one refused (a featureType on a dataset without one);
both leave `lat` and `q` in place. -/
example : (appendSeq Fix.new true (fun _ => []) exE [[exS], [{ reqs := [], featureType := some "profile" }]]).1
            = [.ok, .refused "featureType"] ∧
          (appendSeq Fix.new true (fun _ => []) exE [[exS], [{ reqs := [], featureType := some "profile" }]]).2.varNames
            = ["lat", "q", "lon", "ua"] := by
  decide

/-- In particular the global attributes after any sequence of appends are those of the dataset. -/
theorem C17_globals_unchanged (fx : Fix) (hg : fx.globalsGuarded = true) (nc4 : Bool) (readBack : Ds → List FieldReq) (batches : List (List FieldReq)) (E : Ds) :
    (appendSeq fx nc4 readBack E batches).2.gattrs = E.gattrs :=
  (C17_monotone_sequence fx hg nc4 readBack batches E).gattrs

/-- The guard is what the theorem rests on.  `_set_external_variables` is one of the guarded sites: an
appended field with an external cell measure `areacello` makes the pass call
`setncattr('external_variables', …)`; guarded (the code), the dataset keeps `external_variables =
"areacella"`; with the guard of that one site removed the global attribute is rewritten. -/
def exExt : Ds := { dims := [⟨"lat", 5, false⟩], vars := [⟨"lat", ["lat"], [], 1⟩, ⟨"q", ["lat"], [("cell_measures", "area: areacella")], 2⟩],
                    gattrs := [("Conventions", "CF-1.11"), ("external_variables", "areacella")] }
def exExtRead : List FieldReq :=
  [{ reqs := [.dimCoord 0 0 ⟨1, 0, [], none⟩ (some "lat") none 5 false none, .msr 1 ⟨5, 3, [], none⟩ [0] "areacella" "area" (some "areacella"),
              .data ⟨2, 7, [], none⟩ "q" [0] [] false] }]
def exExtNew : FieldReq :=
  { reqs := [.dimCoord 0 0 ⟨1, 0, [], none⟩ (some "lat") none 5 false none, .msr 1 ⟨6, 3, [], none⟩ [0] "areacello" "area" (some "areacello"),
             .data ⟨9, 7, [], none⟩ "ta" [0] [] false] }

example : (append Fix.new true exExt exExtRead [exExtNew]).1 = .ok ∧
          (append Fix.new true exExt exExtRead [exExtNew]).2.gattrs = exExt.gattrs ∧
          (append Fix.new true exExt exExtRead [exExtNew]).2.varNames = ["lat", "q", "ta"] := by
  decide

theorem C17_unguarded_external_variables_rewrites_global :
    (append { Fix.new with globalsGuarded := false } true exExt exExtRead [exExtNew]).2.gattrs =
      [("Conventions", "CF-1.11"), ("external_variables", "areacella areacello")] := by
  decide

example : (append Fix.new true exE [] [exS]).1 = .ok ∧ (append Fix.new true exE [] [exS]).2.varNames = ["lat", "q", "lon", "ua"] := by
  decide

/-! ## Names -/

/-- The patched post-dry-run pass starts with every name of the dataset registered
(C17-append-register-names), and `_netcdf_name` (C17-netcdf-name-blanks) never returns a registered
name: no name it hands out is the name of a variable or dimension of the dataset, and no name is handed
out twice — whatever the dry run registered or failed to register. -/
theorem C17_names_fresh (fx : Fix) (hn : fx.names = true) (hb : fx.blanks = true) (E : Ds) (r : Reg) {α : Type} (p : Prog α) (fs : FileSt) :
    let r' := (run fx .post p (startPost fx E r) fs).2.1
    (∀ n ∈ r'.nm.allocated, n ∉ E.names) ∧ r'.nm.allocated.Nodup := by
  have h0 : NamesInv E (startPost fx E r).nm := by
    refine ⟨?_, by simp [startPost], by simp [startPost], by simp [startPost]⟩
    intro n hm
    simp only [startPost, hn, if_true, NameReg.existing]
    exact List.mem_append.mpr (Or.inl (List.mem_append.mpr (Or.inr hm)))
  have h := run_names_inv fx hb .post E p (startPost fx E r) fs h0
  exact ⟨h.fresh, h.nodup⟩

/-- non-vacuity, and the behaviour it rules out: the dataset has a variable `domain` that the dry run
never meets (it is not read back as a field).  The patched pass names the new variable `domain_1`; the
code as it was asks netCDF for a second `domain` and fails half-way. -/
def exDom : Ds := { vars := [⟨"domain", [], [], 1⟩] }
def exNew : FieldReq := { reqs := [.data ⟨9, 7, [], none⟩ "domain" [] [] false] }

example : (append Fix.new true exDom [] [exNew]) = (.ok, { vars := [⟨"domain", [], [], 1⟩, ⟨"domain_1", [], [], 9⟩] }) := by
  decide

theorem C17_old_unregistered_name_clash :
    (append { Fix.new with names := false } true exDom [] [exNew]).1 = .failed (.nameInUse "domain") := by
  decide

/-- What `C17_names_fresh` cannot give (open finding `dry-run-registry-names-not-in-dataset`, no small
patch): the registry is built by re-encoding the fields read back, in the reader's order, not from the
dataset.  Here a data variable called `bounds2` is met before the bounds dimension `bounds2`, so the dry
run registers the bounds dimension as `bounds2_1`, which the dataset does not have; the appended
coordinate's bounds are then put on it and netCDF refuses the variable half-way. -/
def exB : Ds :=
  { dims := [⟨"lat", 5, false⟩, ⟨"bounds2", 2, false⟩],
    vars := [⟨"bounds2", [], [], 1⟩, ⟨"lat", ["lat"], [], 2⟩, ⟨"lat_bounds", ["lat", "bounds2"], [], 3⟩, ⟨"q", ["lat"], [], 4⟩] }
def exBread : List FieldReq :=
  [{ reqs := [.data ⟨1, 7, [], none⟩ "bounds2" [] [] false] },
   { reqs := [.dimCoord 0 0 ⟨2, 0, [], none⟩ (some "lat") none 5 false (some ⟨⟨3, 6, [], none⟩, 2, "bounds2", none, false⟩),
              .data ⟨4, 7, [], none⟩ "q" [0] [] false] }]
def exBnew : FieldReq :=
  { reqs := [.dimCoord 0 0 ⟨20, 0, [], none⟩ (some "lon") none 8 false (some ⟨⟨30, 6, [], none⟩, 2, "bounds2", none, false⟩),
             .data ⟨40, 7, [], none⟩ "u" [0] [] false] }

theorem C17_dry_run_registry_not_the_dataset :
    (append Fix.new true exB exBread [exBnew]).1 = .failed (.noSuchDim "bounds2_1") := by
  decide

/-! ## Old fields are read as before -/

/-- For every reader that builds the field of a variable from what it can reach through references and
dimension names plus the global attributes: after an append (any outcome) every old variable has the
same footprint, provided the dataset was self-contained and no new variable took the name of an old
dimension (which `C17_names_fresh` excludes for names that went through `_netcdf_name`). -/
theorem C17_old_readable (fx : Fix) (hg : fx.globalsGuarded = true) (nc4 : Bool) (E : Ds) (rb S : List FieldReq) (refsOf : Var → List Name)
    (hc : Closed refsOf E) (hs : NewVarsAvoidDims E (append fx nc4 E rb S).2)
    (fuel : Nat) (v : Var) (hv : v ∈ E.vars) :
    footprint refsOf (append fx nc4 E rb S).2 fuel v = footprint refsOf E fuel v :=
  footprint_ext refsOf (C17_monotone fx hg nc4 E rb S) hs hc fuel v hv

/-- … and it is still returned as a field unless a new variable refers to it (a shared *coordinate*
gains referencers, which cannot make it a field; a *data* variable is referred to by a new variable only
if a domain ancillary of the batch equals it, the one `ignore_type` comparison of the writer). -/
theorem C17_old_still_field (fx : Fix) (hg : fx.globalsGuarded = true) (nc4 : Bool) (E : Ds) (rb S : List FieldReq) (refsOf : Var → List Name)
    (v : Var) (hf : IsField refsOf E v)
    (hnew : ∀ w ∈ (append fx nc4 E rb S).2.vars, w ∉ E.vars → v.name ∉ refsOf w) :
    IsField refsOf (append fx nc4 E rb S).2 v :=
  isField_ext refsOf (C17_monotone fx hg nc4 E rb S) v hf hnew

example : Closed (fun _ => []) exE := ⟨by decide, by intro v _ n hn; cases hn⟩
example : NewVarsAvoidDims exE (append Fix.new true exE [] [exS]).2 := by
  intro v hv hnot
  have : (append Fix.new true exE [] [exS]).2.vars = exE.vars ++ [⟨"lon", ["lon"], [], 7⟩, ⟨"ua", ["lon"], [], 9⟩] := by decide
  rw [this] at hv
  rcases List.mem_append.mp hv with h | h
  · exact absurd h hnot
  · simp at h; rcases h with rfl | rfl <;> decide

/-! ## What is added

Full statement (not proved in full):

  theorem C17_new_added : append Fix.new nc4 E rb S = (.ok, E') →
      ∀ s ∈ S, ∃! g ∈ readFile E' \ readFile E, g ≅ s  modulo the properties named in E.gattrs

needs the reader as a function (the C01 round trip).  Proved: the writer side for the formula-terms
attribute — the one reference attribute that the post-dry-run pass used to leave out — and the choice
of the properties left to the global attributes. -/

/-- "Sharing coordinate variables only where the constructs are equal", writer side: a request is
pointed at an existing variable only through a registry entry made for a construct with the same
contents, of the same class (unless the comparison is the domain ancillaries' `ignore_type` one), and —
when the request comes with netCDF dimensions — on exactly those dimensions. -/
theorem C17_share_only_equal (a : Aux) (c : Cons) (ncdims : Option (List Name)) (ignoreType : Bool) (e : SeenE)
    (h : alreadyInFile a c ncdims ignoreType = some e) :
    e ∈ a.seen ∧ e.cid = c.cid ∧ (ignoreType = true ∨ e.kind = c.kind) ∧ (∀ d, ncdims = some d → e.ncdims = some d) := by
  unfold alreadyInFile at h
  have hm := List.mem_of_find?_eq_some h
  have hp := List.find?_some h
  simp only [Bool.and_eq_true, Bool.or_eq_true, beq_iff_eq] at hp
  refine ⟨hm, hp.1.2, hp.2, ?_⟩
  intro d hd
  subst hd
  simpa using hp.1.1

/-- … and the entry that `_write_netcdf_variable` makes names the variable it creates, with the
contents and the dimensions of the construct (any mode but the dry run; no char storage). -/
theorem C17_registered_is_created (fx : Fix) (ncvar : Name) (ncdims : List Name) (c : Cons) (extra : List (String × String))
    (hs : c.strlen = none) (r : Reg) (fs : FileSt) (hfree : ncvar ∉ fs.ds.varNames)
    (hdims : ∀ d ∈ ncdims, d ∈ fs.ds.dimNames) :
    let out := run fx .post (writeVar ncvar ncdims c extra) r fs
    out.2.1.aux.seen = r.aux.seen ++ [⟨c.cid, c.kind, ncvar, some ncdims⟩] ∧
    ∃ v ∈ out.2.2.ds.vars, v.name = ncvar ∧ v.cid = c.cid ∧ v.dims = ncdims := by
  have hd : ncdims.find? (fun d => !decide (d ∈ fs.ds.dimNames)) = none := by
    apply List.find?_eq_none.mpr
    intro d hd
    simp [hdims d hd]
  simp [writeVar, modA, getMode, bind, Prog.bind, run, hs, regSeen, pure, hfree, hd]

example : (run Fix.new .post (writeVar "lat" ["y", "x"] ⟨3, 1, [], none⟩ []) {} { ds := { dims := [⟨"y", 2, false⟩, ⟨"x", 3, false⟩] } }).2.2.ds.vars
    = [⟨"lat", ["y", "x"], [], 3⟩] := by
  decide

example : (alreadyInFile { seen := [⟨3, 1, "lat", some ["y", "x"]⟩] } ⟨3, 1, [], none⟩ (some ["y", "x"]) false).isSome = true ∧
          (alreadyInFile { seen := [⟨3, 1, "lat", some ["y", "x"]⟩] } ⟨3, 1, [], none⟩ (some ["x", "y"]) false) = none := by
  decide

/-- The code as it was never wrote `formula_terms` in the post-dry-run pass: for every owning
coordinate, every list of terms, every registry and dataset, the request leaves the dataset as it is.
(Appending example field 1 gave five fields: its domain ancillaries came back as fields.) -/
theorem C17_old_formula_terms_never_written (owner z : Nat) (terms : List (String × Nat × List Nat)) (r : Reg) (fs : FileSt) :
    (run Fix.old .post (emitReq Fix.old (.formula owner z terms)) r fs).2.2 = fs := by
  simp only [emitReq, getAux, getMode, bind, Prog.bind, run]
  split
  · rfl
  · split
    · simp [run, Fix.old, Prog.bind, pure]
      split <;> simp [run, Prog.bind]
    · rfl

/-- The patched code writes it on a coordinate variable created by the same pass. -/
theorem C17_new_added_partial_formula_terms :
    let r : Reg := { aux := { keyVar := [(0, some "z"), (1, some "a")] } }
    let fs : FileSt := { ds := { vars := [⟨"z", ["z"], [], 1⟩, ⟨"a", ["z"], [], 2⟩] }, created := ["z", "a"] }
    (run Fix.new .post (emitReq Fix.new (.formula 0 0 [("a", 1, [0])])) r fs).2.2.ds.vars =
      [⟨"z", ["z"], [("formula_terms", "a: a")], 1⟩, ⟨"a", ["z"], [], 2⟩] := by
  decide

/-- … and never on a variable that was in the dataset before (the shared coordinate keeps its own
`formula_terms`; an appended field whose terms differ from it is the known finding
`formula-terms-on-shared-coordinate`). -/
theorem C17_formula_terms_not_on_old_variable :
    let r : Reg := { aux := { keyVar := [(0, some "z"), (1, some "a_1")] } }
    let fs : FileSt := { ds := { vars := [⟨"z", ["z"], [("formula_terms", "a: a")], 1⟩, ⟨"a_1", ["z"], [], 2⟩] }, created := ["a_1"] }
    (run Fix.new .post (emitReq Fix.new (.formula 0 0 [("a", 1, [0])])) r fs).2.2 = fs := by
  decide

/-- Properties left out of the appended data variables: the code as it was left out every
description-of-file-contents property common to the batch although global attributes are not written
when appending; the patched code leaves out only what the dataset holds with the same value. -/
theorem C17_old_description_property_dropped :
    globalOmit Fix.old .post [("Conventions", "c")] [{ reqs := [], gcand := [("comment", "x")] }] = [("comment", "x")] ∧
    globalOmit Fix.new .post [("Conventions", "c")] [{ reqs := [], gcand := [("comment", "x")] }] = [] ∧
    globalOmit Fix.new .post [("comment", "x")] [{ reqs := [], gcand := [("comment", "x")] }] = [("comment", "x")] := by
  decide

/-- What the patched pass leaves out is held by the dataset with the same value (or is `Conventions`). -/
theorem C17_new_added_partial_omitted_are_global (fileG : List (String × String)) (fs : List FieldReq) :
    ∀ kv ∈ globalOmit Fix.new .post fileG fs, kv.1 = "Conventions" ∨ kv ∈ fileG := by
  intro kv h
  unfold globalOmit at h
  cases fs with
  | nil => simp at h
  | cons f0 rest =>
    simp only [show Fix.new.globals = true from rfl, Bool.and_true] at h
    have : ((Mode.post == Mode.post) = true) := by decide
    simp only [this, if_true] at h
    have h2 := (List.mem_filter.mp h).2
    simp only [Bool.or_eq_true, beq_iff_eq, List.contains_eq_mem, decide_eq_true_eq] at h2
    exact h2

end Cfdm.Props.C17
