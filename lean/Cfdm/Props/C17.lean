import Cfdm.Lemmas.Append
import Cfdm.Lemmas.AppendNames
import Cfdm.Lemmas.AppendRead
import Cfdm.Lemmas.AppendGrown
import Cfdm.Lemmas.AppendSafe
import Cfdm.Lemmas.AppendDry
/-
C17 — Appending preserves everything already in the dataset.

  "Appending fields to an existing dataset leaves every field that could be read from it beforehand
   readable and equal afterwards, leaves the dataset's global attributes as they were, and adds for
   each appended construct one field equal to it in everything except properties held by the dataset
   as global attributes, sharing coordinate variables only where the constructs are equal.  A request
   that append mode documents as unsupported is refused before the file is modified."

The model (Cfdm/Model/Append.lean) is the two-pass writer of `NetCDFWrite.write(mode='a')` with the
patches fixes/C17-*.patch applied (`Fix.new`); `Fix.old` is the code as it was.  The theorems hold for
every dataset, every list of fields read back, every batch and every sequence of batches: they are
proved by induction on writer programs (`Prog`), of which the emission of any field is an instance.

Proved here at full strength: the refusal clause (pure, and exactly the documented cases), the dry run,
"everything already there is preserved" for one append and for any sequence — whatever the outcome,
including an append that fails half-way —, names handed out are never names in use, and old fields have
the same read footprint afterwards.

Proved as `_partial`, the full statement kept in a comment: "one new field equal to each appended
construct" — the writer side (one new data variable per construct, which references only variables
whose contents equal the construct's) is proved; that the reader turns it back into an equal field is
the C01 round trip, sampled here by the correspondence stream against `cfdm.read`.
-/
namespace Cfdm.Props.C17
open Cfdm.Append

/-! ## Refusal -/

/-- A refused request returns the dataset untouched: the predicate is evaluated on the fields read
back and on the batch, before the dataset is opened for writing (no program is run at all). -/
theorem C17_refusal_pure (fx : Fix) (nc4 : Bool) (E : Ds) (rb S : List FieldReq) (why : String)
    (h : refuse fx nc4 (fileFT E) S = some why) : append fx nc4 E rb S = (.refused why, E) := by
  simp [append, appendFull, h]

/-- The patched code refuses exactly the requests that the documentation lists as unsupported. -/
theorem C17_refusal_iff_documented (nc4 : Bool) (E : Ds) (rb S : List FieldReq) :
    (∃ why, (append Fix.new nc4 E rb S).1 = .refused why) ↔ DocumentedUnsupported nc4 (fileFT E) S := by
  rw [← refuse_new_iff]
  constructor
  · rintro ⟨why, h⟩
    cases hr : refuse Fix.new nc4 (fileFT E) S with
    | some w => rfl
    | none =>
      exfalso
      simp only [append, appendFull, hr] at h
      split at h
      · cases h
      · split at h <;> cases h
  · intro h
    cases hr : refuse Fix.new nc4 (fileFT E) S with
    | some w => exact ⟨w, by simp [append, appendFull, hr]⟩
    | none => rw [hr] at h; cases h

/-- non-vacuity: a timeSeries field appended to a dataset without featureType is refused, and a field
without featureType is not. -/
example : append Fix.new true {} [] [{ reqs := [], featureType := some "timeSeries" }] = (.refused "featureType", {}) := by
  decide
example : ¬ DocumentedUnsupported true none [{ reqs := [] }] := by
  rw [← refuse_new_iff]; decide

/-- The code as it was accepted a featureType on a dataset that has none (the value sits in the property,
which the old predicate never looks at) … -/
theorem C17_old_featureType_not_refused :
    refuse Fix.old true none [{ reqs := [], featureType := some "timeSeries" }] = none ∧
    DocumentedUnsupported true none [{ reqs := [], featureType := some "timeSeries" }] := by
  constructor
  · decide
  · rw [← refuse_new_iff]; decide

/-- … and refused a forced featureType equal to the dataset's own. -/
theorem C17_old_featureType_refuses_compatible :
    refuse Fix.old true (some "timeSeries") [{ reqs := [], featureType := some "timeSeries", ftForced := some "timeSeries" }]
      = some "featureType" ∧
    ¬ DocumentedUnsupported true (some "timeSeries") [{ reqs := [], featureType := some "timeSeries", ftForced := some "timeSeries" }] := by
  constructor
  · decide
  · rw [← refuse_new_iff]; decide

/-! ## The dry run -/

/-- Whatever program the dry run executes — in particular the emission of all the fields read back —
the dataset is not touched: every command on it is skipped. -/
theorem C17_dry_run_writes_nothing (fx : Fix) {α : Type} (p : Prog α) (r : Reg) (fs : FileSt) :
    (run fx .dry p r fs).2.2 = fs :=
  run_dry_file fx p r fs

example : (run Fix.new .dry (Prog.createVar ⟨"q", [], [], 0⟩ [] (.pure ())) {} {}).2.2.ds.vars = [] := by
  rw [C17_dry_run_writes_nothing]

/-! ## Everything already in the dataset is preserved -/

/-- non-vacuity: an append that adds a variable and a dimension to a non-empty dataset. -/
def exE : Ds := { dims := [⟨"lat", 5, false⟩], vars := [⟨"lat", ["lat"], [], 1⟩, ⟨"q", ["lat"], [], 2⟩], gattrs := [("Conventions", "CF-1.11")] }
def exS : FieldReq :=
  { reqs := [.dimCoord 0 0 ⟨7, 0, [], none, [8]⟩ (some "lon") none 8 false none, .data ⟨9, 7, [], none, [8]⟩ "ua" [0] [] false] }


/-- The conditions under which the writer of /repo HEAD is shown to preserve the dataset: the code with the
C17 repairs of names (`register-names`, `netcdf-name-blanks`), the guarded global-attribute sites and the
size conjunct of the pinned-dimension reuse (none of these is an assumption about the input: each is a
switch of the model whose other position is refuted below). -/
structure HeadFix (fx : Fix) : Prop where
  guarded : fx.globalsGuarded = true
  names : fx.names = true
  blanks : fx.blanks = true
  pinnedSize : fx.pinnedSize = true

theorem headFix_new : HeadFix Fix.new := ⟨rfl, rfl, rfl, rfl⟩

/-- One append, successful, refused or failed half-way: the global attributes are unchanged, every old
variable is still there with the same dimensions, attributes and contents, every old dimension with the same
size — *also an unlimited one, whose length netCDF would change silently if a longer array were written
along it* —, and nothing added bears the name of an old variable / dimension.

Hypotheses: the shapes of the appended constructs fit the sizes of their axes (`FieldReq.wf`, what
`set_construct` enforces), and the dimension tables that the dry run built agree with the dataset on the
lengths of its unlimited dimensions (`RegAgrees`, decidable; it concerns the fields read back, not the batch). -/
theorem C17_monotone (fx : Fix) (hx : HeadFix fx) (nc4 : Bool) (E : Ds) (rb S : List FieldReq)
    (hw : ∀ f ∈ S, f.wf) (ha : RegAgrees E (dryReg fx E rb)) :
    Extends E (append fx nc4 E rb S).2 :=
  appendFull_extends fx hx.guarded hx.names hx.blanks hx.pinnedSize nc4 E rb S hw ha

/-- Any sequence of appends (each given whatever the reader returns for the dataset at that time). -/
theorem C17_monotone_sequence (fx : Fix) (hx : HeadFix fx) (nc4 : Bool) (readBack : Ds → List FieldReq)
    (ha : ∀ E, RegAgrees E (dryReg fx E (readBack E))) :
    ∀ (batches : List (List FieldReq)) (E : Ds), (∀ S ∈ batches, ∀ f ∈ S, f.wf) →
      Extends E (appendSeq fx nc4 readBack E batches).2 := by
  intro batches
  induction batches with
  | nil => intro E _; exact Extends.refl E
  | cons S rest ih =>
    intro E hw
    simp only [appendSeq]
    exact (C17_monotone fx hx nc4 E (readBack E) S (hw S (by simp)) (ha E)).trans
      (ih _ (fun S' hS => hw S' (List.mem_cons_of_mem _ hS)))

/-- Without any hypothesis on the registry or on the decisions of the writer — for *every* program of the
post-dry-run pass — the old dataset is preserved up to the length of its unlimited dimensions: this is all
that netCDF itself guarantees, and it is not the property (a longer record dimension pads every old variable
on it). -/
theorem C17_preserved_up_to_record_length (fx : Fix) (hg : fx.globalsGuarded = true) (nc4 : Bool) (E : Ds) (rb S : List FieldReq) :
    ExtendsGrown E (append fx nc4 E rb S).2 :=
  appendFull_grown fx hg nc4 E rb S

/-! ### The length of an existing dimension

A dataset with a record dimension `obs` (unlimited, no coordinate variable, 4 records) and a variable on it;
the appended field has an axis that names `obs`, is unlimited, has no coordinate either — and 6 records. -/

def exObs : Ds := { dims := [⟨"obs", 4, true⟩, ⟨"lat", 3, false⟩], vars := [⟨"lat", ["lat"], [], 1⟩, ⟨"ta", ["obs", "lat"], [], 2⟩],
                    gattrs := [("Conventions", "CF-1.11")] }
def exObsField (n cid : Nat) (nm : Name) : FieldReq :=
  { reqs := [.axisDim 0 n true "obs" [] true, .dimCoord 0 1 ⟨1, 0, [], none, [3]⟩ (some "lat") (some "lat") 3 false none,
             .data ⟨cid, 7, [], none, [n, 3]⟩ nm [0, 1] [] false] }

/-- non-vacuity of `C17_monotone`: the hypotheses hold for this append, which goes through … -/
example : HeadFix Fix.new ∧ (∀ f ∈ [exObsField 6 3 "tb"], f.wf) ∧ RegAgrees exObs (dryReg Fix.new exObs [exObsField 4 2 "ta"]) := by
  refine ⟨headFix_new, by decide, by decide⟩

/-- … the code of HEAD gives the appended field a record dimension of its own … -/
example : (append Fix.new true exObs [exObsField 4 2 "ta"] [exObsField 6 3 "tb"]) =
    (.ok, { exObs with dims := exObs.dims ++ [⟨"obs_1", 6, true⟩], vars := exObs.vars ++ [⟨"tb", ["obs_1", "lat"], [], 3⟩] }) := by
  decide

/-- … and shares `obs` when the lengths agree (the only case in which it may). -/
example : (append Fix.new true exObs [exObsField 4 2 "ta"] [exObsField 4 3 "tb"]) =
    (.ok, { exObs with vars := exObs.vars ++ [⟨"tb", ["obs", "lat"], [], 3⟩] }) := by
  decide

/-- The size conjunct of the pinned-dimension reuse cannot be weakened to "an unlimited axis may use an
unlimited dimension of that name whatever its length": the append succeeds, `obs` — and with it the old
variable `ta` — now has 6 records, and the result does not extend the dataset. -/
theorem C17_weakened_pinned_reuse_grows_dimension :
    let out := append { Fix.new with pinnedSize := false } true exObs [exObsField 4 2 "ta"] [exObsField 6 3 "tb"]
    out.1 = .ok ∧ out.2.dims = [⟨"obs", 6, true⟩, ⟨"lat", 3, false⟩] ∧ ¬ Extends exObs out.2 := by
  refine ⟨by decide, by decide, ?_⟩
  intro h
  obtain ⟨nd, hd, _⟩ := h.dims
  have h2 : (append { Fix.new with pinnedSize := false } true exObs [exObsField 4 2 "ta"] [exObsField 6 3 "tb"]).2.dims
      = [⟨"obs", 6, true⟩, ⟨"lat", 3, false⟩] := by decide
  rw [h2] at hd
  have : exObs.dims = [⟨"obs", 4, true⟩, ⟨"lat", 3, false⟩] := rfl
  rw [this] at hd
  cases nd with
  | nil => simp at hd
  | cons _ _ => simp at hd

/-- … and with fewer records than the dataset has, the new variable is put on `obs` and has the dataset's 4
records, not its own 2 (nothing old changes: it is the "one new field equal to the appended one" clause
that fails). -/
theorem C17_weakened_pinned_reuse_shorter_field :
    (append { Fix.new with pinnedSize := false } true exObs [exObsField 4 2 "ta"] [exObsField 2 3 "tb"]) =
    (.ok, { exObs with vars := exObs.vars ++ [⟨"tb", ["obs", "lat"], [], 3⟩] }) := by
  decide

/-- The hypothesis `RegAgrees` cannot be dropped: if the table built by the dry run says that `obs` has 6
records (here: because the fields "read back" are not those of the dataset; in cfdm: when the dry run has
re-allocated the name to another dimension — open finding `dry-run-registry-names-not-in-dataset`), the size
test of HEAD passes and the dimension grows all the same. -/
theorem C17_registry_must_agree :
    let out := append Fix.new true exObs [exObsField 6 2 "ta"] [exObsField 6 3 "tb"]
    ¬ RegAgrees exObs (dryReg Fix.new exObs [exObsField 6 2 "ta"]) ∧ out.1 = .ok ∧ out.2.dims = [⟨"obs", 6, true⟩, ⟨"lat", 3, false⟩] := by
  refine ⟨by decide, by decide, by decide⟩

/-- With the proposed repair of the dry run (C17-append-dry-run-names; and d714c80, which /repo has) the hypothesis
on the dry run's tables follows from a statement about the *reader* alone: every field read back reports, for
each netCDF dimension name it carries (axis, coordinate variable, bounds dimension), the length that
dimension has in the dataset (`FieldReq.faithful`, decidable), and has data shapes that fit its axes.  The
dry run then registers exactly those names with those sizes (proved request by request, like the post pass),
and every outcome of the append preserves the dataset. -/
structure ProposedFix (fx : Fix) : Prop where
  head : HeadFix fx
  dryNames : fx.dryNames = true
  dimCoordName : fx.dimCoordName = true

theorem proposedFix_new : ProposedFix Fix.new := ⟨headFix_new, rfl, rfl⟩

theorem C17_monotone_from_reader (fx : Fix) (hx : ProposedFix fx) (nc4 : Bool) (E : Ds) (rb S : List FieldReq)
    (hw : ∀ f ∈ S, f.wf) (hwr : ∀ f ∈ rb, f.wf) (hfr : ∀ f ∈ rb, f.faithful E) :
    Extends E (append fx nc4 E rb S).2 :=
  appendFull_extends_faithful fx hx.head.guarded hx.head.names hx.head.blanks hx.head.pinnedSize hx.dryNames hx.dimCoordName
    nc4 E rb S hw hwr hfr

theorem C17_monotone_sequence_from_reader (fx : Fix) (hx : ProposedFix fx) (nc4 : Bool) (readBack : Ds → List FieldReq)
    (hr : ∀ E, ∀ f ∈ readBack E, f.wf ∧ f.faithful E) :
    ∀ (batches : List (List FieldReq)) (E : Ds), (∀ S ∈ batches, ∀ f ∈ S, f.wf) →
      Extends E (appendSeq fx nc4 readBack E batches).2 := by
  intro batches
  induction batches with
  | nil => intro E _; exact Extends.refl E
  | cons S rest ih =>
    intro E hw
    simp only [appendSeq]
    exact (C17_monotone_from_reader fx hx nc4 E (readBack E) S (hw S (by simp)) (fun f hf => (hr E f hf).1) (fun f hf => (hr E f hf).2)).trans
      (ih _ (fun S' hS => hw S' (List.mem_cons_of_mem _ hS)))

/-- non-vacuity: the field read back from `exObs` is faithful and well-formed. -/
example : (∀ f ∈ [exObsField 4 2 "ta"], f.wf) ∧ (∀ f ∈ [exObsField 4 2 "ta"], f.faithful exObs) := by
  refine ⟨by decide, by decide⟩

/-- The repair of the dry run is needed for this: with the dry run as it is, fields read back that report the
right lengths can still leave wrong tables.  The dataset has a variable `obs` (met first), and two record
dimensions `obs` (6) and `obs_1` (4); the unpatched dry run renames the first to `obs_1` — now registered
with 6 records — and the second to `obs_1_1`; an appended field with 6 records whose axis names `obs_1`
passes the size test of HEAD and makes the real `obs_1` two records longer.  The patched dry run registers
`obs` and `obs_1` as they are and the field gets a dimension of its own. -/
def exRen : Ds := { dims := [⟨"obs", 6, true⟩, ⟨"obs_1", 4, true⟩],
                    vars := [⟨"obs", [], [], 1⟩, ⟨"q", ["obs"], [], 2⟩, ⟨"p", ["obs_1"], [], 3⟩] }
def exRenRead : List FieldReq :=
  [{ reqs := [.data ⟨1, 7, [], none, []⟩ "obs" [] [] false] },
   { reqs := [.axisDim 0 6 true "obs" [] true, .data ⟨2, 7, [], none, [6]⟩ "q" [0] [] false] },
   { reqs := [.axisDim 0 4 true "obs_1" [] true, .data ⟨3, 7, [], none, [4]⟩ "p" [0] [] false] }]
def exRenNew : FieldReq := { reqs := [.axisDim 0 6 true "obs_1" [] true, .data ⟨4, 7, [], none, [6]⟩ "u" [0] [] false] }

theorem C17_unpatched_dry_run_defeats_size_test :
    (∀ f ∈ exRenRead, f.wf ∧ f.faithful exRen) ∧
    (append { Fix.new with dryNames := false } true exRen exRenRead [exRenNew]).2.dims = [⟨"obs", 6, true⟩, ⟨"obs_1", 6, true⟩] ∧
    (append Fix.new true exRen exRenRead [exRenNew]).2.dims = [⟨"obs", 6, true⟩, ⟨"obs_1", 4, true⟩, ⟨"obs_1_1", 6, true⟩] := by
  refine ⟨by decide, by decide, by decide⟩

/-- Nor can `FieldReq.wf`: a data array with more records than its axis says (which `set_data` refuses). -/
theorem C17_shapes_must_fit :
    let bad : FieldReq := { reqs := [.axisDim 0 4 true "obs" [] true, .data ⟨3, 7, [], none, [6]⟩ "tb" [0] [] false] }
    ¬ bad.wf ∧ (append Fix.new true exObs [exObsField 4 2 "ta"] [bad]).2.dims = [⟨"obs", 6, true⟩, ⟨"lat", 3, false⟩] := by
  refine ⟨by decide, by decide⟩

/-- The axis branch of `_write_field_or_domain` on its own (an axis without dimension coordinate), from any
state of the pass in which the tables agree with the dataset: whatever dimension the axis is given — one
stored with an equal spanning construct at the same position, the registered dimension it names, or a new
one — if that is an unlimited dimension of the dataset then it has exactly the length of the axis. -/
theorem C17_axis_dimension_has_axis_length (fx : Fix) (hb : fx.blanks = true) (hp : fx.pinnedSize = true) (E : Ds) (sz : Nat → Nat)
    (axis size : Nat) (unlim : Bool) (base : Name) (spanning : List (Nat × Nat × Nat)) (pinned : Bool) (hsz : sz axis = size)
    (r : Reg) (fs : FileSt) (hr : RInv E sz r) (hI : PostInv E fs) :
    let out := run fx .post (emitReq fx (.axisDim axis size unlim base spanning pinned)) r fs
    PostInv E out.2.2 ∧ (out.1 = .ok () → ∀ d, lookup out.2.1.aux.axisDim axis = some d → DimFits E d size) := by
  have h := triple_axisDim hb hp axis size unlim base spanning pinned (by simpa [Req.wf] using hsz) r fs hr hI
  revert h
  cases run fx .post (emitReq fx (.axisDim axis size unlim base spanning pinned)) r fs with
  | mk res rest =>
    cases rest with
    | mk r' fs' =>
      cases res with
      | ok a =>
        intro h
        refine ⟨h.2, fun _ d hd => ?_⟩
        have := h.1.safe (axis, d) (lookup_mem hd)
        rw [hsz] at this; exact this
      | error e => intro h; exact ⟨h, fun hc => by cases hc⟩

example : RInv exObs (fun _ => 4) { nm := { names := ["lat", "ta", "obs"], dimSize := [("obs", 4), ("lat", 3)] }, aux := { unlimDims := ["obs"] } } := by
  refine ⟨⟨?_, by simp, by simp, by simp⟩, by decide, by intro p hp; simp at hp⟩
  intro n hn
  have : exObs.names = ["lat", "ta", "obs", "lat"] := by decide
  rw [this] at hn
  simp [NameReg.existing, NameReg.dimKeys] at *
  rcases hn with rfl | rfl | rfl | rfl <;> simp

/-- non-vacuity: two successive appends, the second one refused (a featureType on a dataset without one);
both leave `lat` and `q` in place. -/
example : (appendSeq Fix.new true (fun _ => []) exE [[exS], [{ reqs := [], featureType := some "profile" }]]).1
            = [.ok, .refused "featureType"] ∧
          (appendSeq Fix.new true (fun _ => []) exE [[exS], [{ reqs := [], featureType := some "profile" }]]).2.varNames
            = ["lat", "q", "lon", "ua"] := by
  decide

/-- In particular the global attributes after any sequence of appends are those of the dataset. -/
theorem C17_globals_unchanged (fx : Fix) (hg : fx.globalsGuarded = true) (nc4 : Bool) (readBack : Ds → List FieldReq) :
    ∀ (batches : List (List FieldReq)) (E : Ds), (appendSeq fx nc4 readBack E batches).2.gattrs = E.gattrs := by
  intro batches
  induction batches with
  | nil => intro E; rfl
  | cons S rest ih =>
    intro E
    simp only [appendSeq]
    rw [ih]
    exact (C17_preserved_up_to_record_length fx hg nc4 E (readBack E) S).gattrs

/-- The guard is what the theorem rests on.  `_set_external_variables` is one of the guarded sites: an
appended field with an external cell measure `areacello` makes the pass call
`setncattr('external_variables', …)`; guarded (the code), the dataset keeps `external_variables =
"areacella"`; with the guard of that one site removed the global attribute is rewritten. -/
def exExt : Ds := { dims := [⟨"lat", 5, false⟩], vars := [⟨"lat", ["lat"], [], 1⟩, ⟨"q", ["lat"], [("cell_measures", "area: areacella")], 2⟩],
                    gattrs := [("Conventions", "CF-1.11"), ("external_variables", "areacella")] }
def exExtRead : List FieldReq :=
  [{ reqs := [.dimCoord 0 0 ⟨1, 0, [], none, [5]⟩ (some "lat") none 5 false none, .msr 1 ⟨5, 3, [], none, []⟩ [0] "areacella" "area" (some "areacella"),
              .data ⟨2, 7, [], none, [5]⟩ "q" [0] [] false] }]
def exExtNew : FieldReq :=
  { reqs := [.dimCoord 0 0 ⟨1, 0, [], none, [5]⟩ (some "lat") none 5 false none, .msr 1 ⟨6, 3, [], none, []⟩ [0] "areacello" "area" (some "areacello"),
             .data ⟨9, 7, [], none, [5]⟩ "ta" [0] [] false] }

example : (append Fix.new true exExt exExtRead [exExtNew]).1 = .ok ∧
          (append Fix.new true exExt exExtRead [exExtNew]).2.gattrs = exExt.gattrs ∧
          (append Fix.new true exExt exExtRead [exExtNew]).2.varNames = ["lat", "q", "ta"] := by
  decide

theorem C17_unguarded_external_variables_rewrites_global :
    (append { Fix.new with globalsGuarded := false } true exExt exExtRead [exExtNew]).2.gattrs =
      [("Conventions", "CF-1.11"), ("external_variables", "areacella areacello")] := by
  decide

example : (append Fix.new true exE [] [exS]).1 = .ok ∧ (append Fix.new true exE [] [exS]).2.varNames = ["lat", "q", "lon", "ua"] := by
  decide

/-! ## Names -/

/-- The patched post-dry-run pass starts with every name of the dataset registered
(C17-append-register-names), and `_netcdf_name` (C17-netcdf-name-blanks) never returns a registered
name: no name it hands out is the name of a variable or dimension of the dataset, and no name is handed
out twice — whatever the dry run registered or failed to register. -/
theorem C17_names_fresh (fx : Fix) (hn : fx.names = true) (hb : fx.blanks = true) (E : Ds) (r : Reg) {α : Type} (p : Prog α) (fs : FileSt) :
    let r' := (run fx .post p (startPost fx E r) fs).2.1
    (∀ n ∈ r'.nm.allocated, n ∉ E.names) ∧ r'.nm.allocated.Nodup := by
  have h0 : NamesInv E (startPost fx E r).nm := by
    refine ⟨?_, by simp [startPost], by simp [startPost], by simp [startPost]⟩
    intro n hm
    simp only [startPost, hn, if_true, NameReg.existing]
    exact List.mem_append.mpr (Or.inl (List.mem_append.mpr (Or.inr hm)))
  have h := run_names_inv fx hb E p (startPost fx E r) fs h0
  exact ⟨h.fresh, h.nodup⟩

/-- non-vacuity, and the behaviour it rules out: the dataset has a variable `domain` that the dry run
never meets (it is not read back as a field).  The patched pass names the new variable `domain_1`; the
code as it was asks netCDF for a second `domain` and fails half-way. -/
def exDom : Ds := { vars := [⟨"domain", [], [], 1⟩] }
def exNew : FieldReq := { reqs := [.data ⟨9, 7, [], none, []⟩ "domain" [] [] false] }

example : (append Fix.new true exDom [] [exNew]) = (.ok, { vars := [⟨"domain", [], [], 1⟩, ⟨"domain_1", [], [], 9⟩] }) := by
  decide

theorem C17_old_unregistered_name_clash :
    (append { Fix.new with names := false } true exDom [] [exNew]).1 = .failed (.nameInUse "domain") := by
  decide

/-- A dimension coordinate that has neither a netCDF variable name nor a standard name is named after the
netCDF dimension of its axis.  The code as it was before d714c80 used that name *as it is* (it is the one name that does not
go through `_netcdf_name`): when the dataset already has a dimension of that name — any field that came from
the same producer — netCDF refuses the dimension and the append fails half-way.  Since d714c80 (the repair
this check had proposed) the name is made unique like every other. -/
def exAnon : Ds := { dims := [⟨"obs", 4, false⟩], vars := [⟨"obs", ["obs"], [], 1⟩, ⟨"ta", ["obs"], [], 2⟩] }
def exAnonField (cc fc : Nat) (nm : Name) : FieldReq :=
  { reqs := [.dimCoord 0 0 ⟨cc, 0, [], none, [4]⟩ none (some "obs") 4 false none, .data ⟨fc, 7, [], none, [4]⟩ nm [0] [] false] }

theorem C17_old_dimension_name_used_as_it_is :
    (append { Fix.new with dimCoordName := false } true exAnon [exAnonField 1 2 "ta"] [exAnonField 3 4 "tb"]).1
      = .failed (.nameInUse "obs") ∧
    (append Fix.new true exAnon [exAnonField 1 2 "ta"] [exAnonField 3 4 "tb"]) =
      (.ok, { exAnon with dims := exAnon.dims ++ [⟨"obs_1", 4, false⟩],
                          vars := exAnon.vars ++ [⟨"obs_1", ["obs_1"], [], 3⟩, ⟨"tb", ["obs_1"], [], 4⟩] }) := by
  refine ⟨by decide, by decide⟩

/-- What `C17_names_fresh` cannot give (open finding `dry-run-registry-names-not-in-dataset`): the registry is
built by re-encoding the fields read back, in the reader's order, not from the dataset.  In the code as it
is the dry run makes names unique *again*: here a data variable called `bounds2` is met before the bounds
dimension `bounds2`, so the dry run registers the bounds dimension as `bounds2_1`, which the dataset does
not have; the appended coordinate's bounds are then put on it and netCDF refuses the variable half-way.
With the proposed repair (fixes/C17-append-dry-run-names.patch: in the dry run `_netcdf_name` registers the
name it is asked for, which is the name the construct has in the dataset) the bounds dimension is
registered as `bounds2` and the append goes through, sharing it. -/
def exB : Ds :=
  { dims := [⟨"lat", 5, false⟩, ⟨"bounds2", 2, false⟩],
    vars := [⟨"bounds2", [], [], 1⟩, ⟨"lat", ["lat"], [], 2⟩, ⟨"lat_bounds", ["lat", "bounds2"], [], 3⟩, ⟨"q", ["lat"], [], 4⟩] }
def exBread : List FieldReq :=
  [{ reqs := [.data ⟨1, 7, [], none, []⟩ "bounds2" [] [] false] },
   { reqs := [.dimCoord 0 0 ⟨2, 0, [], none, [5]⟩ (some "lat") none 5 false (some ⟨⟨3, 6, [], none, [5, 2]⟩, 2, "bounds2", none, false⟩),
              .data ⟨4, 7, [], none, [5]⟩ "q" [0] [] false] }]
def exBnew : FieldReq :=
  { reqs := [.dimCoord 0 0 ⟨20, 0, [], none, [8]⟩ (some "lon") none 8 false (some ⟨⟨30, 6, [], none, [8, 2]⟩, 2, "bounds2", none, false⟩),
             .data ⟨40, 7, [], none, [8]⟩ "u" [0] [] false] }

theorem C17_dry_run_registry_not_the_dataset :
    (append { Fix.new with dryNames := false } true exB exBread [exBnew]).1 = .failed (.noSuchDim "bounds2_1") ∧
    (append Fix.new true exB exBread [exBnew]) =
      (.ok, { exB with dims := exB.dims ++ [⟨"lon", 8, false⟩],
                       vars := exB.vars ++ [⟨"bounds", ["lon", "bounds2"], [], 30⟩, ⟨"lon", ["lon"], [("bounds", "bounds")], 20⟩,
                                            ⟨"u", ["lon"], [], 40⟩] }) := by
  refine ⟨by decide, by decide⟩

/-- The dry run of the proposed code registers, for every name it is asked for, that name (blanks replaced)
— whatever is registered already: the names in the tables after the dry run are names that the fields read
back carry, not names made up by the uniqueness search. -/
theorem C17_dry_run_keeps_names (fx : Fix) (hd : fx.dryNames = true) (b : Name) (r : Reg) (fs : FileSt) :
    (run fx .dry (allocN b) r fs).1 = .ok (underscore b) := by
  simp [allocN, run, hd, keepName]

example : (run Fix.new .dry (allocN "lat") { nm := { names := ["lat"] } } {}).1 = .ok "lat" ∧
          (run { Fix.new with dryNames := false } .dry (allocN "lat") { nm := { names := ["lat"] } } {}).1 = .ok "lat_1" := by
  decide

/-! ## Old fields are read as before -/

/-- For every reader that builds the field of a variable from what it can reach through references and
dimension names plus the global attributes: after an append (any outcome) every old variable has the
same footprint, provided the dataset was self-contained and no new variable took the name of an old
dimension (which `C17_names_fresh` excludes for names that went through `_netcdf_name`). -/
theorem C17_old_readable (fx : Fix) (hx : HeadFix fx) (nc4 : Bool) (E : Ds) (rb S : List FieldReq) (refsOf : Var → List Name)
    (hw : ∀ f ∈ S, f.wf) (ha : RegAgrees E (dryReg fx E rb))
    (hc : Closed refsOf E) (hs : NewVarsAvoidDims E (append fx nc4 E rb S).2)
    (fuel : Nat) (v : Var) (hv : v ∈ E.vars) :
    footprint refsOf (append fx nc4 E rb S).2 fuel v = footprint refsOf E fuel v :=
  footprint_ext refsOf (C17_monotone fx hx nc4 E rb S hw ha) hs hc fuel v hv

/-- The footprint of a variable includes the current length of its dimensions: with the weakened reuse rule
the old variable `ta` of `exObs` is no longer read as it was (for every reader of the footprint). -/
theorem C17_weakened_pinned_reuse_changes_old_footprint :
    footprint (fun _ => []) (append { Fix.new with pinnedSize := false } true exObs [exObsField 4 2 "ta"] [exObsField 6 3 "tb"]).2 2 ⟨"ta", ["obs", "lat"], [], 2⟩
      ≠ footprint (fun _ => []) exObs 2 ⟨"ta", ["obs", "lat"], [], 2⟩ := by
  decide

/-- … and it is still returned as a field unless a new variable refers to it (a shared *coordinate*
gains referencers, which cannot make it a field; a *data* variable is referred to by a new variable only
if a domain ancillary of the batch equals it, the one `ignore_type` comparison of the writer). -/
theorem C17_old_still_field (fx : Fix) (hg : fx.globalsGuarded = true) (nc4 : Bool) (E : Ds) (rb S : List FieldReq) (refsOf : Var → List Name)
    (v : Var) (hf : IsField refsOf E v)
    (hnew : ∀ w ∈ (append fx nc4 E rb S).2.vars, w ∉ E.vars → v.name ∉ refsOf w) :
    IsField refsOf (append fx nc4 E rb S).2 v :=
  isField_grown refsOf (C17_preserved_up_to_record_length fx hg nc4 E rb S) v hf hnew

example : Closed (fun _ => []) exE := ⟨by decide, by intro v _ n hn; cases hn⟩
example : NewVarsAvoidDims exE (append Fix.new true exE [] [exS]).2 := by
  intro v hv hnot
  have : (append Fix.new true exE [] [exS]).2.vars = exE.vars ++ [⟨"lon", ["lon"], [], 7⟩, ⟨"ua", ["lon"], [], 9⟩] := by decide
  rw [this] at hv
  rcases List.mem_append.mp hv with h | h
  · exact absurd h hnot
  · simp at h; rcases h with rfl | rfl <;> decide

/-! ## What is added

Full statement (not proved in full):

  theorem C17_new_added : append Fix.new nc4 E rb S = (.ok, E') →
      ∀ s ∈ S, ∃! g ∈ readFile E' \ readFile E, g ≅ s  modulo the properties named in E.gattrs

needs the reader as a function (the C01 round trip).  Proved: the writer side for the formula-terms
attribute — the one reference attribute that the post-dry-run pass used to leave out — and the choice
of the properties left to the global attributes. -/

/-- "Sharing coordinate variables only where the constructs are equal", writer side: a request is
pointed at an existing variable only through a registry entry made for a construct with the same
contents, of the same class (unless the comparison is the domain ancillaries' `ignore_type` one), and —
when the request comes with netCDF dimensions — on exactly those dimensions. -/
theorem C17_share_only_equal (a : Aux) (c : Cons) (ncdims : Option (List Name)) (ignoreType : Bool) (e : SeenE)
    (h : alreadyInFile a c ncdims ignoreType = some e) :
    e ∈ a.seen ∧ e.cid = c.cid ∧ (ignoreType = true ∨ e.kind = c.kind) ∧ (∀ d, ncdims = some d → e.ncdims = some d) := by
  unfold alreadyInFile at h
  have hm := List.mem_of_find?_eq_some h
  have hp := List.find?_some h
  simp only [Bool.and_eq_true, Bool.or_eq_true, beq_iff_eq] at hp
  refine ⟨hm, hp.1.1.2, hp.2, ?_⟩
  intro d hd
  subst hd
  simpa using hp.1.1.1

/-- … and the entry that `_write_netcdf_variable` makes names the variable it creates, with the
contents and the dimensions of the construct (any mode but the dry run; no char storage). -/
theorem C17_registered_is_created (fx : Fix) (ncvar : Name) (ncdims : List Name) (c : Cons) (extra : List (String × String))
    (hs : c.strlen = none) (r : Reg) (fs : FileSt) (hfree : ncvar ∉ fs.ds.varNames)
    (hdims : ∀ d ∈ ncdims, d ∈ fs.ds.dimNames) (hfit : misfit fs.ds.dims (ncdims.zip c.shape) = none) :
    let out := run fx .post (writeVar ncvar ncdims c extra) r fs
    out.2.1.aux.seen = r.aux.seen ++ [⟨c.cid, c.kind, ncvar, some ncdims, c.shape⟩] ∧
    ∃ v ∈ out.2.2.ds.vars, v.name = ncvar ∧ v.cid = c.cid ∧ v.dims = ncdims := by
  have hd : ncdims.find? (fun d => !decide (d ∈ fs.ds.dimNames)) = none := by
    apply List.find?_eq_none.mpr
    intro d hd
    simp [hdims d hd]
  simp [writeVar, modA, getMode, bind, Prog.bind, run, hs, regSeen, pure, hfree, hd, hfit]

example : (run Fix.new .post (writeVar "lat" ["y", "x"] ⟨3, 1, [], none, [2, 3]⟩ []) {} { ds := { dims := [⟨"y", 2, false⟩, ⟨"x", 3, false⟩] } }).2.2.ds.vars
    = [⟨"lat", ["y", "x"], [], 3⟩] := by
  decide

example : (alreadyInFile { seen := [⟨3, 1, "lat", some ["y", "x"], [2, 3]⟩] } ⟨3, 1, [], none, [2, 3]⟩ (some ["y", "x"]) false).isSome = true ∧
          (alreadyInFile { seen := [⟨3, 1, "lat", some ["y", "x"], [2, 3]⟩] } ⟨3, 1, [], none, [2, 3]⟩ (some ["x", "y"]) false) = none ∧
          (alreadyInFile { seen := [⟨3, 1, "lat", some ["y", "x"], [2, 3]⟩] } ⟨3, 1, [], none, [3, 2]⟩ (some ["y", "x"]) false) = none := by
  decide

/-- The code as it was never wrote `formula_terms` in the post-dry-run pass: for every owning
coordinate, every list of terms, every registry and dataset, the request leaves the dataset as it is.
(Appending example field 1 gave five fields: its domain ancillaries came back as fields.) -/
theorem C17_old_formula_terms_never_written (owner z : Nat) (terms : List (String × Nat × List Nat)) (r : Reg) (fs : FileSt) :
    (run Fix.old .post (emitReq Fix.old (.formula owner z terms)) r fs).2.2 = fs := by
  simp only [emitReq, writeScalars, getAux, getMode, bind, pure, Prog.bind, run, List.nil_append]
  split
  · rfl
  · split
    · simp [run, Fix.old, Prog.bind]
      split <;> simp [run]
    · rfl

/-- The patched code writes it on a coordinate variable created by the same pass. -/
theorem C17_new_added_partial_formula_terms :
    let r : Reg := { aux := { keyVar := [(0, some "z"), (1, some "a")] } }
    let fs : FileSt := { ds := { vars := [⟨"z", ["z"], [], 1⟩, ⟨"a", ["z"], [], 2⟩] }, created := ["z", "a"] }
    (run Fix.new .post (emitReq Fix.new (.formula 0 0 [("a", 1, [0])])) r fs).2.2.ds.vars =
      [⟨"z", ["z"], [("formula_terms", "a: a")], 1⟩, ⟨"a", ["z"], [], 2⟩] := by
  decide

/-- … and never on a variable that was in the dataset before (the shared coordinate keeps its own
`formula_terms`; an appended field whose terms differ from it is the known finding
`formula-terms-on-shared-coordinate`). -/
theorem C17_formula_terms_not_on_old_variable :
    let r : Reg := { aux := { keyVar := [(0, some "z"), (1, some "a_1")] } }
    let fs : FileSt := { ds := { vars := [⟨"z", ["z"], [("formula_terms", "a: a")], 1⟩, ⟨"a_1", ["z"], [], 2⟩] }, created := ["a_1"] }
    (run Fix.new .post (emitReq Fix.new (.formula 0 0 [("a", 1, [0])])) r fs).2.2 = fs := by
  decide

/-- Open finding `scalar-formula-term-parameter-written-again`: the dataset holds the scalar term `ptop` of a
sigma coordinate; read back it is a 0-d *domain ancillary* (kind 2).  A field built by the user holds the
same value as a *parameter* of the coordinate conversion (a `Data` object, kind 9): `_write_scalar_data` finds
no registered construct of that class, writes `ptop_1`, and — the coordinate variable `sigma` being equal and
shared, hence not one this pass created — no `formula_terms` attribute names it: an orphan variable, which a
reader returns as an extra field. -/
def exSigma : Ds :=
  { dims := [⟨"sigma", 3, false⟩],
    vars := [⟨"sigma", ["sigma"], [("formula_terms", "ptop: ptop ps: ps")], 1⟩, ⟨"ps", ["sigma"], [], 2⟩, ⟨"ptop", [], [], 3⟩,
             ⟨"ta", ["sigma"], [], 4⟩] }
def exSigmaRead : List FieldReq :=
  [{ reqs := [.dimCoord 0 0 ⟨1, 0, [], none, [3]⟩ (some "sigma") none 3 false none, .domAnc 1 ⟨2, 2, [], none, [3]⟩ [0] "ps" none,
              .domAnc 2 ⟨3, 2, [], none, []⟩ [] "ptop" none, .formula 0 0 [("ptop", 2, []), ("ps", 1, [0])],
              .data ⟨4, 7, [], none, [3]⟩ "ta" [0] [] false] }]
def exSigmaNew : FieldReq :=
  { reqs := [.dimCoord 0 0 ⟨1, 0, [], none, [3]⟩ (some "sigma") none 3 false none, .domAnc 1 ⟨2, 2, [], none, [3]⟩ [0] "ps" none,
             .formula 0 0 [("ps", 1, [0])] [("ptop", ⟨3, 9, [], none, []⟩)], .data ⟨5, 7, [], none, [3]⟩ "tb" [0] [] false] }

theorem C17_scalar_parameter_written_again :
    (append Fix.new true exSigma exSigmaRead [exSigmaNew]) =
      (.ok, { exSigma with vars := exSigma.vars ++ [⟨"ptop_1", [], [], 3⟩, ⟨"tb", ["sigma"], [], 5⟩] }) := by
  decide

/-- … whereas the same field as the reader returns it (the term a domain ancillary) shares `ptop`. -/
example : (append Fix.new true exSigma exSigmaRead
            [{ exSigmaNew with reqs := [.dimCoord 0 0 ⟨1, 0, [], none, [3]⟩ (some "sigma") none 3 false none,
                 .domAnc 1 ⟨2, 2, [], none, [3]⟩ [0] "ps" none, .domAnc 2 ⟨3, 2, [], none, []⟩ [] "ptop" none,
                 .formula 0 0 [("ptop", 2, []), ("ps", 1, [0])], .data ⟨5, 7, [], none, [3]⟩ "tb" [0] [] false] }]) =
      (.ok, { exSigma with vars := exSigma.vars ++ [⟨"tb", ["sigma"], [], 5⟩] }) := by
  decide

/-- Properties left out of the appended data variables: the code as it was left out every
description-of-file-contents property common to the batch although global attributes are not written
when appending; the patched code leaves out only what the dataset holds with the same value. -/
theorem C17_old_description_property_dropped :
    globalOmit Fix.old .post [("Conventions", "c")] [{ reqs := [], gcand := [("comment", "x")] }] = [("comment", "x")] ∧
    globalOmit Fix.new .post [("Conventions", "c")] [{ reqs := [], gcand := [("comment", "x")] }] = [] ∧
    globalOmit Fix.new .post [("comment", "x")] [{ reqs := [], gcand := [("comment", "x")] }] = [("comment", "x")] := by
  decide

/-- What the patched pass leaves out is held by the dataset with the same value (or is `Conventions`). -/
theorem C17_new_added_partial_omitted_are_global (fileG : List (String × String)) (fs : List FieldReq) :
    ∀ kv ∈ globalOmit Fix.new .post fileG fs, kv.1 = "Conventions" ∨ kv ∈ fileG := by
  intro kv h
  unfold globalOmit at h
  cases fs with
  | nil => simp at h
  | cons f0 rest =>
    simp only [show Fix.new.globals = true from rfl, Bool.and_true] at h
    have : ((Mode.post == Mode.post) = true) := by decide
    simp only [this, if_true] at h
    have h2 := (List.mem_filter.mp h).2
    simp only [Bool.or_eq_true, beq_iff_eq, List.contains_eq_mem, decide_eq_true_eq] at h2
    exact h2

end Cfdm.Props.C17
