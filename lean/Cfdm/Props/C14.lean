import Cfdm.Lemmas.Geometry
import Cfdm.Lemmas.GeometryWidth
import Cfdm.Lemmas.GeometryWrite
import Cfdm.Lemmas.GeometryOps
/-
C14 — geometry cells are decoded and encoded as CF chapter 7.5 defines.
Property theorems only.  `partIndex true` / `wPartNodeCount` are the code at /repo HEAD
(the three findings of the first round were repaired by commits 6288525, fe4e445,
99956cc); the code as it was (`partIndex false`, `wPartNodeCountOld`) is refuted by the
`…_old_…_counterexample` theorems.  In the section on several fields per write,
`writeAll true` is the writer with the repair proposed in
fixes/C14-write-node-variable-reused-with-other-cells.patch and `writeAll false` the
writer as it stands (refuted by `C14_multi_old_counterexample`).
-/
namespace Cfdm.Props.C14
open Cfdm.Geometry

/-- The part→cell assignment loop of `_parse_geometry` (`i = k + 1`) gives
every part the cell that CF 7.5 gives it — the number of cumulative cell ends
not beyond the part's first node — for ALL `node_count` / `part_node_count`
vectors of a consistent container (every count ≥ 1, the parts group into
non-empty runs whose sums are the node counts), of any length. -/
theorem C14_assign (nc pnc : List Nat) (h : Consistent nc pnc) :
    partIndex true nc pnc = specAssign nc pnc := by
  obtain ⟨g, hne, hpos, rfl, rfl⟩ := h
  rw [partIndex_labels g hne hpos, specAssign_labels g hne hpos]

example : Consistent [5, 3, 4, 2] [2, 3, 3, 4, 2] :=
  ⟨[[2, 3], [3], [4], [2]], by decide, by decide, by decide, by decide⟩
example : partIndex true [5, 3, 4, 2] [2, 3, 3, 4, 2] = [0, 0, 1, 2, 3] := by decide

/-- The same with consistency stated on the cumulative counts only: every count
≥ 1, Σ node_count = Σ part_node_count and every cell boundary is a part
boundary. -/
theorem C14_assign_of_ends (nc pnc : List Nat) (h : Aligned nc pnc) :
    partIndex true nc pnc = specAssign nc pnc :=
  C14_assign nc pnc (consistent_of_aligned nc pnc h)

example : Aligned [5, 3, 4, 2] [2, 3, 3, 4, 2] := by
  refine ⟨by decide, by decide, by decide, by decide⟩

/-- The code before commit 6288525 (`i += k + 1`) was wrong from the third cell on: the
parts of cells 2 and 3 are never visited, keep their node counts as cell
numbers, and the decoded bounds have the last two cells swapped. -/
theorem C14_old_assign_counterexample :
    partIndex false [5, 3, 4, 2] [2, 3, 3, 4, 2] = [0, 0, 1, 4, 2]
    ∧ specAssign [5, 3, 4, 2] [2, 3, 3, 4, 2] = [0, 0, 1, 2, 3]
    ∧ (readBounds false (some [5, 3, 4, 2]) (some [2, 3, 3, 4, 2]) (List.range 14)).getD 2 []
        = [[some 12, some 13, none, none], [none, none, none, none]] := by decide

/-- Decode = spec: for every well-formed geometry (any number of cells, parts
per cell and nodes per part) encoded by the letter of CF 7.5, the bounds that
`cfdm.read` builds — assignment loop, `np.unique`-driven ragged indexed
contiguous decode, masked padding — are `bounds[c][i][j]` = node `j` of part `i`
of cell `c`, else masked. -/
theorem C14_decode {α} (cs : Cells α) (h : WF cs) :
    readBounds true (some (nodeCount cs)) (some (partNodeCount cs)) (nodesOf cs) = padSpec cs := by
  simp only [readBounds, defaultNodeCount, Option.getD_some, decodeRIC]
  rw [partIndex_cells cs h, splitBy_cells, groupRows_labels cs (fun c hc => (h c hc).1), nodeCount_length]
  exact range_map_getD' cs [] (padCell (maxLen cs) (maxLen cs.flatten))

example : WF [[[10, 11], [12, 13, 14]], [[15, 16, 17]], [[18, 19, 20, 21]], [[22, 23]]] := by
  unfold WF; decide
example : readBounds true (some [5, 3, 4, 2]) (some [2, 3, 3, 4, 2]) (List.range 14)
    = padSpec [[[0, 1], [2, 3, 4]], [[5, 6, 7]], [[8, 9, 10, 11]], [[12, 13]]] := by decide

/-- No `part_node_count` (every cell is one part): the ragged contiguous decode
plus the inserted size-1 part dimension gives the same presentation. -/
theorem C14_decode_no_part_node_count {α} (cs : Cells α) (h1 : ∀ c ∈ cs, c.length = 1) :
    readBounds true (some (nodeCount cs)) none (nodesOf cs) = padSpec cs := by
  rw [eq_map_singleton cs h1]
  generalize cs.flatten = ps
  have hnc := nodeCount_singletons ps
  have hno := nodesOf_singletons ps
  have hfl := flatten_map_singleton ps
  simp only [readBounds, defaultNodeCount, Option.getD_some, decodeRC, hnc, hno, splitBy_flatten,
    padSpec, hfl, List.map_map]
  apply List.map_congr_left
  intro p _
  simp [padTo, maxLen_map_singleton]

example : (∀ c ∈ [[[1, 2, 3]], [[4]], [[5, 6]]], c.length = 1) := by decide

/-- Neither `node_count` nor `part_node_count` (points, one node per cell): the
default count `ones(size)` presents every node as its own cell. -/
theorem C14_decode_points {α} (xs : List α) :
    readBounds true none none xs = padSpec (xs.map (fun x => [[x]])) := by
  have h := C14_decode_no_part_node_count (xs.map (fun x => [[x]])) (by
    intro c hc; obtain ⟨x, _, rfl⟩ := List.mem_map.mp hc; rfl)
  have hnc := nodeCount_points xs
  have hno := nodesOf_points xs
  rw [hnc, hno] at h
  rw [← h]
  simp [readBounds, defaultNodeCount]

example : readBounds true none none [7, 8, 9] = [[[some 7]], [[some 8]], [[some 9]]] := by decide

/-- Interior-ring flags attach to the right parts: the flags of the parts of
cell `c`, in order, then masked — and that is also what CF's closed-form
assignment gives. -/
theorem C14_interior_ring {α} (cs : Cells α) (h : WF cs) (rs : List (List Int))
    (hr : rs.map List.length = cs.map List.length) :
    readRing true (some (nodeCount cs)) (nodesOf cs).length (partNodeCount cs) rs.flatten = padRows rs
    ∧ specRing (nodeCount cs) (partNodeCount cs) rs.flatten = rs := by
  have hl : labels 0 cs = labels 0 rs := (labels_congr rs cs 0 hr).symm
  have hlen : cs.length = rs.length := by
    have := congrArg List.length hr; simpa using this.symm
  have hne : ∀ r ∈ rs, r ≠ [] := by
    intro r hrm hnil
    have : r.length ∈ rs.map List.length := List.mem_map.mpr ⟨r, hrm, rfl⟩
    rw [hr] at this
    obtain ⟨c, hc, hcl⟩ := List.mem_map.mp this
    rw [hnil] at hcl
    exact (h c hc).1 (List.length_eq_zero_iff.mp hcl)
  constructor
  · simp only [readRing, defaultNodeCount, Option.getD_some, decodeRI]
    rw [partIndex_cells cs h, hl, groupRows_labels rs hne, nodeCount_length, hlen]
    exact range_map_getD' rs [] (fun r => padTo (maxLen rs) none (r.map some))
  · simp only [specRing]
    rw [specAssign_cells cs h, hl, nodeCount_length, hlen]
    exact range_map_pickLabel rs

example : readRing true (some [5, 3, 4]) 12 [2, 3, 3, 4] [0, 1, 0, 0]
    = [[some 0, some 1], [some 0, none], [some 0, none]] := by decide

/-- Shape and size are those of the cells even when there are no representative
values: the shape rule applied to the decoded bounds gives `(number of cells,)`. -/
theorem C14_shape_without_data {α} (cs : Cells α) :
    coordShape none (some (shape3 (padSpec cs))) true = some [cs.length]
    ∧ ∀ s, coordShape (some s) (some (shape3 (padSpec cs))) true = some s := by
  constructor
  · simp [coordShape, shape3, padSpec]
  · intro s; rfl

example : coordShape none (some (shape3 (padSpec [[[1, 2], [3]], [[4]], [[5, 6, 7]]]))) true = some [3] := by
  decide

/-- Writer: from the padded bounds of ANY well-formed geometry the node
variable is the nodes in file order, `node_count` the nodes per cell, and
`part_node_count` the nodes per part without padding parts; it is
left out exactly when no cell has a second part and there is no interior ring. -/
theorem C14_write {α} (cs : Cells α) (h : WF cs) (hasRing : Bool) :
    wNodes (padSpec cs) = nodesOf cs
    ∧ wNodeCount (padSpec cs) = nodeCount cs
    ∧ wPartNodeCount (padSpec cs) hasRing
        = if maxLen cs == 1 && !hasRing then none else some (partNodeCount cs) := by
  refine ⟨wNodes_padSpec cs, wNodeCount_padSpec cs, ?_⟩
  simp only [wPartNodeCount, padSpec_dim1, pnc_padSpec cs h]

example : WF [[[0, 1, 2]], [[3, 4], [5, 6, 7]]] := by unfold WF; decide
example : wPartNodeCount (padSpec [[[0, 1, 2]], [[3, 4]]]) true = some [3, 2] := by decide

/-- Writer, interior ring: the unmasked flags in part order. -/
theorem C14_write_ring (rs : List (List Int)) : wRing (padRows rs) = rs.flatten :=
  wRing_padRows rs

/-- The code before commit fe4e445 (`np.trim_zeros`) left a zero inside
`part_node_count` when a cell other than the last has fewer parts than the
widest cell; the written vector then disagrees with Σ = number of nodes / the
ring variable's length, and CF's decoder does not get the cells back. -/
theorem C14_old_write_counterexample :
    wPartNodeCountOld (padSpec [[[0, 1, 2]], [[3, 4], [5, 6, 7]]]) = some [3, 0, 2, 3]
    ∧ wPartNodeCount (padSpec [[[0, 1, 2]], [[3, 4], [5, 6, 7]]]) false = some [3, 2, 3]
    ∧ wPartNodeCountOld (padSpec [[[0, 1, 2]], [[3, 4]]]) = none := by decide

/-- The `part_node_count` a decoder has to assume for a written container: the
variable if it was written, else one part per cell. -/
def writtenPnc {α} (b : List (List (List (Option α)))) (hasRing : Bool) : List Nat :=
  (wPartNodeCount b hasRing).getD (wNodeCount b)

/-- What a decoder assumes as `part_node_count` for a written container is the true vector. -/
theorem C14_written_part_node_count {α} (cs : Cells α) (h : WF cs) (hasRing : Bool) :
    writtenPnc (padSpec cs) hasRing = partNodeCount cs := by
  obtain ⟨_, h2, h3⟩ := C14_write cs h hasRing
  simp only [writtenPnc, h2, h3]
  split
  · rename_i hc
    simp only [Bool.and_eq_true, beq_iff_eq] at hc
    have h1 := length_eq_one_of_maxLen cs h hc.1
    simp only [Option.getD_none]
    rw [eq_map_singleton cs h1]
    exact (pnc_eq_nc_of_single cs.flatten).symm
  · rfl

/-- The written count and ring variables are mutually consistent: Σ
part_node_count = Σ node_count = number of nodes written, cell boundaries are
part boundaries, every count ≥ 1, and the ring variable has one flag per part. -/
theorem C14_consistent {α} (cs : Cells α) (h : WF cs) (rs : List (List Int))
    (hr : rs.map List.length = cs.map List.length) (hasRing : Bool) :
    let b := padSpec cs
    Consistent (wNodeCount b) (writtenPnc b hasRing)
    ∧ (writtenPnc b hasRing).sum = (wNodes b).length
    ∧ (wNodeCount b).sum = (wNodes b).length
    ∧ (wRing (padRows rs)).length = (writtenPnc b hasRing).length := by
  intro b
  obtain ⟨h1, h2, _⟩ := C14_write cs h hasRing
  simp only [b, C14_written_part_node_count cs h hasRing, h1, h2, wRing_padRows]
  refine ⟨consistent_cells cs h, (nodesOf_length cs).symm, ?_, ?_⟩
  · rw [nodeCount_sum, nodesOf_length]
  · simp only [partNodeCount, List.length_map, List.length_flatten]
    rw [hr]

example : ([[0], [0, 1]] : List (List Int)).map List.length
    = ([[[0, 1, 2]], [[3, 4], [5, 6, 7]]] : Cells Nat).map List.length := by decide

/-- CF's decoder inverts CF's encoding, for every well-formed geometry. -/
theorem C14_spec_decode_encode {α} (cs : Cells α) (h : WF cs) :
    specDecode (nodeCount cs) (partNodeCount cs) (nodesOf cs) = cs := by
  simp only [specDecode]
  rw [specAssign_cells cs h, splitBy_cells, nodeCount_length]
  exact range_map_pickLabel cs

/-- Encode then decode is the identity: from the variables `cfdm.write`
creates for the padded bounds of any well-formed geometry, the
independent CF 7.5 decoder recovers exactly the cells, and `cfdm.read` presents
exactly the bounds that were written. -/
theorem C14_encode_decode {α} (cs : Cells α) (h : WF cs) (hasRing : Bool) :
    let b := padSpec cs
    specDecode (wNodeCount b) (writtenPnc b hasRing) (wNodes b) = cs
    ∧ readBounds true (some (wNodeCount b)) (wPartNodeCount b hasRing) (wNodes b) = b := by
  intro b
  obtain ⟨h1, h2, h3⟩ := C14_write cs h hasRing
  refine ⟨?_, ?_⟩
  · simp only [b, C14_written_part_node_count cs h hasRing, h1, h2]
    exact C14_spec_decode_encode cs h
  · simp only [b, h1, h2, h3]
    split
    · rename_i hc
      simp only [Bool.and_eq_true, beq_iff_eq] at hc
      exact C14_decode_no_part_node_count cs (length_eq_one_of_maxLen cs h hc.1)
    · exact C14_decode cs h

example : specDecode [3, 5] [3, 2, 3] [10, 11, 12, 13, 14, 15, 16, 17]
    = [[[10, 11, 12]], [[13, 14], [15, 16, 17]]] := by decide

/-! ## The storage type of the count variables -/
section width
open Cfdm.GeometryWidth

/-- CF does not prescribe the netCDF type of the count variables.  Whatever the
widths `wn`, `wp` and signedness of the types `node_count` and `part_node_count`
are stored in, the loop of `_parse_geometry` — every stored count converted to
an unbounded integer before it is added to the running node total — assigns the
parts as CF 7.5 does, for every consistent container whose counts are what the
variables hold. -/
theorem C14_assign_any_storage_width {wn wp : Nat} (sn sp : Bool) (nc : List (BitVec wn)) (pnc : List (BitVec wp))
    (ncN pncN : List Nat) (hn : nc.map (storedVal sn) = ncN.map (fun (p : Nat) => (p : Int)))
    (hp : pnc.map (storedVal sp) = pncN.map (fun (p : Nat) => (p : Int))) (h : Consistent ncN pncN) :
    partIndexStored sn sp nc pnc = specAssign ncN pncN := by
  unfold partIndexStored
  rw [hn, hp, partIndexZ_ofNat]
  exact C14_assign ncN pncN h

/-- Byte counts 100 and 90 in one cell of 190 nodes. -/
example : partIndexStored (wn := 32) (wp := 8) true true [3#32, 190#32, 4#32] [3#8, 100#8, 90#8, 4#8]
    = [0, 1, 1, 2] := by decide
example : [3#32, 190#32, 4#32].map (storedVal true) = [3, 190, 4].map (fun (p : Nat) => (p : Int)) := by decide
example : Consistent [3, 190, 4] [3, 100, 90, 4] :=
  ⟨[[3], [100, 90], [4]], by decide, by decide, by decide, by decide⟩

/-- Keeping the running total in the storage type of `part_node_count` is wrong:
with signed bytes 100 + 90 wraps to -66, the cell of 190 nodes is never closed
and every later part is attached to it (unsigned bytes: 200 + 100 wraps to 44). -/
theorem C14_storage_accumulator_counterexample :
    partIndexW (wn := 32) (wp := 8) true true [3#32, 190#32, 4#32] [3#8, 100#8, 90#8, 4#8] = [0, 1, 1, 1]
    ∧ partIndexStored (wn := 32) (wp := 8) true true [3#32, 190#32, 4#32] [3#8, 100#8, 90#8, 4#8] = [0, 1, 1, 2]
    ∧ partIndexW (wn := 32) (wp := 8) true false [3#32, 300#32, 4#32] [3#8, 200#8, 100#8, 4#8] = [0, 1, 1, 1]
    ∧ partIndexStored (wn := 32) (wp := 8) true false [3#32, 300#32, 4#32] [3#8, 200#8, 100#8, 4#8] = [0, 1, 1, 2] := by
  decide

/-- … and it is wrong ONLY then: for a consistent container in which no cell has
more nodes than the storage type of `part_node_count` can hold, the loop that
keeps the running total in that type assigns the parts exactly as CF 7.5 does
(the hypothesis is decidable; the counter-example above shows that it cannot be
dropped). -/
theorem C14_storage_accumulator_ok_when_fits {wn wp : Nat} (sn sp : Bool) (nc : List (BitVec wn))
    (pnc : List (BitVec wp)) (g : List (List Nat)) (hne : ∀ c ∈ g, c ≠ []) (hpos : ∀ c ∈ g, ∀ x ∈ c, 0 < x)
    (hn : nc.map (storedVal sn) = (g.map List.sum).map (fun (p : Nat) => (p : Int)))
    (hp : pnc.map (storedVal sp) = g.flatten.map (fun (p : Nat) => (p : Int)))
    (hfit : ∀ c ∈ g, c.sum ≤ maxStored wp sp) :
    partIndexW sn sp nc pnc = specAssign (g.map List.sum) g.flatten := by
  rw [partIndexW_of_fits sn sp nc pnc g hne hpos hn hp hfit, specAssign_labels g hne hpos]

example : (∀ c ∈ [[3], [100, 27], [4]], c.sum ≤ maxStored 8 true) := by decide
example : ¬ (∀ c ∈ [[3], [100, 90], [4]], c.sum ≤ maxStored 8 true) := by decide
example : partIndexW (wn := 32) (wp := 8) true true [3#32, 127#32, 4#32] [3#8, 100#8, 27#8, 4#8] = [0, 1, 1, 2] := by
  decide

end width

/-! ## Several geometry fields in one `cfdm.write` -/
section multi
open Cfdm.GeometryWrite

/-- Every variable the writer shares is shared on equal content AND equal
dimensions: whatever the state of the dataset, `_already_in_file` followed by
creation returns a variable that holds exactly the requested content on exactly
the requested dimensions, and nothing written before is changed. -/
theorem C14_share_only_equal (st : Cfdm.GeometryWrite.St) (c : Content) (ds : List Nat) :
    HasVar (findOrAdd st c ds).1 (findOrAdd st c ds).2 c ds ∧ Ext st (findOrAdd st c ds).1 :=
  ⟨(findOrAdd_spec st c ds).2.1, (findOrAdd_spec st c ds).1⟩

/-- ONE `cfdm.write` of ANY list of geometry fields (the writer with the repair
proposed for the open finding `write-node-variable-reused-with-other-cells`):
if the write does not raise, the geometry container that each field's data
variable references names, in the final dataset, a node coordinate variable
holding that coordinate's nodes in file order, a `node_count` variable on the
field's own cell dimension holding its nodes per cell, and — exactly when a
cell has a second part or there are interior rings — a `part_node_count`
variable holding its nodes per part and an `interior_ring` variable holding its
flags on the same part dimension: the CF 7.5 encoding of the field's OWN cells,
whatever the other fields are and whatever variables they share with it. -/
theorem C14_multi_written_containers (fs : List FieldIn) (hk : ∀ f ∈ fs, SameKind f) (st' : Cfdm.GeometryWrite.St)
    (outs : List FieldOut) (h : writeAll true Cfdm.GeometryWrite.St.empty fs = some (st', outs)) :
    AllFields st' fs outs :=
  (writeAll_spec fs Cfdm.GeometryWrite.St.empty inv_empty hk st' outs h).2.2

/-- Two fields share a `node_count` variable ONLY IF their cell axes are on the
same netCDF dimension AND their node counts are equal (likewise, by the same
argument, for part_node_count and interior_ring on the part dimension). -/
theorem C14_multi_count_shared_only_if {st : Cfdm.GeometryWrite.St} {cell1 cell2 : Nat} {cont1 cont2 : Container} {c1 c2 : CoordIn}
    (h1 : ContainerEncodes st cell1 cont1 c1) (h2 : ContainerEncodes st cell2 cont2 c2)
    (hs : cont1.nodeCount = cont2.nodeCount) :
    cell1 = cell2 ∧ nodeCount c1.cells = nodeCount c2.cells := by
  have a := h1.2.1
  have b := h2.2.1
  rw [hs] at a
  obtain ⟨hc, hd⟩ := a.inj b
  constructor
  · simpa using hd
  · simpa using hc

/-- CF's decoder applied to the written container recovers the field's own cells
(and interior-ring flags). -/
theorem C14_multi_decode {st : Cfdm.GeometryWrite.St} {cell : Nat} {cont : Container} {c : CoordIn}
    (h : ContainerEncodes st cell cont c) (hwf : WF c.cells) :
    (∃ nv ∈ cont.nodes, decodeWritten st cont nv = some c.cells)
    ∧ (∀ rs, c.ring = some rs → rs.map List.length = c.cells.map List.length →
        decodeWrittenRing st cont = some (some rs))
    ∧ (c.ring = none → decodeWrittenRing st cont = some none) := by
  obtain ⟨⟨nv, hnv, nd, hn⟩, hnc, hparts⟩ := h
  have hvn : varNodes st nv = some (nodesOf c.cells) := by
    unfold varNodes; unfold HasVar at hn; rw [hn]
  have hvc : varCounts st cont.nodeCount = some (nodeCount c.cells) := by
    unfold varCounts; unfold HasVar at hnc; rw [hnc]
  unfold PartsOf at hparts
  by_cases hcond : (maxLen c.cells == 1 && c.ring.isNone) = true
  · rw [if_pos hcond] at hparts
    have hcc : containerCounts st cont = some (nodeCount c.cells, partNodeCount c.cells) := by
      unfold containerCounts
      rw [hvc, hparts.1]
      simp only [Bool.and_eq_true, beq_iff_eq] at hcond
      have h1 := length_eq_one_of_maxLen c.cells hwf hcond.1
      have : partNodeCount c.cells = nodeCount c.cells := by
        rw [eq_map_singleton c.cells h1]
        exact pnc_eq_nc_of_single c.cells.flatten
      rw [this]
    refine ⟨⟨nv, hnv, ?_⟩, ?_, ?_⟩
    · unfold decodeWritten
      rw [hvn, hcc]
      simp only []
      rw [C14_spec_decode_encode c.cells hwf]
    · intro rs hrs _
      simp only [Bool.and_eq_true] at hcond
      rw [hrs] at hcond
      cases hcond.2
    · intro _
      unfold decodeWrittenRing
      rw [hparts.2]
  · rw [if_neg hcond] at hparts
    obtain ⟨pv, pd, hpv, hpvar, hrest⟩ := hparts
    have hcc : containerCounts st cont = some (nodeCount c.cells, partNodeCount c.cells) := by
      unfold containerCounts
      rw [hvc, hpv]
      simp only []
      unfold varCounts; unfold HasVar at hpvar; rw [hpvar]
      rfl
    refine ⟨⟨nv, hnv, ?_⟩, ?_, ?_⟩
    · unfold decodeWritten
      rw [hvn, hcc]
      simp only []
      rw [C14_spec_decode_encode c.cells hwf]
    · intro rs hrs hlen
      rw [hrs] at hrest
      simp only [] at hrest
      obtain ⟨rv, hrv, hrvar⟩ := hrest
      unfold decodeWrittenRing
      rw [hrv]
      simp only []
      have : varFlags st rv = some rs.flatten := by
        unfold varFlags; unfold HasVar at hrvar; rw [hrvar]
      rw [this, hcc]
      simp only []
      rw [(C14_interior_ring c.cells hwf rs hlen).2]
    · intro hrn
      rw [hrn] at hrest
      simp only [] at hrest
      unfold decodeWrittenRing
      rw [hrest]

/-- Two fields on one cell dimension whose x nodes hold the same values, divided
into cells [2 nodes, 4 nodes] and [4 nodes, 2 nodes]. -/
def twoPartitions : List FieldIn :=
  [⟨0, 1, [⟨0, [[[0, 1]], [[2, 3, 4, 5]]], none, none, 7⟩], 0⟩,
   ⟨0, 1, [⟨0, [[[0, 1, 2, 3]], [[4, 5]]], none, none, 7⟩], 0⟩]

example : ∀ f ∈ twoPartitions, SameKind f := by decide
example : (writeAll true Cfdm.GeometryWrite.St.empty twoPartitions).isSome = true := by decide

/-- The writer as it stands re-uses the node coordinate variable of the first
field together with its node_count: the second field's container decodes to
the FIRST field's cells.  With the repair it decodes to its own. -/
theorem C14_multi_old_counterexample :
    ((writeAll false Cfdm.GeometryWrite.St.empty twoPartitions).map (fun r =>
        r.2.map (fun o => decodeWritten r.1 o.container (o.container.nodes.headD 0))))
      = some [some [[[0, 1]], [[2, 3, 4, 5]]], some [[[0, 1]], [[2, 3, 4, 5]]]]
    ∧ ((writeAll true Cfdm.GeometryWrite.St.empty twoPartitions).map (fun r =>
        r.2.map (fun o => decodeWritten r.1 o.container (o.container.nodes.headD 0))))
      = some [some [[[0, 1]], [[2, 3, 4, 5]]], some [[[0, 1, 2, 3]], [[4, 5]]]] := by
  constructor <;> decide

/-- The hypothesis `SameKind` cannot be dropped: a field whose x is one part of
two nodes and whose y is two parts of one node (equal node counts) gets a
container with y's part_node_count, from which x does not decode to x's cells. -/
theorem C14_multi_samekind_needed :
    let f : FieldIn := ⟨0, 1, [⟨0, [[[0, 1]]], none, none, 7⟩, ⟨1, [[[1000], [1001]]], none, none, 7⟩], 0⟩
    ¬ SameKind f
    ∧ ((writeAll true Cfdm.GeometryWrite.St.empty [f]).map (fun r =>
        r.2.map (fun o => decodeWritten r.1 o.container (o.container.nodes.headD 0))))
      = some [some [[[0], [1]]]] := by
  decide

end multi

/-! ## Operations that keep the part and node dimensions -/
section ops
open Cfdm.GeometryOps

/-- Subspacing a geometry coordinate along the cell axis (any resolved index
list: slices with either sign of step, integer lists, repetitions) presents
exactly the selected cells, in the selected order, with the trailing part and
node sizes unchanged, and the interior-ring flags of the same cells; the nodes
of a cell are never reversed. -/
theorem C14_subspace {α} (cs : Cells α) (rs : Option (List (List Int))) (mp mn : Nat) (sel : List Nat)
    (hs : ∀ i ∈ sel, i < cs.length) (hr : ∀ r, rs = some r → r.length = cs.length) :
    subspace sel (padW mp mn cs) (rs.map (padRowsW mp))
      = (padW mp mn (takeRows sel cs []), rs.map (fun r => padRowsW mp (takeRows sel r []))) := by
  unfold subspace padW
  congr 1
  · exact takeRows_map _ cs [] [] sel hs
  · cases rs with
    | none => rfl
    | some r =>
      simp only [Option.map_some, padRowsW]
      congr 1
      exact takeRows_map _ r [] [] sel (by intro i hi; rw [hr r rfl]; exact hs i hi)

example : (subspace [2, 0] (padW 2 3 [[[1, 2], [3]], [[4]], [[5, 6, 7]]]) none).1
    = padW 2 3 [[[5, 6, 7]], [[1, 2], [3]]] := by decide

/-- Writing what a subspace leaves behind: the bounds of the selected cells are
still padded to the ORIGINAL largest part / node counts, and from them the
writer produces the CF encoding of exactly the selected cells; CF's decoder
recovers them. -/
theorem C14_write_after_subspace {α} (cs : Cells α) (h : WF cs) (mp mn : Nat) (sel : List Nat)
    (hs : ∀ i ∈ sel, i < cs.length) (hne : sel ≠ []) (hmp : ∀ c ∈ cs, c.length ≤ mp) (hasRing : Bool) :
    let b := (subspace sel (padW mp mn cs) none).1
    let cs' := takeRows sel cs []
    wNodes b = nodesOf cs' ∧ wNodeCount b = nodeCount cs'
    ∧ wPartNodeCount b hasRing = (if mp == 1 && !hasRing then none else some (partNodeCount cs'))
    ∧ specDecode (wNodeCount b) ((wPartNodeCount b hasRing).getD (wNodeCount b)) (wNodes b) = cs' := by
  intro b cs'
  have hb : b = padW mp mn cs' := by
    have := C14_subspace cs none mp mn sel hs (by intro r hr; cases hr)
    simp only [Option.map_none] at this
    exact congrArg Prod.fst this
  have hwf : WF cs' := wf_takeRows cs h sel hs
  have hne' : cs' ≠ [] := by
    cases sel with
    | nil => exact absurd rfl hne
    | cons i is => simp [cs', takeRows]
  have hmp' : ∀ c ∈ cs', c.length ≤ mp := fun c hc => hmp c (mem_takeRows cs [] sel hs c hc)
  have h1 : wNodes b = nodesOf cs' := by rw [hb]; exact wNodes_padW mp mn cs'
  have h2 : wNodeCount b = nodeCount cs' := by rw [hb]; exact wNodeCount_padW mp mn cs'
  have h3 : wPartNodeCount b hasRing = (if mp == 1 && !hasRing then none else some (partNodeCount cs')) := by
    rw [hb]
    simp only [wPartNodeCount, padW_dim1 mp mn cs' hne' hmp', pnc_padW mp mn cs' hwf]
  refine ⟨h1, h2, h3, ?_⟩
  rw [h1, h2, h3]
  split
  · rename_i hc
    simp only [Bool.and_eq_true, beq_iff_eq] at hc
    have hone : ∀ c ∈ cs', c.length = 1 := by
      intro c hc'
      have := hmp' c hc'
      have : c.length ≠ 0 := fun h0 => (hwf c hc').1 (List.length_eq_zero_iff.mp h0)
      omega
    simp only [Option.getD_none]
    have : nodeCount cs' = partNodeCount cs' := by
      rw [eq_map_singleton cs' hone]
      exact (pnc_eq_nc_of_single cs'.flatten).symm
    have e := C14_spec_decode_encode cs' hwf
    rw [← this] at e
    exact e
  · simp only [Option.getD_some]
    exact C14_spec_decode_encode cs' hwf

example : wPartNodeCount (subspace [1] (padW 2 3 [[[1, 2], [3]], [[4]], [[5, 6, 7]]]) none).1 false = some [1] := by
  decide

/-- The invariant of `insert_dimension` / `squeeze` / `transpose` on a geometry
coordinate: whatever the sequence of operations, the bounds keep the
coordinate's dimensions followed by the part and node dimensions, the interior
ring the coordinate's dimensions followed by the part dimension — also when
those trailing dimensions have size one (`squeeze` removes positions, not sizes)
— and the shape inferred for a coordinate without representative values is the
coordinate's shape. -/
def GoodShapes (mp mn : Nat) (hasRing : Bool) (x : Shapes) : Prop :=
  x.b = x.c ++ [mp, mn] ∧ x.r = (if hasRing then some (x.c ++ [mp]) else none)

theorem applyOp_good (mp mn : Nat) (hasRing : Bool) (o : COp) (x : Shapes) (hx : GoodShapes mp mn hasRing x) :
    GoodShapes mp mn hasRing (applyOp o x) := by
  obtain ⟨hb, hr⟩ := hx
  cases o with
  | ins pos =>
    simp only [applyOp]
    have hle : (if pos ≤ x.c.length then pos else x.c.length) ≤ x.c.length := by split <;> omega
    generalize (if pos ≤ x.c.length then pos else x.c.length) = q at hle
    refine ⟨by rw [hb]; exact insAt_append q x.c _ hle, ?_⟩
    rw [hr]
    cases hasRing
    · rfl
    · simp only [if_true, Option.map_some]
      rw [insAt_append q x.c _ hle]
  | sq =>
    simp only [applyOp]
    have hax : ∀ a ∈ (List.range x.c.length).filter (fun i => x.c.getD i 0 == 1), a < 0 + x.c.length := by
      intro a ha
      have := List.mem_range.mp (List.mem_filter.mp ha).1
      omega
    refine ⟨by rw [hb]; exact dropAxesFrom_append _ _ x.c 0 hax, ?_⟩
    rw [hr]
    cases hasRing
    · rfl
    · simp only [if_true, Option.map_some]
      congr 1
      exact dropAxesFrom_append _ _ x.c 0 hax
  | tr =>
    simp only [applyOp]
    have hax : ∀ a ∈ (List.range x.c.length).reverse, a < x.c.length := by
      intro a ha
      exact List.mem_range.mp (List.mem_reverse.mp ha)
    constructor
    · rw [hb]
      have : (x.c ++ [mp, mn]).length - x.c.length = [mp, mn].length := by simp
      rw [this]
      exact permute_append _ x.c [mp, mn] hax
    · rw [hr]
      cases hasRing
      · rfl
      · simp only [if_true, Option.map_some]
        congr 1
        have : (x.c ++ [mp]).length - 1 = x.c.length := by simp
        rw [this]
        exact permute_append _ x.c [mp] hax

theorem C14_ops_shapes (ops : List COp) (n mp mn : Nat) (hasRing : Bool) :
    let x := applyOps ops (initShapes n mp mn hasRing)
    GoodShapes mp mn hasRing x ∧ coordShape none (some x.b) true = some x.c := by
  intro x
  have hgood : ∀ (ops : List COp) (y : Shapes), GoodShapes mp mn hasRing y →
      GoodShapes mp mn hasRing (applyOps ops y) := by
    intro ops
    induction ops with
    | nil => intro y hy; exact hy
    | cons o ops ih =>
      intro y hy
      exact ih (applyOp o y) (applyOp_good mp mn hasRing o y hy)
  have h0 : GoodShapes mp mn hasRing (initShapes n mp mn hasRing) := by
    constructor
    · rfl
    · cases hasRing <;> rfl
  have hx := hgood ops _ h0
  refine ⟨hx, ?_⟩
  have hb : x.b = x.c ++ [mp, mn] := hx.1
  simp only [coordShape, hb, Option.map_some, List.length_append, List.length_cons, List.length_nil]
  simp

/-- A polygon coordinate whose cells all have one part (part dimension of size
one): inserting a dimension, transposing and squeezing keeps the size-one part
dimension of the bounds and of the interior ring. -/
example : applyOps [COp.ins 0, COp.tr, COp.sq] (initShapes 3 1 4 true) = ⟨[3], [3, 1, 4], some [3, 1]⟩ := by decide
example : applyOps [COp.sq] (initShapes 1 1 1 true) = ⟨[], [1, 1], some [1]⟩ := by decide

end ops

end Cfdm.Props.C14
