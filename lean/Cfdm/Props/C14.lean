import Cfdm.Lemmas.Geometry
/-
C14 — geometry cells are decoded and encoded as CF chapter 7.5 defines.
Property theorems only.  `partIndex true` / `wPartNodeCount` are the code after the
proposed patches (fixes/C14-*.patch); the code as it stands (`partIndex false`,
`wPartNodeCountOld`) is refuted by the `…_counterexample` theorems.
-/
namespace Cfdm.Props.C14
open Cfdm.Geometry

/-- The part→cell assignment loop of `_parse_geometry` (with `i = k + 1`) gives
every part the cell that CF 7.5 gives it — the number of cumulative cell ends
not beyond the part's first node — for ALL `node_count` / `part_node_count`
vectors of a consistent container (every count ≥ 1, the parts group into
non-empty runs whose sums are the node counts), of any length. -/
theorem C14_assign (nc pnc : List Nat) (h : Consistent nc pnc) :
    partIndex true nc pnc = specAssign nc pnc := by
  obtain ⟨g, hne, hpos, rfl, rfl⟩ := h
  rw [partIndex_labels g hne hpos, specAssign_labels g hne hpos]

example : Consistent [5, 3, 4, 2] [2, 3, 3, 4, 2] :=
  ⟨[[2, 3], [3], [4], [2]], by decide, by decide, by decide, by decide⟩
example : partIndex true [5, 3, 4, 2] [2, 3, 3, 4, 2] = [0, 0, 1, 2, 3] := by decide

/-- The same with consistency stated on the cumulative counts only: every count
≥ 1, Σ node_count = Σ part_node_count and every cell boundary is a part
boundary. -/
theorem C14_assign_of_ends (nc pnc : List Nat) (h : Aligned nc pnc) :
    partIndex true nc pnc = specAssign nc pnc :=
  C14_assign nc pnc (consistent_of_aligned nc pnc h)

example : Aligned [5, 3, 4, 2] [2, 3, 3, 4, 2] := by
  refine ⟨by decide, by decide, by decide, by decide⟩

/-- The code as it stands (`i += k + 1`) is wrong from the third cell on: the
parts of cells 2 and 3 are never visited, keep their node counts as cell
numbers, and the decoded bounds have the last two cells swapped. -/
theorem C14_old_assign_counterexample :
    partIndex false [5, 3, 4, 2] [2, 3, 3, 4, 2] = [0, 0, 1, 4, 2]
    ∧ specAssign [5, 3, 4, 2] [2, 3, 3, 4, 2] = [0, 0, 1, 2, 3]
    ∧ (readBounds false (some [5, 3, 4, 2]) (some [2, 3, 3, 4, 2]) (List.range 14)).getD 2 []
        = [[some 12, some 13, none, none], [none, none, none, none]] := by decide

/-- Decode = spec: for every well-formed geometry (any number of cells, parts
per cell and nodes per part) encoded by the letter of CF 7.5, the bounds that
`cfdm.read` builds — assignment loop, `np.unique`-driven ragged indexed
contiguous decode, masked padding — are `bounds[c][i][j]` = node `j` of part `i`
of cell `c`, else masked. -/
theorem C14_decode {α} (cs : Cells α) (h : WF cs) :
    readBounds true (some (nodeCount cs)) (some (partNodeCount cs)) (nodesOf cs) = padSpec cs := by
  simp only [readBounds, defaultNodeCount, Option.getD_some, decodeRIC]
  rw [partIndex_cells cs h, splitBy_cells, groupRows_labels cs (fun c hc => (h c hc).1), nodeCount_length]
  exact range_map_getD' cs [] (padCell (maxLen cs) (maxLen cs.flatten))

example : WF [[[10, 11], [12, 13, 14]], [[15, 16, 17]], [[18, 19, 20, 21]], [[22, 23]]] := by
  unfold WF; decide
example : readBounds true (some [5, 3, 4, 2]) (some [2, 3, 3, 4, 2]) (List.range 14)
    = padSpec [[[0, 1], [2, 3, 4]], [[5, 6, 7]], [[8, 9, 10, 11]], [[12, 13]]] := by decide

/-- No `part_node_count` (every cell is one part): the ragged contiguous decode
plus the inserted size-1 part dimension gives the same presentation. -/
theorem C14_decode_no_part_node_count {α} (cs : Cells α) (h1 : ∀ c ∈ cs, c.length = 1) :
    readBounds true (some (nodeCount cs)) none (nodesOf cs) = padSpec cs := by
  rw [eq_map_singleton cs h1]
  generalize cs.flatten = ps
  have hnc := nodeCount_singletons ps
  have hno := nodesOf_singletons ps
  have hfl := flatten_map_singleton ps
  simp only [readBounds, defaultNodeCount, Option.getD_some, decodeRC, hnc, hno, splitBy_flatten,
    padSpec, hfl, List.map_map]
  apply List.map_congr_left
  intro p _
  simp [padTo, maxLen_map_singleton]

example : (∀ c ∈ [[[1, 2, 3]], [[4]], [[5, 6]]], c.length = 1) := by decide

/-- Neither `node_count` nor `part_node_count` (points, one node per cell): the
default count `ones(size)` presents every node as its own cell. -/
theorem C14_decode_points {α} (xs : List α) :
    readBounds true none none xs = padSpec (xs.map (fun x => [[x]])) := by
  have h := C14_decode_no_part_node_count (xs.map (fun x => [[x]])) (by
    intro c hc; obtain ⟨x, _, rfl⟩ := List.mem_map.mp hc; rfl)
  have hnc := nodeCount_points xs
  have hno := nodesOf_points xs
  rw [hnc, hno] at h
  rw [← h]
  simp [readBounds, defaultNodeCount]

example : readBounds true none none [7, 8, 9] = [[[some 7]], [[some 8]], [[some 9]]] := by decide

/-- Interior-ring flags attach to the right parts: the flags of the parts of
cell `c`, in order, then masked — and that is also what CF's closed-form
assignment gives. -/
theorem C14_interior_ring {α} (cs : Cells α) (h : WF cs) (rs : List (List Int))
    (hr : rs.map List.length = cs.map List.length) :
    readRing true (some (nodeCount cs)) (nodesOf cs).length (partNodeCount cs) rs.flatten = padRows rs
    ∧ specRing (nodeCount cs) (partNodeCount cs) rs.flatten = rs := by
  have hl : labels 0 cs = labels 0 rs := (labels_congr rs cs 0 hr).symm
  have hlen : cs.length = rs.length := by
    have := congrArg List.length hr; simpa using this.symm
  have hne : ∀ r ∈ rs, r ≠ [] := by
    intro r hrm hnil
    have : r.length ∈ rs.map List.length := List.mem_map.mpr ⟨r, hrm, rfl⟩
    rw [hr] at this
    obtain ⟨c, hc, hcl⟩ := List.mem_map.mp this
    rw [hnil] at hcl
    exact (h c hc).1 (List.length_eq_zero_iff.mp hcl)
  constructor
  · simp only [readRing, defaultNodeCount, Option.getD_some, decodeRI]
    rw [partIndex_cells cs h, hl, groupRows_labels rs hne, nodeCount_length, hlen]
    exact range_map_getD' rs [] (fun r => padTo (maxLen rs) none (r.map some))
  · simp only [specRing]
    rw [specAssign_cells cs h, hl, nodeCount_length, hlen]
    exact range_map_pickLabel rs

example : readRing true (some [5, 3, 4]) 12 [2, 3, 3, 4] [0, 1, 0, 0]
    = [[some 0, some 1], [some 0, none], [some 0, none]] := by decide

/-- Shape and size are those of the cells even when there are no representative
values: the shape rule applied to the decoded bounds gives `(number of cells,)`. -/
theorem C14_shape_without_data {α} (cs : Cells α) :
    coordShape none (some (shape3 (padSpec cs))) true = some [cs.length]
    ∧ ∀ s, coordShape (some s) (some (shape3 (padSpec cs))) true = some s := by
  constructor
  · simp [coordShape, shape3, padSpec]
  · intro s; rfl

example : coordShape none (some (shape3 (padSpec [[[1, 2], [3]], [[4]], [[5, 6, 7]]]))) true = some [3] := by
  decide

/-- Writer: from the padded bounds of ANY well-formed geometry the node
variable is the nodes in file order, `node_count` the nodes per cell, and
`part_node_count` (patched) the nodes per part without padding parts; it is
left out exactly when no cell has a second part and there is no interior ring. -/
theorem C14_write {α} (cs : Cells α) (h : WF cs) (hasRing : Bool) :
    wNodes (padSpec cs) = nodesOf cs
    ∧ wNodeCount (padSpec cs) = nodeCount cs
    ∧ wPartNodeCount (padSpec cs) hasRing
        = if maxLen cs == 1 && !hasRing then none else some (partNodeCount cs) := by
  refine ⟨wNodes_padSpec cs, wNodeCount_padSpec cs, ?_⟩
  simp only [wPartNodeCount, padSpec_dim1, pnc_padSpec cs h]

example : WF [[[0, 1, 2]], [[3, 4], [5, 6, 7]]] := by unfold WF; decide
example : wPartNodeCount (padSpec [[[0, 1, 2]], [[3, 4]]]) true = some [3, 2] := by decide

/-- Writer, interior ring: the unmasked flags in part order. -/
theorem C14_write_ring (rs : List (List Int)) : wRing (padRows rs) = rs.flatten :=
  wRing_padRows rs

/-- The code as it stands (`np.trim_zeros`) leaves a zero inside
`part_node_count` when a cell other than the last has fewer parts than the
widest cell; the written vector then disagrees with Σ = number of nodes / the
ring variable's length, and CF's decoder does not get the cells back. -/
theorem C14_old_write_counterexample :
    wPartNodeCountOld (padSpec [[[0, 1, 2]], [[3, 4], [5, 6, 7]]]) = some [3, 0, 2, 3]
    ∧ wPartNodeCount (padSpec [[[0, 1, 2]], [[3, 4], [5, 6, 7]]]) false = some [3, 2, 3]
    ∧ wPartNodeCountOld (padSpec [[[0, 1, 2]], [[3, 4]]]) = none := by decide

/-- The `part_node_count` a decoder has to assume for a written container: the
variable if it was written, else one part per cell. -/
def writtenPnc {α} (b : List (List (List (Option α)))) (hasRing : Bool) : List Nat :=
  (wPartNodeCount b hasRing).getD (wNodeCount b)

/-- What a decoder assumes as `part_node_count` for a written container is the true vector. -/
theorem C14_written_part_node_count {α} (cs : Cells α) (h : WF cs) (hasRing : Bool) :
    writtenPnc (padSpec cs) hasRing = partNodeCount cs := by
  obtain ⟨_, h2, h3⟩ := C14_write cs h hasRing
  simp only [writtenPnc, h2, h3]
  split
  · rename_i hc
    simp only [Bool.and_eq_true, beq_iff_eq] at hc
    have h1 := length_eq_one_of_maxLen cs h hc.1
    simp only [Option.getD_none]
    rw [eq_map_singleton cs h1]
    exact (pnc_eq_nc_of_single cs.flatten).symm
  · rfl

/-- The written count and ring variables are mutually consistent: Σ
part_node_count = Σ node_count = number of nodes written, cell boundaries are
part boundaries, every count ≥ 1, and the ring variable has one flag per part. -/
theorem C14_consistent {α} (cs : Cells α) (h : WF cs) (rs : List (List Int))
    (hr : rs.map List.length = cs.map List.length) (hasRing : Bool) :
    let b := padSpec cs
    Consistent (wNodeCount b) (writtenPnc b hasRing)
    ∧ (writtenPnc b hasRing).sum = (wNodes b).length
    ∧ (wNodeCount b).sum = (wNodes b).length
    ∧ (wRing (padRows rs)).length = (writtenPnc b hasRing).length := by
  intro b
  obtain ⟨h1, h2, _⟩ := C14_write cs h hasRing
  simp only [b, C14_written_part_node_count cs h hasRing, h1, h2, wRing_padRows]
  refine ⟨consistent_cells cs h, (nodesOf_length cs).symm, ?_, ?_⟩
  · rw [nodeCount_sum, nodesOf_length]
  · simp only [partNodeCount, List.length_map, List.length_flatten]
    rw [hr]

example : ([[0], [0, 1]] : List (List Int)).map List.length
    = ([[[0, 1, 2]], [[3, 4], [5, 6, 7]]] : Cells Nat).map List.length := by decide

/-- CF's decoder inverts CF's encoding, for every well-formed geometry. -/
theorem C14_spec_decode_encode {α} (cs : Cells α) (h : WF cs) :
    specDecode (nodeCount cs) (partNodeCount cs) (nodesOf cs) = cs := by
  simp only [specDecode]
  rw [specAssign_cells cs h, splitBy_cells, nodeCount_length]
  exact range_map_pickLabel cs

/-- Encode then decode is the identity: from the variables `cfdm.write`
(patched) creates for the padded bounds of any well-formed geometry, the
independent CF 7.5 decoder recovers exactly the cells, and `cfdm.read` presents
exactly the bounds that were written. -/
theorem C14_encode_decode {α} (cs : Cells α) (h : WF cs) (hasRing : Bool) :
    let b := padSpec cs
    specDecode (wNodeCount b) (writtenPnc b hasRing) (wNodes b) = cs
    ∧ readBounds true (some (wNodeCount b)) (wPartNodeCount b hasRing) (wNodes b) = b := by
  intro b
  obtain ⟨h1, h2, h3⟩ := C14_write cs h hasRing
  refine ⟨?_, ?_⟩
  · simp only [b, C14_written_part_node_count cs h hasRing, h1, h2]
    exact C14_spec_decode_encode cs h
  · simp only [b, h1, h2, h3]
    split
    · rename_i hc
      simp only [Bool.and_eq_true, beq_iff_eq] at hc
      exact C14_decode_no_part_node_count cs (length_eq_one_of_maxLen cs h hc.1)
    · exact C14_decode cs h

example : specDecode [3, 5] [3, 2, 3] [10, 11, 12, 13, 14, 15, 16, 17]
    = [[[10, 11, 12]], [[13, 14], [15, 16, 17]]] := by decide

end Cfdm.Props.C14
