import Cfdm.Lemmas.Ragged
import Cfdm.Lemmas.RaggedND
import Cfdm.Lemmas.RaggedState
import Cfdm.Lemmas.RaggedNc
import Cfdm.Props.C03
/-
C06 — data compressed by convention are seen uncompressed, exactly.
Property theorems only.  Models and specifications:
  `Cfdm/Model/Ragged.lean`      the four `subarrays()` generators, the subarray classes, the assembly in
                                `CompressedArray.__getitem__`, `Field.compress` (one array)
  `Cfdm/Model/RaggedND.lean`    gathering inside an N-d array (any leading / trailing dimensions), the shapes a
                                reader derives, `Field.compress` with metadata constructs (shared counts)
  `Cfdm/Model/RaggedState.lean` which `Data` operations keep the compressed array and which replace it
  `Cfdm/Model/RaggedNc.lean`    the netCDF encoding written by `cfdm.write` and its decoding by `cfdm.read`

The models mirror the anchored cfdm code as it is at /repo HEAD, i.e. WITH the repairs
82a1a24 (instances iterated by `range`, not `np.unique`), 8c31532 (trailing dimension of indexed
contiguous arrays), d324c79 (zero counts kept), f1a0d65 (mask of an assigned `Data` value kept),
d4c0294 (counts from every array compressed with them), 0eac4fa (datasets without samples),
dd549ba (unique sample / feature dimension names).  The code as it was before a repair is kept as
`…Old` with a `decide` counter-example (`C06_*_old_code_counterexample`); those theorems document
the repaired defects, they say nothing about HEAD.  Open findings (known_findings.json) are named
where the theorem that excludes them stands.
-/
namespace Cfdm.Props.C06
open Cfdm.Ragged Cfdm.Arr Cfdm.Indexing

/-- **Contiguous ragged array.**  For every count vector (zeros allowed, any length
relative to the number of rows) and every compressed array, the array that
`RaggedContiguousArray.subarrays` + `RaggedSubarray` + `CompressedArray.__getitem__`
assemble is the CF 9.3.3 array: `u[i][j] = c[Σ_{i'<i} n_i' + j]` if `j < n_i`, else
masked.  Only hypothesis: no count exceeds the row length of the uncompressed shape. -/
theorem C06_decode_contiguous {α} (count : List Nat) (nrows ncols : Nat) (c : List (M α))
    (h : ∀ n ∈ count, n ≤ ncols) :
    decodeContiguous count nrows ncols c = table nrows ncols (specContiguous count c) := by
  rw [decodeContiguous, subarraysContiguous, decodeContiguousFrom_spec c ncols count 0 nrows h]
  congr 1
  funext i j
  simp [specContiguous]

example : ∀ n ∈ [2, 0, 3, 1], n ≤ 3 := by decide
example : decodeContiguous [2, 0, 3, 1] 4 3 [some 1, some 2, none, some 4, some 5, some 6]
    = [[some 1, some 2, none], [none, none, none], [none, some 4, some 5], [some 6, none, none]] := by
  decide

/-- **Indexed ragged array.**  For every index vector — any order, instances absent,
values beyond the number of rows ignored — the assembled array is the CF 9.3.4
array: `u[i][j]` is the `j`-th sample `p` with `index[p] = i`, everything else
masked.  Only hypothesis: no instance has more samples than the row length. -/
theorem C06_decode_indexed {α} (index : List Nat) (nrows ncols : Nat) (c : List (M α))
    (h : ∀ i, i < nrows → index.count i ≤ ncols) :
    decodeIndexed index nrows ncols c = table nrows ncols (specIndexed index c) := by
  simp only [decodeIndexed, subarraysIndexed, table]
  rw [assembleRows_full _ _ _ _ (by simp), List.map_map]
  apply List.map_congr_left
  intro i hi
  simp only [Function.comp_def]
  exact raggedRow_pos index c i ncols (h i (by simpa using hi))

example : ∀ i, i < 3 → ([2, 0, 2, 0, 2] : List Nat).count i ≤ 3 := by decide
example : decodeIndexed [2, 0, 2, 0, 2] 3 3 [some 10, some 11, some 12, some 13, some 14]
    = [[some 11, some 13, none], [none, none, none], [some 10, some 12, some 14]] := by decide

/-- The code before repair 82a1a24 (`for i in np.unique(index)`) was wrong as soon as an
instance has no samples: instance 2's samples land in row 1. -/
theorem C06_indexed_old_code_counterexample :
    decodeIndexedOld [2, 0, 2] 3 2 [some 10, some 11, some 12]
      = [[some 11, none], [some 10, some 12], [none, none]]
    ∧ table 3 2 (specIndexed [2, 0, 2] [some 10, some 11, some 12])
      = [[some 11, none], [none, none], [some 10, some 12]] := by decide

/-- **Indexed contiguous ragged array**, as the row-major list of its
`ninst * maxProf` profiles.  For every count vector and every index vector over the
profiles (any order, instances without profiles, profiles without elements) the
assembled array is the CF 9.3.5 composition.  Hypotheses: the uncompressed shape is
large enough (profiles per instance ≤ `maxProf`, elements per profile ≤ `nelem`). -/
theorem C06_decode_indexed_contiguous {α} (count index : List Nat) (ninst maxProf nelem : Nat)
    (c : List (M α)) (hc : ∀ n ∈ count, n ≤ nelem)
    (hp : ∀ i, i < ninst → index.count i ≤ maxProf) :
    decodeIndexedContiguous count index ninst maxProf nelem c
      = (table ninst maxProf (fun i j =>
          (List.range nelem).map (specIndexedContiguous count index c i j))).flatten := by
  simp only [decodeIndexedContiguous, subarraysIndexedContiguous]
  have hlen : ((List.range ninst).flatMap (icBlock (cumsum 0 count) index maxProf)).length
      = ninst * maxProf := by
    rw [List.length_flatMap]
    have : (List.range ninst).map (fun i => (icBlock (cumsum 0 count) index maxProf i).length)
        = (List.range ninst).map (fun _ => maxProf) :=
      List.map_congr_left (fun i hi => icBlock_length _ _ _ _ (hp i (by simpa using hi)))
    rw [this]; simp
  rw [assembleRows_full _ _ _ _ hlen, List.map_flatMap, table, List.flatten_eq_flatMap,
    List.flatMap_map]
  apply List.flatMap_congr
  intro i hi
  exact icBlock_rows count index c maxProf nelem i hc (hp i (by simpa using hi))

example : (∀ n ∈ [2, 1, 3], n ≤ 3) ∧ (∀ i, i < 2 → ([1, 0, 1] : List Nat).count i ≤ 2) := by decide
example : decodeIndexedContiguous [2, 1, 3] [1, 0, 1] 2 2 3 [some 0, some 1, some 2, some 3, some 4, some 5]
    = [[some 2, none, none], [none, none, none], [some 0, some 1, none], [some 3, some 4, some 5]] := by
  decide

/-- The code before repair 82a1a24: instance 0 has no profile, so instance 1's profile is
placed in instance 0. -/
theorem C06_indexed_contiguous_old_code_counterexample :
    decodeIndexedContiguousOld [2] [1] 2 1 2 [some 7, some 8] = [[some 7, some 8], [none, none]]
    ∧ (table 2 1 (fun i j => (List.range 2).map
        (specIndexedContiguous [2] [1] [some 7, some 8] i j))).flatten
      = [[none, none], [some 7, some 8]] := by decide

/-- **Gathered array.**  For every list variable with in-range values (any order,
sparse) over any product `dims` of compressed dimensions, the element that
`GatheredSubarray` puts at a valid multi-index `idx` is the CF 8.2 one:
`c[k]` where `list[k]` is the row-major flat index of `idx` (the last such `k`, which
for a list of distinct values is the only one), masked if there is none. -/
theorem C06_decode_gathered {α} (dims l : List Nat) (c : List (M α)) (idx : List Nat)
    (hl : ∀ q ∈ l, q < prod dims) (hi : InRange dims idx) :
    decodeGathered dims l c idx = specGathered dims l c idx := by
  simp [decodeGathered, specGathered, gatherAssign_spec dims idx hi l c _ hl]

example : ∀ q ∈ [5, 0, 3], q < prod [2, 3] := by decide
example : InRange [2, 3] [1, 0] := by simp [InRange]
example : decodeGathered [2, 3] [5, 0, 3] [some 1, some 2, some 3] [1, 0] = some 3 := by decide

/-- CF 8.2 read literally, first half: for a list of distinct in-range values, sample
`k` is found at the multi-index `unravel(list[k])`. -/
theorem C06_gathered_hit {α} (dims l : List Nat) (c : List (M α)) (k : Nat)
    (hl : ∀ q ∈ l, q < prod dims) (hnd : l.Nodup) (hk : k < l.length) (hc : l.length ≤ c.length) :
    decodeGathered dims l c (unravel dims (l.getD k 0)) = c.getD k none := by
  have hq : l.getD k 0 < prod dims := hl _ (by simp [List.getD_eq_getElem?_getD, hk])
  rw [C06_decode_gathered dims l c _ hl (inRange_unravel dims _ hq), specGathered,
    ravel_unravel dims _ hq, lastHit_nodup l c k hnd hk hc]
  rfl

/-- … second half: a valid multi-index whose flat index is not listed is masked. -/
theorem C06_gathered_miss {α} (dims l : List Nat) (c : List (M α)) (idx : List Nat)
    (hl : ∀ q ∈ l, q < prod dims) (hi : InRange dims idx) (hm : Ragged.ravel dims idx ∉ l) :
    decodeGathered dims l c idx = none := by
  rw [C06_decode_gathered dims l c idx hl hi, specGathered, lastHit_not_mem _ l c hm]
  rfl

example : ([5, 0, 3] : List Nat).Nodup := by decide
example : Ragged.ravel [2, 3] [0, 1] ∉ ([5, 0, 3] : List Nat) := by decide

/-- **Subspaces.**  `CompressedArray.__getitem__` assembles the uncompressed array and
then indexes it one list axis at a time (`netcdf_indexer`, in whatever order its
heuristic picks): the result is the orthogonal (numpy per-axis) subspace of the CF
array.  Composition of the decode theorem with `C03_getitem_order_irrelevant`. -/
theorem C06_subspace_contiguous {α} (count : List Nat) (nrows ncols : Nat) (c : List (M α))
    (h : ∀ n ∈ count, n ≤ ncols) (ps : List (List Nat)) (order : List Nat)
    (hps : ps.length = 2) (hnd : order.Nodup) (hcover : ∀ k, k ∈ order ↔ k < ps.length) :
    Eqv 2 (seqTake (rowsToArr nrows ncols (decodeContiguous count nrows ncols c)) ps order)
      (takeAll (rowsToArr nrows ncols (table nrows ncols (specContiguous count c))) ps) := by
  rw [C06_decode_contiguous count nrows ncols c h]
  exact Cfdm.Props.C03.C03_getitem_order_irrelevant _ ps order hps hnd hcover

theorem C06_subspace_indexed {α} (index : List Nat) (nrows ncols : Nat) (c : List (M α))
    (h : ∀ i, i < nrows → index.count i ≤ ncols) (ps : List (List Nat)) (order : List Nat)
    (hps : ps.length = 2) (hnd : order.Nodup) (hcover : ∀ k, k ∈ order ↔ k < ps.length) :
    Eqv 2 (seqTake (rowsToArr nrows ncols (decodeIndexed index nrows ncols c)) ps order)
      (takeAll (rowsToArr nrows ncols (table nrows ncols (specIndexed index c))) ps) := by
  rw [C06_decode_indexed index nrows ncols c h]
  exact Cfdm.Props.C03.C03_getitem_order_irrelevant _ ps order hps hnd hcover

example : ([[1, 0], [2, 2, 0]] : List (List Nat)).length = 2 ∧ ([1, 0] : List Nat).Nodup := by decide

/-- **Compress, then read.**  For every masked 2-d array (rows of equal length; rows
may be entirely masked, masked elements may occur anywhere), `compress('contiguous')`
followed by decoding is the identity on values and mask. -/
theorem C06_compress_contiguous_roundtrip {α} (rows : List (List (M α))) (ncols : Nat)
    (h : ∀ r ∈ rows, r.length = ncols) :
    decodeContiguous (compressContiguous rows).count rows.length ncols (compressContiguous rows).c
      = rows := by
  have := contiguous_roundtrip_aux ncols rows [] h
  simpa [decodeContiguous, subarraysContiguous, compressContiguous] using this

/-- The same for `compress('indexed')`. -/
theorem C06_compress_indexed_roundtrip {α} (rows : List (List (M α))) (ncols : Nat)
    (h : ∀ r ∈ rows, r.length = ncols) :
    decodeIndexed (compressIndexed rows).index rows.length ncols (compressIndexed rows).c
      = rows := by
  have hcnt : ∀ n ∈ rows.map deriveCount, n ≤ ncols := by
    intro n hn
    obtain ⟨r, hr, rfl⟩ := List.mem_map.mp hn
    exact h r hr ▸ deriveCount_le r
  have hget : ∀ i, (rows.map deriveCount).getD i 0 ≤ ncols := by
    intro i
    rw [List.getD_eq_getElem?_getD]
    cases hi : (rows.map deriveCount)[i]? with
    | none => simp
    | some n => exact hcnt n (List.mem_of_getElem? hi)
  simp only [compressIndexed]
  rw [C06_decode_indexed _ _ _ _ (fun i _ => by rw [count_indexFromCounts]; exact hget i)]
  have : specIndexed (indexFromCounts 0 (rows.map deriveCount)) (pack (rows.map deriveCount) rows)
      = specContiguous (rows.map deriveCount) (pack (rows.map deriveCount) rows) := by
    funext i j; exact specIndexed_indexFromCounts _ _ i j
  rw [this, ← C06_decode_contiguous _ _ _ _ hcnt]
  exact C06_compress_contiguous_roundtrip rows ncols h

example : ∀ r ∈ ([[some 1, none, some 3], [none, none, none], [none, some 5, none]] : List (List (M Nat))),
    r.length = 3 := by decide
example : let rows : List (List (M Nat)) := [[some 1, none, some 3], [none, none, none], [none, some 5, none]]
    (compressContiguous rows).count = [3, 0, 2] ∧ (compressIndexed rows).index = [0, 0, 0, 2, 2] := by
  decide

/-- The code before repair d324c79 dropped zero counts (`[n for n in count if n]`): an
all-masked row makes every later row move up. -/
theorem C06_compress_old_code_counterexample :
    let rows : List (List (M Nat)) := [[some 1, none], [none, none], [some 2, some 3]]
    decodeContiguous (compressContiguousOld rows).count 3 2 (compressContiguousOld rows).c
      = [[some 1, none], [some 2, some 3], [none, none]] := by decide

/-- The same for `compress('indexed_contiguous')` of every masked 3-d array
`(instance, profile, element)` — instances without profiles, empty profiles between
non-empty ones, masked elements anywhere: decoding the count variable, index variable
and samples gives the array back (as its row-major list of profiles). -/
theorem C06_compress_indexed_contiguous_roundtrip {α} (a : List (List (List (M α))))
    (maxProf nelem : Nat) (h : ∀ inst ∈ a, inst.length = maxProf ∧ ∀ r ∈ inst, r.length = nelem) :
    decodeIndexedContiguous (compressIndexedContiguous a).count (compressIndexedContiguous a).index
      a.length maxProf nelem (compressIndexedContiguous a).c = a.flatten := by
  rw [compressIC_count, compressIC_index, compressIC_c]
  have hnp : ∀ i, i < a.length → (indexFromCounts 0 (nprofs a)).count i ≤ maxProf := by
    intro i hi
    rw [count_indexFromCounts]
    have : (nprofs a).getD i 0 = nProfiles (a[i].map deriveCount) := by
      simp [nprofs, List.getD_eq_getElem?_getD, hi]
    rw [this]
    have h1 := nProfiles_le (a[i].map deriveCount)
    have h2 := (h a[i] (List.getElem_mem hi)).1
    simp only [List.length_map] at h1; omega
  simp only [decodeIndexedContiguous, subarraysIndexedContiguous]
  have hlen : ((List.range a.length).flatMap (icBlock (cumsum 0 (countVar a)) (indexFromCounts 0 (nprofs a)) maxProf)).length
      = a.length * maxProf := by
    rw [List.length_flatMap]
    have : (List.range a.length).map (fun i => (icBlock (cumsum 0 (countVar a)) (indexFromCounts 0 (nprofs a)) maxProf i).length)
        = (List.range a.length).map (fun _ => maxProf) :=
      List.map_congr_left (fun i hi => icBlock_length _ _ _ _ (hnp i (by simpa using hi)))
    rw [this]; simp
  rw [assembleRows_full _ _ _ _ hlen, List.map_flatMap]
  have := instances_roundtrip maxProf nelem a 0 [] [] [] h (by simp) rfl rfl
  simpa [List.range_eq_range'] using this


example : ∀ inst ∈ ([[[some 0, none], [none, none], [some 8, some 9]], [[none, none], [none, none], [none, none]]]
      : List (List (List (M Nat)))), inst.length = 3 ∧ ∀ r ∈ inst, r.length = 2 := by decide
example : let a : List (List (List (M Nat))) :=
      [[[some 0, none], [none, none], [some 8, some 9]], [[none, none], [none, none], [none, none]],
       [[none, none], [none, some 5], [none, none]]]
    (compressIndexedContiguous a).count = [1, 0, 2, 0, 2] ∧ (compressIndexedContiguous a).index = [0, 0, 0, 2, 2] := by
  decide

/-- The code before repair d324c79 dropped the zero count of an empty profile that lies between
two non-empty ones: the later profile moves up. -/
theorem C06_compress_indexed_contiguous_old_code_counterexample :
    let a : List (List (List (M Nat))) := [[[some 0, none], [none, none], [some 8, some 9]]]
    decodeIndexedContiguous (compressIndexedContiguousOld a).count (compressIndexedContiguousOld a).index
        1 3 2 (compressIndexedContiguousOld a).c
      = [[some 0, none], [some 8, some 9], [none, none]] := by decide

/-- **Extra dimensions.**  The three ragged decoders act on whole samples: applying any
function to every element (e.g. picking one position of the trailing dimensions of
each sample) commutes with decoding, whatever the compressed-array indices are. -/
theorem C06_extra_dimensions_ragged {α β} (f : α → β) (nrows ncols : Nat) (cis : List CIdx)
    (c : List (M α)) :
    assembleRows nrows ncols cis (c.map (Option.map f))
      = (assembleRows nrows ncols cis c).map (List.map (Option.map f)) :=
  assembleRows_map f nrows ncols cis c

/-- … and so does the gathered decoder. -/
theorem C06_extra_dimensions_gathered {α β} (f : α → β) (dims l : List Nat) (c : List (M α))
    (idx : List Nat) :
    decodeGathered dims l (c.map (Option.map f)) idx = Option.map f (decodeGathered dims l c idx) := by
  have := gatherAssign_map f dims l c (fun _ => none) idx
  simpa [decodeGathered] using this

example : decodeContiguous [1, 2] 2 2 (([some [1, 2], some [3, 4], some [5, 6]] : List (M (List Nat))).map
      (Option.map (fun s => s.getD 1 0)))
    = [[some 2, none], [some 4, some 6]] := by decide

/-- **Gathered array inside an N-d array** (any number of leading and trailing dimensions
around the gathered block; the compressed array has shape `lead ++ [n] ++ trail`).  For every
list variable with in-range values and every multi-index whose block part is valid, the element
that `GatheredSubarray.__getitem__` (`u[…, unravel_index(list, dims), …] = data`) leaves there is
the CF 8.2 one: the element of the compressed array with the same leading and trailing indices and
the sample number `k` for which `list[k]` is the row-major flat index of the block part; missing
when there is no such sample. -/
theorem C06_decode_gathered_nd {α} (nl : Nat) (dims l : List Nat) (data : List Nat → M α)
    (idx : List Nat) (hl : ∀ q ∈ l, q < prod dims) (hi : InRange dims (midIdx nl dims.length idx)) :
    decodeGatheredND nl dims l data idx = specGatheredND nl dims l data idx := by
  simp only [decodeGatheredND, specGatheredND]
  exact gatherAssignND_spec nl dims data idx hi l 0 _ hl

example : InRange [2, 3] (midIdx 1 2 [4, 1, 0, 7, 7]) := by simp [midIdx, InRange]
example : decodeGatheredND 1 [2, 3] [5, 0, 3] (fun i => some (i.getD 0 0 * 100 + i.getD 1 0 * 10 + i.getD 2 0))
    [4, 1, 0, 7] = some 427 := by decide

/-- CF 8.2 read literally with extra dimensions, first half: for a list of distinct in-range
values, sample `k` of the column `(li, ti)` is found at `li ++ unravel(list[k]) ++ ti`. -/
theorem C06_gathered_nd_hit {α} (dims l : List Nat) (data : List Nat → M α) (li ti : List Nat)
    (k : Nat) (hl : ∀ q ∈ l, q < prod dims) (hnd : l.Nodup) (hk : k < l.length) :
    decodeGatheredND li.length dims l data (li ++ unravel dims l[k] ++ ti) = data (li ++ k :: ti) := by
  have hq : l[k] < prod dims := hl _ (List.getElem_mem hk)
  have hlen : (unravel dims l[k]).length = dims.length := by
    have : ∀ (d : List Nat) (q : Nat), (unravel d q).length = d.length := by
      intro d; induction d with
      | nil => intro q; simp [unravel]
      | cons n ns ih => intro q; simp [unravel, ih]
    exact this _ _
  have hmid : midIdx li.length dims.length (li ++ unravel dims l[k] ++ ti) = unravel dims l[k] := by
    simp [midIdx, List.append_assoc, hlen]
  have hs : ∀ j, sampleIdx li.length dims.length (li ++ unravel dims l[k] ++ ti) j = li ++ j :: ti := by
    intro j
    simp [sampleIdx, List.append_assoc, ← hlen]
  rw [C06_decode_gathered_nd li.length dims l data _ hl (by rw [hmid]; exact inRange_unravel dims _ hq),
    specGatheredND, hmid, ravel_unravel dims _ hq]
  cases hp : lastPosFrom l[k] 0 l with
  | none => exact absurd (List.getElem_mem hk) ((lastPosFrom_none _ _ _).mp hp)
  | some j =>
    obtain ⟨_, h2, _⟩ := lastPosFrom_some _ _ _ _ hp
    simp only [Nat.sub_zero] at h2
    have hj : j < l.length := by
      rcases Nat.lt_or_ge j l.length with h | h
      · exact h
      · rw [List.getElem?_eq_none h] at h2; simp at h2
    have : l[j] = l[k] := by rw [List.getElem?_eq_getElem hj] at h2; simpa using h2
    have : j = k := (List.Nodup.getElem_inj_iff hnd).mp this
    rw [this]; exact congrArg data (hs k)

/-- … second half: where the flat index of the block part is not listed, the element is missing,
whatever the leading and trailing indices. -/
theorem C06_gathered_nd_miss {α} (nl : Nat) (dims l : List Nat) (data : List Nat → M α)
    (idx : List Nat) (hl : ∀ q ∈ l, q < prod dims) (hi : InRange dims (midIdx nl dims.length idx))
    (hm : Ragged.ravel dims (midIdx nl dims.length idx) ∉ l) :
    decodeGatheredND nl dims l data idx = none := by
  rw [C06_decode_gathered_nd nl dims l data idx hl hi, specGatheredND, (lastPosFrom_none _ _ _).mpr hm]

example : decodeGatheredND 1 [2, 3] [5, 0, 3] (fun i => some (i.getD 1 0)) ([4] ++ unravel [2, 3] 3 ++ [7])
    = some 2 := by decide

/-- **The array `cfdm.read` shows for a contiguous ragged array.**  The reader sizes the
uncompressed array from the count variable alone (`len(count)` rows, `max(count)` columns, 0 for
an empty variable): with that shape the decode theorem needs no hypothesis at all. -/
theorem C06_read_contiguous {α} (count : List Nat) (c : List (M α)) :
    readContiguous count c = table count.length (maxL count) (specContiguous count c) :=
  C06_decode_contiguous count _ _ c (fun n hn => le_maxL count n hn)

/-- … for an indexed ragged array (instance dimension of any size; index values beyond it are
ignored; the row length is the largest number of samples that share an index value). -/
theorem C06_read_indexed {α} (ninst : Nat) (index : List Nat) (c : List (M α)) :
    readIndexed ninst index c = table ninst (maxOcc index) (specIndexed index c) :=
  C06_decode_indexed index _ _ c (fun i _ => count_le_maxOcc index i)

/-- … and for an indexed contiguous ragged array. -/
theorem C06_read_indexed_contiguous {α} (ninst : Nat) (count index : List Nat) (c : List (M α)) :
    readIndexedContiguous ninst count index c
      = (table ninst (maxOcc index) (fun i j =>
          (List.range (maxL count)).map (specIndexedContiguous count index c i j))).flatten :=
  C06_decode_indexed_contiguous count index _ _ _ c (fun n hn => le_maxL count n hn)
    (fun i _ => count_le_maxOcc index i)

example : readContiguous [2, 0, 1] [some 1, some 2, some 3] = [[some 1, some 2], [none, none], [some 3, none]] := by
  decide
example : readIndexed 3 [2, 0, 2] [some 10, some 11, some 12] = [[some 11, none], [none, none], [some 10, some 12]] := by
  decide

/-- The reader's shape loses nothing: every element of the CF array that lies beyond the
columns the reader allocates is missing (so a field that was compressed from a wider array is
read back equal up to trailing all-missing columns). -/
theorem C06_read_shape_sufficient {α} (count index : List Nat) (c : List (M α)) (i j : Nat) :
    (maxL count ≤ j → specContiguous count c i j = none)
    ∧ (maxOcc index ≤ j → specIndexed index c i j = none)
    ∧ (∀ k, maxOcc index ≤ j ∨ maxL count ≤ k → specIndexedContiguous count index c i j k = none) := by
  have hcont : ∀ (p k : Nat), maxL count ≤ k → specContiguous count c p k = none := by
    intro p k h
    simp only [specContiguous]
    have : count.getD p 0 ≤ maxL count := by
      rw [List.getD_eq_getElem?_getD]
      cases hp : count[p]? with
      | none => simp
      | some n => exact le_maxL count n (List.mem_of_getElem? hp)
    rw [if_neg (by omega)]
  have hs : maxOcc index ≤ j → sampleOf index i j = none := by
    intro h
    rw [← whereEq_getElem?]
    have := whereEq_length index i
    have := count_le_maxOcc index i
    exact List.getElem?_eq_none (by omega)
  refine ⟨hcont i j, ?_, ?_⟩
  · intro h; simp [specIndexed, hs h]
  · intro k h
    simp only [specIndexedContiguous]
    rcases h with h | h
    · rw [hs h]
    · cases sampleOf index i j with
      | none => rfl
      | some p => exact hcont p k h

/-- **Compress with shared counts, then read** (`Field.compress` at /repo HEAD packs the field
data and every metadata construct on the same axes with ONE count vector).  For every count
vector that fits (`CountsFit`: one count per row, none beyond the row length, none below the row's
own trailing-mask count) packing an array with it and decoding is the identity. -/
theorem C06_compress_counts_contiguous_roundtrip {α} (cnt : List Nat) (rows : List (List (M α)))
    (ncols : Nat) (h : CountsFit ncols cnt rows) :
    decodeContiguous (compressContiguousWith cnt rows).count rows.length ncols
      (compressContiguousWith cnt rows).c = rows := by
  have hF := C06_compress_contiguous_roundtrip (flaggedRows cnt rows) ncols (flaggedRows_rect ncols cnt rows h)
  simp only [compressContiguous, flaggedRows_count ncols cnt rows h, flaggedRows_length cnt rows h.1] at hF
  simp only [compressContiguousWith, pack_flagged ncols cnt rows h, decodeContiguous]
  rw [assembleRows_mapNone Option.join rfl]
  simp only [decodeContiguous] at hF
  rw [hF, flaggedRows_join ncols cnt rows h]

theorem C06_compress_counts_indexed_roundtrip {α} (cnt : List Nat) (rows : List (List (M α)))
    (ncols : Nat) (h : CountsFit ncols cnt rows) :
    decodeIndexed (compressIndexedWith cnt rows).index rows.length ncols
      (compressIndexedWith cnt rows).c = rows := by
  have hF := C06_compress_indexed_roundtrip (flaggedRows cnt rows) ncols (flaggedRows_rect ncols cnt rows h)
  simp only [compressIndexed, flaggedRows_count ncols cnt rows h, flaggedRows_length cnt rows h.1] at hF
  simp only [compressIndexedWith, pack_flagged ncols cnt rows h, decodeIndexed]
  rw [assembleRows_mapNone Option.join rfl]
  simp only [decodeIndexed] at hF
  rw [hF, flaggedRows_join ncols cnt rows h]

/-- The hypothesis cannot be dropped: a count below a row's own count cuts the row. -/
theorem C06_counts_fit_needed :
    let rows : List (List (M Nat)) := [[some 1, some 2, none]]
    decodeContiguous (compressContiguousWith [1] rows).count 1 3 (compressContiguousWith [1] rows).c
      = [[some 1, none, none]] := by decide

/-- **The field and every construct on the same axes.**  With the counts that `Field.compress`
derives at /repo HEAD — for each row the largest trailing-mask count over the field data and all
metadata constructs spanning the data axes — EVERY one of these arrays comes back unchanged from
`compress('contiguous')` and from `compress('indexed')`, whatever the masks of the others. -/
theorem C06_compress_joint_roundtrip {α} (arrays : List (List (List (M α)))) (nrows ncols : Nat)
    (hrect : ∀ b ∈ arrays, b.length = nrows ∧ ∀ r ∈ b, r.length = ncols) :
    ∀ a ∈ arrays,
      decodeContiguous (jointCount arrays) nrows ncols (pack (jointCount arrays) a) = a
      ∧ decodeIndexed (indexFromCounts 0 (jointCount arrays)) nrows ncols (pack (jointCount arrays) a) = a := by
  intro a ha
  have hfit := jointCount_fits nrows ncols arrays hrect a ha
  have hlen := (hrect a ha).1
  constructor
  · have := C06_compress_counts_contiguous_roundtrip (jointCount arrays) a ncols hfit
    simpa [compressContiguousWith, hlen] using this
  · have := C06_compress_counts_indexed_roundtrip (jointCount arrays) a ncols hfit
    simpa [compressIndexedWith, hlen] using this

example : jointCount ([[[some 1, none, none], [none, none, none]], [[some 7, some 8, none], [none, some 9, none]]]
    : List (List (List (M Nat)))) = [2, 2] := by decide

/-- The code before repair d4c0294 took the counts from the first same-axes auxiliary coordinate
alone: field data reaching beyond that coordinate were cut off. -/
theorem C06_compress_count_old_code_counterexample :
    let field : List (List (M Nat)) := [[some 88, some 71, some 41, none]]
    let aux : List (List (M Nat)) := [[some 1000, some 1001, none, none]]
    decodeContiguous (jointCountOld field [aux]) 1 4 (pack (jointCountOld field [aux]) field)
      = [[some 88, some 71, none, none]]
    ∧ decodeContiguous (jointCount [field, aux]) 1 4 (pack (jointCount [field, aux]) field) = field := by
  decide

/-- The same for `compress('indexed_contiguous')` with any per-instance counts that fit
(`CountsFitIC`): decoding the count variable, index variable and samples built from them gives
the array back. -/
theorem C06_compress_counts_indexed_contiguous_roundtrip {α} (cnts : List (List Nat))
    (a : List (List (List (M α)))) (maxProf nelem : Nat) (h : CountsFitIC maxProf nelem cnts a) :
    decodeIndexedContiguous (compressIndexedContiguousWith cnts a).count
      (compressIndexedContiguousWith cnts a).index a.length maxProf nelem
      (compressIndexedContiguousWith cnts a).c = a.flatten := by
  obtain ⟨h1, h2, h3, h4, _⟩ := flagged3_props maxProf nelem cnts a h
  have hF := C06_compress_indexed_contiguous_roundtrip (flagged3 cnts a) maxProf nelem h3
  simp only [compressIndexedContiguous, h1, h4] at hF
  simp only [compressIndexedContiguousWith, pack_flagged3 maxProf nelem cnts a h, decodeIndexedContiguous]
  rw [assembleRows_mapNone Option.join rfl]
  simp only [decodeIndexedContiguous] at hF
  rw [hF]
  conv => rhs; rw [← h2]
  simp [List.map_flatten]

example : CountsFitIC 2 2 [[2, 1], [0, 0]]
    ([[[some 1, none], [none, none]], [[none, none], [none, none]]] : List (List (List (M Nat)))) := by
  refine .cons rfl ⟨rfl, by decide, by decide, ?_⟩ (.cons rfl ⟨rfl, by decide, by decide, ?_⟩ .nil)
  · intro i; match i with | 0 => decide | 1 => decide | (n + 2) => simp [List.getD_eq_getElem?_getD]
  · intro i; match i with | 0 => decide | 1 => decide | (n + 2) => simp [List.getD_eq_getElem?_getD]

/-- **… and the same for `compress('indexed_contiguous')`**: with the per-profile counts that
`Field.compress` derives from the field data and all metadata constructs on the three data axes,
every one of these 3-d arrays comes back unchanged. -/
theorem C06_compress_joint_indexed_contiguous_roundtrip {α} (arrays : List (List (List (List (M α)))))
    (ninst maxProf nelem : Nat) (hrect : ∀ b ∈ arrays, b.length = ninst ∧ Rect3 maxProf nelem b) :
    ∀ a ∈ arrays,
      decodeIndexedContiguous (compressIndexedContiguousWith (jointCountIC arrays) a).count
        (compressIndexedContiguousWith (jointCountIC arrays) a).index ninst maxProf nelem
        (compressIndexedContiguousWith (jointCountIC arrays) a).c = a.flatten := by
  intro a ha
  have hfit := jointCountIC_fits maxProf nelem ninst arrays hrect a ha
  have := C06_compress_counts_indexed_contiguous_roundtrip (jointCountIC arrays) a maxProf nelem hfit
  rwa [(hrect a ha).1] at this

example : jointCountIC ([[[[some 1, none], [none, none]]], [[[some 7, some 8], [none, none]]]]
    : List (List (List (List (M Nat))))) = [[2, 0]] := by decide

/-- **Indexed contiguous: a construct on the (instance, profile) axes** (e.g. the time of each
profile).  `Field.compress` packs the first `_n_profiles` values of every instance, where
`_n_profiles` comes from the counts of the field data and the constructs on all three axes, and
attaches the index variable.  Full statement (what the user expects):
  `∀ cnts rows, decodeIndexed (compressProfileMeta cnts rows).index … = rows`
is FALSE for the code as it is (open finding
`compress-indexed-contiguous-profile-coordinate-beyond-last-profile-with-data`, witness below);
proved with exactly the excluding hypothesis: no instance has a value of this construct on a
profile after its last profile with data (`CountsFit` against the numbers of profiles). -/
theorem C06_compress_profile_metadata_roundtrip_partial {α} (cnts : List (List Nat))
    (rows : List (List (M α))) (maxProf : Nat) (h : CountsFit maxProf (cnts.map nProfiles) rows) :
    decodeIndexed (compressProfileMeta cnts rows).index rows.length maxProf
      (compressProfileMeta cnts rows).c = rows := by
  have := C06_compress_counts_indexed_roundtrip (cnts.map nProfiles) rows maxProf h
  simpa [compressIndexedWith, compressProfileMeta] using this

/-- The hypothesis cannot be dropped: instance 0 has data on its first profile only, its profile
coordinate has values for two profiles; the second is lost. -/
theorem C06_compress_profile_metadata_counterexample :
    let cnts : List (List Nat) := [[2, 0, 0]]
    let rows : List (List (M Nat)) := [[some 10, some 11, none]]
    decodeIndexed (compressProfileMeta cnts rows).index 1 3 (compressProfileMeta cnts rows).c
      = [[some 10, none, none]] := by decide

example : CountsFit 3 (([[2, 0, 1]] : List (List Nat)).map nProfiles)
    ([[some 10, none, some 12]] : List (List (M Nat))) := by
  refine ⟨rfl, by decide, by decide, ?_⟩
  intro i; match i with | 0 => decide | (n + 1) => simp [List.getD_eq_getElem?_getD]

/-! ## The underlying array stays compressed until assigned to

`Cfdm/Model/RaggedState.lean`: a heap of `Data` objects, each holding a compressed array object
or a numpy array, and the operations `.array`, `[...]`, `copy`, `[...] = v`,
`transpose/squeeze/insert_dimension/to_memory/uncompress(inplace=…)`, `equals`, `cfdm.write`, as
coded.  The theorems hold for every decoder `dec` (in particular the four proved above) and every
implementation `np` of the numpy operations. -/
section State
open Cfdm.RaggedState
variable {C A I V : Type} (np : NpOps A I V) (dec : C → A)

/-- **Every history shows the uncompressed arrays and the right compression state.**  Running any
history of operations on objects that hold compressed arrays shows exactly what the specification
shows — numpy operations on the uncompressed arrays `dec c`, an object being "still compressed"
iff it was created compressed (or copied / brought to memory from such an object) and no
operation has changed it in place since — at every step and in the final state. -/
theorem C06_history_refines_spec (ops : List (Op I V)) (heap : List (Repr C A)) :
    (run np dec heap ops).1.map (abs dec) = (specRun np (heap.map (abs dec)) ops).1
    ∧ (run np dec heap ops).2 = (specRun np (heap.map (abs dec)) ops).2 :=
  run_abs np dec ops heap

/-- **Compression is invisible in the arrays.**  Replacing every compressed object by its
uncompressed array before the history starts changes nothing that any operation shows
(`.array`, `equals`) nor any final array; only whether `cfdm.write` writes a sample dimension
differs. -/
theorem C06_history_seen_uncompressed (ops : List (Op I V)) (heap : List (Repr C A)) :
    let plainHeap : List (Repr C A) := heap.map (fun r => Repr.plain (view dec r))
    (run np dec heap ops).2.map eraseWritten = (run np dec plainHeap ops).2.map eraseWritten
    ∧ (run np dec heap ops).1.map (view dec) = (run np dec plainHeap ops).1.map (view dec) := by
  intro plainHeap
  obtain ⟨a1, a2⟩ := run_abs np dec ops heap
  obtain ⟨b1, b2⟩ := run_abs np dec ops plainHeap
  have hv : (heap.map (abs dec)).map Prod.fst = (plainHeap.map (abs dec)).map Prod.fst := by
    simp [plainHeap, RaggedState.abs, List.map_map, Function.comp_def]
  obtain ⟨v1, v2⟩ := specRun_values np ops _ _ hv
  refine ⟨by rw [a2, b2]; exact v2, ?_⟩
  have e1 : (run np dec heap ops).1.map (view dec) = ((run np dec heap ops).1.map (abs dec)).map Prod.fst := by
    simp [RaggedState.abs, List.map_map, Function.comp_def]
  have e2 : (run np dec plainHeap ops).1.map (view dec)
      = ((run np dec plainHeap ops).1.map (abs dec)).map Prod.fst := by
    simp [RaggedState.abs, List.map_map, Function.comp_def]
  rw [e1, e2, a1, b1]; exact v1

/-- **Stays compressed.**  Whatever else happens — reading arrays, subspacing, copying, comparing,
writing, operating on copies or on other objects, non-in-place operations on the object itself —
an object that no operation of the history assigns to or changes in place still holds the very
compressed array it started with. -/
theorem C06_stays_compressed (ops : List (Op I V)) (heap : List (Repr C A)) (i : Nat) (c : C)
    (h : heap[i]? = some (.comp c)) (hno : ∀ op ∈ ops, touches i op = false) :
    (run np dec heap ops).1[i]? = some (.comp c) :=
  run_untouched np dec ops heap i (.comp c) h hno

/-- **Until assigned to.**  Assignment leaves a numpy array: the uncompressed array with the
assigned elements replaced. -/
theorem C06_assignment_uncompresses (heap : List (Repr C A)) (i : Nat) (d : Repr C A) (ix : I) (v : V)
    (h : heap[i]? = some d) :
    (step np dec heap (.setitem i ix v)).1[i]? = some (.plain (np.assign (view dec d) ix v)) := by
  have hi : i < heap.length := (List.getElem?_eq_some_iff.mp h).1
  simp [step, h, List.getElem?_set_self hi]

/-- **Never re-compressed, never altered.**  If an object of the initial heap holds a compressed
array after a history, it held that same compressed array from the start. -/
theorem C06_compressed_array_unaltered (ops : List (Op I V)) (heap : List (Repr C A)) (i : Nat) (c : C)
    (hi : i < heap.length) (h : (run np dec heap ops).1[i]? = some (.comp c)) :
    heap[i]? = some (.comp c) :=
  run_comp_origin np dec ops heap i c hi h

/-- **Every history yields the arrays of the CF specification.**  Two decoders that agree on the
compressed arrays held by the initial objects give identical histories — everything shown, every
final object … -/
theorem C06_history_decoder_irrelevant (dec dec' : C → A) (ops : List (Op I V)) (heap : List (Repr C A))
    (h : ∀ c, Repr.comp c ∈ heap → dec c = dec' c) :
    run np dec heap ops = run np dec' heap ops :=
  run_agree np dec dec' ops heap h

end State

/-- A ragged compressed array as `cfdm.Data` holds it. -/
inductive RaggedSrc (α : Type) where
  | rc (count : List Nat) (nrows ncols : Nat) (c : List (M α))
  | ri (index : List Nat) (nrows ncols : Nat) (c : List (M α))
  | ric (count index : List Nat) (ninst maxProf nelem : Nat) (c : List (M α))

/-- What `CompressedArray.__getitem__` assembles … -/
def RaggedSrc.decode {α} : RaggedSrc α → Arr (M α)
  | .rc count nrows ncols c => rowsToArr nrows ncols (decodeContiguous count nrows ncols c)
  | .ri index nrows ncols c => rowsToArr nrows ncols (decodeIndexed index nrows ncols c)
  | .ric count index ninst maxProf nelem c =>
    rowsToArr3 ninst maxProf nelem (decodeIndexedContiguous count index ninst maxProf nelem c)

/-- … and what the CF conventions define. -/
def RaggedSrc.cf {α} : RaggedSrc α → Arr (M α)
  | .rc count nrows ncols c => rowsToArr nrows ncols (table nrows ncols (specContiguous count c))
  | .ri index nrows ncols c => rowsToArr nrows ncols (table nrows ncols (specIndexed index c))
  | .ric count index ninst maxProf nelem c =>
    rowsToArr3 ninst maxProf nelem (table ninst maxProf (fun i j =>
      (List.range nelem).map (specIndexedContiguous count index c i j))).flatten

/-- The uncompressed shape is large enough (otherwise cfdm raises). -/
def RaggedSrc.Fits {α} : RaggedSrc α → Prop
  | .rc count _ ncols _ => ∀ n ∈ count, n ≤ ncols
  | .ri index nrows ncols _ => ∀ i, i < nrows → index.count i ≤ ncols
  | .ric count index ninst maxProf nelem _ =>
    (∀ n ∈ count, n ≤ nelem) ∧ ∀ i, i < ninst → index.count i ≤ maxProf

/-- … in particular: over every history of operations on ragged compressed data, what cfdm's
assembly shows is what the same history shows on the arrays the CF conventions define. -/
theorem C06_history_shows_cf_arrays {α I V} (np : Cfdm.RaggedState.NpOps (Arr (M α)) I V)
    (ops : List (Cfdm.RaggedState.Op I V)) (heap : List (Cfdm.RaggedState.Repr (RaggedSrc α) (Arr (M α))))
    (h : ∀ z, Cfdm.RaggedState.Repr.comp z ∈ heap → z.Fits) :
    Cfdm.RaggedState.run np RaggedSrc.decode heap ops = Cfdm.RaggedState.run np RaggedSrc.cf heap ops := by
  apply Cfdm.RaggedState.run_agree
  intro z hz
  have hf := h z hz
  cases z with
  | rc count nrows ncols c =>
    simp only [RaggedSrc.decode, RaggedSrc.cf, C06_decode_contiguous count nrows ncols c hf]
  | ri index nrows ncols c =>
    simp only [RaggedSrc.decode, RaggedSrc.cf, C06_decode_indexed index nrows ncols c hf]
  | ric count index ninst maxProf nelem c =>
    simp only [RaggedSrc.decode, RaggedSrc.cf,
      C06_decode_indexed_contiguous count index ninst maxProf nelem c hf.1 hf.2]

example : (RaggedSrc.rc [2, 0, 1] 3 2 [some 1, some 2, some 3] : RaggedSrc Nat).Fits := by
  simp only [RaggedSrc.Fits]; decide


-- non-vacuity: a history on one compressed object (decoder = "double every element")
example :
    let np : Cfdm.RaggedState.NpOps (List Nat) Nat Nat :=
      { shape := fun a => [a.length], take := fun a i => [a.getD i 0], assign := fun a i v => a.set i v,
        transpose := fun a _ => a.reverse, squeeze := fun a _ => a, expand := fun a _ => a,
        eqv := fun a b => a == b }
    let dec : List Nat → List Nat := List.map (· * 2)
    let heap : List (Cfdm.RaggedState.Repr (List Nat) (List Nat)) := [.comp [1, 2, 3]]
    let r := Cfdm.RaggedState.run np dec heap
      [.getitem 0 1, .copy 0, .setitem 2 0 9, .transpose 0 none false, .transpose 0 (some [0]) false,
       .insertDim 0 0 false, .equals 0 2, .write 0, .write 2]
    r.1.map (Cfdm.RaggedState.abs dec)
      = [([2, 4, 6], true), ([4], false), ([9, 4, 6], false), ([2, 4, 6], true), ([2, 4, 6], true),
         ([2, 4, 6], false)]
    ∧ (Cfdm.RaggedState.touches 0 (.setitem 2 0 9 : Cfdm.RaggedState.Op Nat Nat)) = false := by
  decide

example : toList (Cfdm.RaggedState.transposeArr (iota [2, 3]) [1, 0]) = [0, 3, 1, 4, 2, 5]
    ∧ (Cfdm.RaggedState.squeezeArr (iota [1, 2, 1, 3]) [0, 2]).shape = [2, 3]
    ∧ toList (Cfdm.RaggedState.squeezeArr (iota [1, 2, 1, 3]) [0, 2]) = [0, 1, 2, 3, 4, 5]
    ∧ (Cfdm.RaggedState.expandArr (iota [2, 3]) 1).shape = [2, 1, 3]
    ∧ toList (Cfdm.RaggedState.assignArr (iota [2, 3]) [[1], [0, 2]] 9) = [0, 1, 2, 9, 4, 9] := by
  decide

/-! ## The netCDF encoding (`Cfdm/Model/RaggedNc.lean`) -/
section File
open Cfdm.RaggedNc

/-- **A compressed field is written compressed, and reading the dataset gives the CF array back —
for the field and for every construct written with it.**  For every DSG field that `cfdm.write`
accepts (`encodeRagged f = some ds`), with a `featureType` and usable names (`WF`): the variable
of every construct `c` is found again by name and `cfdm.read` presents
* a construct on the instance axis alone: its values, unchanged;
* the field's data and every construct on the same axes (span `data`): the CF 9.3.3 / 9.3.4 /
  9.3.5 array defined by the WRITTEN count / index variables and the written samples, in the
  shape the reader derives from those variables;
* indexed contiguous, a construct on the (instance, profile) axes: the CF 9.3.4 array defined by
  the written index variable.
By `C06_read_shape_sufficient` nothing lies outside the reader's shape, and by `C06_decode_*` the
arrays on the right are what the field showed in memory before it was written. -/
theorem C06_file_ragged {α} (f : RaggedField α) (ds : NcDs α) (hwf : f.WF)
    (henc : encodeRagged f = some ds) (c : Construct α) (hc : c ∈ f.constructs) :
    (c.span = .instance → readVar ds c.name = some (plain1 c.samples))
    ∧ (c.span = .data → readVar ds c.name = some (match f.kind with
        | .contiguous => rowsToArr f.count.length (maxL f.count)
            (table f.count.length (maxL f.count) (specContiguous f.count c.samples))
        | .indexed => rowsToArr f.ninst (maxOcc f.index)
            (table f.ninst (maxOcc f.index) (specIndexed f.index c.samples))
        | .indexedContiguous => rowsToArr3 f.ninst (maxOcc f.index) (maxL f.count)
            (table f.ninst (maxOcc f.index) (fun i j =>
              (List.range (maxL f.count)).map (specIndexedContiguous f.count f.index c.samples i j))).flatten))
    ∧ (c.span = .profile → readVar ds c.name = some (rowsToArr f.ninst (maxOcc f.index)
        (table f.ninst (maxOcc f.index) (specIndexed f.index c.samples)))) := by
  obtain ⟨h1, h2, h3⟩ := readVar_encoded f ds hwf henc c hc
  refine ⟨h1, ?_, ?_⟩
  · intro hs
    rw [h2 hs]
    cases f.kind <;> simp only [C06_read_contiguous, C06_read_indexed, C06_read_indexed_contiguous]
  · intro hs
    rw [h3 hs, C06_read_indexed]

/-- **Which fields can be written.**  `cfdm.write` of a DSG field fails exactly when some construct
cannot be given netCDF dimensions: an UNcompressed construct that spans an element axis (which has
no netCDF dimension), a compressed one on the instance axis alone, or an (instance, profile)
construct of a field that is not indexed contiguous. -/
theorem C06_file_writable_iff {α} (f : RaggedField α) :
    encodeRagged f = none ↔ ∃ c ∈ f.constructs, constructDims f c = none := by
  have hseq : ∀ (l : List (Construct α)),
      sequenceOpt (l.map (constructVar f)) = none ↔ ∃ c ∈ l, constructDims f c = none := by
    intro l
    induction l with
    | nil => simp [sequenceOpt]
    | cons c cs ih =>
      simp only [List.map_cons, List.mem_cons, exists_eq_or_imp]
      cases hd : constructDims f c with
      | none => simp [constructVar, hd, sequenceOpt]
      | some d =>
        simp only [constructVar, hd, Option.map_some, sequenceOpt, Option.map_eq_none_iff, ih]
        simp
  simp only [encodeRagged]
  cases h : sequenceOpt (f.constructs.map (constructVar f)) with
  | none => simpa using (hseq f.constructs).mp h
  | some cvars =>
    simp only [false_iff, reduceCtorEq]
    intro hex
    rw [(hseq f.constructs).mpr hex] at h
    simp at h

/-- A field whose data were assigned to (no longer compressed) while a coordinate on the same axes
still is — or the other way round — is such a field: the code as it is cannot write it. -/
theorem C06_file_mixed_compression_not_writable :
    let f : RaggedField Nat :=
      { kind := .contiguous, featureType := true, instDim := "station", ninst := 2, sampleDim := "obs",
        profileDim := "profile", countVar := "row_size", indexVar := "index", count := [1, 2], index := [],
        constructs := [{ name := "alt", span := .data, compressed := true, samples := [some 1, some 2, some 3] },
                       { name := "temp", span := .data, compressed := false, samples := [some 7, none, some 8, some 9] }] }
    encodeRagged f = none := by
  intro f
  exact (C06_file_writable_iff f).mpr ⟨_, List.mem_cons_of_mem _ (List.mem_singleton_self _), rfl⟩

-- non-vacuity of `C06_file_ragged`, and the `featureType` hypothesis cannot be dropped: without
-- the global attribute the reader leaves the samples as a 1-d array.
example :
    let f : Bool → RaggedField Nat := fun ft =>
      { kind := .contiguous, featureType := ft, instDim := "station", ninst := 2, sampleDim := "obs",
        profileDim := "profile", countVar := "row_size", indexVar := "index", count := [1, 2], index := [],
        constructs := [{ name := "lat", span := .instance, compressed := false, samples := [some 50, some 60] },
                       { name := "temp", span := .data, compressed := true, samples := [some 7, some 8, some 9] }] }
    ((encodeRagged (f true)).bind (fun ds => readVar ds "temp")).map (fun a => (a.shape, toList a))
        = some ([2, 2], [some 7, none, some 8, some 9])
    ∧ ((encodeRagged (f false)).bind (fun ds => readVar ds "temp")).map (fun a => (a.shape, toList a))
        = some ([3], [some 7, some 8, some 9])
    ∧ ((encodeRagged (f true)).map (fun ds => ds.dims)) = some [("station", 2), ("obs", 3)] := by
  decide

example :
    let f : RaggedField Nat :=
      { kind := .contiguous, featureType := true, instDim := "station", ninst := 2, sampleDim := "obs",
        profileDim := "profile", countVar := "row_size", indexVar := "index", count := [1, 2], index := [],
        constructs := [{ name := "temp", span := .data, compressed := true, samples := [some 7, some 8, some 9] }] }
    f.WF := by
  intro f
  exact ⟨rfl, by decide, by decide, by decide, by decide, by intro h; cases h⟩

/-- **Gathered fields.**  Every construct of a gathered field is written on
`lead ++ [list dimension] ++ trail`, the list variable is the coordinate-like variable of that
dimension with `compress` naming the gathered dimensions, and reading gives an array of shape
`lead ++ dims ++ trail` whose every element is the CF 8.2 one (`specGatheredND`). -/
theorem C06_file_gathered {α} (g : GatheredField α) (hwf : g.WF) (c : String × (List Nat → M α))
    (hc : c ∈ g.constructs) (hl : ∀ q ∈ g.list, q < prod (g.dims.map Prod.snd)) :
    ∃ a, readVar (encodeGathered g) c.1 = some a
      ∧ a.shape = g.lead.map Prod.snd ++ g.dims.map Prod.snd ++ g.trail.map Prod.snd
      ∧ ∀ idx, InRange (g.dims.map Prod.snd) (midIdx g.lead.length g.dims.length idx) →
          a.get idx = specGatheredND g.lead.length (g.dims.map Prod.snd) g.list c.2 idx := by
  refine ⟨_, readVar_gathered g hwf c hc, rfl, ?_⟩
  intro idx hi
  have hlen : (g.dims.map Prod.snd).length = g.dims.length := by simp
  exact C06_decode_gathered_nd g.lead.length (g.dims.map Prod.snd) g.list c.2 idx hl (by rw [hlen]; exact hi)

example :
    let g : GatheredField Nat :=
      { lead := [("time", 2)], dims := [("lat", 2), ("lon", 2)], trail := [], listVar := "landpoint",
        list := [3, 0], constructs := [("temp", fun i => some (i.getD 0 0 * 10 + i.getD 1 0))] }
    (readVar (encodeGathered g) "temp").map (fun a => (a.shape, toList a))
      = some ([2, 2, 2], [some 1, none, none, some 0, some 11, none, none, some 10]) := by decide

end File

/-
Not stated as theorems (checked on every run by the correspondence streams and the independent
oracle only, see `harness/corr/C06.py`):
* bounds of compressed coordinates, element data types, the `coordinates` attribute and every netCDF
  attribute other than `sample_dimension` / `instance_dimension` / `compress` / `featureType`;
* that `_netcdf_name` gives the sample / profile / list dimensions names that are free (hypothesis
  `WF` of `C06_file_*`; stream `C06.fld` with name clashes and a second field in the file).
-/

end Cfdm.Props.C06
