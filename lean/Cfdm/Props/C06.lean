import Cfdm.Lemmas.Ragged
import Cfdm.Props.C03
/-
C06 — data compressed by convention are seen uncompressed, exactly.
Property theorems only.  Model and specification: `Cfdm/Model/Ragged.lean`.

The model mirrors the anchored cfdm code *after* the repairs proposed in
`fixes/C06-*.patch` (instances iterated by `range`, zero counts kept); the code as
it is now is kept as `…Old` with `decide` counter-examples below.
-/
namespace Cfdm.Props.C06
open Cfdm.Ragged Cfdm.Arr Cfdm.Indexing

/-- **Contiguous ragged array.**  For every count vector (zeros allowed, any length
relative to the number of rows) and every compressed array, the array that
`RaggedContiguousArray.subarrays` + `RaggedSubarray` + `CompressedArray.__getitem__`
assemble is the CF 9.3.3 array: `u[i][j] = c[Σ_{i'<i} n_i' + j]` if `j < n_i`, else
masked.  Only hypothesis: no count exceeds the row length of the uncompressed shape. -/
theorem C06_decode_contiguous {α} (count : List Nat) (nrows ncols : Nat) (c : List (M α))
    (h : ∀ n ∈ count, n ≤ ncols) :
    decodeContiguous count nrows ncols c = table nrows ncols (specContiguous count c) := by
  rw [decodeContiguous, subarraysContiguous, decodeContiguousFrom_spec c ncols count 0 nrows h]
  congr 1
  funext i j
  simp [specContiguous]

example : ∀ n ∈ [2, 0, 3, 1], n ≤ 3 := by decide
example : decodeContiguous [2, 0, 3, 1] 4 3 [some 1, some 2, none, some 4, some 5, some 6]
    = [[some 1, some 2, none], [none, none, none], [none, some 4, some 5], [some 6, none, none]] := by
  decide

/-- **Indexed ragged array.**  For every index vector — any order, instances absent,
values beyond the number of rows ignored — the assembled array is the CF 9.3.4
array: `u[i][j]` is the `j`-th sample `p` with `index[p] = i`, everything else
masked.  Only hypothesis: no instance has more samples than the row length. -/
theorem C06_decode_indexed {α} (index : List Nat) (nrows ncols : Nat) (c : List (M α))
    (h : ∀ i, i < nrows → index.count i ≤ ncols) :
    decodeIndexed index nrows ncols c = table nrows ncols (specIndexed index c) := by
  simp only [decodeIndexed, subarraysIndexed, table]
  rw [assembleRows_full _ _ _ _ (by simp), List.map_map]
  apply List.map_congr_left
  intro i hi
  simp only [Function.comp_def]
  exact raggedRow_pos index c i ncols (h i (by simpa using hi))

example : ∀ i, i < 3 → ([2, 0, 2, 0, 2] : List Nat).count i ≤ 3 := by decide
example : decodeIndexed [2, 0, 2, 0, 2] 3 3 [some 10, some 11, some 12, some 13, some 14]
    = [[some 11, some 13, none], [none, none, none], [some 10, some 12, some 14]] := by decide

/-- The code as it is now (`for i in np.unique(index)`) is wrong as soon as an
instance has no samples: instance 2's samples land in row 1. -/
theorem C06_indexed_old_code_counterexample :
    decodeIndexedOld [2, 0, 2] 3 2 [some 10, some 11, some 12]
      = [[some 11, none], [some 10, some 12], [none, none]]
    ∧ table 3 2 (specIndexed [2, 0, 2] [some 10, some 11, some 12])
      = [[some 11, none], [none, none], [some 10, some 12]] := by decide

/-- **Indexed contiguous ragged array**, as the row-major list of its
`ninst * maxProf` profiles.  For every count vector and every index vector over the
profiles (any order, instances without profiles, profiles without elements) the
assembled array is the CF 9.3.5 composition.  Hypotheses: the uncompressed shape is
large enough (profiles per instance ≤ `maxProf`, elements per profile ≤ `nelem`). -/
theorem C06_decode_indexed_contiguous {α} (count index : List Nat) (ninst maxProf nelem : Nat)
    (c : List (M α)) (hc : ∀ n ∈ count, n ≤ nelem)
    (hp : ∀ i, i < ninst → index.count i ≤ maxProf) :
    decodeIndexedContiguous count index ninst maxProf nelem c
      = (table ninst maxProf (fun i j =>
          (List.range nelem).map (specIndexedContiguous count index c i j))).flatten := by
  simp only [decodeIndexedContiguous, subarraysIndexedContiguous]
  have hlen : ((List.range ninst).flatMap (icBlock (cumsum 0 count) index maxProf)).length
      = ninst * maxProf := by
    rw [List.length_flatMap]
    have : (List.range ninst).map (fun i => (icBlock (cumsum 0 count) index maxProf i).length)
        = (List.range ninst).map (fun _ => maxProf) :=
      List.map_congr_left (fun i hi => icBlock_length _ _ _ _ (hp i (by simpa using hi)))
    rw [this]; simp
  rw [assembleRows_full _ _ _ _ hlen, List.map_flatMap, table, List.flatten_eq_flatMap,
    List.flatMap_map]
  apply List.flatMap_congr
  intro i hi
  exact icBlock_rows count index c maxProf nelem i hc (hp i (by simpa using hi))

example : (∀ n ∈ [2, 1, 3], n ≤ 3) ∧ (∀ i, i < 2 → ([1, 0, 1] : List Nat).count i ≤ 2) := by decide
example : decodeIndexedContiguous [2, 1, 3] [1, 0, 1] 2 2 3 [some 0, some 1, some 2, some 3, some 4, some 5]
    = [[some 2, none, none], [none, none, none], [some 0, some 1, none], [some 3, some 4, some 5]] := by
  decide

/-- The code as it is now: instance 0 has no profile, so instance 1's profile is
placed in instance 0. -/
theorem C06_indexed_contiguous_old_code_counterexample :
    decodeIndexedContiguousOld [2] [1] 2 1 2 [some 7, some 8] = [[some 7, some 8], [none, none]]
    ∧ (table 2 1 (fun i j => (List.range 2).map
        (specIndexedContiguous [2] [1] [some 7, some 8] i j))).flatten
      = [[none, none], [some 7, some 8]] := by decide

/-- **Gathered array.**  For every list variable with in-range values (any order,
sparse) over any product `dims` of compressed dimensions, the element that
`GatheredSubarray` puts at a valid multi-index `idx` is the CF 8.2 one:
`c[k]` where `list[k]` is the row-major flat index of `idx` (the last such `k`, which
for a list of distinct values is the only one), masked if there is none. -/
theorem C06_decode_gathered {α} (dims l : List Nat) (c : List (M α)) (idx : List Nat)
    (hl : ∀ q ∈ l, q < prod dims) (hi : InRange dims idx) :
    decodeGathered dims l c idx = specGathered dims l c idx := by
  simp [decodeGathered, specGathered, gatherAssign_spec dims idx hi l c _ hl]

example : ∀ q ∈ [5, 0, 3], q < prod [2, 3] := by decide
example : InRange [2, 3] [1, 0] := by simp [InRange]
example : decodeGathered [2, 3] [5, 0, 3] [some 1, some 2, some 3] [1, 0] = some 3 := by decide

/-- CF 8.2 read literally, first half: for a list of distinct in-range values, sample
`k` is found at the multi-index `unravel(list[k])`. -/
theorem C06_gathered_hit {α} (dims l : List Nat) (c : List (M α)) (k : Nat)
    (hl : ∀ q ∈ l, q < prod dims) (hnd : l.Nodup) (hk : k < l.length) (hc : l.length ≤ c.length) :
    decodeGathered dims l c (unravel dims (l.getD k 0)) = c.getD k none := by
  have hq : l.getD k 0 < prod dims := hl _ (by simp [List.getD_eq_getElem?_getD, hk])
  rw [C06_decode_gathered dims l c _ hl (inRange_unravel dims _ hq), specGathered,
    ravel_unravel dims _ hq, lastHit_nodup l c k hnd hk hc]
  rfl

/-- … second half: a valid multi-index whose flat index is not listed is masked. -/
theorem C06_gathered_miss {α} (dims l : List Nat) (c : List (M α)) (idx : List Nat)
    (hl : ∀ q ∈ l, q < prod dims) (hi : InRange dims idx) (hm : Ragged.ravel dims idx ∉ l) :
    decodeGathered dims l c idx = none := by
  rw [C06_decode_gathered dims l c idx hl hi, specGathered, lastHit_not_mem _ l c hm]
  rfl

example : ([5, 0, 3] : List Nat).Nodup := by decide
example : Ragged.ravel [2, 3] [0, 1] ∉ ([5, 0, 3] : List Nat) := by decide

/-- **Subspaces.**  `CompressedArray.__getitem__` assembles the uncompressed array and
then indexes it one list axis at a time (`netcdf_indexer`, in whatever order its
heuristic picks): the result is the orthogonal (numpy per-axis) subspace of the CF
array.  Composition of the decode theorem with `C03_getitem_order_irrelevant`. -/
theorem C06_subspace_contiguous {α} (count : List Nat) (nrows ncols : Nat) (c : List (M α))
    (h : ∀ n ∈ count, n ≤ ncols) (ps : List (List Nat)) (order : List Nat)
    (hps : ps.length = 2) (hnd : order.Nodup) (hcover : ∀ k, k ∈ order ↔ k < ps.length) :
    Eqv 2 (seqTake (rowsToArr nrows ncols (decodeContiguous count nrows ncols c)) ps order)
      (takeAll (rowsToArr nrows ncols (table nrows ncols (specContiguous count c))) ps) := by
  rw [C06_decode_contiguous count nrows ncols c h]
  exact Cfdm.Props.C03.C03_getitem_order_irrelevant _ ps order hps hnd hcover

theorem C06_subspace_indexed {α} (index : List Nat) (nrows ncols : Nat) (c : List (M α))
    (h : ∀ i, i < nrows → index.count i ≤ ncols) (ps : List (List Nat)) (order : List Nat)
    (hps : ps.length = 2) (hnd : order.Nodup) (hcover : ∀ k, k ∈ order ↔ k < ps.length) :
    Eqv 2 (seqTake (rowsToArr nrows ncols (decodeIndexed index nrows ncols c)) ps order)
      (takeAll (rowsToArr nrows ncols (table nrows ncols (specIndexed index c))) ps) := by
  rw [C06_decode_indexed index nrows ncols c h]
  exact Cfdm.Props.C03.C03_getitem_order_irrelevant _ ps order hps hnd hcover

example : ([[1, 0], [2, 2, 0]] : List (List Nat)).length = 2 ∧ ([1, 0] : List Nat).Nodup := by decide

/-- **Compress, then read.**  For every masked 2-d array (rows of equal length; rows
may be entirely masked, masked elements may occur anywhere), `compress('contiguous')`
followed by decoding is the identity on values and mask. -/
theorem C06_compress_contiguous_roundtrip {α} (rows : List (List (M α))) (ncols : Nat)
    (h : ∀ r ∈ rows, r.length = ncols) :
    decodeContiguous (compressContiguous rows).count rows.length ncols (compressContiguous rows).c
      = rows := by
  have := contiguous_roundtrip_aux ncols rows [] h
  simpa [decodeContiguous, subarraysContiguous, compressContiguous] using this

/-- The same for `compress('indexed')`. -/
theorem C06_compress_indexed_roundtrip {α} (rows : List (List (M α))) (ncols : Nat)
    (h : ∀ r ∈ rows, r.length = ncols) :
    decodeIndexed (compressIndexed rows).index rows.length ncols (compressIndexed rows).c
      = rows := by
  have hcnt : ∀ n ∈ rows.map deriveCount, n ≤ ncols := by
    intro n hn
    obtain ⟨r, hr, rfl⟩ := List.mem_map.mp hn
    exact h r hr ▸ deriveCount_le r
  have hget : ∀ i, (rows.map deriveCount).getD i 0 ≤ ncols := by
    intro i
    rw [List.getD_eq_getElem?_getD]
    cases hi : (rows.map deriveCount)[i]? with
    | none => simp
    | some n => exact hcnt n (List.mem_of_getElem? hi)
  simp only [compressIndexed]
  rw [C06_decode_indexed _ _ _ _ (fun i _ => by rw [count_indexFromCounts]; exact hget i)]
  have : specIndexed (indexFromCounts 0 (rows.map deriveCount)) (pack (rows.map deriveCount) rows)
      = specContiguous (rows.map deriveCount) (pack (rows.map deriveCount) rows) := by
    funext i j; exact specIndexed_indexFromCounts _ _ i j
  rw [this, ← C06_decode_contiguous _ _ _ _ hcnt]
  exact C06_compress_contiguous_roundtrip rows ncols h

example : ∀ r ∈ ([[some 1, none, some 3], [none, none, none], [none, some 5, none]] : List (List (M Nat))),
    r.length = 3 := by decide
example : let rows : List (List (M Nat)) := [[some 1, none, some 3], [none, none, none], [none, some 5, none]]
    (compressContiguous rows).count = [3, 0, 2] ∧ (compressIndexed rows).index = [0, 0, 0, 2, 2] := by
  decide

/-- The code as it is now drops zero counts (`[n for n in count if n]`): an
all-masked row makes every later row move up. -/
theorem C06_compress_old_code_counterexample :
    let rows : List (List (M Nat)) := [[some 1, none], [none, none], [some 2, some 3]]
    decodeContiguous (compressContiguousOld rows).count 3 2 (compressContiguousOld rows).c
      = [[some 1, none], [some 2, some 3], [none, none]] := by decide

/-- The same for `compress('indexed_contiguous')` of every masked 3-d array
`(instance, profile, element)` — instances without profiles, empty profiles between
non-empty ones, masked elements anywhere: decoding the count variable, index variable
and samples gives the array back (as its row-major list of profiles). -/
theorem C06_compress_indexed_contiguous_roundtrip {α} (a : List (List (List (M α))))
    (maxProf nelem : Nat) (h : ∀ inst ∈ a, inst.length = maxProf ∧ ∀ r ∈ inst, r.length = nelem) :
    decodeIndexedContiguous (compressIndexedContiguous a).count (compressIndexedContiguous a).index
      a.length maxProf nelem (compressIndexedContiguous a).c = a.flatten := by
  rw [compressIC_count, compressIC_index, compressIC_c]
  have hnp : ∀ i, i < a.length → (indexFromCounts 0 (nprofs a)).count i ≤ maxProf := by
    intro i hi
    rw [count_indexFromCounts]
    have : (nprofs a).getD i 0 = nProfiles (a[i].map deriveCount) := by
      simp [nprofs, List.getD_eq_getElem?_getD, hi]
    rw [this]
    have h1 := nProfiles_le (a[i].map deriveCount)
    have h2 := (h a[i] (List.getElem_mem hi)).1
    simp only [List.length_map] at h1; omega
  simp only [decodeIndexedContiguous, subarraysIndexedContiguous]
  have hlen : ((List.range a.length).flatMap (icBlock (cumsum 0 (countVar a)) (indexFromCounts 0 (nprofs a)) maxProf)).length
      = a.length * maxProf := by
    rw [List.length_flatMap]
    have : (List.range a.length).map (fun i => (icBlock (cumsum 0 (countVar a)) (indexFromCounts 0 (nprofs a)) maxProf i).length)
        = (List.range a.length).map (fun _ => maxProf) :=
      List.map_congr_left (fun i hi => icBlock_length _ _ _ _ (hnp i (by simpa using hi)))
    rw [this]; simp
  rw [assembleRows_full _ _ _ _ hlen, List.map_flatMap]
  have := instances_roundtrip maxProf nelem a 0 [] [] [] h (by simp) rfl rfl
  simpa [List.range_eq_range'] using this


example : ∀ inst ∈ ([[[some 0, none], [none, none], [some 8, some 9]], [[none, none], [none, none], [none, none]]]
      : List (List (List (M Nat)))), inst.length = 3 ∧ ∀ r ∈ inst, r.length = 2 := by decide
example : let a : List (List (List (M Nat))) :=
      [[[some 0, none], [none, none], [some 8, some 9]], [[none, none], [none, none], [none, none]],
       [[none, none], [none, some 5], [none, none]]]
    (compressIndexedContiguous a).count = [1, 0, 2, 0, 2] ∧ (compressIndexedContiguous a).index = [0, 0, 0, 2, 2] := by
  decide

/-- The code as it is now drops the zero count of an empty profile that lies between
two non-empty ones: the later profile moves up. -/
theorem C06_compress_indexed_contiguous_old_code_counterexample :
    let a : List (List (List (M Nat))) := [[[some 0, none], [none, none], [some 8, some 9]]]
    decodeIndexedContiguous (compressIndexedContiguousOld a).count (compressIndexedContiguousOld a).index
        1 3 2 (compressIndexedContiguousOld a).c
      = [[some 0, none], [some 8, some 9], [none, none]] := by decide

/-- **Extra dimensions.**  The three ragged decoders act on whole samples: applying any
function to every element (e.g. picking one position of the trailing dimensions of
each sample) commutes with decoding, whatever the compressed-array indices are. -/
theorem C06_extra_dimensions_ragged {α β} (f : α → β) (nrows ncols : Nat) (cis : List CIdx)
    (c : List (M α)) :
    assembleRows nrows ncols cis (c.map (Option.map f))
      = (assembleRows nrows ncols cis c).map (List.map (Option.map f)) :=
  assembleRows_map f nrows ncols cis c

/-- … and so does the gathered decoder. -/
theorem C06_extra_dimensions_gathered {α β} (f : α → β) (dims l : List Nat) (c : List (M α))
    (idx : List Nat) :
    decodeGathered dims l (c.map (Option.map f)) idx = Option.map f (decodeGathered dims l c idx) := by
  have := gatherAssign_map f dims l c (fun _ => none) idx
  simpa [decodeGathered] using this

example : decodeContiguous [1, 2] 2 2 (([some [1, 2], some [3, 4], some [5, 6]] : List (M (List Nat))).map
      (Option.map (fun s => s.getD 1 0)))
    = [[some 2, none], [some 4, some 6]] := by decide

/-
Not stated as theorems (checked on every run by the correspondence streams and the
independent oracle only, see `harness/corr/C06.py`):
* "the underlying array stays compressed until assigned to" (`get_compression_type` after
  `.array`, after subspacing, after `equals`; `''` after `__setitem__`) — there is no decision
  core to model, the observable is compared directly;
* the netCDF encoding (`C06_file` of DESIGN.md): count/index/list variables and the sample
  dimension as written by `cfdm.write` are decoded by a netCDF4-only reader, and files written
  by a netCDF4-only writer are read with `cfdm.read` (stream `C06.rd`).
-/

end Cfdm.Props.C06
