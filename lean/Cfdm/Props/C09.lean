import Cfdm.Lemmas.Sharing
import Cfdm.Lemmas.SharingRead
import Cfdm.Lemmas.SharedProps
import Cfdm.Lemmas.SharingScalar
import Cfdm.Lemmas.SharingReadScalar
import Cfdm.Lemmas.GroupProps
/-
C09 — fields sharing a file do not interfere with each other.

Model: `Cfdm.Sharing` (`writeAll : List AField → St`, `St.file`, `readAll : GMTable → File → List RField`)
mirrors the cross-field state of `NetCDFWrite` / `NetCDFRead` with fixes/C09-*.patch applied; the
behaviour of the code as it is stays available through `writeAllOldNames`, `writeAllOldDims`,
`writeAllOldData`, `readAllWith false` and is refuted below by concrete witnesses.

Specification (independent of the algorithm): `eqComp` — structural equality of what `equals`
compares —, "the variable a construct is stored in holds that construct's content", "nothing written
earlier changes", "what a data variable is read as is a function of the dataset and of that variable".

Full-strength statements that are *not* proved for the whole model are quoted in comments next to
their `…_partial` versions.
-/
namespace Cfdm.Props.C09
open Cfdm.Sharing

/-! ## writer: the registry -/

/-- The registry invariant holds after any sequence of fields, from any configuration of the
writer (patched or not): every registered entry names a variable of the dataset with exactly the
registered content and dimensions, every construct-to-variable link is backed by a registered entry
that `equal_components` the construct, and variable names are unique unless a netCDF name clash
(`dup`) was flagged. -/
theorem C09_registry_sound (patched oldNames oldData : Bool) (fs : List AField) :
    Inv (writeAllFrom patched { oldNames := oldNames, oldData := oldData } fs) :=
  (writeAllFrom_step patched fs _).inv (inv_init oldNames oldData)

/-- **Metadata variables are shared only between equal constructs**: whenever two constructs (of the
same or of different fields, in any write order) are stored in the same netCDF variable, their
contents are equal (same signature = same properties, data, bounds …) and they have the same
construct type, except that a domain ancillary may share with a construct of another type
(`ignore_type=True` in `_write_domain_ancillary`). -/
theorem C09_share_only_equal (fs : List AField) (h : (writeAll fs).dup = false) (l1 l2 : Link)
    (h1 : l1 ∈ (writeAll fs).links) (h2 : l2 ∈ (writeAll fs).links) (hv : l1.ncvar = l2.ncvar) :
    l1.val.sig = l2.val.sig ∧ (l1.val.kind = l2.val.kind ∨ l1.val.kind = .dan ∨ l2.val.kind = .dan) :=
  links_same_var (C09_registry_sound true false false fs) h h1 h2 hv

-- non-vacuity: two fields with an equal latitude coordinate and unequal longitudes; the latitude
-- variable is shared, the longitudes are not
def lat : Cons := { kind := .dim, sig := 1, axes := [0], dflt := some "latitude", bounds := some { sig := 2, nv := 2 } }
def lonA : Cons := { kind := .dim, sig := 3, axes := [1], dflt := some "longitude" }
def lonB : Cons := { kind := .dim, sig := 4, axes := [1], dflt := some "longitude" }
def fldA : AField := { sig := 10, dflt := some "ta", axes := [{ size := 3 }, { size := 4 }], dataAxes := [0, 1], cons := [lat, lonA] }
def fldB : AField := { sig := 11, dflt := some "ua", axes := [{ size := 3 }, { size := 4 }], dataAxes := [0, 1], cons := [lat, lonB] }

example : (writeAll [fldA, fldB]).dup = false ∧
    (writeAll [fldA, fldB]).links.map (fun l => (l.field, l.key, l.ncvar)) =
      [(0, 0, "latitude"), (0, 1, "longitude"), (1, 0, "latitude"), (1, 1, "longitude_1")] := by decide +kernel

/-- every construct of every field is stored in a variable that holds *its own* content, whatever
else was written to the dataset and in whatever order -/
theorem C09_own_content (fs : List AField) (h : (writeAll fs).dup = false) (l : Link) (hl : l ∈ (writeAll fs).links) :
    ∃ v ∈ (writeAll fs).vars, v.name = l.ncvar ∧ v.val.sig = l.val.sig := by
  have i := C09_registry_sound true false false fs
  obtain ⟨e, he, hn, hq⟩ := i.links l hl
  obtain ⟨v, hv, hvn, hvv, _⟩ := i.seen e he
  refine ⟨v, hv, by rw [hvn, hn], ?_⟩
  unfold eqComp at hq
  simp only [Bool.and_eq_true, decide_eq_true_eq] at hq
  rw [hvv, hq.2]

/-! ## writer: nothing already written is changed -/

/-- **Later fields never rewrite what earlier fields wrote**: the variables (up to the
`formula_terms` attribute, see `C09_formula_terms_overwrite_counterexample`), the dimensions, the
registry and the construct-to-variable links of `cfdm.write(fs)` are a prefix of those of
`cfdm.write(fs ++ gs)`. -/
theorem C09_variables_never_rewritten (fs gs : List AField) :
    (writeAll fs).vars.map Var.core <+: (writeAll (fs ++ gs)).vars.map Var.core ∧
    (writeAll fs).dimSizes <+: (writeAll (fs ++ gs)).dimSizes ∧
    (writeAll fs).links <+: (writeAll (fs ++ gs)).links ∧
    (writeAll fs).seen <+: (writeAll (fs ++ gs)).seen := by
  unfold writeAll
  rw [writeAllFrom_append]
  have e := (writeAllFrom_step true gs (writeAllFrom true {} fs)).ext
  exact ⟨e.vars, e.dims, e.links, e.seen⟩

example : (writeAll [fldA]).vars.map (·.name) = ["latitude_bounds", "latitude", "longitude", "ta"] ∧
    (writeAll ([fldA] ++ [fldB])).vars.map (·.name) = ["latitude_bounds", "latitude", "longitude", "ta", "longitude_1", "ua"] := by
  decide +kernel

/-- **Names**: with `_netcdf_name` as patched, no two variables of the dataset get the same name
unless the writer flagged a clash (`dup`, only reachable through a pinned dimension name that is not
passed through `_netcdf_name`); so a field's own pinned variable names are changed only by sharing
(the first equal construct names the variable) or by the `_<n>` suffix of a name already taken. -/
theorem C09_names_unique (fs : List AField) (h : (writeAll fs).dup = false) :
    ((writeAll fs).vars.map (·.name)).Nodup :=
  (C09_registry_sound true false false fs).uniq h

/-- `_netcdf_name` as patched never hands out a name that is in use -/
theorem C09_netcdfName_fresh (s : St) (base : Name) (hs : s.oldNames = false) (hok : (netcdfName s base).1.ok = true)
    (_h0 : s.ok = true) : (netcdfName s base).2 ∉ s.existing := by
  unfold netcdfName at hok ⊢
  simp only [hs] at hok ⊢
  unfold netcdfNameNew at hok ⊢
  simp only [Bool.false_eq_true, if_false] at hok ⊢
  split
  · rename_i hc
    simp only [hc, if_true] at hok ⊢
    split
    · rename_i n hn
      -- the search stops at a free name
      have : ∀ (k fuel : Nat) (n : Name), findFree (blankToUnderscore base) s.existing k fuel = some n → n ∉ s.existing := by
        intro k fuel
        induction fuel generalizing k with
        | zero => intro n h; simp [findFree] at h
        | succ m ih =>
          intro n h
          unfold findFree at h
          split at h
          · exact ih _ _ h
          · rename_i hnc
            cases h
            simpa using hnc
      exact this _ _ _ hn
    · rename_i hn
      simp [hn] at hok
  · rename_i hc
    simp only [hc] at hok ⊢
    simpa using hc

-- the code as it is: two different field ancillaries whose default name holds a blank collide
def errA : Cons := { kind := .fan, sig := 1, axes := [0], dflt := some "air_temperature standard_error" }
def errB : Cons := { kind := .fan, sig := 2, axes := [0], dflt := some "air_temperature standard_error" }
def lon3 : Cons := { kind := .dim, sig := 9, axes := [0], dflt := some "longitude" }
def fErrA : AField := { sig := 10, dflt := some "ta", axes := [{ size := 3 }], dataAxes := [0], cons := [lon3, errA] }
def fErrB : AField := { sig := 11, dflt := some "ua", axes := [{ size := 3 }], dataAxes := [0], cons := [lon3, errB] }

theorem C09_netcdfNameOld_counterexample :
    (writeAllOldNames [fErrA, fErrB]).dup = true ∧ (writeAll [fErrA, fErrB]).dup = false ∧
    (writeAll [fErrA, fErrB]).vars.map (·.name) =
      ["longitude", "air_temperature_standard_error", "ta", "air_temperature_standard_error_1", "ua"] := by decide +kernel

-- a field whose unnamed time coordinate sits on an axis that pins the netCDF dimension name `time`, written after a
-- field that already has a (different, longer) coordinate variable `time`
def timA : Cons := { kind := .dim, sig := 100, axes := [0], dflt := some "time" }
def timB : Cons := { kind := .dim, sig := 101, axes := [0] }
def fNamed : AField := { sig := 102, dflt := some "ta", axes := [{ size := 3 }], dataAxes := [0], cons := [timA] }
def fUnnamed : AField := { sig := 103, dflt := some "ua", axes := [{ size := 2, ncdim := some "time" }], dataAxes := [0], cons := [timB] }

/-- The code as it is takes the pinned dimension name for the coordinate variable (and its dimension) without asking
`_netcdf_name`: with a variable of that name already in the dataset the write fails (`dup`; netCDF: "String match to
name in use"), although either field can be written alone; patched, the name is made unique. -/
theorem C09_dimension_nameOld_counterexample :
    (writeAllOldDimName [fNamed, fUnnamed]).dup = true ∧ (writeAllOldDimName [fUnnamed]).dup = false ∧
    (writeAll [fNamed, fUnnamed]).dup = false ∧
    (writeAll [fNamed, fUnnamed]).vars.map (fun v => (v.name, v.dims)) =
      [("time", ["time"]), ("ta", ["time"]), ("time_1", ["time_1"]), ("ua", ["time_1"])] := by decide +kernel

/-! ## writer: dimension reuse -/

/-- patched rule: a dimension already used by another axis of the field being written is never
chosen again by the size-and-spanning-construct reuse -/
theorem C09_dimension_reuse_injective (spans : List (Name × Nat × List (CVal × Nat))) (used : List Name) (size : Nat)
    (mine : List (CVal × Nat)) (d : Name) (h : findSpanDim true spans used size mine = some d) : d ∉ used := by
  unfold findSpanDim at h
  cases hf : spans.find? _ with
  | none => rw [hf] at h; cases h
  | some e =>
    rw [hf] at h
    simp only [Option.map_some, Option.some.injEq] at h
    subst h
    have hp := List.find?_some hf
    simp only [Bool.true_and, Bool.and_eq_true, Bool.not_eq_true', decide_eq_true_eq] at hp
    have := hp.1.2
    simpa using this

-- a square field (two size-3 axes, an equal auxiliary coordinate on each, no dimension coordinate)
-- written after a field whose axis carries that coordinate
def stn (a : Nat) : Cons := { kind := .aux, sig := 5, axes := [a] }
def fLine : AField := { sig := 20, dflt := some "ta", axes := [{ size := 3 }], dataAxes := [0], cons := [stn 0] }
def fSquare : AField := { sig := 21, dflt := some "cov", axes := [{ size := 3 }, { size := 3 }], dataAxes := [0, 1], cons := [stn 0, stn 1] }

theorem C09_dimension_reuseOld_counterexample :
    ((writeAllOldDims [fLine, fSquare]).vars.getLast?.map (·.dims)) = some ["dim", "dim"] ∧
    ((writeAll [fLine, fSquare]).vars.getLast?.map (·.dims)) = some ["dim", "dim_1"] ∧
    ((writeAll [fSquare]).vars.getLast?.map (·.dims)) = some ["dim", "dim_1"] := by decide +kernel

-- a field whose data equal another field's domain ancillary, written first: the code as it is stores
-- the domain ancillary in that field's *data variable* (which cfdm.read then no longer returns)
def zc : Cons := { kind := .dim, sig := 30, axes := [0], dflt := some "atmosphere_hybrid_height_coordinate" }
def yc : Cons := { kind := .dim, sig := 31, axes := [1], dflt := some "grid_latitude" }
def orog : Cons := { kind := .dan, sig := 32, axes := [1], dflt := some "surface_altitude" }
def fTa : AField := { sig := 40, dflt := some "air_temperature", axes := [{ size := 2 }, { size := 3 }], dataAxes := [0, 1],
                      cons := [zc, yc, orog], vrefs := [{ owner := some 0, terms := [("orog", 2)] }] }
def fOrog : AField := { sig := 32, dflt := some "surface_altitude", axes := [{ size := 3 }], dataAxes := [0],
                        cons := [{ yc with axes := [0] }] }

theorem C09_data_variable_reuseOld_counterexample :
    ((writeAllOldData [fOrog, fTa]).vars.filter (·.isData)).map (·.name) = ["surface_altitude", "air_temperature"] ∧
    ((writeAllOldData [fOrog, fTa]).vars.find? (·.name == "atmosphere_hybrid_height_coordinate")).map (·.ft)
      = some [("orog", "surface_altitude")] ∧
    ((writeAll [fOrog, fTa]).vars.find? (·.name == "atmosphere_hybrid_height_coordinate")).map (·.ft)
      = some [("orog", "surface_altitude_1")] := by decide +kernel

/-! ## reader -/

/-- **The patched reader carries no state from one data variable to the next**: `cfdm.read` of a
dataset is the list of what each data variable is turned into on its own (`readEach` starts every
variable from the empty reader state). -/
theorem C09_reader_stateless (tab : GMTable) (F : File) : readAll tab F = readEach tab F := by
  rw [readAll_eq_map, readEach_eq_map]

example : readAll [] (writeAll [fldA, fldB]).file = readEach [] (writeAll [fldA, fldB]).file ∧
    (readAll [] (writeAll [fldA, fldB]).file).map (fun f => (f.ncvar, f.cons.map (·.ncvar))) =
      [("ta", ["latitude", "longitude"]), ("ua", ["latitude", "longitude_1"])] := by decide +kernel

-- the code as it is: `vertical_crs` survives from field to field.  Field 1 has a parametric vertical
-- coordinate whose datum equals that of its grid mapping; field 2 has a grid mapping without datum.
def gy : Cons := { kind := .dim, sig := 51, axes := [1], dflt := some "grid_latitude" }
def gy2 : Cons := { kind := .dim, sig := 52, axes := [0], dflt := some "grid_latitude" }
def dA : Cons := { kind := .dan, sig := 53, axes := [0] }
def fV : AField := { sig := 60, dflt := some "ta", axes := [{ size := 2 }, { size := 3 }], dataAxes := [0, 1],
                     cons := [zc, gy, dA], vrefs := [{ owner := some 0, terms := [("a", 2)], datum := some 7 }],
                     gms := [{ params := 8, datum := some 7, coords := [1], name := "rotated_latitude_longitude" }] }
def fH : AField := { sig := 61, dflt := some "ua", axes := [{ size := 3 }], dataAxes := [0], cons := [gy2],
                     gms := [{ params := 8, datum := none, coords := [0], name := "rotated_latitude_longitude" }] }
def tabRot : GMTable := [(8, ["grid_latitude", "grid_longitude"])]

theorem C09_readerOld_vertical_crs_counterexample :
    ((readAllWith true tabRot (writeAll [fV, fH]).file).fields.map (fun f => f.refs.map (·.datum)))
      = [[some [7], some [7]], [none]] ∧
    ((readAllWith false tabRot (writeAll [fV, fH]).file).fields.map (fun f => f.refs.map (·.datum)))
      = [[none, some [7]], [none]] ∧
    ((readAllWith false tabRot (writeAll [fH, fV]).file).fields.map (fun f => f.refs.map (·.datum)))
      = [[none], [some [7], some [7]]] := by decide +kernel

-- the code as it is: a scalar string coordinate shared by two data variables cannot be read
def station : Cons := { kind := .aux, sig := 70, axes := [1], str := true }
def fS1 : AField := { sig := 71, dflt := some "ta", axes := [{ size := 3 }, { size := 1, inData := false }], dataAxes := [0], cons := [lon3, station] }
def fS2 : AField := { sig := 72, dflt := some "ua", axes := [{ size := 3 }, { size := 1, inData := false }], dataAxes := [0], cons := [lon3, station] }

theorem C09_readerOld_scalar_string_counterexample :
    (readAllWith false [] (writeAll [fS1, fS2]).file).err = true ∧
    (readAllWith true [] (writeAll [fS1, fS2]).file).err = false ∧
    (readAll [] (writeAll [fS1, fS2]).file).map (fun f => f.cons.map (fun c => (c.ncvar, c.axes))) =
      [[("longitude", [0]), ("scalar", [1])], [("longitude", [0]), ("scalar", [1])]] := by decide +kernel

/-! ## what does not hold: `formula_terms` of a shared parametric coordinate (open finding) -/

-- two fields with an equal parametric vertical coordinate but orographies on different grids
def gyB : Cons := { kind := .dim, sig := 54, axes := [1], dflt := some "grid_latitude" }
def orogA : Cons := { kind := .dan, sig := 55, axes := [1], dflt := some "surface_altitude" }
def fZ1 : AField := { sig := 80, dflt := some "ta", axes := [{ size := 2 }, { size := 3 }], dataAxes := [0, 1],
                      cons := [zc, gy, orogA], vrefs := [{ owner := some 0, terms := [("orog", 2)] }] }
def fZ2 : AField := { sig := 81, dflt := some "ua", axes := [{ size := 2 }, { size := 3 }], dataAxes := [0, 1],
                      cons := [zc, gyB, orogA], vrefs := [{ owner := some 0, terms := [("orog", 2)] }] }

/-- The full-strength statement
  `∀ fs, readAll tab (writeAll fs).file ≅ fs.flatMap (fun f => readAll tab (writeAll [f]).file)`
is **false** for the code (no patch proposed): the formula-terms block sets the attribute on the owning
coordinate variable after that variable may have been shared, so the second field's terms replace the
first's; the first field is then read without its coordinate reference. -/
theorem C09_formula_terms_overwrite_counterexample :
    (writeAll [fZ1, fZ2]).ftConflict = true ∧
    ((readAll [] (writeAll [fZ1]).file).map (fun f => f.refs.length)) = [1] ∧
    ((readAll [] (writeAll [fZ1, fZ2]).file).map (fun f => f.refs.length)) = [0, 1] := by decide +kernel

-- the same coordinate, but no formula terms: written together with `fZ1` this field shares the coordinate variable …
def fZ0 : AField := { sig := 82, dflt := some "va", axes := [{ size := 2 }, { size := 3 }], dataAxes := [0, 1], cons := [zc, gy] }

/-- … and, for the same reason, a field WITHOUT formula terms whose vertical coordinate equals that of a field with
formula terms is read back with the other field's coordinate reference (and its domain ancillaries), in either
order (open finding write-formula-terms-acquired-through-shared-coordinate; `ftConflict` stays false: nothing is
overwritten). -/
theorem C09_formula_terms_acquired_counterexample :
    ((readAll [] (writeAll [fZ0]).file).map (fun f => (f.refs.length, f.cons.length))) = [(0, 2)] ∧
    ((readAll [] (writeAll [fZ0, fZ1]).file).map (fun f => (f.refs.length, f.cons.length))) = [(1, 3), (1, 3)] ∧
    ((readAll [] (writeAll [fZ1, fZ0]).file).map (fun f => (f.refs.length, f.cons.length))) = [(1, 3), (1, 3)] ∧
    (writeAll [fZ0, fZ1]).ftConflict = false := by decide +kernel

/-! ## scalar coordinate variables and the names of the cell-method axes -/

/-- **The cell-method axis of a field is named by the field's own scalar coordinate variable — created for it or
shared with an earlier field**, for every list of fields written before (`pre`) and after (`post`): when field `f`
(number `pre.length` of the dataset) has a scalar coordinate variable `n` for axis `a`
(`axis_to_ncscalar[a] = n`), then (1) its `cell_methods` name the axis `n` — never the bare construct identifier,
which is what a writer that records `axis_to_ncscalar` only when it *creates* the variable would emit for every
field but the first —, (2) `n` is listed in the `coordinates` of the data variable, (3) `n` is the variable to which
the field's own coordinate construct on that axis is linked in the final dataset, and (with `C09_own_content`) holds
that construct's content, and (4) the data variable carrying these names is in the final dataset unchanged (up to
`formula_terms`). -/
theorem C09_cell_method_axis_is_own_scalar_coordinate (pre post : List AField) (f : AField) (a : Nat) (n : Name)
    (h : lookupN (stage7 true (writeAll pre) f).2.1.axisScalar.reverse a = some n) :
    (fieldVar true (writeAll pre) f).cms =
        (if f.isDomain then [] else f.cms.map (fun c => (c.1.map (cmAxisName (stage7 true (writeAll pre) f).2.1), c.2))) ∧
    cmAxisName (stage7 true (writeAll pre) f).2.1 (.inl a) = n ∧
    n ∈ (fieldVar true (writeAll pre) f).coords ∧
    (∃ key c, f.cons[key]? = some c ∧ c.axes.headD 0 = a ∧
      (⟨pre.length, key, c.valAs (scalarKind c), n⟩ : Link) ∈ (writeAll (pre ++ f :: post)).links) ∧
    (fieldVar true (writeAll pre) f).core ∈ (writeAll (pre ++ f :: post)).vars.map Var.core := by
  obtain ⟨h1, h2, key, c, hk, ha, hl⟩ := cmAxisName_scalar true (writeAll pre) f a n h
  refine ⟨rfl, h1, h2, ⟨key, c, hk, ha, ?_⟩, fieldVar_kept pre post f⟩
  rw [writeAll_nf] at hl
  exact (links_kept pre post f).subset hl

-- non-vacuity: two fields with an equal scalar time coordinate (axis 1, not spanned by the data) and a cell method
-- over it; the second field shares the variable `time` and names its cell-method axis `time` as well
def tim : Cons := { kind := .dim, sig := 90, axes := [1], dflt := some "time" }
def fT1 : AField := { sig := 91, dflt := some "ta", axes := [{ size := 3 }, { size := 1, inData := false }], dataAxes := [0],
                      cons := [lon3, tim], cms := [([.inl 1], 5)] }
def fT2 : AField := { sig := 92, dflt := some "ua", axes := [{ size := 3 }, { size := 1, inData := false }], dataAxes := [0],
                      cons := [lon3, tim], cms := [([.inl 1], 6)] }

example : lookupN (stage7 true (writeAll [fT1]) fT2).2.1.axisScalar.reverse 1 = some "time" ∧
    ((writeAll [fT1, fT2]).vars.filter (·.isData)).map (fun v => (v.name, v.coords, v.cms)) =
      [("ta", ["time"], [(["time"], 5)]), ("ua", ["time"], [(["time"], 6)])] ∧
    ((writeAll [fT1, fT2]).vars.map (·.name)) = ["longitude", "time", "ta", "ua"] := by decide +kernel

/-- **Reader**: whatever the dataset, every scalar coordinate variable known to the cell-method parser
(`ncscalar_to_axis`) denotes a size-1 axis of the construct being created on which the coordinate read from that very
variable sits — so a cell method written over `n` is read back over the axis of the coordinate stored in `n`,
whichever identifier that axis had in the original. -/
theorem C09_reader_scalar_axis_of_cell_method (F : File) (x : Var) (ac : List (Name × Bool)) (err : Bool) (n : Name) (i : Nat)
    (h : lookup (readCoordsOf true F x ac err).scal.reverse n = some i) (m : Nat) :
    readCMs x.ddims (readCoordsOf true F x ac err).scal [([n], m)] = [([.inl i], m)] ∧
    (readCoordsOf true F x ac err).axes[i]? = some (1, none) ∧
    ∃ c ∈ (readCoordsOf true F x ac err).cons, c.ncvar = n ∧ c.axes = [i] := by
  have hm : (n, i) ∈ (readCoordsOf true F x ac err).scal := List.mem_reverse.mp (lookup_mem h)
  obtain ⟨h1, h2⟩ := readCoordsOf_scalOk true F x ac err (n, i) hm
  exact ⟨by simp [readCMs, h], h1, h2⟩

example : ((readAll [] (writeAll [fT1, fT2]).file).map (fun f => (f.ncvar, f.axes.map (·.1)))) = [("ta", [3, 1]), ("ua", [3, 1])] ∧
    ((readAll [] (writeAll [fT1, fT2]).file).map (fun f => f.cms.map (fun c => (c.1.map (fun a => a.getLeft?), c.2)))) =
      [[([some 1], 5)], [([some 1], 6)]] := by
  decide +kernel

/-! ## properties of the fields: what becomes a netCDF global attribute, and what is read back

Model: `Cfdm.Globals` (`NetCDFWrite._write_global_attributes(fields)`, `omit=` of the data variables; shared
with C08) composed with the reader's `global_attributes.copy().update(variable attributes)`
(`Cfdm.SharedProps.readBack o fs f p` = the value of property `p` of field `f` after
`cfdm.write(fs, **o)`; `cfdm.read`).  Specification: the property text — "for each original exactly one
equal construct, the same as if each had been written to a file of its own … the outcome does not depend on
the order". -/
section Properties
open Cfdm.Globals Cfdm.SharedProps

/-- **A property is promoted to a netCDF global attribute only if EVERY field of the dataset has it, with
one and the same value** (whatever `global_attributes=`, `variable_attributes=`, `file_descriptors=` and
the `nc_set_global_attribute` flags are, and whichever field comes first). -/
theorem C09_global_only_if_every_field_equal (o : Opts) (fs : List FieldG) (p : String) (h : p ∈ globalSet o fs) :
    ∃ v, ∀ f ∈ fs, lookup p f.props = some v := by
  obtain ⟨v, _, hv⟩ := globalSet_all o fs p h
  exact ⟨v, hv⟩

/-- **Every property of every field comes back with the field's own value**: never dropped, never
replaced by another field's value or by a file descriptor / forced global value of that name. -/
theorem C09_own_properties_read_back (o : Opts) (fs : List FieldG) (f : FieldG) (hf : f ∈ fs) (p : String) (v : Val)
    (hp : p ≠ "Conventions") (h : lookup p f.props = some v) : readBack o fs f p = some v := by
  unfold readBack readLookup
  rw [lookup_variableAttrs]
  by_cases hg : p ∈ globalSet o fs
  · simp only [hg, if_true]
    obtain ⟨w, hne, hw⟩ := globalSet_all o fs p hg
    have : w = v := by have := hw f hf; rw [h] at this; injection this with this; exact this.symm
    subst this
    exact lookup_writtenGlobals_global hp hg ⟨hne, hw⟩
  · simp only [hg, if_false, h]

/-- **No field inherits a property from another field**: a field that lacks property `p` is read back with
`p` only when the caller asked for a dataset-wide attribute of that name (`file_descriptors=`, or every
field forces the same global value with `nc_set_global_attribute(p, value)`) — whatever the other fields'
properties are. -/
theorem C09_no_property_inherited (o : Opts) (fs : List FieldG) (f : FieldG) (hf : f ∈ fs) (p : String)
    (h : lookup p f.props = none) :
    readBack o fs f p = lookup p (o.fileDesc ++ (forceKept o fs).filter (·.1 != "Conventions")) := by
  unfold readBack readLookup
  rw [lookup_variableAttrs]
  have hg : p ∉ globalSet o fs := by
    intro hg
    obtain ⟨w, _, hw⟩ := globalSet_all o fs p hg
    have := hw f hf
    rw [h] at this; cases this
  simp only [hg, if_false, h]
  exact lookup_writtenGlobals_other hg

/-- **The same as in a file of its own**: when no field forces a global attribute *value*, every property
(but `Conventions`, which the writer sets itself) of every field is read back from the shared dataset
exactly as from the dataset that holds this field alone. -/
theorem C09_properties_separate (o : Opts) (fs : List FieldG) (hnf : NoForced fs) (f : FieldG) (hf : f ∈ fs)
    (p : String) (hp : p ≠ "Conventions") : readBack o fs f p = readBack o [f] f p := by
  have noForce : ∀ gs : List FieldG, NoForced gs → (forceKept o gs).filter (·.1 != "Conventions") = [] := by
    intro gs hn
    rw [List.filter_eq_nil_iff]
    intro kv hkv
    obtain ⟨k, v⟩ := kv
    obtain ⟨⟨hne, hall⟩, _⟩ := mem_forceKept.mp hkv
    obtain ⟨g, hg⟩ := List.exists_mem_of_ne_nil gs hne
    have := hn g hg (k, some v) (lookup_some_mem (hall g hg))
    cases this
  have hnf1 : NoForced [f] := by
    intro g hg
    rw [List.mem_singleton] at hg
    subst hg
    exact hnf g hf
  cases h : lookup p f.props with
  | some v =>
    rw [C09_own_properties_read_back o fs f hf p v hp h,
        C09_own_properties_read_back o [f] f (by simp) p v hp h]
  | none =>
    rw [C09_no_property_inherited o fs f hf p h, C09_no_property_inherited o [f] f (by simp) p h,
        noForce fs hnf, noForce [f] hnf1]

/-- **Order independence**: for any permutation of the field list, every field is read back with the same
properties … -/
theorem C09_properties_order_independent (o : Opts) (fs fs' : List FieldG) (hperm : fs.Perm fs') (f : FieldG)
    (hf : f ∈ fs) (p : String) (hp : p ≠ "Conventions") : readBack o fs f p = readBack o fs' f p := by
  have hf' : f ∈ fs' := hperm.mem_iff.mp hf
  cases h : lookup p f.props with
  | some v =>
    rw [C09_own_properties_read_back o fs f hf p v hp h, C09_own_properties_read_back o fs' f hf' p v hp h]
  | none =>
    rw [C09_no_property_inherited o fs f hf p h, C09_no_property_inherited o fs' f hf' p h,
        lookup_append, lookup_append, lookup_forceKept_perm hperm]

/-- … so the two datasets read back to the same multiset of property sets. -/
theorem C09_properties_order_multiset (o : Opts) (fs fs' : List FieldG) (hperm : fs.Perm fs') :
    (fs.map (obs o fs)).Perm (fs'.map (obs o fs')) := by
  have h1 : fs.map (obs o fs) = fs.map (obs o fs') := by
    apply List.map_congr_left
    intro f hf
    funext p
    unfold obs
    by_cases hp : p = "Conventions"
    · simp [hp]
    · simp only [hp, if_false]
      exact C09_properties_order_independent o fs fs' hperm f hf p hp
  rw [h1]
  exact hperm.map _

-- non-vacuity: three fields; `comment` on all with one value (global), `history` on the first only
-- (stays a variable attribute: the third field must not inherit it), `title` with two values, a
-- flagged free name on two of three, a file descriptor
def gO : Opts := { descr := ["comment", "Conventions", "featureType", "history", "institution", "references", "source", "title"],
                   fileDesc := [("institution", "I")] }
def gF1 : FieldG := { props := [("comment", "c"), ("history", "h"), ("title", "t1"), ("project", "P")], ncg := [("project", none)] }
def gF2 : FieldG := { props := [("comment", "c"), ("title", "t2"), ("project", "P")], ncg := [("project", none)] }
def gF3 : FieldG := { props := [("comment", "c"), ("title", "t1")], ncg := [] }

example : globalSet gO [gF1, gF2, gF3] = ["comment"] ∧ NoForced [gF1, gF2, gF3] ∧
    readBackProps gO [gF1, gF2, gF3] gF3 = [("title", "t1"), ("institution", "I"), ("comment", "c")] ∧
    readBackProps gO [gF3, gF2, gF1] gF3 = [("title", "t1"), ("institution", "I"), ("comment", "c")] ∧
    readBackProps gO [gF3] gF3 = [("institution", "I"), ("comment", "c"), ("title", "t1")] ∧
    readBack gO [gF1, gF2, gF3] gF3 "history" = none ∧ readBack gO [gF1, gF2, gF3] gF1 "history" = some "h" ∧
    [gF1, gF2, gF3].Perm [gF3, gF2, gF1] :=
  ⟨by decide, by decide, by decide, by decide, by decide, by decide, by decide,
   (List.Perm.swap _ _ _).trans ((List.Perm.cons _ (List.Perm.swap _ _ _)).trans (List.Perm.swap _ _ _))⟩

/-- `NoForced` cannot be dropped from `C09_properties_separate`: a global attribute value forced by one field
(`nc_set_global_attribute("project", "X")`) is written when that field is alone in the dataset — and then
read back as a property of the field — but is silently not written at all when another field of the
dataset does not force the same value (as the code has it: `len(v) == len(fields)`; recorded as open
finding write-forced-global-value-dropped-when-another-construct-lacks-it). -/
theorem C09_forced_global_counterexample :
    let a : FieldG := { props := [("standard_name", "ta")], ncg := [("project", some "X")] }
    let b : FieldG := { props := [("standard_name", "ua")], ncg := [] }
    readBack gO [a] a "project" = some "X" ∧ readBack gO [a, b] a "project" = none ∧
    readBack gO [b, a] a "project" = none := by decide

/-- "EVERY field" cannot be weakened to "no field that has the property contradicts the first field" (a
loop that skips fields lacking the property): under that rule the outcome depends on the order, and a field
without `history` inherits the `history` of the field given first. -/
theorem C09_global_skip_rule_counterexample :
    readBackSkip gO [gF1, gF3] gF3 "history" = some "h" ∧ readBackSkip gO [gF3, gF1] gF3 "history" = none ∧
    readBack gO [gF1, gF3] gF3 "history" = none ∧ readBack gO [gF3, gF1] gF3 "history" = none := by decide

end Properties

section GroupProperties
open Cfdm.Globals Cfdm.SharedProps Cfdm.GroupProps

/-- **Datasets with groups, every property of every field comes back with the field's own value** (the writer
with fixes/C09-group-attribute-placement.patch; flags only): whatever is flagged as a group or global attribute by
this or another field, in the same group, a sub-group, an enclosing group or elsewhere. -/
theorem C09_group_own_properties_read_back (o : Opts) (fs : List GField) (hno : NoGroupValues fs) (f : GField) (hf : f ∈ fs)
    (p : String) (v : Val) (hp : p ≠ "Conventions") (h : lookup p f.base.props = some v) :
    GroupProps.readBack true o fs f p = some v := by
  have hglobal : p ∈ globalSet o (bases fs) → lookup p (writtenGlobals o (bases fs)) = some v := by
    intro hg
    obtain ⟨w, hne, hw⟩ := globalSet_all o (bases fs) p hg
    have : w = v := by have := hw f.base (mem_bases hf); rw [h] at this; injection this with this; exact this.symm
    subst this
    exact lookup_writtenGlobals_global hp hg ⟨hne, hw⟩
  unfold GroupProps.readBack
  rw [lookup_varAttrs]
  cases homit : omits true o fs f p with
  | false => simp [h]
  | true =>
    simp only [if_true]
    cases hin : inherited true fs f.path p with
    | some w => simp only; rw [inherited_own hno hf h hin]
    | none =>
      simp only
      unfold omits at homit
      simp only [List.contains_eq_mem, Bool.not_true, Bool.false_or] at homit
      split at homit
      · exact hglobal (by simpa using homit)
      · rename_i hne
        simp only [Bool.or_eq_true, Bool.and_eq_true, decide_eq_true_eq] at homit
        rcases homit with hg | hg
        · exact hglobal hg.1
        · -- the group attribute of the field's own group was written: it is inherited
          exfalso
          have hpath : f.path ≠ [] := by
            intro e; simp [e] at hne
          unfold inherited at hin
          rw [List.findSome?_eq_none_iff] at hin
          have := hin f.path (List.mem_reverse.mpr (self_mem_enclosing hpath))
          rw [this] at hg
          simp at hg

/-- **… and no field inherits a property it does not have** from a field of its group, of an enclosing group or
of any other group: it is read back with `p` only through `file_descriptors=` or a global value forced by every
field. -/
theorem C09_group_no_property_inherited (o : Opts) (fs : List GField) (f : GField) (hf : f ∈ fs) (p : String)
    (h : lookup p f.base.props = none) :
    GroupProps.readBack true o fs f p = lookup p (o.fileDesc ++ (forceKept o (bases fs)).filter (·.1 != "Conventions")) := by
  unfold GroupProps.readBack
  rw [lookup_varAttrs, inherited_none hf h]
  have hg : p ∉ globalSet o (bases fs) := by
    intro hg
    obtain ⟨w, _, hw⟩ := globalSet_all o (bases fs) p hg
    have := hw f.base (mem_bases hf)
    rw [h] at this; cases this
  have : (if omits true o fs f p = true then none else lookup p f.base.props) = none := by
    split
    · rfl
    · exact h
  rw [this]
  exact lookup_writtenGlobals_other hg

/-- For fields outside any group the model with groups is the model without: the theorems of the previous
section are about what the driver evaluates. -/
theorem C09_group_model_extends_flat (patched : Bool) (o : Opts) (fs : List GField) (f : GField) (hf : f.path = []) (p : String) :
    GroupProps.readBack patched o fs f p = SharedProps.readBack o (bases fs) f.base p := by
  have hv : GroupProps.varAttrs patched o fs f = variableAttrs o (bases fs) f.base := by
    unfold GroupProps.varAttrs variableAttrs omits
    simp [hf]
  have hi : inherited patched fs f.path p = none := by
    unfold inherited enclosing
    simp [hf]
  unfold GroupProps.readBack SharedProps.readBack readLookup
  rw [hv, hi]
  cases Globals.lookup p (variableAttrs o (bases fs) f.base) <;> rfl

-- a field of group /m that flags its `comment` as a group attribute, a field of /m without `comment`, a field of /m/sub
-- without it, and a field of /m with the same comment
def gA : GField := { base := { props := [("standard_name", "ta"), ("comment", "c1")], ncg := [] }, path := ["m"], gattrs := [("comment", none)] }
def gB : GField := { base := { props := [("standard_name", "ua")], ncg := [] }, path := ["m"] }
def gS : GField := { base := { props := [("standard_name", "va")], ncg := [] }, path := ["m", "sub"] }
def gC : GField := { base := { props := [("standard_name", "wa"), ("comment", "c1")], ncg := [] }, path := ["m"] }
def gOpt : Opts := { descr := ["title"] }

example : NoGroupValues [gA, gB, gS, gC] ∧ groupAttr true [gA, gC] ["m"] "comment" = some "c1" ∧
    varAttrs true gOpt [gA, gC] gA = [("standard_name", "ta")] ∧ GroupProps.readBack true gOpt [gA, gC] gA "comment" = some "c1" ∧
    GroupProps.readBack true gOpt [gA, gB] gA "comment" = some "c1" ∧ GroupProps.readBack true gOpt [gA, gS] gS "comment" = none := by
  decide

/-- The code as it is (no patch applied): (1) the flagged property is omitted from the data variable although the
group attribute is not written because another field of the group lacks it — the property is **lost**, in either
order; (2) the field of the sub-group is not consulted and **inherits** the comment.  With the patch both are read
back as written, as from a file of their own. -/
theorem C09_group_attribute_old_counterexample :
    GroupProps.readBack false gOpt [gA, gB] gA "comment" = none ∧ GroupProps.readBack false gOpt [gB, gA] gA "comment" = none ∧
    GroupProps.readBack false gOpt [gA] gA "comment" = some "c1" ∧
    GroupProps.readBack false gOpt [gA, gS] gS "comment" = some "c1" ∧ GroupProps.readBack false gOpt [gS] gS "comment" = none ∧
    GroupProps.readBack true gOpt [gA, gB] gA "comment" = some "c1" ∧ GroupProps.readBack true gOpt [gA, gS] gS "comment" = none := by
  decide

/-- **Order independence with groups** (patched writer, flags only): for any permutation of the field list every
field is read back with the same properties. -/
theorem C09_group_properties_order_independent (o : Opts) (fs fs' : List GField) (hperm : fs.Perm fs') (hno : NoGroupValues fs)
    (f : GField) (hf : f ∈ fs) (p : String) (hp : p ≠ "Conventions") :
    GroupProps.readBack true o fs f p = GroupProps.readBack true o fs' f p := by
  have hf' : f ∈ fs' := hperm.mem_iff.mp hf
  have hno' : NoGroupValues fs' := fun g hg => hno g (hperm.mem_iff.mpr hg)
  have hb : (bases fs).Perm (bases fs') := hperm.map _
  cases h : lookup p f.base.props with
  | some v =>
    rw [C09_group_own_properties_read_back o fs hno f hf p v hp h, C09_group_own_properties_read_back o fs' hno' f hf' p v hp h]
  | none =>
    rw [C09_group_no_property_inherited o fs f hf p h, C09_group_no_property_inherited o fs' f hf' p h,
        lookup_append, lookup_append, lookup_forceKept_perm hb]

/-- **The same as in a file of its own, with groups** (patched writer, flags only, no forced global values). -/
theorem C09_group_properties_separate (o : Opts) (fs : List GField) (hno : NoGroupValues fs) (hnf : NoForced (bases fs))
    (f : GField) (hf : f ∈ fs) (p : String) (hp : p ≠ "Conventions") :
    GroupProps.readBack true o fs f p = GroupProps.readBack true o [f] f p := by
  have hno1 : NoGroupValues [f] := by
    intro g hg; rw [List.mem_singleton] at hg; subst hg; exact hno g hf
  have noForce : ∀ gs : List FieldG, NoForced gs → (forceKept o gs).filter (·.1 != "Conventions") = [] := by
    intro gs hn
    rw [List.filter_eq_nil_iff]
    intro kv hkv
    obtain ⟨k, v⟩ := kv
    obtain ⟨⟨hne, hall⟩, _⟩ := mem_forceKept.mp hkv
    obtain ⟨g, hg⟩ := List.exists_mem_of_ne_nil gs hne
    have := hn g hg (k, some v) (lookup_some_mem (hall g hg))
    cases this
  have hnf1 : NoForced (bases [f]) := by
    intro g hg
    simp only [bases, List.map_cons, List.map_nil, List.mem_singleton] at hg
    subst hg
    exact hnf f.base (mem_bases hf)
  cases h : lookup p f.base.props with
  | some v =>
    rw [C09_group_own_properties_read_back o fs hno f hf p v hp h,
        C09_group_own_properties_read_back o [f] hno1 f (by simp) p v hp h]
  | none =>
    rw [C09_group_no_property_inherited o fs f hf p h, C09_group_no_property_inherited o [f] f (by simp) p h,
        noForce _ hnf, noForce _ hnf1]

example : [gA, gB, gS].Perm [gS, gB, gA] ∧ NoGroupValues [gA, gB, gS] ∧ NoForced (bases [gA, gB, gS]) ∧
    GroupProps.readBack true gOpt [gA, gB, gS] gA "comment" = some "c1" ∧ GroupProps.readBack true gOpt [gS, gB, gA] gA "comment" = some "c1" :=
  ⟨(List.Perm.swap _ _ _).trans ((List.Perm.cons _ (List.Perm.swap _ _ _)).trans (List.Perm.swap _ _ _)), by decide, by decide, by decide, by decide⟩

end GroupProperties

/-! ## separation and order (partial) -/

/-
Full strength (DESIGN §4 C09):
  C09_separate : readAll tab (writeAll fs).file ≅ₘ fs.flatMap (fun f => readAll tab (writeAll [f]).file)
                 (multiset, element-wise equal up to netCDF names)
It is false as it stands (`C09_formula_terms_overwrite_counterexample`) and, with the hypothesis
`(writeAll fs).ftConflict = false`, it is not proved here for the whole model: the axis structure a
field is read back with (which dimension each construct spans) and its coordinate references are
compared with the code by the correspondence streams only.  What is proved, for every list of
fields, is the content half of the statement, in three parts:
  (a) the reader has no cross-field state (`C09_reader_stateless`), so a field read from the shared
      dataset is a function of the dataset and of its own data variable alone;
  (b) every construct of every field is resolved, by name, to a variable holding exactly that
      construct's content — the same content it is resolved to in a dataset of its own;
  (c) writing further fields changes none of these resolutions.
-/
theorem C09_separate_partial (fs gs : List AField) (h : (writeAll (fs ++ gs)).dup = false)
    (l : Link) (hl : l ∈ (writeAll fs).links) :
    -- resolved in the dataset of `fs` alone …
    (∃ v, (writeAll fs).var? l.ncvar = some v ∧ v.val.sig = l.val.sig) ∧
    -- … and identically (up to `formula_terms`) in the dataset that also holds `gs`
    (((writeAll (fs ++ gs)).var? l.ncvar).map Var.core = ((writeAll fs).var? l.ncvar).map Var.core) := by
  have hp := C09_variables_never_rewritten fs gs
  -- no clash in the smaller dataset either
  have hd : (writeAll fs).dup = false := by
    cases hb : (writeAll fs).dup with
    | false => rfl
    | true =>
      have e := (writeAllFrom_step true gs (writeAllFrom true {} fs)).ext
      have : (writeAll (fs ++ gs)).dup = true := by
        unfold writeAll; rw [writeAllFrom_append]; exact e.dup hb
      rw [this] at h; cases h
  obtain ⟨v, hv, hvn, hvs⟩ := C09_own_content fs hd l hl
  have hu := C09_names_unique fs hd
  have hu' := C09_names_unique (fs ++ gs) h
  have h1 : (writeAll fs).var? l.ncvar = some v := by rw [← hvn]; exact var?_of_mem hu hv
  refine ⟨⟨v, h1, hvs⟩, ?_⟩
  -- the same variable (up to formula_terms) sits in the larger dataset
  have hc : v.core ∈ (writeAll (fs ++ gs)).vars.map Var.core := hp.1.subset (List.mem_map_of_mem hv)
  obtain ⟨w, hw, hwc⟩ := List.mem_map.1 hc
  have hwn : w.name = l.ncvar := by
    have := congrArg Var.name hwc
    simp only [Var.core] at this
    rw [this, hvn]
  have h2 : (writeAll (fs ++ gs)).var? l.ncvar = some w := by rw [← hwn]; exact var?_of_mem hu' hw
  rw [h1, h2]
  simp [hwc]

example : ∃ l ∈ (writeAll [fldA]).links, l.ncvar = "latitude" := by decide +kernel

/-
Full strength:  C09_order : fs ~ fs' → readAll tab (writeAll fs).file ≅ₘ readAll tab (writeAll fs').file
False as it stands for the same reason as `C09_separate` (and, for the code as it is, for the four
repaired reasons).  Proved: in *every* order each construct is resolved to a variable holding its own
content, so the multiset of (construct content ↦ content it is read back with) cannot depend on the order.
-/
theorem C09_order_partial (fs fs' : List AField) (_hp : fs.Perm fs')
    (h : (writeAll fs).dup = false) (h' : (writeAll fs').dup = false) :
    (∀ l ∈ (writeAll fs).links, ∃ v, (writeAll fs).var? l.ncvar = some v ∧ v.val.sig = l.val.sig) ∧
    (∀ l ∈ (writeAll fs').links, ∃ v, (writeAll fs').var? l.ncvar = some v ∧ v.val.sig = l.val.sig) := by
  constructor
  · intro l hl
    obtain ⟨v, hv, hvn, hvs⟩ := C09_own_content fs h l hl
    exact ⟨v, by rw [← hvn]; exact var?_of_mem (C09_names_unique fs h) hv, hvs⟩
  · intro l hl
    obtain ⟨v, hv, hvn, hvs⟩ := C09_own_content fs' h' l hl
    exact ⟨v, by rw [← hvn]; exact var?_of_mem (C09_names_unique fs' h') hv, hvs⟩

example : [fldA, fldB].Perm [fldB, fldA] ∧ (writeAll [fldA, fldB]).dup = false ∧ (writeAll [fldB, fldA]).dup = false ∧
    ((writeAll [fldB, fldA]).vars.map (·.name)) = ["latitude_bounds", "latitude", "longitude", "ua", "longitude_1", "ta"] :=
  ⟨List.Perm.swap _ _ _, by decide +kernel⟩

end Cfdm.Props.C09
