import Cfdm.Lemmas.Sharing
import Cfdm.Lemmas.SharingRead
/-
C09 — fields sharing a file do not interfere with each other.

Model: `Cfdm.Sharing` (`writeAll : List AField → St`, `St.file`, `readAll : GMTable → File → List RField`)
mirrors the cross-field state of `NetCDFWrite` / `NetCDFRead` with fixes/C09-*.patch applied; the
behaviour of the code as it is stays available through `writeAllOldNames`, `writeAllOldDims`,
`writeAllOldData`, `readAllWith false` and is refuted below by concrete witnesses.

Specification (independent of the algorithm): `eqComp` — structural equality of what `equals`
compares —, "the variable a construct is stored in holds that construct's content", "nothing written
earlier changes", "what a data variable is read as is a function of the dataset and of that variable".

Full-strength statements that are *not* proved for the whole model are quoted in comments next to
their `…_partial` versions.
-/
namespace Cfdm.Props.C09
open Cfdm.Sharing

/-! ## writer: the registry -/

/-- The registry invariant holds after any sequence of fields, from any configuration of the
writer (patched or not): every registered entry names a variable of the dataset with exactly the
registered content and dimensions, every construct-to-variable link is backed by a registered entry
that `equal_components` the construct, and variable names are unique unless a netCDF name clash
(`dup`) was flagged. -/
theorem C09_registry_sound (patched oldNames oldData : Bool) (fs : List AField) :
    Inv (writeAllFrom patched { oldNames := oldNames, oldData := oldData } fs) :=
  (writeAllFrom_step patched fs _).inv (inv_init oldNames oldData)

/-- **Metadata variables are shared only between equal constructs**: whenever two constructs (of the
same or of different fields, in any write order) are stored in the same netCDF variable, their
contents are equal (same signature = same properties, data, bounds …) and they have the same
construct type, except that a domain ancillary may share with a construct of another type
(`ignore_type=True` in `_write_domain_ancillary`). -/
theorem C09_share_only_equal (fs : List AField) (h : (writeAll fs).dup = false) (l1 l2 : Link)
    (h1 : l1 ∈ (writeAll fs).links) (h2 : l2 ∈ (writeAll fs).links) (hv : l1.ncvar = l2.ncvar) :
    l1.val.sig = l2.val.sig ∧ (l1.val.kind = l2.val.kind ∨ l1.val.kind = .dan ∨ l2.val.kind = .dan) :=
  links_same_var (C09_registry_sound true false false fs) h h1 h2 hv

-- non-vacuity: two fields with an equal latitude coordinate and unequal longitudes; the latitude
-- variable is shared, the longitudes are not
def lat : Cons := { kind := .dim, sig := 1, axes := [0], dflt := some "latitude", bounds := some { sig := 2, nv := 2 } }
def lonA : Cons := { kind := .dim, sig := 3, axes := [1], dflt := some "longitude" }
def lonB : Cons := { kind := .dim, sig := 4, axes := [1], dflt := some "longitude" }
def fldA : AField := { sig := 10, dflt := some "ta", axes := [{ size := 3 }, { size := 4 }], dataAxes := [0, 1], cons := [lat, lonA] }
def fldB : AField := { sig := 11, dflt := some "ua", axes := [{ size := 3 }, { size := 4 }], dataAxes := [0, 1], cons := [lat, lonB] }

example : (writeAll [fldA, fldB]).dup = false ∧
    (writeAll [fldA, fldB]).links.map (fun l => (l.field, l.key, l.ncvar)) =
      [(0, 0, "latitude"), (0, 1, "longitude"), (1, 0, "latitude"), (1, 1, "longitude_1")] := by decide +kernel

/-- every construct of every field is stored in a variable that holds *its own* content, whatever
else was written to the dataset and in whatever order -/
theorem C09_own_content (fs : List AField) (h : (writeAll fs).dup = false) (l : Link) (hl : l ∈ (writeAll fs).links) :
    ∃ v ∈ (writeAll fs).vars, v.name = l.ncvar ∧ v.val.sig = l.val.sig := by
  have i := C09_registry_sound true false false fs
  obtain ⟨e, he, hn, hq⟩ := i.links l hl
  obtain ⟨v, hv, hvn, hvv, _⟩ := i.seen e he
  refine ⟨v, hv, by rw [hvn, hn], ?_⟩
  unfold eqComp at hq
  simp only [Bool.and_eq_true, decide_eq_true_eq] at hq
  rw [hvv, hq.2]

/-! ## writer: nothing already written is changed -/

/-- **Later fields never rewrite what earlier fields wrote**: the variables (up to the
`formula_terms` attribute, see `C09_formula_terms_overwrite_counterexample`), the dimensions, the
registry and the construct-to-variable links of `cfdm.write(fs)` are a prefix of those of
`cfdm.write(fs ++ gs)`. -/
theorem C09_variables_never_rewritten (fs gs : List AField) :
    (writeAll fs).vars.map Var.core <+: (writeAll (fs ++ gs)).vars.map Var.core ∧
    (writeAll fs).dimSizes <+: (writeAll (fs ++ gs)).dimSizes ∧
    (writeAll fs).links <+: (writeAll (fs ++ gs)).links ∧
    (writeAll fs).seen <+: (writeAll (fs ++ gs)).seen := by
  unfold writeAll
  rw [writeAllFrom_append]
  have e := (writeAllFrom_step true gs (writeAllFrom true {} fs)).ext
  exact ⟨e.vars, e.dims, e.links, e.seen⟩

example : (writeAll [fldA]).vars.map (·.name) = ["latitude_bounds", "latitude", "longitude", "ta"] ∧
    (writeAll ([fldA] ++ [fldB])).vars.map (·.name) = ["latitude_bounds", "latitude", "longitude", "ta", "longitude_1", "ua"] := by
  decide +kernel

/-- **Names**: with `_netcdf_name` as patched, no two variables of the dataset get the same name
unless the writer flagged a clash (`dup`, only reachable through a pinned dimension name that is not
passed through `_netcdf_name`); so a field's own pinned variable names are changed only by sharing
(the first equal construct names the variable) or by the `_<n>` suffix of a name already taken. -/
theorem C09_names_unique (fs : List AField) (h : (writeAll fs).dup = false) :
    ((writeAll fs).vars.map (·.name)).Nodup :=
  (C09_registry_sound true false false fs).uniq h

/-- `_netcdf_name` as patched never hands out a name that is in use -/
theorem C09_netcdfName_fresh (s : St) (base : Name) (hs : s.oldNames = false) (hok : (netcdfName s base).1.ok = true)
    (_h0 : s.ok = true) : (netcdfName s base).2 ∉ s.existing := by
  unfold netcdfName at hok ⊢
  simp only [hs] at hok ⊢
  unfold netcdfNameNew at hok ⊢
  simp only [Bool.false_eq_true, if_false] at hok ⊢
  split
  · rename_i hc
    simp only [hc, if_true] at hok ⊢
    split
    · rename_i n hn
      -- the search stops at a free name
      have : ∀ (k fuel : Nat) (n : Name), findFree (blankToUnderscore base) s.existing k fuel = some n → n ∉ s.existing := by
        intro k fuel
        induction fuel generalizing k with
        | zero => intro n h; simp [findFree] at h
        | succ m ih =>
          intro n h
          unfold findFree at h
          split at h
          · exact ih _ _ h
          · rename_i hnc
            cases h
            simpa using hnc
      exact this _ _ _ hn
    · rename_i hn
      simp [hn] at hok
  · rename_i hc
    simp only [hc] at hok ⊢
    simpa using hc

-- the code as it is: two different field ancillaries whose default name holds a blank collide
def errA : Cons := { kind := .fan, sig := 1, axes := [0], dflt := some "air_temperature standard_error" }
def errB : Cons := { kind := .fan, sig := 2, axes := [0], dflt := some "air_temperature standard_error" }
def lon3 : Cons := { kind := .dim, sig := 9, axes := [0], dflt := some "longitude" }
def fErrA : AField := { sig := 10, dflt := some "ta", axes := [{ size := 3 }], dataAxes := [0], cons := [lon3, errA] }
def fErrB : AField := { sig := 11, dflt := some "ua", axes := [{ size := 3 }], dataAxes := [0], cons := [lon3, errB] }

theorem C09_netcdfNameOld_counterexample :
    (writeAllOldNames [fErrA, fErrB]).dup = true ∧ (writeAll [fErrA, fErrB]).dup = false ∧
    (writeAll [fErrA, fErrB]).vars.map (·.name) =
      ["longitude", "air_temperature_standard_error", "ta", "air_temperature_standard_error_1", "ua"] := by decide +kernel

/-! ## writer: dimension reuse -/

/-- patched rule: a dimension already used by another axis of the field being written is never
chosen again by the size-and-spanning-construct reuse -/
theorem C09_dimension_reuse_injective (spans : List (Name × Nat × List (CVal × Nat))) (used : List Name) (size : Nat)
    (mine : List (CVal × Nat)) (d : Name) (h : findSpanDim true spans used size mine = some d) : d ∉ used := by
  unfold findSpanDim at h
  cases hf : spans.find? _ with
  | none => rw [hf] at h; cases h
  | some e =>
    rw [hf] at h
    simp only [Option.map_some, Option.some.injEq] at h
    subst h
    have hp := List.find?_some hf
    simp only [Bool.true_and, Bool.and_eq_true, Bool.not_eq_true', decide_eq_true_eq] at hp
    have := hp.1.2
    simpa using this

-- a square field (two size-3 axes, an equal auxiliary coordinate on each, no dimension coordinate)
-- written after a field whose axis carries that coordinate
def stn (a : Nat) : Cons := { kind := .aux, sig := 5, axes := [a] }
def fLine : AField := { sig := 20, dflt := some "ta", axes := [{ size := 3 }], dataAxes := [0], cons := [stn 0] }
def fSquare : AField := { sig := 21, dflt := some "cov", axes := [{ size := 3 }, { size := 3 }], dataAxes := [0, 1], cons := [stn 0, stn 1] }

theorem C09_dimension_reuseOld_counterexample :
    ((writeAllOldDims [fLine, fSquare]).vars.getLast?.map (·.dims)) = some ["dim", "dim"] ∧
    ((writeAll [fLine, fSquare]).vars.getLast?.map (·.dims)) = some ["dim", "dim_1"] ∧
    ((writeAll [fSquare]).vars.getLast?.map (·.dims)) = some ["dim", "dim_1"] := by decide +kernel

-- a field whose data equal another field's domain ancillary, written first: the code as it is stores
-- the domain ancillary in that field's *data variable* (which cfdm.read then no longer returns)
def zc : Cons := { kind := .dim, sig := 30, axes := [0], dflt := some "atmosphere_hybrid_height_coordinate" }
def yc : Cons := { kind := .dim, sig := 31, axes := [1], dflt := some "grid_latitude" }
def orog : Cons := { kind := .dan, sig := 32, axes := [1], dflt := some "surface_altitude" }
def fTa : AField := { sig := 40, dflt := some "air_temperature", axes := [{ size := 2 }, { size := 3 }], dataAxes := [0, 1],
                      cons := [zc, yc, orog], vrefs := [{ owner := some 0, terms := [("orog", 2)] }] }
def fOrog : AField := { sig := 32, dflt := some "surface_altitude", axes := [{ size := 3 }], dataAxes := [0],
                        cons := [{ yc with axes := [0] }] }

theorem C09_data_variable_reuseOld_counterexample :
    ((writeAllOldData [fOrog, fTa]).vars.filter (·.isData)).map (·.name) = ["surface_altitude", "air_temperature"] ∧
    ((writeAllOldData [fOrog, fTa]).vars.find? (·.name == "atmosphere_hybrid_height_coordinate")).map (·.ft)
      = some [("orog", "surface_altitude")] ∧
    ((writeAll [fOrog, fTa]).vars.find? (·.name == "atmosphere_hybrid_height_coordinate")).map (·.ft)
      = some [("orog", "surface_altitude_1")] := by decide +kernel

/-! ## reader -/

/-- **The patched reader carries no state from one data variable to the next**: `cfdm.read` of a
dataset is the list of what each data variable is turned into on its own (`readEach` starts every
variable from the empty reader state). -/
theorem C09_reader_stateless (tab : GMTable) (F : File) : readAll tab F = readEach tab F := by
  rw [readAll_eq_map, readEach_eq_map]

example : readAll [] (writeAll [fldA, fldB]).file = readEach [] (writeAll [fldA, fldB]).file ∧
    (readAll [] (writeAll [fldA, fldB]).file).map (fun f => (f.ncvar, f.cons.map (·.ncvar))) =
      [("ta", ["latitude", "longitude"]), ("ua", ["latitude", "longitude_1"])] := by decide +kernel

-- the code as it is: `vertical_crs` survives from field to field.  Field 1 has a parametric vertical
-- coordinate whose datum equals that of its grid mapping; field 2 has a grid mapping without datum.
def gy : Cons := { kind := .dim, sig := 51, axes := [1], dflt := some "grid_latitude" }
def gy2 : Cons := { kind := .dim, sig := 52, axes := [0], dflt := some "grid_latitude" }
def dA : Cons := { kind := .dan, sig := 53, axes := [0] }
def fV : AField := { sig := 60, dflt := some "ta", axes := [{ size := 2 }, { size := 3 }], dataAxes := [0, 1],
                     cons := [zc, gy, dA], vrefs := [{ owner := some 0, terms := [("a", 2)], datum := some 7 }],
                     gms := [{ params := 8, datum := some 7, coords := [1], name := "rotated_latitude_longitude" }] }
def fH : AField := { sig := 61, dflt := some "ua", axes := [{ size := 3 }], dataAxes := [0], cons := [gy2],
                     gms := [{ params := 8, datum := none, coords := [0], name := "rotated_latitude_longitude" }] }
def tabRot : GMTable := [(8, ["grid_latitude", "grid_longitude"])]

theorem C09_readerOld_vertical_crs_counterexample :
    ((readAllWith true tabRot (writeAll [fV, fH]).file).fields.map (fun f => f.refs.map (·.datum)))
      = [[some [7], some [7]], [none]] ∧
    ((readAllWith false tabRot (writeAll [fV, fH]).file).fields.map (fun f => f.refs.map (·.datum)))
      = [[none, some [7]], [none]] ∧
    ((readAllWith false tabRot (writeAll [fH, fV]).file).fields.map (fun f => f.refs.map (·.datum)))
      = [[none], [some [7], some [7]]] := by decide +kernel

-- the code as it is: a scalar string coordinate shared by two data variables cannot be read
def station : Cons := { kind := .aux, sig := 70, axes := [1], str := true }
def fS1 : AField := { sig := 71, dflt := some "ta", axes := [{ size := 3 }, { size := 1, inData := false }], dataAxes := [0], cons := [lon3, station] }
def fS2 : AField := { sig := 72, dflt := some "ua", axes := [{ size := 3 }, { size := 1, inData := false }], dataAxes := [0], cons := [lon3, station] }

theorem C09_readerOld_scalar_string_counterexample :
    (readAllWith false [] (writeAll [fS1, fS2]).file).err = true ∧
    (readAllWith true [] (writeAll [fS1, fS2]).file).err = false ∧
    (readAll [] (writeAll [fS1, fS2]).file).map (fun f => f.cons.map (fun c => (c.ncvar, c.axes))) =
      [[("longitude", [0]), ("scalar", [1])], [("longitude", [0]), ("scalar", [1])]] := by decide +kernel

/-! ## what does not hold: `formula_terms` of a shared parametric coordinate (open finding) -/

-- two fields with an equal parametric vertical coordinate but orographies on different grids
def gyB : Cons := { kind := .dim, sig := 54, axes := [1], dflt := some "grid_latitude" }
def orogA : Cons := { kind := .dan, sig := 55, axes := [1], dflt := some "surface_altitude" }
def fZ1 : AField := { sig := 80, dflt := some "ta", axes := [{ size := 2 }, { size := 3 }], dataAxes := [0, 1],
                      cons := [zc, gy, orogA], vrefs := [{ owner := some 0, terms := [("orog", 2)] }] }
def fZ2 : AField := { sig := 81, dflt := some "ua", axes := [{ size := 2 }, { size := 3 }], dataAxes := [0, 1],
                      cons := [zc, gyB, orogA], vrefs := [{ owner := some 0, terms := [("orog", 2)] }] }

/-- The full-strength statement
  `∀ fs, readAll tab (writeAll fs).file ≅ fs.flatMap (fun f => readAll tab (writeAll [f]).file)`
is **false** for the code (no patch proposed): the formula-terms block sets the attribute on the owning
coordinate variable after that variable may have been shared, so the second field's terms replace the
first's; the first field is then read without its coordinate reference. -/
theorem C09_formula_terms_overwrite_counterexample :
    (writeAll [fZ1, fZ2]).ftConflict = true ∧
    ((readAll [] (writeAll [fZ1]).file).map (fun f => f.refs.length)) = [1] ∧
    ((readAll [] (writeAll [fZ1, fZ2]).file).map (fun f => f.refs.length)) = [0, 1] := by decide +kernel

/-! ## separation and order (partial) -/

/-
Full strength (DESIGN §4 C09):
  C09_separate : readAll tab (writeAll fs).file ≅ₘ fs.flatMap (fun f => readAll tab (writeAll [f]).file)
                 (multiset, element-wise equal up to netCDF names)
It is false as it stands (`C09_formula_terms_overwrite_counterexample`) and, with the hypothesis
`(writeAll fs).ftConflict = false`, it is not proved here for the whole model: the axis structure a
field is read back with (which dimension each construct spans) and its coordinate references are
compared with the code by the correspondence streams only.  What is proved, for every list of
fields, is the content half of the statement, in three parts:
  (a) the reader has no cross-field state (`C09_reader_stateless`), so a field read from the shared
      dataset is a function of the dataset and of its own data variable alone;
  (b) every construct of every field is resolved, by name, to a variable holding exactly that
      construct's content — the same content it is resolved to in a dataset of its own;
  (c) writing further fields changes none of these resolutions.
-/
theorem C09_separate_partial (fs gs : List AField) (h : (writeAll (fs ++ gs)).dup = false)
    (l : Link) (hl : l ∈ (writeAll fs).links) :
    -- resolved in the dataset of `fs` alone …
    (∃ v, (writeAll fs).var? l.ncvar = some v ∧ v.val.sig = l.val.sig) ∧
    -- … and identically (up to `formula_terms`) in the dataset that also holds `gs`
    (((writeAll (fs ++ gs)).var? l.ncvar).map Var.core = ((writeAll fs).var? l.ncvar).map Var.core) := by
  have hp := C09_variables_never_rewritten fs gs
  -- no clash in the smaller dataset either
  have hd : (writeAll fs).dup = false := by
    cases hb : (writeAll fs).dup with
    | false => rfl
    | true =>
      have e := (writeAllFrom_step true gs (writeAllFrom true {} fs)).ext
      have : (writeAll (fs ++ gs)).dup = true := by
        unfold writeAll; rw [writeAllFrom_append]; exact e.dup hb
      rw [this] at h; cases h
  obtain ⟨v, hv, hvn, hvs⟩ := C09_own_content fs hd l hl
  have hu := C09_names_unique fs hd
  have hu' := C09_names_unique (fs ++ gs) h
  have h1 : (writeAll fs).var? l.ncvar = some v := by rw [← hvn]; exact var?_of_mem hu hv
  refine ⟨⟨v, h1, hvs⟩, ?_⟩
  -- the same variable (up to formula_terms) sits in the larger dataset
  have hc : v.core ∈ (writeAll (fs ++ gs)).vars.map Var.core := hp.1.subset (List.mem_map_of_mem hv)
  obtain ⟨w, hw, hwc⟩ := List.mem_map.1 hc
  have hwn : w.name = l.ncvar := by
    have := congrArg Var.name hwc
    simp only [Var.core] at this
    rw [this, hvn]
  have h2 : (writeAll (fs ++ gs)).var? l.ncvar = some w := by rw [← hwn]; exact var?_of_mem hu' hw
  rw [h1, h2]
  simp [hwc]

example : ∃ l ∈ (writeAll [fldA]).links, l.ncvar = "latitude" := by decide +kernel

/-
Full strength:  C09_order : fs ~ fs' → readAll tab (writeAll fs).file ≅ₘ readAll tab (writeAll fs').file
False as it stands for the same reason as `C09_separate` (and, for the code as it is, for the four
repaired reasons).  Proved: in *every* order each construct is resolved to a variable holding its own
content, so the multiset of (construct content ↦ content it is read back with) cannot depend on the order.
-/
theorem C09_order_partial (fs fs' : List AField) (_hp : fs.Perm fs')
    (h : (writeAll fs).dup = false) (h' : (writeAll fs').dup = false) :
    (∀ l ∈ (writeAll fs).links, ∃ v, (writeAll fs).var? l.ncvar = some v ∧ v.val.sig = l.val.sig) ∧
    (∀ l ∈ (writeAll fs').links, ∃ v, (writeAll fs').var? l.ncvar = some v ∧ v.val.sig = l.val.sig) := by
  constructor
  · intro l hl
    obtain ⟨v, hv, hvn, hvs⟩ := C09_own_content fs h l hl
    exact ⟨v, by rw [← hvn]; exact var?_of_mem (C09_names_unique fs h) hv, hvs⟩
  · intro l hl
    obtain ⟨v, hv, hvn, hvs⟩ := C09_own_content fs' h' l hl
    exact ⟨v, by rw [← hvn]; exact var?_of_mem (C09_names_unique fs' h') hv, hvs⟩

example : [fldA, fldB].Perm [fldB, fldA] ∧ (writeAll [fldA, fldB]).dup = false ∧ (writeAll [fldB, fldA]).dup = false ∧
    ((writeAll [fldB, fldA]).vars.map (·.name)) = ["latitude_bounds", "latitude", "longitude", "ua", "longitude_1", "ta"] :=
  ⟨List.Perm.swap _ _ _, by decide +kernel⟩

end Cfdm.Props.C09
