import Cfdm.Lemmas.NcNames
import Cfdm.Lemmas.Globals
import Cfdm.Lemmas.NcFile
import Cfdm.Lemmas.NcWrite
/-
C08 — a written dataset is a faithful CF-netCDF encoding at file level.
Property theorems only.

`NcNames.request true` is `_netcdf_name` after `fixes/C08-netcdf-name-blanks.patch`
(blanks replaced before the uniqueness test); the method as it stands
(`request false`) is refuted by `C08_old_names_counterexample`.  The global-attribute
placement is modelled with `equal_properties` for the forced values
(`fixes/C08-forced-global-unhashable.patch`); the Conventions assembly is the code as
repaired in /repo commit 382699f, the loop it replaced is refuted by
`C08_old_conventions_counterexample`.
-/
namespace Cfdm.Props.C08
open Cfdm

/-! ## Names -/
section Names
open Cfdm.NcNames

/-- One call of `_netcdf_name`, for every state of the write, every base name, every
`dimsize` / `role`: the name returned is **not in use** (neither a variable name handed out
before nor a registered dimension) and is registered, **except** by the documented reuse —
`dimsize` given and a dimension created for the same role with exactly that size exists, in
which case that dimension is returned and nothing changes.  The only other outcomes are the
two exceptions of the code (`dimsize` without `role`; a role dimension the caller never gave a
size), which leave the state unchanged. -/
theorem C08_names_fresh (s : St) (base : String) (dimsize : Option Nat) (role : Option String) :
    (∃ n roles, request true s base dimsize role = (.fresh n, { s with vars := n :: s.vars, roles := roles })
        ∧ n ∉ s.existing)
    ∨ (∃ n size r, dimsize = some size ∧ role = some r ∧ request true s base dimsize role = (.reused n, s)
        ∧ n ∈ s.roleDims r ∧ s.dimSize n = some size)
    ∨ (request true s base dimsize role = (.valueError, s) ∧ dimsize.isSome ∧ (role = none ∨ role = some ""))
    ∨ request true s base dimsize role = (.keyError, s) :=
  request_cases s base dimsize role

example : request true { vars := ["lat", "lat_1"], dims := [("lat", 3)] } "lat" none none
    = (.fresh "lat_2", { vars := ["lat_2", "lat", "lat_1"], dims := [("lat", 3)] }) := by decide
example : (request true { vars := ["bounds2"], dims := [("bounds2", 2)], roles := [("bounds", ["bounds2"])] }
    "bounds2" (some 2) (some "bounds")).1 = .reused "bounds2" := by decide
example : (request true { vars := ["bounds2"], dims := [("bounds2", 2)], roles := [("bounds", ["bounds2"])] }
    "bounds2" (some 4) (some "bounds")).1 = .fresh "bounds2_1" := by decide

/-- The name is the one the documentation promises: the requested base (blanks as `_`) when
that is free, otherwise the base with the **first** free counter `_1, _2, …`. -/
theorem C08_names_shape (s : St) (base : String) (dimsize : Option Nat) (role : Option String) (n : String)
    (h : (request true s base dimsize role).1 = .fresh n) :
    (n = sanitize base ∧ sanitize base ∉ s.existing)
    ∨ ∃ k, 1 ≤ k ∧ n = suffixed (sanitize base) k ∧ sanitize base ∈ s.existing
        ∧ ∀ i, 1 ≤ i → i < k → suffixed (sanitize base) i ∈ s.existing := by
  have key : (allocate true s base dimsize role).1 = .fresh n →
      (n = sanitize base ∧ sanitize base ∉ s.existing)
      ∨ ∃ k, 1 ≤ k ∧ n = suffixed (sanitize base) k ∧ sanitize base ∈ s.existing
          ∧ ∀ i, 1 ≤ i → i < k → suffixed (sanitize base) i ∈ s.existing := by
    intro ha
    obtain ⟨m, hm, hor⟩ := allocate_name s base dimsize role
    rw [hm] at ha
    injection ha with ha
    subst ha
    obtain ⟨m', _, hm', hfresh⟩ := allocate_fresh s base dimsize role
    have hmm : m' = m := by
      have := congrArg Prod.fst hm'
      simp only at this
      rw [hm] at this
      injection this with this
      exact this.symm
    subst hmm
    rcases hor with h1 | h2
    · exact Or.inl ⟨h1, h1 ▸ hfresh⟩
    · exact Or.inr h2
  unfold request at h
  cases dimsize with
  | none => exact key h
  | some size =>
    cases role with
    | none => simp at h
    | some r =>
      simp only at h
      split at h
      · simp at h
      · split at h
        · simp at h
        · simp at h
        · exact key h

example : (request true { vars := ["x", "x_1", "x_3"] } "x" none none).1 = .fresh "x_2" := by decide

/-- Injectivity of the allocation over **any** sequence of requests and dimension
registrations, from any state: the names freshly allocated during the write are pairwise
distinct, none of them was in use at the start, all of them are registered at the end, and no
name in use is ever forgotten.  (So two constructs never receive the same variable name, and a
variable never takes the name of a dimension it does not own.) -/
theorem C08_names_injective (s : St) (evs : List Ev) :
    (freshNames (run true s evs).2).Nodup
    ∧ (∀ n ∈ freshNames (run true s evs).2, n ∉ s.existing)
    ∧ (∀ n ∈ freshNames (run true s evs).2, n ∈ (run true s evs).1.vars)
    ∧ (∀ x ∈ s.existing, x ∈ (run true s evs).1.existing) :=
  run_fresh evs s

example : freshNames (run true {} [.req "lat" none none, .regdim "lat" 4, .req "lat" none none,
      .req "bounds2" (some 2) (some "bounds"), .regdim "bounds2" 2, .req "lat bnds" none none,
      .req "bounds2" (some 2) (some "bounds"), .req "lat_bnds" none none]).2
    = ["lat", "lat_1", "bounds2", "lat_bnds", "lat_bnds_1"] := by decide

/-- The method as it stands replaces blanks *after* the uniqueness test: a name with a blank
is returned although it is in use (`cfdm.write` then fails with "NetCDF: String match to name
in use"). -/
theorem C08_old_names_counterexample :
    request false { vars := ["a_b"] } "a b" none none = (.fresh "a_b", { vars := ["a_b", "a_b"] })
    ∧ "a_b" ∈ ({ vars := ["a_b"] } : St).existing
    ∧ (request true { vars := ["a_b"] } "a b" none none).1 = .fresh "a_b_1" := by decide

end Names

/-! ## Conventions -/
section Conventions
open Cfdm.Globals

/-- The `Conventions` attribute, for every requested list (user string, user sequence, or the
forced value of the fields) none of whose entries contains a comma: it is written; read back
the way CF prescribes (split on commas if there is one, else on blanks) it is **exactly**
`CF-<version>` first, then the requested entries that are not a CF version, in the requested
order — so no other `CF-x` entry survives and no requested extra is lost; and the delimiter is a
comma iff some entry contains a blank. -/
theorem C08_conventions (version : List Char) (arg : ConvArg) (forced : Option (List Char))
    (hv : ' ' ∉ version ∧ ',' ∉ version)
    (hreq : ∀ e ∈ requested arg forced, ',' ∉ e) :
    ∃ out, conventions version arg forced = .ok out
      ∧ parseConv out = ("CF-".toList ++ version) :: (requested arg forced).filter (fun e => decide (¬ IsCF e))
      ∧ (∀ e ∈ (parseConv out).tail, ¬ IsCF e)
      ∧ (',' ∈ out ↔ ∃ e ∈ (requested arg forced).filter (fun e => decide (¬ IsCF e)), ' ' ∈ e) := by
  have hkept : ∀ e ∈ removeCF (requested arg forced), ',' ∉ e := by
    intro e he
    exact hreq e (List.mem_filter.mp he).1
  have hcf : ',' ∉ ("CF-".toList ++ version) ∧ ' ' ∉ ("CF-".toList ++ version) := by
    constructor
    · intro h; rcases List.mem_append.mp h with h | h
      · revert h; decide
      · exact hv.2 h
    · intro h; rcases List.mem_append.mp h with h | h
      · revert h; decide
      · exact hv.1 h
  have hnocomma : (removeCF (requested arg forced)).any (·.contains ',') = false := by
    rw [List.any_eq_false]
    intro e he
    simpa using hkept e he
  unfold conventions assemble
  simp only [hnocomma, Bool.false_eq_true, if_false]
  rw [← removeCF_eq]
  generalize hk : removeCF (requested arg forced) = kept at hkept
  refine ⟨_, rfl, ?_⟩
  have hall_nocomma : ∀ l ∈ ("CF-".toList ++ version) :: kept, ',' ∉ l := by
    intro l hl
    rcases List.mem_cons.mp hl with rfl | hl
    · exact hcf.1
    · exact hkept l hl
  by_cases hb : ((("CF-".toList ++ version) :: kept).any (·.contains ' ')) = true
  · -- comma delimiter
    simp only [hb, if_true]
    obtain ⟨e, he, heb⟩ := List.any_eq_true.mp hb
    have he' : e ∈ kept := by
      rcases List.mem_cons.mp he with rfl | he
      · exact absurd (by simpa using heb) hcf.2
      · exact he
    have hlen : 2 ≤ (("CF-".toList ++ version) :: kept).length := by
      cases kept with
      | nil => cases he'
      | cons _ _ => simp
    have hin : ',' ∈ joinC ',' (("CF-".toList ++ version) :: kept) := sep_mem_joinC ',' _ hlen
    have hparse : parseConv (joinC ',' (("CF-".toList ++ version) :: kept)) = ("CF-".toList ++ version) :: kept := by
      unfold parseConv
      have : (joinC ',' (("CF-".toList ++ version) :: kept)).contains ',' = true := by simpa using hin
      simp only [this, if_true]
      exact splitC_joinC ',' _ (by simp) hall_nocomma
    refine ⟨hparse, ?_, ?_⟩
    · rw [hparse]
      intro x hx
      have : x ∈ removeCF (requested arg forced) := hk ▸ hx
      rw [removeCF_eq] at this
      simpa using (List.mem_filter.mp this).2
    · constructor
      · intro _; exact ⟨e, he', by simpa using heb⟩
      · intro _; exact hin
  · -- blank delimiter
    simp only [hb, Bool.false_eq_true, if_false]
    have hnb : ∀ l ∈ ("CF-".toList ++ version) :: kept, ' ' ∉ l := by
      intro l hl hmem
      apply hb
      exact List.any_eq_true.mpr ⟨l, hl, by simpa using hmem⟩
    have hnotin : ',' ∉ joinC ' ' (("CF-".toList ++ version) :: kept) := by
      intro h
      rcases mem_joinC h with ⟨h1, _⟩ | ⟨l, hl, hc⟩
      · revert h1; decide
      · exact hall_nocomma l hl hc
    have hparse : parseConv (joinC ' ' (("CF-".toList ++ version) :: kept)) = ("CF-".toList ++ version) :: kept := by
      unfold parseConv
      have : (joinC ' ' (("CF-".toList ++ version) :: kept)).contains ',' = false := by simpa using hnotin
      simp only [this, Bool.false_eq_true, if_false]
      exact splitC_joinC ' ' _ (by simp) hnb
    refine ⟨hparse, ?_, ?_⟩
    · rw [hparse]
      intro x hx
      have : x ∈ removeCF (requested arg forced) := hk ▸ hx
      rw [removeCF_eq] at this
      simpa using (List.mem_filter.mp this).2
    · constructor
      · intro h; exact absurd h hnotin
      · rintro ⟨e, he, heb⟩
        exact absurd heb (hnb e (List.mem_cons_of_mem _ he))

example : conventions "1.11".toList (.seq ["CF-1.7".toList, "CF-1.8".toList, "ACDD-1.3".toList]) none
    = .ok "CF-1.11 ACDD-1.3".toList := by decide
example : conventions "1.11".toList (.seq ["A B".toList, "CF-1.6".toList, "C".toList]) none
    = .ok "CF-1.11,A B,C".toList := by decide
example : conventions "1.11".toList .none (some "CF-1.8 UGRID-1.0".toList) = .ok "CF-1.11 UGRID-1.0".toList := by decide

/-- An entry with a comma cannot be represented and is refused (`ValueError`), never written
mangled. -/
theorem C08_conventions_comma_rejected (version : List Char) (arg : ConvArg) (forced : Option (List Char))
    (h : ∃ e ∈ requested arg forced, ¬ IsCF e ∧ ',' ∈ e) :
    conventions version arg forced = .valueError := by
  obtain ⟨e, he, hcf, hc⟩ := h
  unfold conventions assemble
  have : (removeCF (requested arg forced)).any (·.contains ',') = true := by
    apply List.any_eq_true.mpr
    refine ⟨e, ?_, by simpa using hc⟩
    rw [removeCF_eq]
    exact List.mem_filter.mpr ⟨he, by simpa using hcf⟩
  simp only [this, if_true]

example : conventions "1.11".toList (.str "A,B".toList) none = .valueError := by decide

/-- The loop before /repo commit 382699f (`pop(i)` while enumerating a copy): a second CF
version is kept and a requested extra is lost; with two CF versions only, `IndexError`. -/
theorem C08_old_conventions_counterexample :
    conventionsOld "1.11".toList (.seq ["CF-1.7".toList, "CF-1.8".toList, "ACDD-1.3".toList]) none
      = .ok "CF-1.11 CF-1.8".toList
    ∧ conventionsOld "1.11".toList (.seq ["CF-1.7".toList, "CF-1.8".toList]) none = .indexError := by decide

end Conventions

/-! ## Global attributes -/
section GlobalAttrs
open Cfdm.Globals

/-- Placement rule, for every list of fields and every setting of `global_attributes`,
`variable_attributes`, `file_descriptors` and every `nc_global_attributes()`: a property `p`
(other than `Conventions`, which `write` handles through its own parameter) is written as a
netCDF global attribute with value `v` **iff** it is eligible, every field has it with the value
`v`, and it is not overridden (named as a variable attribute, given as a file descriptor, or
forced to a value by every field). -/
theorem C08_global_iff (o : Opts) (fs : List FieldG) (p : String) (v : Val) (hp : p ≠ "Conventions") :
    (p, v) ∈ propertyGlobals o fs ↔ Eligible o fs p ∧ AllEqual fs p v ∧ ¬ Overridden o fs p := by
  rw [mem_propertyGlobals, mem_globalSet]
  constructor
  · rintro ⟨_, ⟨he, _, hov⟩, hall⟩; exact ⟨he, hall, hov⟩
  · rintro ⟨he, hall, hov⟩; exact ⟨hp, ⟨he, ⟨v, hall⟩, hov⟩, hall⟩

def exO : Opts := { descr := ["comment", "Conventions", "title"], userGlobal := ["project"], varAttrs := ["title"],
                    fileDesc := [("history", "h")] }
def exF1 : FieldG := { props := [("comment", "c"), ("project", "p"), ("title", "t"), ("foo", "1"), ("history", "x")],
                       ncg := [("foo", none), ("bar", some "B")] }
def exF2 : FieldG := { props := [("comment", "c"), ("project", "q"), ("title", "t"), ("foo", "1"), ("history", "x")],
                       ncg := [("bar", some "B")] }
example : propertyGlobals exO [exF1, exF2] = [("comment", "c"), ("foo", "1")] := by decide
example : writtenGlobals exO [exF1, exF2] = [("history", "h"), ("comment", "c"), ("foo", "1"), ("bar", "B")] := by decide
example : variableAttrs exO [exF1, exF2] exF2 = [("project", "q"), ("title", "t"), ("history", "x")] := by decide
example : Eligible exO [exF1, exF2] "foo" ∧ AllEqual [exF1, exF2] "foo" "1" ∧ ¬ Overridden exO [exF1, exF2] "foo" := by
  refine ⟨Or.inr (Or.inr ⟨exF1, by simp, by decide⟩), ⟨by simp, by decide⟩, ?_⟩
  rintro (h | h | ⟨v, _, h⟩)
  · revert h; decide
  · revert h; decide
  · have := h exF1 (by simp)
    have h2 : lookup "foo" exF1.ncg = some none := by decide
    rw [h2] at this; cases this

/-- The complete list of global attributes written besides `Conventions`: the file
descriptors, always and with the given values; the properties of `C08_global_iff`; the values
forced by every field unless a file descriptor has the name — and nothing else. -/
theorem C08_written_globals (o : Opts) (fs : List FieldG) (p : String) (v : Val) :
    (p, v) ∈ writtenGlobals o fs ↔
      (p, v) ∈ o.fileDesc
      ∨ (p ≠ "Conventions" ∧ Eligible o fs p ∧ AllEqual fs p v ∧ ¬ Overridden o fs p)
      ∨ (p ≠ "Conventions" ∧ Forced fs p v ∧ p ∉ keys o.fileDesc) := by
  unfold writtenGlobals
  simp only [List.mem_append, List.mem_filter, bne_iff_ne, ne_eq]
  constructor
  · rintro ((h | h) | ⟨h, hne⟩)
    · exact Or.inl h
    · have hne := (mem_propertyGlobals.mp h).1
      exact Or.inr (Or.inl ⟨hne, (C08_global_iff o fs p v hne).mp h⟩)
    · exact Or.inr (Or.inr ⟨hne, mem_forceKept.mp h⟩)
  · rintro (h | ⟨hne, h⟩ | ⟨hne, h⟩)
    · exact Or.inl (Or.inl h)
    · exact Or.inl (Or.inr ((C08_global_iff o fs p v hne).mpr h))
    · exact Or.inr ⟨mem_forceKept.mpr h, hne⟩

/-- No `setncattr` overwrites another: when the file descriptors have distinct names (a `dict`)
and do not contain `Conventions` (`write` refuses that), the names of all global attributes
written are pairwise distinct and none is `Conventions`. -/
theorem C08_written_globals_distinct (o : Opts) (fs : List FieldG)
    (hfd : (keys o.fileDesc).Nodup) (hconv : "Conventions" ∉ keys o.fileDesc) :
    (keys (writtenGlobals o fs)).Nodup ∧ "Conventions" ∉ keys (writtenGlobals o fs) := by
  have hforce_nd : (keys ((forceKept o fs).filter (·.1 != "Conventions"))).Nodup :=
    forceKept_filter_keys_nodup o fs _
  have hdisj1 : ∀ k ∈ keys o.fileDesc, k ∉ keys (propertyGlobals o fs) := by
    intro k hk hm
    obtain ⟨⟨k', v⟩, hkv, rfl⟩ := List.mem_map.mp hm
    have := (mem_globalSet.mp (mem_propertyGlobals.mp hkv).2.1).2.2
    exact this (Or.inr (Or.inl hk))
  have hdisj2 : ∀ k ∈ keys o.fileDesc, k ∉ keys ((forceKept o fs).filter (·.1 != "Conventions")) := by
    intro k hk hm
    obtain ⟨⟨k', v⟩, hkv, rfl⟩ := List.mem_map.mp hm
    exact (mem_forceKept.mp (List.mem_filter.mp hkv).1).2 hk
  have hdisj3 : ∀ k ∈ keys (propertyGlobals o fs), k ∉ keys ((forceKept o fs).filter (·.1 != "Conventions")) := by
    intro k hk hm
    obtain ⟨⟨k', v⟩, hkv, rfl⟩ := List.mem_map.mp hk
    obtain ⟨⟨k'', w⟩, hkw, hkk⟩ := List.mem_map.mp hm
    simp only at hkk
    subst hkk
    have := (mem_globalSet.mp (mem_propertyGlobals.mp hkv).2.1).2.2
    exact this (Or.inr (Or.inr ⟨w, (mem_forceKept.mp (List.mem_filter.mp hkw).1).1⟩))
  constructor
  · unfold writtenGlobals keys
    simp only [List.map_append]
    rw [List.nodup_append, List.nodup_append]
    refine ⟨⟨hfd, propertyGlobals_keys_nodup o fs, ?_⟩, hforce_nd, ?_⟩
    · intro a ha b hb hab; exact hdisj1 a ha (hab ▸ hb)
    · intro a ha b hb hab
      rcases List.mem_append.mp ha with ha | ha
      · exact hdisj2 a ha (hab ▸ hb)
      · exact hdisj3 a ha (hab ▸ hb)
  · unfold writtenGlobals keys
    simp only [List.map_append, List.mem_append, not_or]
    refine ⟨⟨hconv, ?_⟩, ?_⟩
    · intro hm
      obtain ⟨⟨k, v⟩, hkv, hk⟩ := List.mem_map.mp hm
      exact (mem_propertyGlobals.mp hkv).1 hk
    · intro hm
      obtain ⟨⟨k, v⟩, hkv, hk⟩ := List.mem_map.mp hm
      have := (List.mem_filter.mp hkv).2
      simp only at hk
      simp [hk] at this

example : (keys (writtenGlobals exO [exF1, exF2])).Nodup := by decide

/-- No information lost and none invented by the placement: for fields whose properties are
dictionaries, every property (other than `Conventions`) of every field is found with its own
value **either** on the field's data variable **or** as a global attribute, never both and
never neither; a data variable carries only properties of its own field; and a property
written globally has that very value on every field. -/
theorem C08_no_information_lost (o : Opts) (fs : List FieldG) (hwf : ∀ f ∈ fs, WFField f) :
    (∀ f ∈ fs, ∀ kv ∈ f.props, kv.1 ≠ "Conventions" →
        (kv ∈ variableAttrs o fs f ∧ kv.1 ∉ keys (propertyGlobals o fs))
        ∨ (kv ∈ propertyGlobals o fs ∧ kv.1 ∉ keys (variableAttrs o fs f)))
    ∧ (∀ f ∈ fs, ∀ kv ∈ variableAttrs o fs f, kv ∈ f.props)
    ∧ (∀ kv ∈ propertyGlobals o fs, ∀ f ∈ fs, lookup kv.1 f.props = some kv.2) := by
  refine ⟨?_, ?_, ?_⟩
  · intro f hf kv hkv hne
    by_cases hg : kv.1 ∈ globalSet o fs
    · right
      obtain ⟨he, ⟨v, hall⟩, hov⟩ := mem_globalSet.mp hg
      have hl := lookup_of_mem_nodup (hwf f hf).1 (k := kv.1) (v := kv.2) hkv
      have hv : v = kv.2 := by
        have := hall.2 f hf
        rw [hl] at this
        injection this with this
        exact this.symm
      subst hv
      refine ⟨mem_propertyGlobals.mpr ⟨hne, hg, hall⟩, ?_⟩
      intro hm
      obtain ⟨kv', hkv', hk⟩ := List.mem_map.mp hm
      have := (List.mem_filter.mp hkv').2
      rw [hk] at this
      simp [hg] at this
    · left
      refine ⟨List.mem_filter.mpr ⟨hkv, by simpa using hg⟩, ?_⟩
      intro hm
      obtain ⟨⟨k, w⟩, hkw, hk⟩ := List.mem_map.mp hm
      simp only at hk
      exact hg (hk ▸ (mem_propertyGlobals.mp hkw).2.1)
  · intro f _ kv hkv
    exact (List.mem_filter.mp hkv).1
  · intro kv hkv f hf
    exact (mem_propertyGlobals.mp hkv).2.2.2 f hf

example : ∀ f ∈ [exF1, exF2], WFField f := by
  intro f hf
  simp only [List.mem_cons, List.not_mem_nil, or_false] at hf
  rcases hf with rfl | rfl <;> exact ⟨by decide, by decide⟩

end GlobalAttrs

/-! ## Structure of the dataset -/
section Structure
open Cfdm.NcFile

/-- Every emission step of the writer (create a dimension; create a variable together with its
reference attributes; add one more reference attribute to an existing variable; register an
external variable) that passes its guard — the name is free, and every reference of the
variable concerned names a variable / dimension that exists *at that moment* with compatible
dimensions — leaves the dataset well formed: names unique, every dimension of every variable
present, **every** reference of **every** variable (old ones included) still resolving to a
variable of compatible dimensions.  So a dataset built by guarded steps from the empty dataset
is well formed after any number of fields and constructs. -/
theorem C08_wf_step (F F' : File) (s : Step) (hwf : wfCore F = true) (h : applyStep F s = some F') :
    wfCore F' = true :=
  applyStep_wfCore s hwf h

theorem C08_wf_steps (ss : List Step) (F : File) (h : applySteps {} ss = some F) : wfCore F = true :=
  applySteps_wfCore ss (by decide) h

/-- The emission of example field 0 (`lat`, `lon` with bounds, scalar `time`, data variable `q`)
in the writer's order: bounds before their coordinate, coordinates before the data variable. -/
def exSteps : List Step :=
  [.dim "lat" 5, .dim "bounds2" 2, .var { name := "lat_bnds", dims := ["lat", "bounds2"] },
   .var { name := "lat", dims := ["lat"], refs := [⟨.bounds, "lat_bnds"⟩] },
   .dim "lon" 8, .var { name := "lon_bnds", dims := ["lon", "bounds2"] },
   .var { name := "lon", dims := ["lon"], refs := [⟨.bounds, "lon_bnds"⟩] },
   .var { name := "time", dims := [] },
   .var { name := "q", dims := ["lat", "lon"], isData := true,
          refs := [⟨.coordinates, "time"⟩, ⟨.cellMethodAxis, "area"⟩, ⟨.cellMethodAxis, "time"⟩] }]

example : (applySteps {} exSteps).isSome = true := by decide
example : ((applySteps {} exSteps).map wfFile) = some true := by decide
/-- The guard is not vacuous: creating the coordinate before its bounds variable is refused. -/
example : applySteps {} [.dim "lat" 5, .dim "bounds2" 2,
    .var { name := "lat", dims := ["lat"], refs := [⟨.bounds, "lat_bnds"⟩] }] = none := by decide
/-- Nor is the compatibility part: bounds with the dimensions in the wrong order are refused. -/
example : applySteps {} [.dim "lat" 5, .dim "bounds2" 2, .var { name := "lat_bnds", dims := ["bounds2", "lat"] },
    .var { name := "lat", dims := ["lat"], refs := [⟨.bounds, "lat_bnds"⟩] }] = none := by decide

/-- A later `setncattr` that replaces nothing but only *adds* a reference (the way `formula_terms`
is set once the domain ancillaries exist) keeps every earlier reference valid. -/
example : ((applySteps {} [.dim "z" 1, .var { name := "z", dims := ["z"] }, .var { name := "a", dims := ["z"] },
    .addRef "z" ⟨.formulaTerms, "a"⟩, .var { name := "t", dims := ["z"], isData := true }]).map wfFile) = some true := by
  decide

/-
Full statement (NOT proved): for every list of abstract fields and every option setting, the
emission sequence of `_write_field_or_domain` in the order of DESIGN Appendix A.1 steps 2–8
(dimensions and dimension coordinates, compression variables, auxiliary and scalar coordinates,
domain ancillaries, cell measures, formula terms, grid mappings, field ancillaries, data variable),
with the names allocated by `_netcdf_name` and with the sharing of equal constructs
(`_already_in_file`), never has a step refused, so that `C08_wf_steps` gives a well-formed
dataset:

    theorem C08_wf (o : Opts) (fs : List AField) : ∃ F, writeFields o fs = some F ∧ wfFile F = true

What is proved instead: `C08_wf_step` / `C08_wf_steps` for *every* guarded step sequence, and —
below — that the coordinate part of the writer (steps 3 and 8: dimension, bounds dimension with
role/size reuse, bounds variable, coordinate variable, names through `_netcdf_name`) never has a
step refused, from any state satisfying the invariant and for any requested names and sizes.  The
emission order of the other construct types is tied to the guarded steps by the `C08.emit`
correspondence stream only (the real writer's netCDF calls are replayed through `applySteps` on
every run).  The sharing of a coordinate variable between fields is outside the step kinds
modelled here: there the real writer *replaces* `formula_terms` (finding
`formula-terms-overwritten-on-shared-vertical-coordinate`).
-/
open Cfdm.NcWrite in
/-- Steps 3 and 8 of the writer, for ALL states satisfying the invariant (every variable name of
the dataset was handed out by `_netcdf_name`, the registered dimensions are the dataset's, role
dimensions have sizes, the dataset is well formed) and ALL lists of dimension coordinates with
arbitrary requested names, sizes and optional bounds (netCDF names and trailing sizes arbitrary):
no emission step is refused — the dimension exists before its coordinate variable, the bounds
dimension is created or reused by role and size, the bounds variable is created before the
coordinate that names it and has the coordinate's dimensions plus one — every construct gets a
variable, and the invariant, hence well-formedness, holds afterwards. -/
theorem C08_wf_coordinates_partial (w : W) (hI : Inv w) (cs : List (String × Nat × Option ABounds)) :
    ∃ ns w', writeDimCoords w cs = some (ns, w') ∧ Inv w' ∧ ns.length = cs.length
      ∧ wfCore w'.file = true := by
  obtain ⟨ns, w', h, hI', hlen⟩ := writeDimCoords_spec cs hI
  exact ⟨ns, w', h, hI', hlen, hI'.core.wf⟩

open Cfdm.NcWrite in
example : Inv {} := inv_empty
open Cfdm.NcWrite in
/-- Clashing names, a reused and a new bounds dimension, a pinned bounds name with a blank. -/
example : (writeDimCoords {} [("lat", 5, some {}), ("lon", 8, some { ncvar := some "lon bnds" }),
      ("lat", 3, some { size := 4 }), ("t", 1, none)]).map (fun r => (r.1, r.2.file.dimNames, r.2.file.varNames))
    = some (["lat", "lon", "lat_1", "t"], ["lat", "bounds2", "lon", "lat_1", "bounds4", "t"],
            ["lat_bounds", "lat", "lon_bnds", "lon", "lat_1_bounds", "lat_1", "t"]) := by decide

end Structure

end Cfdm.Props.C08
