import Cfdm.Lemmas.NcNames
import Cfdm.Lemmas.Globals
import Cfdm.Lemmas.NcFile
import Cfdm.Lemmas.NcWrite
import Cfdm.Lemmas.NcField
import Cfdm.Model.NcStore
/-
C08 — a written dataset is a faithful CF-netCDF encoding at file level.
Property theorems only.

`NcNames.request true` is `_netcdf_name` as it is in /repo (blanks replaced before the
uniqueness test, commit 5c79a06); the method before that commit (`request false`) is refuted by
`C08_old_names_counterexample`.  The global-attribute placement compares forced values with
`equal_properties` (commit 78f8b2f); the Conventions assembly is the code as repaired in commit
382699f, the loop it replaced is refuted by `C08_old_conventions_counterexample`.  The whole-field
writer (`NcField`, `patched = true`) is the code after the two OPEN repairs
`fixes/C08-dimension-coordinate-name-from-dimension.patch` and
`fixes/C08-equal-dimension-coordinates-one-field.patch`; the code as it stands (`patched = false`)
is refuted by `C08_old_dimension_name_counterexample` and
`C08_old_equal_dimension_coordinates_counterexample`.
-/
namespace Cfdm.Props.C08
open Cfdm

/-! ## Names -/
section Names
open Cfdm.NcNames

/-- One call of `_netcdf_name`, for every state of the write, every base name, every
`dimsize` / `role`: the name returned is **not in use** (neither a variable name handed out
before nor a registered dimension) and is registered, **except** by the documented reuse —
`dimsize` given and a dimension created for the same role with exactly that size exists, in
which case that dimension is returned and nothing changes.  The only other outcomes are the
two exceptions of the code (`dimsize` without `role`; a role dimension the caller never gave a
size), which leave the state unchanged. -/
theorem C08_names_fresh (s : St) (base : String) (dimsize : Option Nat) (role : Option String) :
    (∃ n roles, request true s base dimsize role = (.fresh n, { s with vars := n :: s.vars, roles := roles })
        ∧ n ∉ s.existing)
    ∨ (∃ n size r, dimsize = some size ∧ role = some r ∧ request true s base dimsize role = (.reused n, s)
        ∧ n ∈ s.roleDims r ∧ s.dimSize n = some size)
    ∨ (request true s base dimsize role = (.valueError, s) ∧ dimsize.isSome ∧ (role = none ∨ role = some ""))
    ∨ request true s base dimsize role = (.keyError, s) :=
  request_cases s base dimsize role

example : request true { vars := ["lat", "lat_1"], dims := [("lat", 3)] } "lat" none none
    = (.fresh "lat_2", { vars := ["lat_2", "lat", "lat_1"], dims := [("lat", 3)] }) := by decide
example : (request true { vars := ["bounds2"], dims := [("bounds2", 2)], roles := [("bounds", ["bounds2"])] }
    "bounds2" (some 2) (some "bounds")).1 = .reused "bounds2" := by decide
example : (request true { vars := ["bounds2"], dims := [("bounds2", 2)], roles := [("bounds", ["bounds2"])] }
    "bounds2" (some 4) (some "bounds")).1 = .fresh "bounds2_1" := by decide

/-- The name is the one the documentation promises: the requested base (blanks as `_`) when
that is free, otherwise the base with the **first** free counter `_1, _2, …`. -/
theorem C08_names_shape (s : St) (base : String) (dimsize : Option Nat) (role : Option String) (n : String)
    (h : (request true s base dimsize role).1 = .fresh n) :
    (n = sanitize base ∧ sanitize base ∉ s.existing)
    ∨ ∃ k, 1 ≤ k ∧ n = suffixed (sanitize base) k ∧ sanitize base ∈ s.existing
        ∧ ∀ i, 1 ≤ i → i < k → suffixed (sanitize base) i ∈ s.existing := by
  have key : (allocate true s base dimsize role).1 = .fresh n →
      (n = sanitize base ∧ sanitize base ∉ s.existing)
      ∨ ∃ k, 1 ≤ k ∧ n = suffixed (sanitize base) k ∧ sanitize base ∈ s.existing
          ∧ ∀ i, 1 ≤ i → i < k → suffixed (sanitize base) i ∈ s.existing := by
    intro ha
    obtain ⟨m, hm, hor⟩ := allocate_name s base dimsize role
    rw [hm] at ha
    injection ha with ha
    subst ha
    obtain ⟨m', _, hm', hfresh⟩ := allocate_fresh s base dimsize role
    have hmm : m' = m := by
      have := congrArg Prod.fst hm'
      simp only at this
      rw [hm] at this
      injection this with this
      exact this.symm
    subst hmm
    rcases hor with h1 | h2
    · exact Or.inl ⟨h1, h1 ▸ hfresh⟩
    · exact Or.inr h2
  unfold request at h
  cases dimsize with
  | none => exact key h
  | some size =>
    cases role with
    | none => simp at h
    | some r =>
      simp only at h
      split at h
      · simp at h
      · split at h
        · simp at h
        · simp at h
        · exact key h

example : (request true { vars := ["x", "x_1", "x_3"] } "x" none none).1 = .fresh "x_2" := by decide

/-- Injectivity of the allocation over **any** sequence of requests and dimension
registrations, from any state: the names freshly allocated during the write are pairwise
distinct, none of them was in use at the start, all of them are registered at the end, and no
name in use is ever forgotten.  (So two constructs never receive the same variable name, and a
variable never takes the name of a dimension it does not own.) -/
theorem C08_names_injective (s : St) (evs : List Ev) :
    (freshNames (run true s evs).2).Nodup
    ∧ (∀ n ∈ freshNames (run true s evs).2, n ∉ s.existing)
    ∧ (∀ n ∈ freshNames (run true s evs).2, n ∈ (run true s evs).1.vars)
    ∧ (∀ x ∈ s.existing, x ∈ (run true s evs).1.existing) :=
  run_fresh evs s

example : freshNames (run true {} [.req "lat" none none, .regdim "lat" 4, .req "lat" none none,
      .req "bounds2" (some 2) (some "bounds"), .regdim "bounds2" 2, .req "lat bnds" none none,
      .req "bounds2" (some 2) (some "bounds"), .req "lat_bnds" none none]).2
    = ["lat", "lat_1", "bounds2", "lat_bnds", "lat_bnds_1"] := by decide

/-- The method before /repo commit 5c79a06 replaced blanks *after* the uniqueness test: a name
with a blank was returned although it was in use (`cfdm.write` then failed with "NetCDF: String
match to name in use"). -/
theorem C08_old_names_counterexample :
    request false { vars := ["a_b"] } "a b" none none = (.fresh "a_b", { vars := ["a_b", "a_b"] })
    ∧ "a_b" ∈ ({ vars := ["a_b"] } : St).existing
    ∧ (request true { vars := ["a_b"] } "a b" none none).1 = .fresh "a_b_1" := by decide

end Names

/-! ## Conventions -/
section Conventions
open Cfdm.Globals

/-- The `Conventions` attribute, for every requested list (user string, user sequence, or the
forced value of the fields) none of whose entries contains a comma: it is written; read back
the way CF prescribes (split on commas if there is one, else on blanks) it is **exactly**
`CF-<version>` first, then the requested entries that are not a CF version, in the requested
order — so no other `CF-x` entry survives and no requested extra is lost; and the delimiter is a
comma iff some entry contains a blank. -/
theorem C08_conventions (version : List Char) (arg : ConvArg) (forced : Option (List Char))
    (hv : ' ' ∉ version ∧ ',' ∉ version)
    (hreq : ∀ e ∈ requested arg forced, ',' ∉ e) :
    ∃ out, conventions version arg forced = .ok out
      ∧ parseConv out = ("CF-".toList ++ version) :: (requested arg forced).filter (fun e => decide (¬ IsCF e))
      ∧ (∀ e ∈ (parseConv out).tail, ¬ IsCF e)
      ∧ (',' ∈ out ↔ ∃ e ∈ (requested arg forced).filter (fun e => decide (¬ IsCF e)), ' ' ∈ e) := by
  have hkept : ∀ e ∈ removeCF (requested arg forced), ',' ∉ e := by
    intro e he
    exact hreq e (List.mem_filter.mp he).1
  have hcf : ',' ∉ ("CF-".toList ++ version) ∧ ' ' ∉ ("CF-".toList ++ version) := by
    constructor
    · intro h; rcases List.mem_append.mp h with h | h
      · revert h; decide
      · exact hv.2 h
    · intro h; rcases List.mem_append.mp h with h | h
      · revert h; decide
      · exact hv.1 h
  have hnocomma : (removeCF (requested arg forced)).any (·.contains ',') = false := by
    rw [List.any_eq_false]
    intro e he
    simpa using hkept e he
  unfold conventions assemble
  simp only [hnocomma, Bool.false_eq_true, if_false]
  rw [← removeCF_eq]
  generalize hk : removeCF (requested arg forced) = kept at hkept
  refine ⟨_, rfl, ?_⟩
  have hall_nocomma : ∀ l ∈ ("CF-".toList ++ version) :: kept, ',' ∉ l := by
    intro l hl
    rcases List.mem_cons.mp hl with rfl | hl
    · exact hcf.1
    · exact hkept l hl
  by_cases hb : ((("CF-".toList ++ version) :: kept).any (·.contains ' ')) = true
  · -- comma delimiter
    simp only [hb, if_true]
    obtain ⟨e, he, heb⟩ := List.any_eq_true.mp hb
    have he' : e ∈ kept := by
      rcases List.mem_cons.mp he with rfl | he
      · exact absurd (by simpa using heb) hcf.2
      · exact he
    have hlen : 2 ≤ (("CF-".toList ++ version) :: kept).length := by
      cases kept with
      | nil => cases he'
      | cons _ _ => simp
    have hin : ',' ∈ joinC ',' (("CF-".toList ++ version) :: kept) := sep_mem_joinC ',' _ hlen
    have hparse : parseConv (joinC ',' (("CF-".toList ++ version) :: kept)) = ("CF-".toList ++ version) :: kept := by
      unfold parseConv
      have : (joinC ',' (("CF-".toList ++ version) :: kept)).contains ',' = true := by simpa using hin
      simp only [this, if_true]
      exact splitC_joinC ',' _ (by simp) hall_nocomma
    refine ⟨hparse, ?_, ?_⟩
    · rw [hparse]
      intro x hx
      have : x ∈ removeCF (requested arg forced) := hk ▸ hx
      rw [removeCF_eq] at this
      simpa using (List.mem_filter.mp this).2
    · constructor
      · intro _; exact ⟨e, he', by simpa using heb⟩
      · intro _; exact hin
  · -- blank delimiter
    simp only [hb, Bool.false_eq_true, if_false]
    have hnb : ∀ l ∈ ("CF-".toList ++ version) :: kept, ' ' ∉ l := by
      intro l hl hmem
      apply hb
      exact List.any_eq_true.mpr ⟨l, hl, by simpa using hmem⟩
    have hnotin : ',' ∉ joinC ' ' (("CF-".toList ++ version) :: kept) := by
      intro h
      rcases mem_joinC h with ⟨h1, _⟩ | ⟨l, hl, hc⟩
      · revert h1; decide
      · exact hall_nocomma l hl hc
    have hparse : parseConv (joinC ' ' (("CF-".toList ++ version) :: kept)) = ("CF-".toList ++ version) :: kept := by
      unfold parseConv
      have : (joinC ' ' (("CF-".toList ++ version) :: kept)).contains ',' = false := by simpa using hnotin
      simp only [this, Bool.false_eq_true, if_false]
      exact splitC_joinC ' ' _ (by simp) hnb
    refine ⟨hparse, ?_, ?_⟩
    · rw [hparse]
      intro x hx
      have : x ∈ removeCF (requested arg forced) := hk ▸ hx
      rw [removeCF_eq] at this
      simpa using (List.mem_filter.mp this).2
    · constructor
      · intro h; exact absurd h hnotin
      · rintro ⟨e, he, heb⟩
        exact absurd heb (hnb e (List.mem_cons_of_mem _ he))

example : conventions "1.11".toList (.seq ["CF-1.7".toList, "CF-1.8".toList, "ACDD-1.3".toList]) none
    = .ok "CF-1.11 ACDD-1.3".toList := by decide
example : conventions "1.11".toList (.seq ["A B".toList, "CF-1.6".toList, "C".toList]) none
    = .ok "CF-1.11,A B,C".toList := by decide
example : conventions "1.11".toList .none (some "CF-1.8 UGRID-1.0".toList) = .ok "CF-1.11 UGRID-1.0".toList := by decide

/-- An entry with a comma cannot be represented and is refused (`ValueError`), never written
mangled. -/
theorem C08_conventions_comma_rejected (version : List Char) (arg : ConvArg) (forced : Option (List Char))
    (h : ∃ e ∈ requested arg forced, ¬ IsCF e ∧ ',' ∈ e) :
    conventions version arg forced = .valueError := by
  obtain ⟨e, he, hcf, hc⟩ := h
  unfold conventions assemble
  have : (removeCF (requested arg forced)).any (·.contains ',') = true := by
    apply List.any_eq_true.mpr
    refine ⟨e, ?_, by simpa using hc⟩
    rw [removeCF_eq]
    exact List.mem_filter.mpr ⟨he, by simpa using hcf⟩
  simp only [this, if_true]

example : conventions "1.11".toList (.str "A,B".toList) none = .valueError := by decide

/-- The loop before /repo commit 382699f (`pop(i)` while enumerating a copy): a second CF
version is kept and a requested extra is lost; with two CF versions only, `IndexError`. -/
theorem C08_old_conventions_counterexample :
    conventionsOld "1.11".toList (.seq ["CF-1.7".toList, "CF-1.8".toList, "ACDD-1.3".toList]) none
      = .ok "CF-1.11 CF-1.8".toList
    ∧ conventionsOld "1.11".toList (.seq ["CF-1.7".toList, "CF-1.8".toList]) none = .indexError := by decide

end Conventions

/-! ## Global attributes -/
section GlobalAttrs
open Cfdm.Globals

/-- Placement rule, for every list of fields and every setting of `global_attributes`,
`variable_attributes`, `file_descriptors` and every `nc_global_attributes()`: a property `p`
(other than `Conventions`, which `write` handles through its own parameter) is written as a
netCDF global attribute with value `v` **iff** it is eligible, every field has it with the value
`v`, and it is not overridden (named as a variable attribute, given as a file descriptor, or
forced to a value by every field). -/
theorem C08_global_iff (o : Opts) (fs : List FieldG) (p : String) (v : Val) (hp : p ≠ "Conventions") :
    (p, v) ∈ propertyGlobals o fs ↔ Eligible o fs p ∧ AllEqual fs p v ∧ ¬ Overridden o fs p := by
  rw [mem_propertyGlobals, mem_globalSet]
  constructor
  · rintro ⟨_, ⟨he, _, hov⟩, hall⟩; exact ⟨he, hall, hov⟩
  · rintro ⟨he, hall, hov⟩; exact ⟨hp, ⟨he, ⟨v, hall⟩, hov⟩, hall⟩

def exO : Opts := { descr := ["comment", "Conventions", "title"], userGlobal := ["project"], varAttrs := ["title"],
                    fileDesc := [("history", "h")] }
def exF1 : FieldG := { props := [("comment", "c"), ("project", "p"), ("title", "t"), ("foo", "1"), ("history", "x")],
                       ncg := [("foo", none), ("bar", some "B")] }
def exF2 : FieldG := { props := [("comment", "c"), ("project", "q"), ("title", "t"), ("foo", "1"), ("history", "x")],
                       ncg := [("bar", some "B")] }
example : propertyGlobals exO [exF1, exF2] = [("comment", "c"), ("foo", "1")] := by decide
example : writtenGlobals exO [exF1, exF2] = [("history", "h"), ("comment", "c"), ("foo", "1"), ("bar", "B")] := by decide
example : variableAttrs exO [exF1, exF2] exF2 = [("project", "q"), ("title", "t"), ("history", "x")] := by decide
example : Eligible exO [exF1, exF2] "foo" ∧ AllEqual [exF1, exF2] "foo" "1" ∧ ¬ Overridden exO [exF1, exF2] "foo" := by
  refine ⟨Or.inr (Or.inr ⟨exF1, by simp, by decide⟩), ⟨by simp, by decide⟩, ?_⟩
  rintro (h | h | ⟨v, _, h⟩)
  · revert h; decide
  · revert h; decide
  · have := h exF1 (by simp)
    have h2 : lookup "foo" exF1.ncg = some none := by decide
    rw [h2] at this; cases this

/-- The complete list of global attributes written besides `Conventions`: the file
descriptors, always and with the given values; the properties of `C08_global_iff`; the values
forced by every field unless a file descriptor has the name — and nothing else. -/
theorem C08_written_globals (o : Opts) (fs : List FieldG) (p : String) (v : Val) :
    (p, v) ∈ writtenGlobals o fs ↔
      (p, v) ∈ o.fileDesc
      ∨ (p ≠ "Conventions" ∧ Eligible o fs p ∧ AllEqual fs p v ∧ ¬ Overridden o fs p)
      ∨ (p ≠ "Conventions" ∧ Forced fs p v ∧ p ∉ keys o.fileDesc) := by
  unfold writtenGlobals
  simp only [List.mem_append, List.mem_filter, bne_iff_ne, ne_eq]
  constructor
  · rintro ((h | h) | ⟨h, hne⟩)
    · exact Or.inl h
    · have hne := (mem_propertyGlobals.mp h).1
      exact Or.inr (Or.inl ⟨hne, (C08_global_iff o fs p v hne).mp h⟩)
    · exact Or.inr (Or.inr ⟨hne, mem_forceKept.mp h⟩)
  · rintro (h | ⟨hne, h⟩ | ⟨hne, h⟩)
    · exact Or.inl (Or.inl h)
    · exact Or.inl (Or.inr ((C08_global_iff o fs p v hne).mpr h))
    · exact Or.inr ⟨mem_forceKept.mpr h, hne⟩

/-- No `setncattr` overwrites another: when the file descriptors have distinct names (a `dict`)
and do not contain `Conventions` (`write` refuses that), the names of all global attributes
written are pairwise distinct and none is `Conventions`. -/
theorem C08_written_globals_distinct (o : Opts) (fs : List FieldG)
    (hfd : (keys o.fileDesc).Nodup) (hconv : "Conventions" ∉ keys o.fileDesc) :
    (keys (writtenGlobals o fs)).Nodup ∧ "Conventions" ∉ keys (writtenGlobals o fs) := by
  have hforce_nd : (keys ((forceKept o fs).filter (·.1 != "Conventions"))).Nodup :=
    forceKept_filter_keys_nodup o fs _
  have hdisj1 : ∀ k ∈ keys o.fileDesc, k ∉ keys (propertyGlobals o fs) := by
    intro k hk hm
    obtain ⟨⟨k', v⟩, hkv, rfl⟩ := List.mem_map.mp hm
    have := (mem_globalSet.mp (mem_propertyGlobals.mp hkv).2.1).2.2
    exact this (Or.inr (Or.inl hk))
  have hdisj2 : ∀ k ∈ keys o.fileDesc, k ∉ keys ((forceKept o fs).filter (·.1 != "Conventions")) := by
    intro k hk hm
    obtain ⟨⟨k', v⟩, hkv, rfl⟩ := List.mem_map.mp hm
    exact (mem_forceKept.mp (List.mem_filter.mp hkv).1).2 hk
  have hdisj3 : ∀ k ∈ keys (propertyGlobals o fs), k ∉ keys ((forceKept o fs).filter (·.1 != "Conventions")) := by
    intro k hk hm
    obtain ⟨⟨k', v⟩, hkv, rfl⟩ := List.mem_map.mp hk
    obtain ⟨⟨k'', w⟩, hkw, hkk⟩ := List.mem_map.mp hm
    simp only at hkk
    subst hkk
    have := (mem_globalSet.mp (mem_propertyGlobals.mp hkv).2.1).2.2
    exact this (Or.inr (Or.inr ⟨w, (mem_forceKept.mp (List.mem_filter.mp hkw).1).1⟩))
  constructor
  · unfold writtenGlobals keys
    simp only [List.map_append]
    rw [List.nodup_append, List.nodup_append]
    refine ⟨⟨hfd, propertyGlobals_keys_nodup o fs, ?_⟩, hforce_nd, ?_⟩
    · intro a ha b hb hab; exact hdisj1 a ha (hab ▸ hb)
    · intro a ha b hb hab
      rcases List.mem_append.mp ha with ha | ha
      · exact hdisj2 a ha (hab ▸ hb)
      · exact hdisj3 a ha (hab ▸ hb)
  · unfold writtenGlobals keys
    simp only [List.map_append, List.mem_append, not_or]
    refine ⟨⟨hconv, ?_⟩, ?_⟩
    · intro hm
      obtain ⟨⟨k, v⟩, hkv, hk⟩ := List.mem_map.mp hm
      exact (mem_propertyGlobals.mp hkv).1 hk
    · intro hm
      obtain ⟨⟨k, v⟩, hkv, hk⟩ := List.mem_map.mp hm
      have := (List.mem_filter.mp hkv).2
      simp only at hk
      simp [hk] at this

example : (keys (writtenGlobals exO [exF1, exF2])).Nodup := by decide

/-- No information lost and none invented by the placement: for fields whose properties are
dictionaries, every property (other than `Conventions`) of every field is found with its own
value **either** on the field's data variable **or** as a global attribute, never both and
never neither; a data variable carries only properties of its own field; and a property
written globally has that very value on every field. -/
theorem C08_no_information_lost (o : Opts) (fs : List FieldG) (hwf : ∀ f ∈ fs, WFField f) :
    (∀ f ∈ fs, ∀ kv ∈ f.props, kv.1 ≠ "Conventions" →
        (kv ∈ variableAttrs o fs f ∧ kv.1 ∉ keys (propertyGlobals o fs))
        ∨ (kv ∈ propertyGlobals o fs ∧ kv.1 ∉ keys (variableAttrs o fs f)))
    ∧ (∀ f ∈ fs, ∀ kv ∈ variableAttrs o fs f, kv ∈ f.props)
    ∧ (∀ kv ∈ propertyGlobals o fs, ∀ f ∈ fs, lookup kv.1 f.props = some kv.2) := by
  refine ⟨?_, ?_, ?_⟩
  · intro f hf kv hkv hne
    by_cases hg : kv.1 ∈ globalSet o fs
    · right
      obtain ⟨he, ⟨v, hall⟩, hov⟩ := mem_globalSet.mp hg
      have hl := lookup_of_mem_nodup (hwf f hf).1 (k := kv.1) (v := kv.2) hkv
      have hv : v = kv.2 := by
        have := hall.2 f hf
        rw [hl] at this
        injection this with this
        exact this.symm
      subst hv
      refine ⟨mem_propertyGlobals.mpr ⟨hne, hg, hall⟩, ?_⟩
      intro hm
      obtain ⟨kv', hkv', hk⟩ := List.mem_map.mp hm
      have := (List.mem_filter.mp hkv').2
      rw [hk] at this
      simp [hg] at this
    · left
      refine ⟨List.mem_filter.mpr ⟨hkv, by simpa using hg⟩, ?_⟩
      intro hm
      obtain ⟨⟨k, w⟩, hkw, hk⟩ := List.mem_map.mp hm
      simp only at hk
      exact hg (hk ▸ (mem_propertyGlobals.mp hkw).2.1)
  · intro f _ kv hkv
    exact (List.mem_filter.mp hkv).1
  · intro kv hkv f hf
    exact (mem_propertyGlobals.mp hkv).2.2.2 f hf

example : ∀ f ∈ [exF1, exF2], WFField f := by
  intro f hf
  simp only [List.mem_cons, List.not_mem_nil, or_false] at hf
  rcases hf with rfl | rfl <;> exact ⟨by decide, by decide⟩

/-- A field **lacking** the property — or holding another value — blocks the promotion, for every
list of fields and every option setting: the property is not written as a global attribute from
the fields' properties, and every field that has it keeps it, with its own value, on its data
variable. -/
theorem C08_global_blocked (o : Opts) (fs : List FieldG) (p : String)
    (h : ∃ f ∈ fs, ∃ g ∈ fs, lookup p f.props ≠ lookup p g.props ∨ lookup p f.props = none) :
    p ∉ keys (propertyGlobals o fs)
    ∧ ∀ f ∈ fs, ∀ v, (p, v) ∈ f.props → (p, v) ∈ variableAttrs o fs f := by
  obtain ⟨f, hf, g, hg, hne⟩ := h
  have hno : ¬ ∃ v, AllEqual fs p v := by
    rintro ⟨v, hall⟩
    have h1 := hall.2 f hf
    have h2 := hall.2 g hg
    rcases hne with hne | hne
    · exact hne (h1.trans h2.symm)
    · rw [hne] at h1; cases h1
  have hg' : p ∉ globalSet o fs := fun hm => hno (mem_globalSet.mp hm).2.1
  refine ⟨?_, ?_⟩
  · intro hm
    obtain ⟨⟨k, v⟩, hkv, rfl⟩ := List.mem_map.mp hm
    exact hg' (mem_propertyGlobals.mp hkv).2.1
  · intro f' _ v hv
    exact List.mem_filter.mpr ⟨hv, by simpa using hg'⟩

example : (∃ f ∈ [exF1, exF2], ∃ g ∈ [exF1, exF2], lookup "project" f.props ≠ lookup "project" g.props ∨ lookup "project" f.props = none) :=
  ⟨exF1, by simp, exF2, by simp, Or.inl (by decide)⟩
example : propertyGlobals { exO with userGlobal := ["project", "only1"] }
    [{ exF1 with props := ("only1", "v") :: exF1.props }, exF2] = [("comment", "c"), ("foo", "1")] := by decide

/-- Order independence: the decision does not depend on the order in which the fields are given
(in particular not on which field comes first, although the code reads the value from field 0):
for any permutation of the list the same global attributes are written with the same values, every
data variable gets the same attributes, and the same `Conventions` value is forced. -/
theorem C08_global_order_independent (o : Opts) (fs fs' : List FieldG) (hperm : fs.Perm fs') :
    (∀ kv, kv ∈ writtenGlobals o fs ↔ kv ∈ writtenGlobals o fs')
    ∧ (∀ f, variableAttrs o fs f = variableAttrs o fs' f)
    ∧ forcedConventions o fs = forcedConventions o fs' := by
  have hmem : ∀ f, f ∈ fs ↔ f ∈ fs' := fun f => hperm.mem_iff
  have hne : fs ≠ [] ↔ fs' ≠ [] := by
    constructor
    · intro h; obtain ⟨f, hf⟩ := List.exists_mem_of_ne_nil _ h; exact List.ne_nil_of_mem ((hmem f).mp hf)
    · intro h; obtain ⟨f, hf⟩ := List.exists_mem_of_ne_nil _ h; exact List.ne_nil_of_mem ((hmem f).mpr hf)
  have hE : ∀ p, Eligible o fs p ↔ Eligible o fs' p := by
    intro p; unfold Eligible
    constructor
    · rintro (h | h | ⟨f, hf, h⟩)
      · exact Or.inl h
      · exact Or.inr (Or.inl h)
      · exact Or.inr (Or.inr ⟨f, (hmem f).mp hf, h⟩)
    · rintro (h | h | ⟨f, hf, h⟩)
      · exact Or.inl h
      · exact Or.inr (Or.inl h)
      · exact Or.inr (Or.inr ⟨f, (hmem f).mpr hf, h⟩)
  have hA : ∀ p v, AllEqual fs p v ↔ AllEqual fs' p v := by
    intro p v; unfold AllEqual
    exact ⟨fun h => ⟨hne.mp h.1, fun f hf => h.2 f ((hmem f).mpr hf)⟩, fun h => ⟨hne.mpr h.1, fun f hf => h.2 f ((hmem f).mp hf)⟩⟩
  have hF : ∀ p v, Forced fs p v ↔ Forced fs' p v := by
    intro p v; unfold Forced
    exact ⟨fun h => ⟨hne.mp h.1, fun f hf => h.2 f ((hmem f).mpr hf)⟩, fun h => ⟨hne.mpr h.1, fun f hf => h.2 f ((hmem f).mp hf)⟩⟩
  have hO : ∀ p, Overridden o fs p ↔ Overridden o fs' p := by
    intro p; unfold Overridden
    constructor
    · rintro (h | h | ⟨v, h⟩)
      · exact Or.inl h
      · exact Or.inr (Or.inl h)
      · exact Or.inr (Or.inr ⟨v, (hF p v).mp h⟩)
    · rintro (h | h | ⟨v, h⟩)
      · exact Or.inl h
      · exact Or.inr (Or.inl h)
      · exact Or.inr (Or.inr ⟨v, (hF p v).mpr h⟩)
  have hG : ∀ p, p ∈ globalSet o fs ↔ p ∈ globalSet o fs' := by
    intro p
    rw [mem_globalSet, mem_globalSet, hE p, hO p]
    constructor
    · rintro ⟨h1, ⟨v, h2⟩, h3⟩; exact ⟨h1, ⟨v, (hA p v).mp h2⟩, h3⟩
    · rintro ⟨h1, ⟨v, h2⟩, h3⟩; exact ⟨h1, ⟨v, (hA p v).mpr h2⟩, h3⟩
  refine ⟨?_, ?_, ?_⟩
  · rintro ⟨p, v⟩
    rw [C08_written_globals, C08_written_globals, hE p, hA p v, hO p, hF p v]
  · intro f
    unfold variableAttrs
    apply List.filter_congr
    intro kv _
    have : (globalSet o fs).contains kv.1 = (globalSet o fs').contains kv.1 := by
      rw [Bool.eq_iff_iff]
      simp only [List.contains_eq_mem, decide_eq_true_eq]
      exact hG kv.1
    rw [this]
  · unfold forcedConventions
    have hk : ∀ p v, (p, v) ∈ forceKept o fs ↔ (p, v) ∈ forceKept o fs' := by
      intro p v; rw [mem_forceKept, mem_forceKept, hF p v]
    have hnd : ∀ gs, (keys (forceKept o gs)).Nodup := by
      intro gs
      have := forceKept_filter_keys_nodup o gs (fun _ => true)
      have he : (forceKept o gs).filter (fun _ => true) = forceKept o gs := List.filter_eq_self.mpr (fun _ _ => rfl)
      rwa [he] at this
    cases h1 : lookup "Conventions" (forceKept o fs) with
    | some v =>
      exact (lookup_of_mem_nodup (hnd fs') ((hk _ v).mp (lookup_some_mem h1))).symm
    | none =>
      cases h2 : lookup "Conventions" (forceKept o fs') with
      | none => rfl
      | some v =>
        have := lookup_of_mem_nodup (hnd fs) ((hk _ v).mpr (lookup_some_mem h2))
        rw [h1] at this; cases this

example : [exF1, exF2].Perm [exF2, exF1] := List.Perm.swap _ _ _
example : writtenGlobals exO [exF2, exF1] = [("history", "h"), ("comment", "c"), ("foo", "1"), ("bar", "B")] := by decide

end GlobalAttrs

/-! ## Structure of the dataset -/
section Structure
open Cfdm.NcFile

/-- Every emission step of the writer (create a dimension; create a variable together with its
reference attributes; add one more reference attribute to an existing variable; register an
external variable) that passes its guard — the name is free, and every reference of the
variable concerned names a variable / dimension that exists *at that moment* with compatible
dimensions — leaves the dataset well formed: names unique, every dimension of every variable
present, **every** reference of **every** variable (old ones included) still resolving to a
variable of compatible dimensions.  So a dataset built by guarded steps from the empty dataset
is well formed after any number of fields and constructs. -/
theorem C08_wf_step (F F' : File) (s : Step) (hwf : wfCore F = true) (h : applyStep F s = some F') :
    wfCore F' = true :=
  applyStep_wfCore s hwf h

theorem C08_wf_steps (ss : List Step) (F : File) (h : applySteps {} ss = some F) : wfCore F = true :=
  applySteps_wfCore ss (by decide) h

/-- The emission of example field 0 (`lat`, `lon` with bounds, scalar `time`, data variable `q`)
in the writer's order: bounds before their coordinate, coordinates before the data variable. -/
def exSteps : List Step :=
  [.dim "lat" 5, .dim "bounds2" 2, .var { name := "lat_bnds", dims := ["lat", "bounds2"] },
   .var { name := "lat", dims := ["lat"], refs := [⟨.bounds, "lat_bnds"⟩] },
   .dim "lon" 8, .var { name := "lon_bnds", dims := ["lon", "bounds2"] },
   .var { name := "lon", dims := ["lon"], refs := [⟨.bounds, "lon_bnds"⟩] },
   .var { name := "time", dims := [] },
   .var { name := "q", dims := ["lat", "lon"], isData := true,
          refs := [⟨.coordinates, "time"⟩, ⟨.cellMethodAxis, "area"⟩, ⟨.cellMethodAxis, "time"⟩] }]

example : (applySteps {} exSteps).isSome = true := by decide
example : ((applySteps {} exSteps).map wfFile) = some true := by decide
/-- The guard is not vacuous: creating the coordinate before its bounds variable is refused. -/
example : applySteps {} [.dim "lat" 5, .dim "bounds2" 2,
    .var { name := "lat", dims := ["lat"], refs := [⟨.bounds, "lat_bnds"⟩] }] = none := by decide
/-- Nor is the compatibility part: bounds with the dimensions in the wrong order are refused. -/
example : applySteps {} [.dim "lat" 5, .dim "bounds2" 2, .var { name := "lat_bnds", dims := ["bounds2", "lat"] },
    .var { name := "lat", dims := ["lat"], refs := [⟨.bounds, "lat_bnds"⟩] }] = none := by decide

/-- A later `setncattr` that replaces nothing but only *adds* a reference (the way `formula_terms`
is set once the domain ancillaries exist) keeps every earlier reference valid. -/
example : ((applySteps {} [.dim "z" 1, .var { name := "z", dims := ["z"] }, .var { name := "a", dims := ["z"] },
    .addRef "z" ⟨.formulaTerms, "a"⟩, .var { name := "t", dims := ["z"], isData := true }]).map wfFile) = some true := by
  decide

/-
Full statement (NOT proved): for every list of abstract fields and every option setting, the
emission sequence of `_write_field_or_domain` in the order of DESIGN Appendix A.1 steps 2–8
(dimensions and dimension coordinates, compression variables, auxiliary and scalar coordinates,
domain ancillaries, cell measures, formula terms, grid mappings, field ancillaries, data variable),
with the names allocated by `_netcdf_name` and with the sharing of equal constructs
(`_already_in_file`), never has a step refused, so that `C08_wf_steps` gives a well-formed
dataset:

    theorem C08_wf (o : Opts) (fs : List AField) : ∃ F, writeFields o fs = some F ∧ wfFile F = true

What is proved instead: `C08_wf_step` / `C08_wf_steps` for *every* guarded step sequence, and —
below — that the coordinate part of the writer (steps 3 and 8: dimension, bounds dimension with
role/size reuse, bounds variable, coordinate variable, names through `_netcdf_name`) never has a
step refused, from any state satisfying the invariant and for any requested names and sizes.  The
emission order of the construct types that `NcField` does not model (bounds, domain ancillaries
and formula terms, grid mappings, geometries, compression variables) is tied to the guarded steps
by the `C08.emit` correspondence stream only (the real writer's netCDF calls are replayed through
`applySteps` on every run); for uncompressed fields made of axes, dimension / auxiliary
coordinates, cell measures, field ancillaries and cell methods the statement IS proved, with the
sharing of equal constructs: `C08_fields_written` / `C08_fields_closure` below.  The sharing of a coordinate variable between fields is outside the step kinds
modelled here: there the real writer *replaces* `formula_terms` (finding
`formula-terms-overwritten-on-shared-vertical-coordinate`).
-/
open Cfdm.NcWrite in
/-- Steps 3 and 8 of the writer, for ALL states satisfying the invariant (every variable name of
the dataset was handed out by `_netcdf_name`, the registered dimensions are the dataset's, role
dimensions have sizes, the dataset is well formed) and ALL lists of dimension coordinates with
arbitrary requested names, sizes and optional bounds (netCDF names and trailing sizes arbitrary):
no emission step is refused — the dimension exists before its coordinate variable, the bounds
dimension is created or reused by role and size, the bounds variable is created before the
coordinate that names it and has the coordinate's dimensions plus one — every construct gets a
variable, and the invariant, hence well-formedness, holds afterwards. -/
theorem C08_wf_coordinates_partial (w : W) (hI : Inv w) (cs : List (String × Nat × Option ABounds)) :
    ∃ ns w', writeDimCoords w cs = some (ns, w') ∧ Inv w' ∧ ns.length = cs.length
      ∧ wfCore w'.file = true := by
  obtain ⟨ns, w', h, hI', hlen⟩ := writeDimCoords_spec cs hI
  exact ⟨ns, w', h, hI', hlen, hI'.core.wf⟩

open Cfdm.NcWrite in
example : Inv {} := inv_empty
open Cfdm.NcWrite in
/-- Clashing names, a reused and a new bounds dimension, a pinned bounds name with a blank. -/
example : (writeDimCoords {} [("lat", 5, some {}), ("lon", 8, some { ncvar := some "lon bnds" }),
      ("lat", 3, some { size := 4 }), ("t", 1, none)]).map (fun r => (r.1, r.2.file.dimNames, r.2.file.varNames))
    = some (["lat", "lon", "lat_1", "t"], ["lat", "bounds2", "lon", "lat_1", "bounds4", "t"],
            ["lat_bounds", "lat", "lon_bnds", "lon", "lat_1_bounds", "lat_1", "t"]) := by decide

end Structure

/-! ## Whole fields: the per-field naming maps and the references of the data variable -/
section Fields
open Cfdm.NcField Cfdm.NcFile

/-- `cfdm.write` of ANY list of (uncompressed) fields — any number of fields, axes, coordinates,
cell measures, field ancillaries and cell methods, any netCDF names (clashing or not), any
sharing of equal constructs between fields or inside a field — with the two repairs
`fixes/C08-dimension-coordinate-name-from-dimension.patch` and
`fixes/C08-equal-dimension-coordinates-one-field.patch`: no netCDF call is ever refused (every
name handed to `createDimension` / `createVariable` is free, every `axis_to_ncdim[...]` lookup
succeeds, every reference of every variable names what exists at that moment with compatible
dimensions), one data variable per field is written, and the finished dataset is well formed.
`FieldOK`: keys distinct, constructs and data on axes of the field, every cell-method axis is `area`
or an axis that something in the field spans. -/
theorem C08_fields_written (o : Opts) (fs : List AField) (h : ∀ f ∈ fs, FieldOK f = true) :
    ∃ is ws, writeFields true o {} fs = some (is, ws) ∧ wfCore ws.w.file = true ∧ is.length = fs.length := by
  obtain ⟨is, ws, hw, hG, _, hA⟩ := writeFields_spec o fs ginv_empty (fun f hf => fieldOK_iff.mp (h f hf))
  exact ⟨is, ws, hw, hG.inv.core.wf, hA.length⟩

/-- Referential closure of what each data variable says, in the finished dataset and for every
field of the list (`FieldPost`, clause by clause): the data variable stands on the netCDF
dimensions of its (final) data axes, in order, **no dimension twice** (CF 2.4); every name in
its `coordinates` is a variable whose dimensions are among its own; **every axis written in
`cell_methods`** is `area`, one of its dimensions, or a scalar coordinate variable that it lists in
`coordinates` — never a construct key, never the name of something absent; and the three
per-field maps are complete whichever path a construct took: every final data axis is in
`axis_to_ncdim`, every dimension coordinate and every other construct is in `key_to_ncvar`
with a variable that exists (created for this field or shared with an earlier one). -/
theorem C08_fields_closure (o : Opts) (fs : List AField) (h : ∀ f ∈ fs, FieldOK f = true)
    (is : List Info) (ws : WS) (hw : writeFields true o {} fs = some (is, ws)) :
    AllPost o ws.w.file fs is := by
  obtain ⟨is', ws', hw', _, _, hA⟩ := writeFields_spec o fs ginv_empty (fun f hf => fieldOK_iff.mp (h f hf))
  rw [hw] at hw'
  cases hw'
  exact hA

/-- Two fields over the same domain: latitude x longitude, a scalar time coordinate, a 2-d auxiliary
coordinate, a cell measure; the second field takes the already-in-the-file path for every
construct and has cell methods over the shared scalar coordinate and a shared dimension. -/
def exA : AField :=
  { name := some "ta",
    axes := [⟨"domainaxis0", 5, none, false, some ⟨"dimensioncoordinate0", 0, some "lat"⟩⟩,
             ⟨"domainaxis1", 8, some "x", true, some ⟨"dimensioncoordinate1", 1, none⟩⟩,
             ⟨"domainaxis2", 1, none, false, some ⟨"dimensioncoordinate2", 2, some "time"⟩⟩],
    dataAxes := ["domainaxis0", "domainaxis1"],
    cons := [⟨"auxiliarycoordinate0", .aux, 3, some "lon2d", "", ["domainaxis1", "domainaxis0"]⟩,
             ⟨"cellmeasure0", .measure, 4, none, "area", ["domainaxis0", "domainaxis1"]⟩],
    cellMethods := [["area"]] }
def exB : AField := { exA with name := some "ua", cellMethods := [["domainaxis2"], ["domainaxis0", "domainaxis1"]] }

example : FieldOK exA = true ∧ FieldOK exB = true := by decide
example : (writeFields true {} {} [exA, exB]).map (fun r => r.1.map (fun i => (i.ncvar, i.dims)))
    = some [("ta", ["lat", "x"]), ("ua", ["lat", "x"])] := by decide
example : (writeFields true {} {} [exA, exB]).map (fun r => r.1.map (fun i => (i.coords, i.cmTokens)))
    = some [(["time", "lon2d"], [["area"]]), (["time", "lon2d"], [["time"], ["lat", "x"]])] := by decide
example : (writeFields true {} {} [exA, exB]).map (fun r => (r.2.w.file.dimNames, r.2.w.file.varNames, r.2.unlimited))
    = some (["lat", "x"], ["lat", "x", "time", "lon2d", "cell_measure", "ta", "ua"], ["x"]) := by decide

/-- The hypothesis on cell methods cannot be dropped: an axis that neither the data nor any
construct spans has no netCDF counterpart, the writer leaves the construct key in `cell_methods`
(`axis_map.get(axis, axis)`), and the reference resolves to nothing. -/
theorem C08_cell_method_axis_needs_cover :
    let f : AField := { axes := [⟨"domainaxis0", 3, none, false, none⟩, ⟨"domainaxis1", 1, none, false, none⟩],
                        dataAxes := ["domainaxis0"], cons := [], cellMethods := [["domainaxis1"]] }
    FieldOK f = false ∧ FieldOK { f with cellMethods := [] } = true ∧ writeFields true {} {} [f] = none
      ∧ cmToken {} "domainaxis1" = "domainaxis1" := by decide

/-- The code as it stands, first repair: a dimension coordinate with neither a netCDF variable name
nor a standard name takes the netCDF dimension name of its axis unchecked. Two fields whose axes
are both called `x` but whose (unnamed) coordinates differ: the second `createDimension('x')` is
refused ("NetCDF: String match to name in use"); with the repair the second coordinate is `x_1`. -/
theorem C08_old_dimension_name_counterexample :
    let f (c : Nat) : AField := { name := some "q", axes := [⟨"domainaxis0", 3, some "x", false, some ⟨"dimensioncoordinate0", c, none⟩⟩],
                                  dataAxes := ["domainaxis0"], cons := [] }
    FieldOK (f 0) = true ∧ FieldOK (f 1) = true
      ∧ writeFields false {} {} [f 0, f 1] = none
      ∧ (writeFields true {} {} [f 0, f 1]).map (fun r => r.1.map (·.dims)) = some [["x"], ["x_1"]] := by decide

/-- The code as it stands, second repair: two axes of one field with equal dimension coordinates
(a covariance matrix over latitude x latitude) share one netCDF dimension, so the data variable
spans it twice (against CF 2.4); with the repair the second axis gets `lat_1`. -/
theorem C08_old_equal_dimension_coordinates_counterexample :
    let f : AField := { name := some "cov",
                        axes := [⟨"domainaxis0", 3, none, false, some ⟨"dimensioncoordinate0", 7, some "lat"⟩⟩,
                                 ⟨"domainaxis1", 3, none, false, some ⟨"dimensioncoordinate1", 7, some "lat"⟩⟩],
                        dataAxes := ["domainaxis0", "domainaxis1"], cons := [] }
    FieldOK f = true
      ∧ (writeFields false {} {} [f]).map (fun r => r.1.map (·.dims)) = some [["lat", "lat"]]
      ∧ (writeFields true {} {} [f]).map (fun r => r.1.map (·.dims)) = some [["lat", "lat_1"]] := by decide

end Fields

/-! ## Storage: data types, `_FillValue` typing, string versus character storage -/
section Storage
open Cfdm.NcStore

/-- The variable and its `_FillValue` / `missing_value` attributes have ONE type, whatever the output
format, the `string` option and the `datatype=` mapping: the type `createVariable` is given
(`_datatype`) is the type the attributes are cast to (`_write_attributes`) — netCDF refuses anything
else ("Not a valid data type or _FillValue type mismatch"). For every construct with numeric data. -/
theorem C08_fill_type_is_variable_type (fmt : Fmt) (string : Bool) (m : List (DType × DType)) (d given : DType)
    (hd : d.isString = false) :
    datatype fmt string m (some d) = .code (fillDType m (some d) given).kind (fillDType m (some d) given).size := by
  simp [datatype, fillDType, hd]

example : datatype .netcdf4Classic true [(⟨.float, 8⟩, ⟨.float, 4⟩)] (some ⟨.float, 8⟩) = .code .float 4
    ∧ fillDType [(⟨.float, 8⟩, ⟨.float, 4⟩)] (some ⟨.float, 8⟩) ⟨.int, 8⟩ = ⟨.float, 4⟩ := by decide
/-- Not vacuous: typing the attributes from the data's own dtype (seeded/C08-2) breaks the agreement. -/
example : datatype .netcdf4 true [(⟨.float, 8⟩, ⟨.float, 4⟩)] (some ⟨.float, 8⟩)
    ≠ .code (fillDTypeUnmapped [(⟨.float, 8⟩, ⟨.float, 4⟩)] (some ⟨.float, 8⟩) ⟨.float, 8⟩).kind
        (fillDTypeUnmapped [(⟨.float, 8⟩, ⟨.float, 4⟩)] (some ⟨.float, 8⟩) ⟨.float, 8⟩).size := by decide

/-- The requested data type is the one realised: numeric data of dtype `d` are stored with the type the
`datatype=` dictionary gives for `d` — looked up once, never chained through a second entry — and with
their own type when the dictionary (keys distinct, as in a `dict`) has no entry for `d`. -/
theorem C08_datatype_requested (fmt : Fmt) (string : Bool) (m : List (DType × DType)) (d : DType)
    (hd : d.isString = false) (hm : (m.map (·.1)).Nodup) :
    (∀ t, (d, t) ∈ m → datatype fmt string m (some d) = .code t.kind t.size)
    ∧ (d ∉ m.map (·.1) → datatype fmt string m (some d) = .code d.kind d.size) := by
  constructor
  · intro t ht
    have : mapGet m d = some t := by
      unfold mapGet
      induction m with
      | nil => cases ht
      | cons x xs ih =>
        simp only [List.map_cons, List.nodup_cons] at hm
        simp only [List.find?_cons]
        rcases List.mem_cons.mp ht with rfl | ht
        · simp
        · have hne : x.1 ≠ d := fun h => hm.1 (h ▸ List.mem_map.mpr ⟨(d, t), ht, rfl⟩)
          have : (x.1 == d) = false := by simpa using hne
          simp only [this]
          exact ih hm.2 ht
    simp [datatype, hd, this]
  · intro hn
    have : mapGet m d = none := by
      unfold mapGet
      rw [Option.map_eq_none_iff, List.find?_eq_none]
      intro x hx
      simp only [beq_iff_eq]
      intro h
      exact hn (h ▸ List.mem_map.mpr ⟨x, hx, rfl⟩)
    simp [datatype, hd, this]

/-- `{int64: int32, int32: int16}` stores int64 data as int32, not int16. -/
example : datatype .netcdf4 true [(⟨.int, 8⟩, ⟨.int, 4⟩), (⟨.int, 4⟩, ⟨.int, 2⟩)] (some ⟨.int, 8⟩) = .code .int 4 := by decide

/-- String-valued data: a variable-length netCDF string **iff** the format is NETCDF4 and
`string=True`; in every other case a character array with exactly one more (trailing, string-length)
dimension than the construct; numeric data never get an extra dimension and never become strings,
whatever the `datatype=` mapping says about other types. -/
theorem C08_string_storage (fmt : Fmt) (string : Bool) (m : List (DType × DType)) (d : DType) :
    (d.isString = true →
      (datatype fmt string m (some d) = .vlenString ↔ fmt = .netcdf4 ∧ string = true)
      ∧ (datatype fmt string m (some d) ≠ .vlenString → datatype fmt string m (some d) = charType ∧ extraDims fmt string m (some d) = 1)
      ∧ (datatype fmt string m (some d) = .vlenString → extraDims fmt string m (some d) = 0))
    ∧ (d.isString = false → datatype fmt string m (some d) ≠ .vlenString
        ∧ (datatype fmt string m (some d) ≠ charType → extraDims fmt string m (some d) = 0)) := by
  constructor
  · intro hs
    by_cases h : fmt = .netcdf4 ∧ string = true
    · obtain ⟨rfl, rfl⟩ := h
      simp [datatype, hs, extraDims, charType]
    · have hb : (fmt == Fmt.netcdf4 && string) = false := by
        by_cases hf : fmt = .netcdf4
        · have : string = false := by
            cases string with
            | false => rfl
            | true => exact absurd ⟨hf, rfl⟩ h
          simp [this]
        · have : (fmt == Fmt.netcdf4) = false := by simpa using hf
          simp [this]
      simp [datatype, hs, extraDims, charType, hb, h]
  · intro hs
    refine ⟨by simp [datatype, hs], ?_⟩
    intro hne
    simp only [extraDims, Option.isSome_some, Bool.true_and, beq_iff_eq, ite_eq_right_iff]
    intro h; exact absurd h hne

example : datatype .netcdf3Classic true [] (some ⟨.unicode, 12⟩) = charType ∧ extraDims .netcdf3Classic true [] (some ⟨.unicode, 12⟩) = 1
    ∧ datatype .netcdf4 false [] (some ⟨.unicode, 12⟩) = charType ∧ datatype .netcdf4 true [] (some ⟨.bytes, 3⟩) = .vlenString := by decide

end Storage

end Cfdm.Props.C08
