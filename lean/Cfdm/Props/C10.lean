import Cfdm.Lemmas.Files
import Cfdm.Lemmas.FilesFS
import Cfdm.Lemmas.FilesHeap
/-
C10 — writing never damages its inputs or the files they still read from.
Property theorems only.  `Ver.new` is cfdm with fixes/C10-*.patch applied, `Ver.old` the code
as it stands.
-/
namespace Cfdm.Props.C10
open Cfdm.Files

/-! ### sample objects for the non-vacuity examples -/

/-- data still to be read from file 0 -/
def dLazy (n : Name) : DataM := ⟨[n], [n], []⟩
/-- a field read from file `n`: lazy data, one coordinate with lazy data and lazy bounds -/
def fRead (n : Name) : FieldM :=
  { isDomain := false, own := [n], data := some (dLazy n), dataAxes := ["a0"], axes := [("a0", 5)],
    cons := [{ key := "dim0", ctype := .dim, own := [n], data := some (dLazy n),
               bounds := some ⟨[n], some (dLazy n)⟩, ring := none, axes := ["a0"] }] }
/-- the same field built in memory -/
def fMem : FieldM :=
  { isDomain := false, own := [], data := some ⟨[], [], []⟩, dataAxes := ["a0"], axes := [("a0", 5)],
    cons := [{ key := "dim0", ctype := .dim, own := [], data := some ⟨[], [], []⟩,
               bounds := some ⟨[], some ⟨[], [], []⟩⟩, ring := none, axes := ["a0"] }] }
/-- files 0 (X), 1 (Y), 2 (Z) and the symbolic link 4 → 0 -/
def exFS : FS := fun n =>
  if n = 0 then some (.file [100]) else if n = 1 then some (.file [101])
  else if n = 2 then some (.file [102]) else if n = 4 then some (.link 0) else none

theorem exFS_WF : exFS.WF := by
  intro n t h
  unfold exFS at h
  split at h
  · simp at h
  · split at h
    · simp at h
    · split at h
      · simp at h
      · split at h
        · simp only [Option.some.injEq, Entry.link.injEq] at h
          subst h
          exact ⟨[100], rfl⟩
        · simp at h

/-! ## 1. The guard's set covers the files still needed — for every object -/

/-- **need ⊆ original file names (patched aggregation), for every object tree** — hence for
whatever sequence of copies, subspaces, conversions or data transplants produced it.  `need`
is the specification (every file array that is a leaf of the tree: field data, construct
data, bounds, interior rings, count/index/list variables); `origNew` is
`_original_filenames()` with `PropertiesData` descending into its data and `Data` including
the files of its source array. -/
theorem C10_need_subset_orig (f : FieldM) : ∀ x ∈ f.need, x ∈ f.origNew :=
  FieldM.need_sub f

example : (fRead 0).need = [0, 0, 0] ∧ (fRead 0).origOld = [0, 0, 0] := by decide

/-- `get_filenames()` as coded is sound but incomplete (it never looks at bounds, interior
rings or count/index/list variables), which is why the guard cannot simply consult it. -/
theorem C10_get_filenames_sound (f : FieldM) : ∀ x ∈ f.needCode, x ∈ f.need := FieldM.needCode_sub f

/-- an in-memory field whose coordinate bounds are still to be read from file 0 -/
def fBoundsLazy : FieldM :=
  { isDomain := false, own := [], data := some ⟨[], [], []⟩, dataAxes := ["a0"], axes := [("a0", 5)],
    cons := [{ key := "dim0", ctype := .dim, own := [], data := some ⟨[], [], []⟩,
               bounds := some ⟨[], some (dLazy 0)⟩, ring := none, axes := ["a0"] }] }

theorem C10_get_filenames_incomplete : 0 ∈ fBoundsLazy.need ∧ fBoundsLazy.needCode = [] := by decide

/-! ## 2. The guard is sound: a needed file is never opened for writing -/

/-- **Guard soundness (patched code, modes w, a and r+).**  If some construct being written
still needs a file that resolves to the target, the request is refused and the file system is
unchanged. -/
theorem C10_guard_sound (fs : FS) (rq : Req) (f : FieldM) (n : Name)
    (hf : f ∈ rq.fields) (hn : n ∈ f.need) (hr : fs.real n = fs.real rq.target) :
    (writeProc .new fs rq).1 = fs ∧ (writeProc .new fs rq).2.isRefusal = true := by
  have hg : guardHits .new fs rq.fields rq.target = true :=
    guardHits_new_true fs rq.fields rq.target f hf n (FieldM.need_sub f n hn) hr
  have hne : rq.fields.isEmpty = false := by
    cases hfe : rq.fields with
    | nil => simp [hfe] at hf
    | cons a l => rfl
  have ht : tgtGuard .new fs rq.fields rq.target = true := by simp [tgtGuard, hg, hne]
  unfold writeProc
  by_cases hp : rq.fault = Fault.pre
  · rw [if_pos hp]; exact ⟨rfl, rfl⟩
  · rw [if_neg hp]
    cases hm : rq.mode with
    | a =>
      dsimp only
      unfold writeA
      by_cases h1 : fs.isfile rq.target = false
      · rw [if_pos h1]; exact ⟨rfl, rfl⟩
      · by_cases h2 : extIs fs rq.external (fs.real rq.target) = true
        · rw [if_neg h1, if_pos h2]; exact ⟨rfl, rfl⟩
        · by_cases h3 : extGuard .new fs rq.fields rq.external = true
          · rw [if_neg h1, if_neg h2, if_pos h3]; exact ⟨rfl, rfl⟩
          · have h4 : appGuard .new fs rq.fields rq.target = true := by simpa [appGuard] using ht
            rw [if_neg h1, if_neg h2, if_neg h3, if_pos h4]; exact ⟨rfl, rfl⟩
    | w =>
      dsimp only
      unfold writeW
      by_cases h1 : (fs.isfile rq.target && !rq.overwrite) = true
      · rw [if_pos h1]; exact ⟨rfl, rfl⟩
      · by_cases h2 : extGuard .new fs rq.fields rq.external = true
        · rw [if_neg h1, if_pos h2]; exact ⟨rfl, rfl⟩
        · have h3 : openW .new fs rq.fields rq.target = none := by simp [openW, ht]
          rw [if_neg h1, if_neg h2, h3]; exact ⟨rfl, rfl⟩

/-- a field read from X (0), written to X through the symbolic link 4 → 0 -/
example : fRead 0 ∈ [fMem, fRead 0] ∧ 0 ∈ (fRead 0).need ∧ exFS.real 0 = exFS.real 4 := by decide

/-- **… for every derivation history.**  Whatever history of operations (copy, subspace,
squeeze, transpose, insert_dimension, get_domain, convert, del/set construct, set_data /
set_bounds with another construct's data, `Data(source())`, to_memory, …) produced the
construct being written — or its `.domain` view — from any registers: if it still needs the
target, the write is refused with the file system unchanged.  No bound on the history. -/
theorem C10_guard_sound_histories (regs : Regs) (ops : List Op) (r : Nat) (g f : FieldM)
    (_hg : (run regs ops)[r]? = some g) (_hfg : f = g ∨ f = g.domain)
    (fs : FS) (rq : Req) (n : Name)
    (hf : f ∈ rq.fields) (hn : n ∈ f.need) (hr : fs.real n = fs.real rq.target) :
    (writeProc .new fs rq).1 = fs ∧ (writeProc .new fs rq).2.isRefusal = true :=
  C10_guard_sound fs rq f n hf hn hr

/-- the known failing history: `h.set_data(g.data)` with g lazily read from X, then write h to X -/
example : (run [fRead 0, fMem] [.setdata 1 .fdata 0 .fdata false false])[2]?.map (fun f => f.need) = some [0] := by
  decide

/-- **A refusal is pure.**  Every exit with `OSError` / `ValueError` from the overwrite check,
the guards or the argument validation happens before the first change to the file system
(both versions of the code). -/
theorem C10_refusal_pure (v : Ver) (fs : FS) (rq : Req)
    (h : (writeProc v fs rq).2.isRefusal = true) : (writeProc v fs rq).1 = fs :=
  writeProc_refusal_pure v fs rq h

example : (writeProc .new exFS ⟨[fRead 0], 0, .w, true, none, .none, false⟩).2.isRefusal = true := by decide

/-- **overwrite=False.**  In mode w an existing file is left as it is. -/
theorem C10_no_overwrite (v : Ver) (fs : FS) (rq : Req) (hm : rq.mode = .w) (ho : rq.overwrite = false)
    (he : fs.isfile rq.target = true) :
    (writeProc v fs rq).1 = fs ∧ (writeProc v fs rq).2.isRefusal = true := by
  unfold writeProc
  by_cases hp : rq.fault = Fault.pre
  · rw [if_pos hp]; exact ⟨rfl, rfl⟩
  · rw [if_neg hp, hm]
    dsimp only
    unfold writeW
    have h1 : (fs.isfile rq.target && !rq.overwrite) = true := by simp [he, ho]
    rw [if_pos h1]; exact ⟨rfl, rfl⟩

example : exFS.isfile 2 = true ∧
    (writeProc .new exFS ⟨[fMem], 2, .w, false, none, .none, false⟩).2 = .osError := by decide

/-! ## 3. Whatever happens, the files still needed are intact -/

/-- **Needed files are intact (patched code).**  For every request — any mode, any options,
external file or not, success or failure at any step — every file from which a construct
being written still has unread data reads back exactly what it held before. -/
theorem C10_needed_files_intact (fs : FS) (hwf : fs.WF) (rq : Req) (f : FieldM) (n : Name)
    (hf : f ∈ rq.fields) (hn : n ∈ f.need) :
    (writeProc .new fs rq).1.read n = fs.read n := by
  rcases writeProc_new_cases fs rq with h | hp
  · rw [h]
  · have ho := FieldM.need_sub f n hn
    obtain ⟨ht, he⟩ := hp f hf n ho
    apply read_stable fs _ (touchable fs rq) n hwf (fun m hm => writeProc_frame .new fs rq m hm)
    intro s hs
    simp only [touchable, List.mem_append, Option.mem_toList] at hs
    rcases hs with hs | hs
    · cases hm : rq.mode with
      | w => simp only [hm, List.mem_singleton] at hs; subst hs; exact ht
      | a =>
        simp only [hm, List.mem_singleton] at hs; subst hs
        rw [fs.real_real hwf]; exact ht
    · exact he s hs

/-- a failing write (exception while the second field is written) of two fields that need X
and Y to the unrelated file Z with external file 3 -/
example : exFS.WF ∧ fRead 1 ∈ [fRead 0, fRead 1] ∧ 1 ∈ (fRead 1).need ∧
    (writeProc .new exFS ⟨[fRead 0, fRead 1], 2, .w, true, some 3, .emit 1, false⟩).2 = .failed ∧
    (writeProc .new exFS ⟨[fRead 0, fRead 1], 2, .w, true, some 3, .emit 1, false⟩).1.read 2 = some [0] :=
  ⟨exFS_WF, by decide, by decide, by decide, by decide⟩

/-- **Nothing else is touched** (both versions): only the target name (mode w), the file the
target resolves to (mode a) and the external file can change. -/
theorem C10_other_files_untouched (v : Ver) (fs : FS) (rq : Req) (m : Name) (hm : m ∉ touchable fs rq) :
    (writeProc v fs rq).1 m = fs m :=
  writeProc_frame v fs rq m hm

example : (1 : Name) ∉ touchable exFS ⟨[fMem], 4, .a, true, some 3, .none, false⟩ := by decide

/-! ## 4. The inputs themselves -/

/-- **Inputs unchanged.**  The writer works on `f.copy()` (fresh cells for every part of the
object graph).  Whatever it does to that copy — insert dimensions, squeeze scalar coordinates,
rename the list variable, … — and wherever an exception stops it (`k` mutations done), every
cell of the caller's object holds what it held; and the copy started out equal to it. -/
theorem C10_inputs_unchanged (h : Heap) (next : Nat) (o : Obj) (hwf : ∀ c ∈ o, c < next)
    (prog : List Mut) (k : Nat) :
    view (writerRun h next o [] prog k) o = view h o ∧
      view (copyHeap h next o []) (copyCells next o []) = view h o := by
  refine ⟨?_, view_copy h next o⟩
  unfold view
  apply List.map_congr_left
  intro c hc
  exact writerRun_old h next o prog k c (hwf c hc)

example : (∀ c ∈ [0, 1, 2], c < 3) ∧
    view (writerRun (fun c => c + 10) 3 [0, 1, 2] [] [⟨1, 99⟩, ⟨2, 98⟩] 2) (copyCells 3 [0, 1, 2] []) = [10, 99, 98] := by
  decide

/-- The deep copy is what the statement rests on: were one component shared between the
working copy and the caller's object (position 1, e.g. the list variable that
`_write_list_variable` renames), the caller would see the mutation. -/
theorem C10_shared_copy_counterexample :
    view (writerRun (fun c => c + 10) 3 [0, 1, 2] [1] [⟨1, 99⟩] 1) [0, 1, 2] ≠ view (fun c => c + 10) [0, 1, 2] := by
  decide

/-- **… component by component.**  In particular the variables nested inside compressed
arrays (list, count, index, tie point index, interpolation parameter variables), node count /
part node count / interior ring variables, bounds and metadata constructs of the caller's
field keep their netCDF names, properties and data. -/
theorem C10_inputs_unchanged_parts (h : Heap) (next : Nat) (o : Obj) (hwf : ∀ c ∈ o, c < next)
    (prog : List Mut) (k : Nat) (p : Part) :
    partView (writerRun h next o [] prog k) o p = partView h o p := by
  unfold partView
  cases hc : o[p.pos]? with
  | none => rfl
  | some c =>
    simp only [Option.map_some]
    rw [writerRun_old h next o prog k c (hwf c (List.mem_of_getElem? hc))]

example : (∀ c ∈ List.range 16, c < 16) ∧ Part.all.length = 16 ∧
    partView (writerRun (fun c => c + 10) 16 (List.range 16) [] [renameListVariable 99, reshapeData 98] 2)
      (List.range 16) .listVar = some 13 := by decide

/-- **The list variable shared between a gathered array and its copies** (what
`GatheredArray.__init__` storing the list variable with `copy=False` would do): the writer's
`nc_set_variable(list_variable, ncvar)` then lands on the caller's object — and on nothing
else of it, which is why only a fingerprint that looks inside the compressed array sees it. -/
theorem C10_shared_list_variable_counterexample :
    let h : Heap := fun c => c + 10
    let o : Obj := List.range 16
    let h' := writerRun h 16 o [Part.listVar.pos] [renameListVariable 99] 1
    partView h' o .listVar = some 99 ∧ partView h o .listVar = some 13 ∧
      ∀ p ∈ Part.all, p ≠ .listVar → partView h' o p = partView h o p := by
  decide

/-! ## 5. The code as it stands -/

/-- **Unpatched guard, what does hold.**  The full statement (`C10_guard_sound` with `.old`)
is false; it holds for histories without a data transplant (`set_data` with another
construct's data), when the needed file is named exactly like the target (no symbolic link in
between), in mode w and for the target only (not the external file). -/
theorem C10_old_guard_sound_partial (regs : Regs) (hregs : RegsLC regs) (ops : List Op)
    (hops : ∀ op ∈ ops, op.isTransplant = false) (r : Nat) (f : FieldM)
    (hf : (run regs ops)[r]? = some f) (fs : FS) (rq : Req) (hfm : f ∈ rq.fields)
    (hn : rq.target ∈ f.need) (hm : rq.mode = .w) :
    (writeProc .old fs rq).1 = fs ∧ (writeProc .old fs rq).2.isRefusal = true := by
  have hlc : f.LC := run_LC ops regs hregs hops f (List.mem_of_getElem? hf)
  have ho : rq.target ∈ f.origOld := FieldM.need_sub_old f hlc _ hn
  have hg : guardHits .old fs rq.fields rq.target = true := by
    simp only [guardHits, FieldM.orig, List.any_eq_true]
    exact ⟨f, hfm, by simpa using ho⟩
  have hne : rq.fields.isEmpty = false := by
    cases hfe : rq.fields with
    | nil => simp [hfe] at hfm
    | cons a l => rfl
  have ht : tgtGuard .old fs rq.fields rq.target = true := by simp [tgtGuard, hg, hne]
  unfold writeProc
  by_cases hp : rq.fault = Fault.pre
  · rw [if_pos hp]; exact ⟨rfl, rfl⟩
  · rw [if_neg hp, hm]
    dsimp only
    unfold writeW
    by_cases h1 : (fs.isfile rq.target && !rq.overwrite) = true
    · rw [if_pos h1]; exact ⟨rfl, rfl⟩
    · have h2 : ¬ extGuard .old fs rq.fields rq.external = true := by simp [extGuard]
      have h3 : openW .old fs rq.fields rq.target = none := by simp [openW, ht]
      rw [if_neg h1, if_neg h2, h3]; exact ⟨rfl, rfl⟩

example : RegsLC [fRead 0, fMem] := by unfold RegsLC; decide

/-- **Counter-example 1 (data transplant).**  `h.set_data(g.data)` with g lazily read from X,
then `cfdm.write(h, X)`: the unpatched guard looks only at `original_filenames`, which
`set_data` does not carry over; X is deleted, then the write fails because X can no longer be
read.  The patched code refuses. -/
theorem C10_old_transplant_counterexample :
    let regs := run [fRead 0, fMem] [.setdata 1 .fdata 0 .fdata false false]
    let h := regs[2]?.getD default
    let rq : Req := ⟨[h], 0, .w, true, none, .none, false⟩
    h.need = [0] ∧ h.origOld = [] ∧
    (writeProc .old exFS rq).2 = .failed ∧ (writeProc .old exFS rq).1.read 0 = some [] ∧ exFS.read 0 = some [100] ∧
    (writeProc .new exFS rq).2 = .valueError := by
  decide

/-- **Counter-example 2 (symbolic link).**  The field was read through the link 4 → 0 and is
written to 0: `abspath` of the two differ, the unpatched guard lets the write delete the file. -/
theorem C10_old_symlink_counterexample :
    let rq : Req := ⟨[fRead 4], 0, .w, true, none, .none, false⟩
    (writeProc .old exFS rq).2 = .failed ∧ (writeProc .old exFS rq).1.read 4 = some [] ∧ exFS.read 4 = some [100] ∧
    (writeProc .new exFS rq).2 = .valueError := by
  decide

/-- **Counter-example 3 (external file).**  A field read from X with a new external cell
measure, written to a new file 3 with `external=` X: the nested write checks only the
external fields, X is overwritten although the field still reads from it. -/
theorem C10_old_external_counterexample :
    let regs := run [fRead 0] [.addmsr 0 "msr9" ["a0"] false]
    let g := regs[1]?.getD default
    let rq : Req := ⟨[g], 3, .w, true, some 0, .none, false⟩
    0 ∈ g.need ∧ (writeProc .old exFS rq).2 = .ok ∧ (writeProc .old exFS rq).1.read 0 = some [1000] ∧
    (writeProc .new exFS rq).2 = .valueError ∧ (writeProc .new exFS rq).1.read 0 = some [100] := by
  decide

/-- **Counter-example 4 (append).**  Mode 'a' has no guard at all in the code as it stands: a
field is appended to the very file it is still being read from (in the implementation this
re-opens a file that is open for writing — netCDF4 raises or takes the interpreter down). -/
theorem C10_old_append_counterexample :
    let rq : Req := ⟨[fRead 0], 0, .a, true, none, .none, false⟩
    (writeProc .old exFS rq).2 = .ok ∧ (writeProc .old exFS rq).1.read 0 = some [100, 0] ∧
    (writeProc .new exFS rq).2 = .valueError ∧ (writeProc .new exFS rq).1.read 0 = some [100] := by
  decide

end Cfdm.Props.C10
