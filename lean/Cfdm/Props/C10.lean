import Cfdm.Lemmas.Files
import Cfdm.Lemmas.FilesFS
import Cfdm.Lemmas.FilesHeap
import Cfdm.Lemmas.FilesTree
import Cfdm.Lemmas.FilesPathWrite
/-
C10 — writing never damages its inputs or the files they still read from.
Property theorems only.

Sections 1-5 (`Cfdm.Files`): `Ver.new` is the code at /repo HEAD (the four repairs recorded as
`fixed:` in known_findings.json are applied), `Ver.old` the code as it was before them.
Section 6 (`Cfdm.FilesTree`, the whole component tree) and section 7 (`Cfdm.FilesPath`, which
name is decided on and which inode is opened): `Ver.old` is the code at /repo HEAD, `Ver.new` the
code with the proposed fixes/C10-{interpolation-parameters,node-coordinates,same-inode,
external-name}.patch.
-/
namespace Cfdm.Props.C10
open Cfdm.Files

/-! ### sample objects for the non-vacuity examples -/

/-- data still to be read from file 0 -/
def dLazy (n : Name) : DataM := ⟨[n], [n], []⟩
/-- a field read from file `n`: lazy data, one coordinate with lazy data and lazy bounds -/
def fRead (n : Name) : FieldM :=
  { isDomain := false, own := [n], data := some (dLazy n), dataAxes := ["a0"], axes := [("a0", 5)],
    cons := [{ key := "dim0", ctype := .dim, own := [n], data := some (dLazy n),
               bounds := some ⟨[n], some (dLazy n)⟩, ring := none, axes := ["a0"] }] }
/-- the same field built in memory -/
def fMem : FieldM :=
  { isDomain := false, own := [], data := some ⟨[], [], []⟩, dataAxes := ["a0"], axes := [("a0", 5)],
    cons := [{ key := "dim0", ctype := .dim, own := [], data := some ⟨[], [], []⟩,
               bounds := some ⟨[], some ⟨[], [], []⟩⟩, ring := none, axes := ["a0"] }] }
/-- files 0 (X), 1 (Y), 2 (Z) and the symbolic link 4 → 0 -/
def exFS : FS := fun n =>
  if n = 0 then some (.file [100]) else if n = 1 then some (.file [101])
  else if n = 2 then some (.file [102]) else if n = 4 then some (.link 0) else none

theorem exFS_WF : exFS.WF := by
  intro n t h
  unfold exFS at h
  split at h
  · simp at h
  · split at h
    · simp at h
    · split at h
      · simp at h
      · split at h
        · simp only [Option.some.injEq, Entry.link.injEq] at h
          subst h
          exact ⟨[100], rfl⟩
        · simp at h

/-! ## 1. The guard's set covers the files still needed — for every object -/

/-- **need ⊆ original file names (aggregation as at HEAD), for every object tree** — hence for
whatever sequence of copies, subspaces, conversions or data transplants produced it.  `need`
is the specification (every file array that is a leaf of the tree: field data, construct
data, bounds, interior rings, count/index/list variables); `origNew` is
`_original_filenames()` with `PropertiesData` descending into its data and `Data` including
the files of its source array. -/
theorem C10_need_subset_orig (f : FieldM) : ∀ x ∈ f.need, x ∈ f.origNew :=
  FieldM.need_sub f

example : (fRead 0).need = [0, 0, 0] ∧ (fRead 0).origOld = [0, 0, 0] := by decide

/-- `get_filenames()` as coded is sound but incomplete (it never looks at bounds, interior
rings or count/index/list variables), which is why the guard cannot simply consult it. -/
theorem C10_get_filenames_sound (f : FieldM) : ∀ x ∈ f.needCode, x ∈ f.need := FieldM.needCode_sub f

/-- an in-memory field whose coordinate bounds are still to be read from file 0 -/
def fBoundsLazy : FieldM :=
  { isDomain := false, own := [], data := some ⟨[], [], []⟩, dataAxes := ["a0"], axes := [("a0", 5)],
    cons := [{ key := "dim0", ctype := .dim, own := [], data := some ⟨[], [], []⟩,
               bounds := some ⟨[], some (dLazy 0)⟩, ring := none, axes := ["a0"] }] }

theorem C10_get_filenames_incomplete : 0 ∈ fBoundsLazy.need ∧ fBoundsLazy.needCode = [] := by decide

/-! ## 2. The guard is sound: a needed file is never opened for writing -/

/-- **Guard soundness (code at HEAD, modes w, a and r+).**  If some construct being written
still needs a file that resolves to the target, the request is refused and the file system is
unchanged. -/
theorem C10_guard_sound (fs : FS) (rq : Req) (f : FieldM) (n : Name)
    (hf : f ∈ rq.fields) (hn : n ∈ f.need) (hr : fs.real n = fs.real rq.target) :
    (writeProc .new fs rq).1 = fs ∧ (writeProc .new fs rq).2.isRefusal = true := by
  have hg : guardHits .new fs rq.fields rq.target = true :=
    guardHits_new_true fs rq.fields rq.target f hf n (FieldM.need_sub f n hn) hr
  have hne : rq.fields.isEmpty = false := by
    cases hfe : rq.fields with
    | nil => simp [hfe] at hf
    | cons a l => rfl
  have ht : tgtGuard .new fs rq.fields rq.target = true := by simp [tgtGuard, hg, hne]
  unfold writeProc
  by_cases hp : rq.fault = Fault.pre
  · rw [if_pos hp]; exact ⟨rfl, rfl⟩
  · rw [if_neg hp]
    cases hm : rq.mode with
    | a =>
      dsimp only
      unfold writeA
      by_cases h1 : fs.isfile rq.target = false
      · rw [if_pos h1]; exact ⟨rfl, rfl⟩
      · by_cases h2 : extIs fs rq.external (fs.real rq.target) = true
        · rw [if_neg h1, if_pos h2]; exact ⟨rfl, rfl⟩
        · by_cases h3 : extGuard .new fs rq.fields rq.external = true
          · rw [if_neg h1, if_neg h2, if_pos h3]; exact ⟨rfl, rfl⟩
          · have h4 : appGuard .new fs rq.fields rq.target = true := by simpa [appGuard] using ht
            rw [if_neg h1, if_neg h2, if_neg h3, if_pos h4]; exact ⟨rfl, rfl⟩
    | w =>
      dsimp only
      unfold writeW
      by_cases h1 : (fs.isfile rq.target && !rq.overwrite) = true
      · rw [if_pos h1]; exact ⟨rfl, rfl⟩
      · by_cases h2 : extGuard .new fs rq.fields rq.external = true
        · rw [if_neg h1, if_pos h2]; exact ⟨rfl, rfl⟩
        · have h3 : openW .new fs rq.fields rq.target = none := by simp [openW, ht]
          rw [if_neg h1, if_neg h2, h3]; exact ⟨rfl, rfl⟩

/-- a field read from X (0), written to X through the symbolic link 4 → 0 -/
example : fRead 0 ∈ [fMem, fRead 0] ∧ 0 ∈ (fRead 0).need ∧ exFS.real 0 = exFS.real 4 := by decide

/-- **… for every derivation history.**  Whatever history of operations (copy, subspace,
squeeze, transpose, insert_dimension, get_domain, convert, del/set construct, set_data /
set_bounds with another construct's data, `Data(source())`, to_memory, …) produced the
construct being written — or its `.domain` view — from any registers: if it still needs the
target, the write is refused with the file system unchanged.  No bound on the history. -/
theorem C10_guard_sound_histories (regs : Regs) (ops : List Op) (r : Nat) (g f : FieldM)
    (_hg : (run regs ops)[r]? = some g) (_hfg : f = g ∨ f = g.domain)
    (fs : FS) (rq : Req) (n : Name)
    (hf : f ∈ rq.fields) (hn : n ∈ f.need) (hr : fs.real n = fs.real rq.target) :
    (writeProc .new fs rq).1 = fs ∧ (writeProc .new fs rq).2.isRefusal = true :=
  C10_guard_sound fs rq f n hf hn hr

/-- the known failing history: `h.set_data(g.data)` with g lazily read from X, then write h to X -/
example : (run [fRead 0, fMem] [.setdata 1 .fdata 0 .fdata false false])[2]?.map (fun f => f.need) = some [0] := by
  decide

/-- **A refusal is pure.**  Every exit with `OSError` / `ValueError` from the overwrite check,
the guards or the argument validation happens before the first change to the file system
(both versions of the code). -/
theorem C10_refusal_pure (v : Ver) (fs : FS) (rq : Req)
    (h : (writeProc v fs rq).2.isRefusal = true) : (writeProc v fs rq).1 = fs :=
  writeProc_refusal_pure v fs rq h

example : (writeProc .new exFS ⟨[fRead 0], 0, .w, true, none, .none, false⟩).2.isRefusal = true := by decide

/-- **overwrite=False.**  In mode w an existing file is left as it is. -/
theorem C10_no_overwrite (v : Ver) (fs : FS) (rq : Req) (hm : rq.mode = .w) (ho : rq.overwrite = false)
    (he : fs.isfile rq.target = true) :
    (writeProc v fs rq).1 = fs ∧ (writeProc v fs rq).2.isRefusal = true := by
  unfold writeProc
  by_cases hp : rq.fault = Fault.pre
  · rw [if_pos hp]; exact ⟨rfl, rfl⟩
  · rw [if_neg hp, hm]
    dsimp only
    unfold writeW
    have h1 : (fs.isfile rq.target && !rq.overwrite) = true := by simp [he, ho]
    rw [if_pos h1]; exact ⟨rfl, rfl⟩

example : exFS.isfile 2 = true ∧
    (writeProc .new exFS ⟨[fMem], 2, .w, false, none, .none, false⟩).2 = .osError := by decide

/-! ## 3. Whatever happens, the files still needed are intact -/

/-- **Needed files are intact (code at HEAD, in the coarse file system of `Model/Files.lean`).**  For every request — any mode, any options,
external file or not, success or failure at any step — every file from which a construct
being written still has unread data reads back exactly what it held before. -/
theorem C10_needed_files_intact (fs : FS) (hwf : fs.WF) (rq : Req) (f : FieldM) (n : Name)
    (hf : f ∈ rq.fields) (hn : n ∈ f.need) :
    (writeProc .new fs rq).1.read n = fs.read n := by
  rcases writeProc_new_cases fs rq with h | hp
  · rw [h]
  · have ho := FieldM.need_sub f n hn
    obtain ⟨ht, he⟩ := hp f hf n ho
    apply read_stable fs _ (touchable fs rq) n hwf (fun m hm => writeProc_frame .new fs rq m hm)
    intro s hs
    simp only [touchable, List.mem_append, Option.mem_toList] at hs
    rcases hs with hs | hs
    · cases hm : rq.mode with
      | w => simp only [hm, List.mem_singleton] at hs; subst hs; exact ht
      | a =>
        simp only [hm, List.mem_singleton] at hs; subst hs
        rw [fs.real_real hwf]; exact ht
    · exact he s hs

/-- a failing write (exception while the second field is written) of two fields that need X
and Y to the unrelated file Z with external file 3 -/
example : exFS.WF ∧ fRead 1 ∈ [fRead 0, fRead 1] ∧ 1 ∈ (fRead 1).need ∧
    (writeProc .new exFS ⟨[fRead 0, fRead 1], 2, .w, true, some 3, .emit 1, false⟩).2 = .failed ∧
    (writeProc .new exFS ⟨[fRead 0, fRead 1], 2, .w, true, some 3, .emit 1, false⟩).1.read 2 = some [0] :=
  ⟨exFS_WF, by decide, by decide, by decide, by decide⟩

/-- **Nothing else is touched** (both versions): only the target name (mode w), the file the
target resolves to (mode a) and the external file can change. -/
theorem C10_other_files_untouched (v : Ver) (fs : FS) (rq : Req) (m : Name) (hm : m ∉ touchable fs rq) :
    (writeProc v fs rq).1 m = fs m :=
  writeProc_frame v fs rq m hm

example : (1 : Name) ∉ touchable exFS ⟨[fMem], 4, .a, true, some 3, .none, false⟩ := by decide

/-! ## 4. The inputs themselves -/

/-- **Inputs unchanged.**  The writer works on `f.copy()` (fresh cells for every part of the
object graph).  Whatever it does to that copy — insert dimensions, squeeze scalar coordinates,
rename the list variable, … — and wherever an exception stops it (`k` mutations done), every
cell of the caller's object holds what it held; and the copy started out equal to it. -/
theorem C10_inputs_unchanged (h : Heap) (next : Nat) (o : Obj) (hwf : ∀ c ∈ o, c < next)
    (prog : List Mut) (k : Nat) :
    view (writerRun h next o [] prog k) o = view h o ∧
      view (copyHeap h next o []) (copyCells next o []) = view h o := by
  refine ⟨?_, view_copy h next o⟩
  unfold view
  apply List.map_congr_left
  intro c hc
  exact writerRun_old h next o prog k c (hwf c hc)

example : (∀ c ∈ [0, 1, 2], c < 3) ∧
    view (writerRun (fun c => c + 10) 3 [0, 1, 2] [] [⟨1, 99⟩, ⟨2, 98⟩] 2) (copyCells 3 [0, 1, 2] []) = [10, 99, 98] := by
  decide

/-- The deep copy is what the statement rests on: were one component shared between the
working copy and the caller's object (position 1, e.g. the list variable that
`_write_list_variable` renames), the caller would see the mutation. -/
theorem C10_shared_copy_counterexample :
    view (writerRun (fun c => c + 10) 3 [0, 1, 2] [1] [⟨1, 99⟩] 1) [0, 1, 2] ≠ view (fun c => c + 10) [0, 1, 2] := by
  decide

/-- **… component by component.**  In particular the variables nested inside compressed
arrays (list, count, index, tie point index, interpolation parameter variables), node count /
part node count / interior ring variables, bounds and metadata constructs of the caller's
field keep their netCDF names, properties and data. -/
theorem C10_inputs_unchanged_parts (h : Heap) (next : Nat) (o : Obj) (hwf : ∀ c ∈ o, c < next)
    (prog : List Mut) (k : Nat) (p : Part) :
    partView (writerRun h next o [] prog k) o p = partView h o p := by
  unfold partView
  cases hc : o[p.pos]? with
  | none => rfl
  | some c =>
    simp only [Option.map_some]
    rw [writerRun_old h next o prog k c (hwf c (List.mem_of_getElem? hc))]

example : (∀ c ∈ List.range 16, c < 16) ∧ Part.all.length = 16 ∧
    partView (writerRun (fun c => c + 10) 16 (List.range 16) [] [renameListVariable 99, reshapeData 98] 2)
      (List.range 16) .listVar = some 13 := by decide

/-- **The list variable shared between a gathered array and its copies** (what
`GatheredArray.__init__` storing the list variable with `copy=False` would do): the writer's
`nc_set_variable(list_variable, ncvar)` then lands on the caller's object — and on nothing
else of it, which is why only a fingerprint that looks inside the compressed array sees it. -/
theorem C10_shared_list_variable_counterexample :
    let h : Heap := fun c => c + 10
    let o : Obj := List.range 16
    let h' := writerRun h 16 o [Part.listVar.pos] [renameListVariable 99] 1
    partView h' o .listVar = some 99 ∧ partView h o .listVar = some 13 ∧
      ∀ p ∈ Part.all, p ≠ .listVar → partView h' o p = partView h o p := by
  decide

/-! ## 5. The code before the repairs 7723aa6 and 22fef00 (`Ver.old`) -/

/-- **The guard before the repairs, what did hold.**  The full statement (`C10_guard_sound` with `.old`)
is false; it holds for histories without a data transplant (`set_data` with another
construct's data), when the needed file is named exactly like the target (no symbolic link in
between), in mode w and for the target only (not the external file). -/
theorem C10_old_guard_sound_partial (regs : Regs) (hregs : RegsLC regs) (ops : List Op)
    (hops : ∀ op ∈ ops, op.isTransplant = false) (r : Nat) (f : FieldM)
    (hf : (run regs ops)[r]? = some f) (fs : FS) (rq : Req) (hfm : f ∈ rq.fields)
    (hn : rq.target ∈ f.need) (hm : rq.mode = .w) :
    (writeProc .old fs rq).1 = fs ∧ (writeProc .old fs rq).2.isRefusal = true := by
  have hlc : f.LC := run_LC ops regs hregs hops f (List.mem_of_getElem? hf)
  have ho : rq.target ∈ f.origOld := FieldM.need_sub_old f hlc _ hn
  have hg : guardHits .old fs rq.fields rq.target = true := by
    simp only [guardHits, FieldM.orig, List.any_eq_true]
    exact ⟨f, hfm, by simpa using ho⟩
  have hne : rq.fields.isEmpty = false := by
    cases hfe : rq.fields with
    | nil => simp [hfe] at hfm
    | cons a l => rfl
  have ht : tgtGuard .old fs rq.fields rq.target = true := by simp [tgtGuard, hg, hne]
  unfold writeProc
  by_cases hp : rq.fault = Fault.pre
  · rw [if_pos hp]; exact ⟨rfl, rfl⟩
  · rw [if_neg hp, hm]
    dsimp only
    unfold writeW
    by_cases h1 : (fs.isfile rq.target && !rq.overwrite) = true
    · rw [if_pos h1]; exact ⟨rfl, rfl⟩
    · have h2 : ¬ extGuard .old fs rq.fields rq.external = true := by simp [extGuard]
      have h3 : openW .old fs rq.fields rq.target = none := by simp [openW, ht]
      rw [if_neg h1, if_neg h2, h3]; exact ⟨rfl, rfl⟩

example : RegsLC [fRead 0, fMem] := by unfold RegsLC; decide

/-- **Counter-example 1 (data transplant).**  `h.set_data(g.data)` with g lazily read from X,
then `cfdm.write(h, X)`: the guard looked only at `original_filenames`, which
`set_data` does not carry over; X is deleted, then the write fails because X can no longer be
read.  The code at HEAD refuses. -/
theorem C10_old_transplant_counterexample :
    let regs := run [fRead 0, fMem] [.setdata 1 .fdata 0 .fdata false false]
    let h := regs[2]?.getD default
    let rq : Req := ⟨[h], 0, .w, true, none, .none, false⟩
    h.need = [0] ∧ h.origOld = [] ∧
    (writeProc .old exFS rq).2 = .failed ∧ (writeProc .old exFS rq).1.read 0 = some [] ∧ exFS.read 0 = some [100] ∧
    (writeProc .new exFS rq).2 = .valueError := by
  decide

/-- **Counter-example 2 (symbolic link).**  The field was read through the link 4 → 0 and is
written to 0: `abspath` of the two differ, the old guard let the write delete the file. -/
theorem C10_old_symlink_counterexample :
    let rq : Req := ⟨[fRead 4], 0, .w, true, none, .none, false⟩
    (writeProc .old exFS rq).2 = .failed ∧ (writeProc .old exFS rq).1.read 4 = some [] ∧ exFS.read 4 = some [100] ∧
    (writeProc .new exFS rq).2 = .valueError := by
  decide

/-- **Counter-example 3 (external file).**  A field read from X with a new external cell
measure, written to a new file 3 with `external=` X: the nested write checks only the
external fields, X is overwritten although the field still reads from it. -/
theorem C10_old_external_counterexample :
    let regs := run [fRead 0] [.addmsr 0 "msr9" ["a0"] false]
    let g := regs[1]?.getD default
    let rq : Req := ⟨[g], 3, .w, true, some 0, .none, false⟩
    0 ∈ g.need ∧ (writeProc .old exFS rq).2 = .ok ∧ (writeProc .old exFS rq).1.read 0 = some [1000] ∧
    (writeProc .new exFS rq).2 = .valueError ∧ (writeProc .new exFS rq).1.read 0 = some [100] := by
  decide

/-- **Counter-example 4 (append).**  Mode 'a' had no guard at all: a
field is appended to the very file it is still being read from (in the implementation this
re-opens a file that is open for writing — netCDF4 raises or takes the interpreter down). -/
theorem C10_old_append_counterexample :
    let rq : Req := ⟨[fRead 0], 0, .a, true, none, .none, false⟩
    (writeProc .old exFS rq).2 = .ok ∧ (writeProc .old exFS rq).1.read 0 = some [100, 0] ∧
    (writeProc .new exFS rq).2 = .valueError ∧ (writeProc .new exFS rq).1.read 0 = some [100] := by
  decide


end Cfdm.Props.C10

namespace Cfdm.Props.C10

/-! ## 6. The aggregate covers the WHOLE component tree -/

section Tree
open Cfdm.FilesTree

/-- a file array of file `n` / an array in memory -/
def tArr (n : Nat) : Tree := .leaf .arr [n]
def tMem : Tree := .leaf .arr []
/-- an uncompressed Data read from file `n` (its own record included) -/
def tData (r : Role) (n : Nat) : Tree := .obj r (.data .none) [n] [tArr n]
/-- a variable (count, index, list, tie point index, interpolation parameter, bounds …) read from file `n` -/
def tVar (r : Role) (n : Nat) : Tree := .obj r .pd [n] [tData .data n]

/-- A latitude coordinate as the user of section 6's finding builds it: a fresh coordinate and a
fresh `Data` around a `SubsampledArray` whose tie points and tie point index variable are in memory
and whose interpolation parameter variable `w` is the one read from file 0. -/
def tSubsampled : Tree :=
  .obj .top .field [] [
    .obj .data (.data .none) [] [tMem],
    .obj .cons .pdb [] [
      .obj .data (.data .subsampled) [] [
        tMem,
        .obj .tiePointIndex .pd [] [.obj .data (.data .none) [] [tMem]],
        tVar .interpParam 0]]]

/-- A longitude coordinate whose bounds are computed from UGRID node coordinates: connectivity in
memory, node coordinates still in file 0, fresh bounds and coordinate. -/
def tNodeCoords : Tree :=
  .obj .top .field [] [
    .obj .data (.data .none) [] [tMem],
    .obj .cons .pdb [] [
      .obj .data (.data .none) [] [tMem],
      .obj .bounds .pd [] [
        .obj .data (.data .boundsFromNodes) [] [tMem, .obj .nodeCoords (.data .none) [] [tArr 0]]]]]

/-- a DSG field read from file 0 whose count variable was replaced by the one read from file 5 -/
def tRagged : Tree :=
  .obj .top .field [0] [
    .obj .data (.data .raggedIC) [0] [tArr 0, tVar .count 5, tVar .index 0],
    .obj .cons .pdb [0] [tData .data 0, .obj .bounds .pd [0] [tData .data 0], .obj .ring .pd [] [tData .data 1],
                         .obj .nodeCount .props [0] []],
    .obj .cons .pd [0] [tData .data 0],
    .obj .cons .props [] []]

/-- **need ⊆ aggregated original file names, for every well-typed component tree** (patched
aggregation): whatever a class can hold — data, bounds, interior ring, the array of a `Data`, the
count / index / list variables of ragged and gathered arrays, tie point index and interpolation
parameter variables and dependent tie points of subsampled arrays, the node coordinates behind
UGRID bounds, domain topology / cell connectivity constructs, every metadata construct — is
reached by `get_original_filenames()`.  `need` (every file-array leaf of the tree) is written
without reference to the aggregation.  No bound on depth or width. -/
theorem C10_tree_need_subset_orig (t : Tree) (h : t.wellTyped = true) : ∀ x ∈ t.need, x ∈ t.orig .new :=
  Tree.need_sub_orig .new t (Tree.closed_new_of_wellTyped t h)

example : tRagged.wellTyped = true ∧ tRagged.need = [0, 5, 0, 0, 0, 1, 0] := by decide
example : tSubsampled.wellTyped = true ∧ tNodeCoords.wellTyped = true := by decide

/-- `wellTyped` cannot be dropped: a component the classes do not have (here: data held by an
object without a data slot) is not looked at. -/
theorem C10_tree_wellTyped_needed :
    let t : Tree := .obj .top .props [] [tData .data 0]
    t.wellTyped = false ∧ 0 ∈ t.need ∧ t.orig .new = [] := by decide

/-- **The records themselves are not needed.**  Even if every recorded name of every object of the
tree has been lost (fresh holders, `Data(source())`, `Bounds(data=…)`, rebuilt arrays), the
aggregate still covers every file array below: it is computed from the arrays, not remembered. -/
theorem C10_tree_records_irrelevant (t : Tree) (h : t.wellTyped = true) : ∀ x ∈ t.need, x ∈ t.clearOwn.orig .new := by
  intro x hx
  have hw : t.clearOwn.wellTyped = true := by rw [Tree.wellTyped_clearOwn]; exact h
  have := C10_tree_need_subset_orig t.clearOwn hw x
  rw [Tree.need_clearOwn] at this
  exact this hx

example : tRagged.clearOwn.orig .new = [0, 5, 0, 0, 0, 1, 0] := by decide

/-- **… after any component-level history**: replacing any component anywhere in the tree by any
well-typed object (`set_data`, `set_bounds`, `set_interior_ring`, a rebuilt compressed array with
parts from other files), deleting components, `to_memory()` of any sub-object only, losing the
record of any object — in any order and number. -/
theorem C10_tree_histories (t : Tree) (ops : List TOp) (h : t.wellTyped = true) :
    ∀ x ∈ (t.run ops).need, x ∈ (t.run ops).orig .new :=
  C10_tree_need_subset_orig _ (Tree.wellTyped_run ops t h)

/-- to_memory of the field's data only, forget the field's record, transplant an interpolation
parameter variable read from file 7 into … nothing that can hold it (rejected), then a count
variable from file 7 into the data: files 7, 0 (index, coordinates) and 1 are still needed -/
example : (tRagged.run [.toMem [0], .forget [], .setKid [1] (tVar .interpParam 7), .setKid [0] (tVar .count 7)]).need
    = [7, 0, 0, 1, 0] := by decide

/-- **The code as it stands**: the same holds for trees without interpolation parameter variables
and node coordinates. -/
theorem C10_tree_old_partial (t : Tree) (h : t.wellTyped = true) (hh : t.noHidden = true) :
    ∀ x ∈ t.need, x ∈ t.orig .old := by
  rw [Tree.orig_old_eq_new t hh]
  exact C10_tree_need_subset_orig t h

example : tRagged.noHidden = true := by decide

/-- **Counter-example (interpolation parameters).**  `Data.get_interpolation_parameters` asks the
array for a method it does not have and returns its default: the interpolation parameter variable
— lazily read from file 0, and even recording it — is never visited, the field reports no
original file at all, and `cfdm.write(h, <file 0>)` deletes the file. -/
theorem C10_tree_old_interp_param_counterexample :
    tSubsampled.wellTyped = true ∧ tSubsampled.need = [0] ∧ tSubsampled.orig .old = [] ∧
      tSubsampled.orig .new = [0, 0, 0] := by decide

/-- **Counter-example (node coordinates).**  `BoundsFromNodesArray.get_filenames()` reports the
connectivity array only. -/
theorem C10_tree_old_node_coordinates_counterexample :
    tNodeCoords.wellTyped = true ∧ tNodeCoords.need = [0] ∧ tNodeCoords.orig .old = [] ∧
      tNodeCoords.orig .new = [0] := by decide

end Tree

/-! ## 7. The refusals are decided on the name that is opened -/

section Path
open Cfdm.FilesPath

/-- entries: 0 = X (inode 0), 1 = Y (inode 1), 2 = Z (inode 2), 4 → 5 → 0 (a chain of two symbolic
links to X), 6 = a hard link to X (inode 0), 7 = a directory, 8 → 9 (dangling), everything else absent -/
def exOS : OS where
  ent := fun e =>
    if e = 0 then some (.file 0) else if e = 1 then some (.file 1) else if e = 2 then some (.file 2)
    else if e = 4 then some (.link 5) else if e = 5 then some (.link 0) else if e = 6 then some (.file 0)
    else if e = 7 then some .dir else if e = 8 then some (.link 9) else none
  store := fun i => [100 + i]
  next := 3

/-- strings: `n` names entry `n`, except 10 = another spelling of X (`./x.nc`, `sub/../x.nc`,
`dirlink/x.nc`); `expand` is the identity except 20 (`$A`) ↦ 21 (`$B/x.nc`: the value of `A`
contains a `$`) ↦ 0 (X) -/
def exEnv : Env where
  expand := fun s => if s = 20 then 21 else if s = 21 then 0 else s
  entOf := fun s => if s = 10 then 0 else s
  fuel := 3

theorem exOS_settled : Settled exOS exEnv.fuel := by
  intro e
  by_cases h4 : e = 4
  · subst h4; decide
  · by_cases h5 : e = 5
    · subst h5; decide
    · by_cases h8 : e = 8
      · subst h8; decide
      · have hs : exOS.step e = e := by
          simp only [OS.step, exOS]
          split
          · rename_i t ht
            repeat' split at ht
            all_goals simp_all
          · rfl
        rw [walk_of_terminal exOS e hs]
        exact hs

theorem exOS_inoWF : InoWF exOS := by
  intro e i h
  simp only [exOS] at h ⊢
  show i < 3
  repeat' split at h
  all_goals (try simp at h)
  all_goals (subst h; decide)

/-- a field read from X under the spelling 10, still lazy -/
def pRead : FieldA := { need := [10], orig := [10] }
def pMem : FieldA := { need := [], orig := [] }
/-- … with an external cell measure held in memory -/
def pReadExt : FieldA := { need := [10], orig := [10], ext := [⟨[], []⟩] }

/-- **A refusal is pure** (both versions, whatever `expand`, `entOf` and the link structure are). -/
theorem C10_path_refusal_pure (v : Ver) (env : Env) (os : OS) (rq : Req)
    (h : (writeP v env os rq).out.isRefusal = true) : (writeP v env os rq).os = os :=
  writeP_refusal_pure v env os rq h

example : (writeP .new exEnv exOS ⟨[pRead], 4, .w, true, none, .none, false⟩).out = .valueError := by decide

/-- **overwrite=False** is decided on the expanded name, through any chain of links: if that
name resolves to a regular file, nothing changes. -/
theorem C10_path_no_overwrite (v : Ver) (env : Env) (os : OS) (rq : Req) (hm : rq.mode = .w) (ho : rq.overwrite = false)
    (he : isfile env os (env.expand rq.target) = true) :
    (writeP v env os rq).os = os ∧ (writeP v env os rq).out.isRefusal = true := by
  unfold writeP
  split
  · exact ⟨rfl, rfl⟩
  · simp only [hm]
    unfold writeW
    simp [he, ho, Outcome.isRefusal]

example : isfile exEnv exOS (exEnv.expand 4) = true ∧
    (writeP .new exEnv exOS ⟨[pMem], 4, .w, false, none, .none, false⟩).out = .osError := by decide

/-- **Every name handed to `os.remove` / `Dataset(…, 'w')` / `Dataset(…, 'a')` has been checked
against every field passed by the caller** (patched code), in the state of the file system in
which the write began: the expanded target, and for the external file the name the nested
`write` opens after ITS expansion. -/
theorem C10_path_opened_names_checked (env : Env) (os : OS) (rq : Req) (hne : rq.fields ≠ []) :
    ∀ ev ∈ (writeP .new env os rq).log, ∀ s, ev.opened = some s → hits .new env os rq.fields s = false := by
  intro ev hev s hs
  rcases writeP_opened_names .new env os rq ev hev s hs with ⟨h1, h2⟩ | ⟨e, he, h1, h2⟩
  · subst h1
    have : rq.fields.isEmpty = false := by
      cases hf : rq.fields with
      | nil => exact absurd hf hne
      | cons a l => rfl
    simpa [this] using h2
  · subst h1
    simpa [extGuard, he, extCheckName] using h2

example : (writeP .new exEnv exOS ⟨[pMem, pRead], 2, .w, true, some 1, .none, false⟩).log =
    [.isfile 2, .guard 1, .guard 2, .remove 2, .create 2] := by decide

/-- **Needed files are intact (patched code)**, whatever the spelling of any name, the expansion
of `~` and `$VAR` (idempotent or not), chains of symbolic links of any depth up to what the OS
follows, hard links, directories and dangling links in the way, the mode, the options, the
external file, and whether the write succeeds or fails at any step: every name from which a
construct being written still has unread data — and that its aggregate reports, which section 6
proves for every component tree — reads back exactly what it held. -/
theorem C10_path_needed_intact (env : Env) (os : OS) (rq : Req) (hS : Settled os env.fuel) (hwf : InoWF os)
    (f : FieldA) (n : Raw) (hf : f ∈ rq.fields) (hn : n ∈ f.need) (hcov : n ∈ f.orig) :
    readName env (writeP .new env os rq).os n = readName env os n := by
  have _ := hn
  have hne : rq.fields.isEmpty = false := by
    cases hfe : rq.fields with
    | nil => simp [hfe] at hf
    | cons a l => rfl
  apply needed_intact_core .new env os rq hS hwf n
  · intro h
    simp only [hne, Bool.not_false, Bool.true_and] at h
    exact sameFile_of_mem_hits_false .new env os rq.fields f n _ hf hcov h
  · intro e he h
    simp only [extGuard, he, extCheckName] at h
    exact sameFile_of_mem_hits_false .new env os rq.fields f n _ hf hcov h

/-- appending to the hard link 6 of X, writing through the chain 4 → 5 → 0, `external=` `$A` -/
example : Settled exOS exEnv.fuel ∧ InoWF exOS ∧ pRead ∈ [pMem, pRead] ∧ (10 : Nat) ∈ pRead.need ∧
    (writeP .new exEnv exOS ⟨[pMem, pRead], 6, .a, true, none, .none, false⟩).out = .valueError ∧
    (writeP .new exEnv exOS ⟨[pMem, pRead], 4, .w, true, none, .none, false⟩).out = .valueError ∧
    (writeP .new exEnv exOS ⟨[pMem, pReadExt], 3, .w, true, some 20, .none, false⟩).out = .valueError ∧
    (writeP .new exEnv exOS ⟨[pMem, pReadExt], 2, .w, true, some 1, .emit 1, false⟩).out = .failed :=
  ⟨exOS_settled, exOS_inoWF, by decide, by decide, by decide, by decide, by decide, by decide⟩

/-- **Sections 6 and 7 together**: constructs given as component trees, written by the patched
code — every file array anywhere in any of them is intact afterwards. -/
theorem C10_tree_write_safe (env : Env) (os : OS) (hS : Settled os env.fuel) (hwf : InoWF os)
    (ts : List FilesTree.Tree) (hts : ∀ t ∈ ts, t.wellTyped = true)
    (target : Raw) (mode : Mode) (overwrite : Bool) (external : Option Raw) (fault : Fault) (omitD : Bool)
    (t : FilesTree.Tree) (ht : t ∈ ts) (n : Raw) (hn : n ∈ t.need) :
    let rq : Req := ⟨ts.map (fun t => { need := t.need, orig := t.orig .new, ext := [] }), target, mode, overwrite,
                     external, fault, omitD⟩
    readName env (writeP .new env os rq).os n = readName env os n := by
  intro rq
  exact C10_path_needed_intact env os rq hS hwf { need := t.need, orig := t.orig .new, ext := [] } n
    (List.mem_map.2 ⟨t, ht, rfl⟩) hn (C10_tree_need_subset_orig t (hts t ht) n hn)

/-- **Which files can change at all** (both versions; success or failure at any step): only the
entry the expanded target names, the entry it resolved to, and the same two for the name the
nested write of the external file opens; and only inodes that did not exist or the one the
target resolved to. -/
theorem C10_path_footprint (v : Ver) (env : Env) (os : OS) (rq : Req) :
    let names := [env.expand rq.target] ++ (match rq.external with | some e => [env.expand (env.expand e)] | none => [])
    (∀ m, (∀ s ∈ names, m ≠ env.entOf s ∧ m ≠ final env os s) → (writeP v env os rq).os.ent m = os.ent m) ∧
    (∀ i, i < os.next → (∀ s ∈ names, inoOf env os s ≠ some i) → (writeP v env os rq).os.store i = os.store i) := by
  intro names
  obtain ⟨M, I, hF, hM, hI⟩ := writeP_frame_gen v env os rq (fun s => s ∈ names)
    (fun _ => by simp [names])
    (fun e he _ => by simp [names, he])
  refine ⟨?_, ?_⟩
  · intro m hm
    apply hF.ent
    intro hmM
    obtain ⟨s, hs, h⟩ := hM m hmM
    rcases h with h | h
    · exact (hm s hs).1 h
    · exact (hm s hs).2 h
  · intro i hi hni
    apply hF.store i hi
    intro hiI
    rcases hI i hiI with h | ⟨s, hs, h⟩
    · exact absurd hi (Nat.not_lt.2 h)
    · exact hni s hs h

/-- a write that fails while the second field is emitted, to 3 (absent) -/
example : (writeP .new exEnv exOS ⟨[pMem, pMem], 3, .w, true, none, .emit 1, false⟩).out = .failed ∧
    (writeP .new exEnv exOS ⟨[pMem, pMem], 3, .w, true, none, .emit 1, false⟩).os.ent 3 = some (.file 3) ∧
    (writeP .new exEnv exOS ⟨[pMem, pMem], 3, .w, true, none, .emit 1, false⟩).os.store 3 = [0] := by decide

/-- **The code as it stands, what does hold**: the same, when no two directory entries share an
inode (no hard links) and expanding the expanded `external=` name changes nothing. -/
theorem C10_path_old_needed_intact_partial (env : Env) (os : OS) (rq : Req) (hS : Settled os env.fuel) (hwf : InoWF os)
    (hone : ∀ a b i, os.ent a = some (.file i) → os.ent b = some (.file i) → a = b)
    (hidem : ∀ e, rq.external = some e → env.expand (env.expand e) = env.expand e)
    (f : FieldA) (n : Raw) (hf : f ∈ rq.fields) (hn : n ∈ f.need) (hcov : n ∈ f.orig) :
    readName env (writeP .old env os rq).os n = readName env os n := by
  have _ := hn
  have hne : rq.fields.isEmpty = false := by
    cases hfe : rq.fields with
    | nil => simp [hfe] at hf
    | cons a l => rfl
  -- without hard links, equal inodes mean equal final entries
  have up : ∀ s, sameFile .old env os n s = false → sameFile .new env os n s = false := by
    intro s hs
    cases hnew : sameFile .new env os n s with
    | false => rfl
    | true =>
      exfalso
      have hfin : (final env os n == final env os s) = false := by simpa [sameFile] using hs
      simp only [sameFile, hfin, Bool.false_or, Bool.and_eq_true, beq_iff_eq] at hnew
      obtain ⟨⟨_, hsome⟩, heq⟩ := hnew
      obtain ⟨i, hi⟩ := Option.isSome_iff_exists.1 hsome
      have h1 := inoOf_some hi
      have h2 := inoOf_some (heq ▸ hi)
      have := hone _ _ _ h1 h2
      simp [this] at hfin
  apply needed_intact_core .old env os rq hS hwf n
  · intro h
    simp only [hne, Bool.not_false, Bool.true_and] at h
    exact up _ (sameFile_of_mem_hits_false .old env os rq.fields f n _ hf hcov h)
  · intro e he h
    simp only [extGuard, he, extCheckName] at h
    rw [hidem e he]
    exact up _ (sameFile_of_mem_hits_false .old env os rq.fields f n _ hf hcov h)

/-- **Counter-example (hard link, mode 'a').**  X has a second name 6.  A field lazily read from
X is appended to 6: `realpath` of the two names differ, the guard lets the request through, and
the inode the field still reads from is opened for writing and altered.  The patched guard also
compares inodes and refuses.  (In mode 'w' the same request is harmless as the code stands —
`os.remove` drops the name, the inode lives on under X; the patched guard refuses it all the same.) -/
theorem C10_path_old_hard_link_append_counterexample :
    let rq : Req := ⟨[pRead], 6, .a, true, none, .none, false⟩
    (writeP .old exEnv exOS rq).out = .ok ∧ readName exEnv (writeP .old exEnv exOS rq).os 10 = some [100, 0] ∧
    readName exEnv exOS 10 = some [100] ∧ (writeP .new exEnv exOS rq).out = .valueError ∧
    (writeP .old exEnv exOS { rq with mode := .w }).out = .ok ∧
    readName exEnv (writeP .old exEnv exOS { rq with mode := .w }).os 10 = some [100] ∧
    (writeP .new exEnv exOS { rq with mode := .w }).out = .valueError := by
  decide

/-- **Counter-example (the external name is expanded twice).**  `external='$A'` with `A='$B/x.nc'`:
the guard looks at the once-expanded name `$B/x.nc` (a file that does not exist), the nested
`write` expands again and overwrites X while the field passed in still reads from it; the write
reports success.  `hidem` of the partial theorem cannot be dropped. -/
theorem C10_path_old_external_expanded_twice_counterexample :
    let rq : Req := ⟨[pReadExt], 3, .w, true, some 20, .none, false⟩
    exEnv.expand (exEnv.expand 20) ≠ exEnv.expand 20 ∧
    (writeP .old exEnv exOS rq).out = .ok ∧ readName exEnv (writeP .old exEnv exOS rq).os 10 = some [1000] ∧
    readName exEnv exOS 10 = some [100] ∧ (writeP .new exEnv exOS rq).out = .valueError := by
  decide

/-- **What the property does not promise: a construct that is NOT passed to the write.**  `g`
lazily reads X but is not among the fields written; `cfdm.write(h, X)` with `h` in memory
overwrites X (both versions — there is nothing the guard could look at) and `g` has lost its
data.  The property protects the inputs of the write only. -/
theorem C10_bystander_not_protected :
    let g : FieldA := pRead
    let rq : Req := ⟨[pMem], 0, .w, true, none, .none, false⟩
    g ∉ rq.fields ∧ (writeP .new exEnv exOS rq).out = .ok ∧ (writeP .old exEnv exOS rq).out = .ok ∧
    readable exEnv exOS (writeP .new exEnv exOS rq).os g = false := by
  decide

end Path

end Cfdm.Props.C10
