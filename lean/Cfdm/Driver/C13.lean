import Cfdm.Driver.Parse
import Cfdm.Model.RefCheck
/-!
Driver for C13.

`C13.read old=0|1 g=<attrs> dims=[d1,d2] vars=<var>&<var>… dvs=[v1,v2]`
  attrs = `name~value;name~value` (or `-`), var = `name|d1,d2|k|attrs`, k ∈ n s c,
  values are percent-encoded (no blanks).
  → `ok closed=1 v1=[elem,…]:R{ncvar|attribute|reason;…} v2=[…]:N`  (the entries of the field's
    report as a sorted set; N = the report is empty) or
    `raised:<Err> closed=0|1`
`C13.px s=<value>`     → `_parse_x`:  `[k:v1,v2;k2:v3]`
`C13.ws s=<value>`     → `_split_string_by_white_space`
`C13.cm old=0|1 s=<value>` → `_parse_cell_methods`: `n=<count> rep=0|1` or `raised:IndexError`
-/
namespace Cfdm.Driver.C13
open Cfdm.Driver Cfdm.RefCheck

def hexVal (c : Char) : Option Nat :=
  if c.isDigit then some (c.toNat - '0'.toNat)
  else if 'A' ≤ c && c ≤ 'F' then some (c.toNat - 'A'.toNat + 10)
  else if 'a' ≤ c && c ≤ 'f' then some (c.toNat - 'a'.toNat + 10) else none

def pctDecodeAux : List Char → Option (List Char)
  | [] => some []
  | '%' :: a :: b :: rest => do
    let x ← hexVal a
    let y ← hexVal b
    let r ← pctDecodeAux rest
    some (Char.ofNat (16 * x + y) :: r)
  | '%' :: _ => none
  | c :: rest => (pctDecodeAux rest).map (c :: ·)

def pctDecode (s : String) : Option String := (pctDecodeAux s.toList).map String.ofList

def parseAttrs (s : String) : Option (List (String × String)) :=
  if s == "-" || s.isEmpty then some [] else
  (s.splitOn ";").mapM (fun a => match a.splitOn "~" with
    | [k, v] => (pctDecode v).map (fun v => (k, v))
    | _ => none)

def parseNames (s : String) : List String := if s.isEmpty then [] else s.splitOn ","

def parseVar (s : String) : Option NcVar :=
  match s.splitOn "|" with
  | [n, d, k, a] => do
    let kind ← match k with | "n" => some Kind.num | "s" => some Kind.str | "c" => some Kind.chr | _ => none
    let attrs ← parseAttrs a
    if n.isEmpty then none else some ⟨n, parseNames d, kind, attrs⟩
  | _ => none

def parseOld (kv : KV) : Option Cfg :=
  match kv.get? "old" with
  | none => some patched
  | some "0" => some patched
  | some "1" => some coded
  | some "h" => some head
  | _ => none

def parseFile (kv : KV) : Option NcFile := do
  let g ← parseAttrs (← kv.get? "g")
  let dims := parseNames (← stripBrackets (← kv.get? "dims"))
  let vs ← kv.get? "vars"
  let vars ← if vs == "-" then some [] else (vs.splitOn "&").mapM parseVar
  some ⟨g, dims, vars⟩

def insertSorted (x : String) : List String → List String
  | [] => [x]
  | y :: ys => if x ≤ y then x :: y :: ys else y :: insertSorted x ys

def sortStrings (l : List String) : List String := l.foldr insertSorted []

def blanks (s : String) : String := String.ofList (s.toList.map (fun c => if c == ' ' then '_' else c))

/-- One entry of the report: `ncvar|attribute key|reason` (blanks as `_`, no attribute as `-`). -/
def showMsg (m : Msg) : String :=
  blanks m.var ++ "|" ++ (if m.attr.isEmpty then "-" else blanks m.attr) ++ "|" ++ blanks m.reason

def dedup : List String → List String
  | [] => []
  | x :: xs => if xs.contains x then dedup xs else x :: dedup xs

/-- The report as a sorted set of entries. -/
def showReport (ms : List Msg) : String :=
  if ms.isEmpty then "N" else "R{" ++ String.intercalate ";" (sortStrings (dedup (ms.map showMsg))) ++ "}"

def showField (r : List (String × FieldOut)) (dv : String) : String :=
  match r.lookup dv with
  | none => dv ++ "=absent"
  | some o => dv ++ "=[" ++ String.intercalate "," (sortStrings o.elems) ++ "]:" ++ showReport o.msgs

def showOutcome (cfg : Cfg) (F : NcFile) (dvs : List String) : String :=
  let o := readFile cfg F
  let c := if o.closed then "1" else "0"
  match o.result with
  | .error e => s!"raised:{e.name} closed={c}"
  | .ok r => s!"ok closed={c} " ++ String.intercalate " " (dvs.map (showField r))

/-- `old=2`: `<HEAD + the proposed patches> || <HEAD>`; `old=3` (diagnostics) adds
`|| <HEAD before 7931fa5> || <the code before any C13 repair>`. -/
def runRead (kv : KV) : String :=
  match (do
    let F ← parseFile kv
    let dvs := parseNames (← stripBrackets (← kv.get? "dvs"))
    some (F, dvs)) with
  | none => "bad-op"
  | some (F, dvs) =>
    match kv.get? "old" with
    | some "2" => showOutcome patched F dvs ++ " || " ++ showOutcome head F dvs
    | some "3" => showOutcome patched F dvs ++ " || " ++ showOutcome head F dvs ++ " || " ++
        showOutcome leakyVcrs F dvs ++ " || " ++ showOutcome coded F dvs
    | _ => match parseOld kv with
      | none => "bad-op"
      | some cfg => showOutcome cfg F dvs

def runPx (kv : KV) : String :=
  match (kv.get? "s").bind pctDecode with
  | none => "bad-op"
  | some s => "[" ++ String.intercalate ";" ((parseX s).map (fun x => x.1 ++ ":" ++ String.intercalate "," x.2)) ++ "]"

def runWs (kv : KV) : String :=
  match (kv.get? "s").bind pctDecode with
  | none => "bad-op"
  | some s => "[" ++ String.intercalate "," (splitWS s) ++ "]"

def runCm (kv : KV) : String :=
  match parseOld kv, (kv.get? "s").bind pctDecode with
  | some cfg, some s =>
    (match parseCellMethods cfg s with
      | .ok (n, rep) => s!"n={n} rep={if rep then 1 else 0}"
      | .error e => s!"raised:{e.name}")
  | _, _ => "bad-op"

def run (sub : String) (kv : KV) : String :=
  match sub with
  | "read" => runRead kv
  | "px" => runPx kv
  | "ws" => runWs kv
  | "cm" => runCm kv
  | _ => "bad-op"

end Cfdm.Driver.C13
