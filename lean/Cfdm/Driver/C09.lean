import Cfdm.Driver.Parse
import Cfdm.Model.Sharing
/-
C09 driver.  `C09.wr fields=<enc> tab=<enc> [orders=i+j,j+i,…]` → the dataset the model writes for the
fields in that order, what the model reads back from it, and the flags of the old (unpatched) code.

Encoding (no blanks; `_` = None; blanks inside names are `%20`):
  fields   F|F|…
  F        dom;sig;ncvar;dflt;AXES;CONS;GMS;VREFS;CMS;DATAAXES      (DATAAXES = i+j+…, the data axes in order)
  AXES     size:ncdim:inData:unlimited , …
  CONS     kind:sig:a+a:BOUNDS:ncvar:dflt:str , …     BOUNDS = _ or bsig/nv/ncvar/ncdim
  GMS      params:datum:c+c:ncvar:name , …
  VREFS    owner:datum:term~idx+term~idx , …
  CMS      i0+nname:method , …                          (axis index `i<k>` or free name `n<name>`)
  tab      params~name+name , …
-/
namespace Cfdm.Driver.C09
open Cfdm.Driver Cfdm.Sharing

def unesc (s : String) : String := s.replace "%20" " "
def esc (s : String) : String := s.replace " " "%20"

def optName (s : String) : Option (Option Name) := if s == "_" then some none else some (some (unesc s))
def optNat (s : String) : Option (Option Nat) := if s == "_" then some none else s.toNat?.map some
def bool? (s : String) : Option Bool := if s == "1" then some true else if s == "0" then some false else none

def sepList {α} (sep : String) (f : String → Option α) (s : String) : Option (List α) :=
  if s == "" || s == "_" then some [] else (s.splitOn sep).mapM f

def kind? : String → Option Kind
  | "dim" => some .dim | "aux" => some .aux | "dan" => some .dan | "msr" => some .msr | "fan" => some .fan
  | _ => none

def kindStr : Kind → String
  | .dim => "dim" | .aux => "aux" | .dan => "dan" | .msr => "msr" | .fan => "fan" | .bnd => "bnd" | .gm => "gm"
  | .scalarDim => "sdim" | .scalarAux => "saux" | .data => "data"

def parseBounds (s : String) : Option (Option BSpec) :=
  if s == "_" then some none else
  match s.splitOn "/" with
  | [bs, nv, v, d] => do
    let bs ← bs.toNat?; let nv ← nv.toNat?; let v ← optName v; let d ← optName d
    some (some { sig := bs, nv := nv, ncvar := v, ncdim := d })
  | _ => none

def parseCons (s : String) : Option Cons :=
  match s.splitOn ":" with
  | [k, sg, ax, b, v, d, st] => do
    let k ← kind? k; let sg ← sg.toNat?; let ax ← sepList "+" String.toNat? ax
    let b ← parseBounds b; let v ← optName v; let d ← optName d; let st ← bool? st
    some { kind := k, sig := sg, axes := ax, bounds := b, ncvar := v, dflt := d, str := st }
  | _ => none

def parseAxis (s : String) : Option AAxis :=
  match s.splitOn ":" with
  | [sz, d, i, u] => do
    let sz ← sz.toNat?; let d ← optName d; let i ← bool? i; let u ← bool? u
    some { size := sz, ncdim := d, inData := i, unlimited := u }
  | _ => none

def parseGM (s : String) : Option GM :=
  match s.splitOn ":" with
  | [p, d, c, v, n] => do
    let p ← p.toNat?; let d ← optNat d; let c ← sepList "+" String.toNat? c; let v ← optName v
    some { params := p, datum := d, coords := c, ncvar := v, name := unesc n }
  | _ => none

def parseTerm (s : String) : Option (String × Nat) :=
  match s.splitOn "~" with
  | [t, i] => i.toNat?.map (fun i => (unesc t, i))
  | _ => none

def parseVRef (s : String) : Option VRef :=
  match s.splitOn ":" with
  | [o, d, t] => do
    let o ← optNat o; let d ← optNat d; let t ← sepList "+" parseTerm t
    some { owner := o, datum := d, terms := t }
  | _ => none

def parseCMAxis (s : String) : Option (Nat ⊕ Name) :=
  if s.startsWith "i" then (s.drop 1).toString.toNat?.map Sum.inl
  else if s.startsWith "n" then some (Sum.inr (unesc (s.drop 1).toString))
  else none

def parseCM (s : String) : Option (List (Nat ⊕ Name) × Nat) :=
  match s.splitOn ":" with
  | [a, m] => do
    let a ← sepList "+" parseCMAxis a; let m ← m.toNat?
    some (a, m)
  | _ => none

def parseField (s : String) : Option AField :=
  match s.splitOn ";" with
  | [dom, sg, v, d, ax, cs, gms, vrs, cms, dax] => do
    let dom ← bool? dom; let sg ← sg.toNat?; let v ← optName v; let d ← optName d
    let ax ← sepList "," parseAxis ax; let cs ← sepList "," parseCons cs
    let gms ← sepList "," parseGM gms; let vrs ← sepList "," parseVRef vrs; let cms ← sepList "," parseCM cms
    let dax ← sepList "+" String.toNat? dax
    -- every index must be in range
    if dax.all (· < ax.length) && dax.eraseDups.length == dax.length && cs.all (fun c => c.axes.all (· < ax.length)) && gms.all (fun g => g.coords.all (· < cs.length))
       && vrs.all (fun r => (match r.owner with | some o => o < cs.length | none => true) && r.terms.all (·.2 < cs.length))
       && cms.all (fun c => c.1.all (fun a => match a with | .inl i => i < ax.length | .inr _ => true))
    then some { isDomain := dom, sig := sg, ncvar := v, dflt := d, axes := ax, dataAxes := dax, cons := cs, gms := gms, vrefs := vrs, cms := cms }
    else none
  | _ => none

def parseTabRow (s : String) : Option (Nat × List Name) :=
  match s.splitOn "~" with
  | [p, ns] => do
    let p ← p.toNat?; let ns ← sepList "+" (fun x => some (unesc x)) ns
    some (p, ns)
  | _ => none

def join (sep : String) (l : List String) : String := String.intercalate sep l
def nats (sep : String) (l : List Nat) : String := join sep (l.map toString)
def oName : Option Name → String
  | none => "_" | some n => esc n
def pairs (l : List (String × Name)) : String := join "+" (l.map (fun p => esc p.1 ++ "~" ++ esc p.2))

def showVar (v : Var) : String :=
  join ";" [esc v.name, join "+" (v.dims.map esc), kindStr v.val.kind, nats "+" v.val.sig, oName v.bounds, pairs v.ft, pairs v.bft,
    (if v.isDomain then "2" else if v.isData then "1" else "0"), join "+" (v.coords.map esc), join "+" (v.measures.map esc),
    join "+" (v.ancils.map esc), join "+" (v.gms.map (fun g => join "~" ((g.1 :: g.2).map esc))), (if v.gmMulti then "1" else "0"),
    join "+" (v.cms.map (fun c => join "~" (c.1.map esc) ++ "^" ++ toString c.2)), join "+" (v.domDims.map esc),
    (if v.str then "1" else "0")]

def showFile (s : St) : String :=
  "dims=" ++ join "," (s.dimSizes.map (fun d => esc d.1 ++ ":" ++ toString d.2)) ++ " vars=" ++ join "|" (s.vars.map showVar)

def showCMAxis : Nat ⊕ Name → String
  | .inl i => "i" ++ toString i
  | .inr n => "n" ++ esc n

def showRCons (c : RCons) : String :=
  join "~" [kindStr c.kind, nats "." c.sig, nats "." c.axes, esc c.ncvar, toString c.key]

def showDatum : Option (List Nat) → String
  | none => "_" | some d => nats "." d

def showRRef (r : RRef) : String :=
  join "~" [(if r.vertical then "v" else "g"), nats "." r.params, showDatum r.datum, nats "." r.coords,
    join "." (r.terms.map (fun t => esc t.1 ++ "^" ++ esc t.2)), oName r.ncvar]

def showRField (f : RField) : String :=
  join ";" [esc f.ncvar, (if f.isDomain then "1" else "0"), nats "." f.sig,
    join "+" (f.axes.map (fun a => toString a.1 ++ "~" ++ oName a.2)), join "+" (f.cons.map showRCons),
    join "+" (f.refs.map showRRef), join "+" (f.cms.map (fun c => join "~" (c.1.map showCMAxis) ++ "^" ++ toString c.2))]

def b01 (b : Bool) : String := if b then "1" else "0"

/-- the flags of the code as it is for one order: D1 reader vertical_crs, D2 scalar string cache, D4 blank names,
D5 dimension reused twice, D8 data variable registered; and the open finding (formula_terms overwritten) -/
def flagsOf (fs : List AField) (tab : GMTable) : List Bool :=
  let s := writeAll fs
  let r := readAllWith true tab s.file
  let rOld := readAllWith false tab s.file
  [rOld.fields != r.fields, rOld.err, (writeAllOldNames fs).dup, (writeAllOldDims fs).vars != s.vars,
   (writeAllOldData fs).vars != s.vars, s.ftConflict]

def orFlags (a b : List Bool) : List Bool := (a.zip b).map (fun p => p.1 || p.2)

def runWr (kv : KV) : String :=
  match (do
    let fs ← sepList "|" parseField (← kv.get? "fields")
    let tab ← sepList "," parseTabRow ((kv.get? "tab").getD "_")
    -- orders: `0+1,1+0` (the first one is the one written out); default: as given
    let orders ← match kv.get? "orders" with
      | none => some [List.range fs.length]
      | some o => sepList "," (sepList "+" String.toNat?) o
    if orders.isEmpty || !orders.all (fun (o : List Nat) => o.all (· < fs.length)) then none
    else some (orders.map (fun (o : List Nat) => o.filterMap (fs[·]?)), tab)) with
  | none => "bad-op"
  | some (orders, tab) =>
    let fs := orders.headD []
    let s := writeAll fs
    let r := readAllWith true tab s.file
    let fl := orders.foldl (fun a o => orFlags a (flagsOf o tab)) [false, false, false, false, false, false]
    s!"ok={b01 s.ok} ft={b01 (fl.getD 5 false)} dup={b01 s.dup} old={join "" ((fl.take 5).map b01)} {showFile s} read={join "|" (r.fields.map showRField)} rerr={b01 r.err}"

def run (sub : String) (kv : KV) : String :=
  match sub with
  | "wr" => runWr kv
  | _ => "bad-op"

end Cfdm.Driver.C09
