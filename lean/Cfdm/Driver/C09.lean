import Cfdm.Driver.Parse
import Cfdm.Model.Sharing
import Cfdm.Model.SharedProps
import Cfdm.Model.GroupProps
/-
C09 driver.  `C09.wr fields=<enc> tab=<enc> [orders=i+j,j+i,…]` → the dataset the model writes for the
fields in that order, what the model reads back from it, and the flags of the old (unpatched) code.

Encoding (no blanks; `_` = None; blanks inside names are `%20`):
  fields   F|F|…
  F        dom;sig;ncvar;dflt;AXES;CONS;GMS;VREFS;CMS;DATAAXES      (DATAAXES = i+j+…, the data axes in order)
  AXES     size:ncdim:inData:unlimited , …
  CONS     kind:sig:a+a:BOUNDS:ncvar:dflt:str , …     BOUNDS = _ or bsig/nv/ncvar/ncdim
  GMS      params:datum:c+c:ncvar:name , …
  VREFS    owner:datum:term~idx+term~idx , …
  CMS      i0+nname:method , …                          (axis index `i<k>` or free name `n<name>`)
  tab      params~name+name , …

`C09.gp descr=a,b glob=a,b var=a fd=k~v,… fields=F|F|… orders=0+1,1+0` with
`F = props/ncg[/path/gattrs]` (`props` = k~v,…; `ncg`, `gattrs` = k~_ (flag) or k~v; `path` = g+sub or `_`) → for
the first order `glob=k~v,… groups=g+sub:k~v,…;… vars=k~v,…|… read=k~v,…|… perm=0/1 old=0/1`: the global
attributes written (other than Conventions), the attributes of every group that holds a field, the property
attributes of every data variable and the properties every field is read back with (both in the ORIGINAL numbering
of the fields, sorted by name, Conventions left out), whether every listed order gives the same globals, group
attributes and read-back properties, and whether the code as it is (without
fixes/C09-group-attribute-placement.patch) would do otherwise in some order — then followed by ` OLD glob=… groups=…
vars=… read=…`, what that code does for the first order.  Names and value tokens are plain identifiers.
-/
namespace Cfdm.Driver.C09
open Cfdm.Driver Cfdm.Sharing

def unesc (s : String) : String := s.replace "%20" " "
def esc (s : String) : String := s.replace " " "%20"

def optName (s : String) : Option (Option Name) := if s == "_" then some none else some (some (unesc s))
def optNat (s : String) : Option (Option Nat) := if s == "_" then some none else s.toNat?.map some
def bool? (s : String) : Option Bool := if s == "1" then some true else if s == "0" then some false else none

def sepList {α} (sep : String) (f : String → Option α) (s : String) : Option (List α) :=
  if s == "" || s == "_" then some [] else (s.splitOn sep).mapM f

def kind? : String → Option Kind
  | "dim" => some .dim | "aux" => some .aux | "dan" => some .dan | "msr" => some .msr | "fan" => some .fan
  | _ => none

def kindStr : Kind → String
  | .dim => "dim" | .aux => "aux" | .dan => "dan" | .msr => "msr" | .fan => "fan" | .bnd => "bnd" | .gm => "gm"
  | .scalarDim => "sdim" | .scalarAux => "saux" | .data => "data"

def parseBounds (s : String) : Option (Option BSpec) :=
  if s == "_" then some none else
  match s.splitOn "/" with
  | [bs, nv, v, d] => do
    let bs ← bs.toNat?; let nv ← nv.toNat?; let v ← optName v; let d ← optName d
    some (some { sig := bs, nv := nv, ncvar := v, ncdim := d })
  | _ => none

def parseCons (s : String) : Option Cons :=
  match s.splitOn ":" with
  | [k, sg, ax, b, v, d, st] => do
    let k ← kind? k; let sg ← sg.toNat?; let ax ← sepList "+" String.toNat? ax
    let b ← parseBounds b; let v ← optName v; let d ← optName d; let st ← bool? st
    some { kind := k, sig := sg, axes := ax, bounds := b, ncvar := v, dflt := d, str := st }
  | _ => none

def parseAxis (s : String) : Option AAxis :=
  match s.splitOn ":" with
  | [sz, d, i, u] => do
    let sz ← sz.toNat?; let d ← optName d; let i ← bool? i; let u ← bool? u
    some { size := sz, ncdim := d, inData := i, unlimited := u }
  | _ => none

def parseGM (s : String) : Option GM :=
  match s.splitOn ":" with
  | [p, d, c, v, n] => do
    let p ← p.toNat?; let d ← optNat d; let c ← sepList "+" String.toNat? c; let v ← optName v
    some { params := p, datum := d, coords := c, ncvar := v, name := unesc n }
  | _ => none

def parseTerm (s : String) : Option (String × Nat) :=
  match s.splitOn "~" with
  | [t, i] => i.toNat?.map (fun i => (unesc t, i))
  | _ => none

def parseVRef (s : String) : Option VRef :=
  match s.splitOn ":" with
  | [o, d, t] => do
    let o ← optNat o; let d ← optNat d; let t ← sepList "+" parseTerm t
    some { owner := o, datum := d, terms := t }
  | _ => none

def parseCMAxis (s : String) : Option (Nat ⊕ Name) :=
  if s.startsWith "i" then (s.drop 1).toString.toNat?.map Sum.inl
  else if s.startsWith "n" then some (Sum.inr (unesc (s.drop 1).toString))
  else none

def parseCM (s : String) : Option (List (Nat ⊕ Name) × Nat) :=
  match s.splitOn ":" with
  | [a, m] => do
    let a ← sepList "+" parseCMAxis a; let m ← m.toNat?
    some (a, m)
  | _ => none

def parseField (s : String) : Option AField :=
  match s.splitOn ";" with
  | [dom, sg, v, d, ax, cs, gms, vrs, cms, dax] => do
    let dom ← bool? dom; let sg ← sg.toNat?; let v ← optName v; let d ← optName d
    let ax ← sepList "," parseAxis ax; let cs ← sepList "," parseCons cs
    let gms ← sepList "," parseGM gms; let vrs ← sepList "," parseVRef vrs; let cms ← sepList "," parseCM cms
    let dax ← sepList "+" String.toNat? dax
    -- every index must be in range
    if dax.all (· < ax.length) && dax.eraseDups.length == dax.length && cs.all (fun c => c.axes.all (· < ax.length)) && gms.all (fun g => g.coords.all (· < cs.length))
       && vrs.all (fun r => (match r.owner with | some o => o < cs.length | none => true) && r.terms.all (·.2 < cs.length))
       && cms.all (fun c => c.1.all (fun a => match a with | .inl i => i < ax.length | .inr _ => true))
    then some { isDomain := dom, sig := sg, ncvar := v, dflt := d, axes := ax, dataAxes := dax, cons := cs, gms := gms, vrefs := vrs, cms := cms }
    else none
  | _ => none

def parseTabRow (s : String) : Option (Nat × List Name) :=
  match s.splitOn "~" with
  | [p, ns] => do
    let p ← p.toNat?; let ns ← sepList "+" (fun x => some (unesc x)) ns
    some (p, ns)
  | _ => none

def join (sep : String) (l : List String) : String := String.intercalate sep l
def nats (sep : String) (l : List Nat) : String := join sep (l.map toString)
def oName : Option Name → String
  | none => "_" | some n => esc n
def pairs (l : List (String × Name)) : String := join "+" (l.map (fun p => esc p.1 ++ "~" ++ esc p.2))

def showVar (v : Var) : String :=
  join ";" [esc v.name, join "+" (v.dims.map esc), kindStr v.val.kind, nats "+" v.val.sig, oName v.bounds, pairs v.ft, pairs v.bft,
    (if v.isDomain then "2" else if v.isData then "1" else "0"), join "+" (v.coords.map esc), join "+" (v.measures.map esc),
    join "+" (v.ancils.map esc), join "+" (v.gms.map (fun g => join "~" ((g.1 :: g.2).map esc))), (if v.gmMulti then "1" else "0"),
    join "+" (v.cms.map (fun c => join "~" (c.1.map esc) ++ "^" ++ toString c.2)), join "+" (v.domDims.map esc),
    (if v.str then "1" else "0")]

def showFile (s : St) : String :=
  "dims=" ++ join "," (s.dimSizes.map (fun d => esc d.1 ++ ":" ++ toString d.2)) ++ " vars=" ++ join "|" (s.vars.map showVar)

def showCMAxis : Nat ⊕ Name → String
  | .inl i => "i" ++ toString i
  | .inr n => "n" ++ esc n

def showRCons (c : RCons) : String :=
  join "~" [kindStr c.kind, nats "." c.sig, nats "." c.axes, esc c.ncvar, toString c.key]

def showDatum : Option (List Nat) → String
  | none => "_" | some d => nats "." d

def showRRef (r : RRef) : String :=
  join "~" [(if r.vertical then "v" else "g"), nats "." r.params, showDatum r.datum, nats "." r.coords,
    join "." (r.terms.map (fun t => esc t.1 ++ "^" ++ esc t.2)), oName r.ncvar]

def showRField (f : RField) : String :=
  join ";" [esc f.ncvar, (if f.isDomain then "1" else "0"), nats "." f.sig,
    join "+" (f.axes.map (fun a => toString a.1 ++ "~" ++ oName a.2)), join "+" (f.cons.map showRCons),
    join "+" (f.refs.map showRRef), join "+" (f.cms.map (fun c => join "~" (c.1.map showCMAxis) ++ "^" ++ toString c.2))]

def b01 (b : Bool) : String := if b then "1" else "0"

/-- the flags of the code as it is for one order: D1 reader vertical_crs, D2 scalar string cache, D4 blank names,
D5 dimension reused twice, D8 data variable registered, D9 unnamed dimension coordinate takes a dimension name in
use; and the open finding (formula_terms overwritten) -/
def flagsOf (fs : List AField) (tab : GMTable) : List Bool :=
  let s := writeAll fs
  let r := readAllWith true tab s.file
  let rOld := readAllWith false tab s.file
  [rOld.fields != r.fields, rOld.err, (writeAllOldNames fs).dup, (writeAllOldDims fs).vars != s.vars,
   (writeAllOldData fs).vars != s.vars, (writeAllOldDimName fs).dup, s.ftConflict]

def orFlags (a b : List Bool) : List Bool := (a.zip b).map (fun p => p.1 || p.2)

def runWr (kv : KV) : String :=
  match (do
    let fs ← sepList "|" parseField (← kv.get? "fields")
    let tab ← sepList "," parseTabRow ((kv.get? "tab").getD "_")
    -- orders: `0+1,1+0` (the first one is the one written out); default: as given
    let orders ← match kv.get? "orders" with
      | none => some [List.range fs.length]
      | some o => sepList "," (sepList "+" String.toNat?) o
    if orders.isEmpty || !orders.all (fun (o : List Nat) => o.all (· < fs.length)) then none
    else some (orders.map (fun (o : List Nat) => o.filterMap (fs[·]?)), tab)) with
  | none => "bad-op"
  | some (orders, tab) =>
    let fs := orders.headD []
    let s := writeAll fs
    let r := readAllWith true tab s.file
    let fl := orders.foldl (fun a o => orFlags a (flagsOf o tab)) [false, false, false, false, false, false, false]
    s!"ok={b01 s.ok} ft={b01 (fl.getD 6 false)} dup={b01 s.dup} old={join "" ((fl.take 6).map b01)} {showFile s} read={join "|" (r.fields.map showRField)} rerr={b01 r.err}"

/-! ### properties / global attributes -/
section GP
open Cfdm.Globals Cfdm.SharedProps

def parsePair (t : String) : Option (String × Option String) :=
  match t.splitOn "~" with
  | [k, v] => if k.isEmpty || v.isEmpty then none else some (k, if v == "_" then none else some v)
  | _ => none

def parseDict (s : String) : Option (List (String × String)) := do
  let l ← sepList "," parsePair s
  l.mapM (fun kv => kv.2.map (fun v => (kv.1, v)))

def parsePath (s : String) : Option (List String) := sepList "+" some s

open Cfdm.GroupProps in
def parseFieldG (t : String) : Option GField :=
  match t.splitOn "/" with
  | [p, g] => do
    let props ← parseDict p
    let ncg ← sepList "," parsePair g
    some { base := { props := props, ncg := ncg } }
  | [p, g, path, ga] => do
    let props ← parseDict p
    let ncg ← sepList "," parsePair g
    let path ← parsePath path
    let ga ← sepList "," parsePair ga
    some { base := { props := props, ncg := ncg }, path := path, gattrs := ga }
  | _ => none

def showDict (l : List (String × String)) : String :=
  let l := l.filter (·.1 != "Conventions")
  let sorted := l.toArray.qsort (fun a b => a.1 < b.1 || (a.1 == b.1 && a.2 < b.2))
  String.intercalate "," (sorted.toList.map (fun kv => kv.1 ++ "~" ++ kv.2))

open Cfdm.GroupProps in
def showGroups (l : List (List String × List (String × String))) : String :=
  let items := l.map (fun g => join "+" g.1 ++ ":" ++ showDict g.2)
  join ";" (items.toArray.qsort (· < ·)).toList

open Cfdm.GroupProps in
def runGp (kv : KV) : String :=
  match (do
    let descr ← sepList "," some (← kv.get? "descr")
    let glob ← sepList "," some (← kv.get? "glob")
    let var ← sepList "," some (← kv.get? "var")
    let fd ← parseDict (← kv.get? "fd")
    let fields ← sepList "|" parseFieldG (← kv.get? "fields")
    let orders ← sepList "," (sepList "+" String.toNat?) (← kv.get? "orders")
    if fields.isEmpty || orders.isEmpty || !orders.all (fun (o : List Nat) => o.all (· < fields.length) && o.length == fields.length
        && o.eraseDups.length == o.length) then none
    else some (descr, glob, var, fd, fields, orders)) with
  | none => "bad-op"
  | some (descr, glob, var, fd, fields, orders) =>
    let o : Opts := { descr := descr, userGlobal := glob, varAttrs := var, fileDesc := fd }
    let view (patched : Bool) (ord : List Nat) : String × String × String × String :=
      let fs := ord.filterMap (fields[·]?)
      (showDict (writtenGlobals o (bases fs)),
       showGroups (groupsWritten patched o fs),
       join "|" (fields.map (fun f => showDict (GroupProps.varAttrs patched o fs f))),
       join "|" (fields.map (fun f => showDict (GroupProps.readBackProps patched o fs f))))
    let v0 := view true (orders.headD [])
    let perm := orders.all (fun ord => let v := view true ord; v.1 == v0.1 && v.2.1 == v0.2.1 && v.2.2.2 == v0.2.2.2)
    let old := orders.any (fun ord => view false ord != view true ord)
    let w0 := view false (orders.headD [])
    s!"glob={v0.1} groups={v0.2.1} vars={v0.2.2.1} read={v0.2.2.2} perm={b01 perm} old={b01 old}" ++
      (if old then s!" OLD glob={w0.1} groups={w0.2.1} vars={w0.2.2.1} read={w0.2.2.2}" else "")

end GP

def run (sub : String) (kv : KV) : String :=
  match sub with
  | "wr" => runWr kv
  | "gp" => runGp kv
  | _ => "bad-op"

end Cfdm.Driver.C09
