import Cfdm.Driver.Parse
import Cfdm.Model.Groups
import Cfdm.Model.GroupsMulti
namespace Cfdm.Driver.C11
open Cfdm.Driver Cfdm.Groups
open Cfdm.Generated.FlatteningRules (Rules flatteningRules)

/-! Line protocol of C11.

* tree   `tree=/|d1,d2|v1,v2|s1;/a|…|…|…;/a/b|…` groups in creation (pre-)order; fields: absolute
         group path, dimension names, variable names, names of the 0-d variables[, group attribute names]
* `C11.res  tree= at=/a/b attr=coordinates ref=../x coords=t,u|- strict=0|1 old=0|1`
* `C11.name tree= hash=key>hex,… old=0|1`        flattened names in walk order
* `C11.vis  ncvar=/a/q ncdim=/a/lat`              the writer's string check + both group paths
* `C11.grp  name=/a/b/x set=/g/h|-`               `_nc_set`, group split, `_nc_set_groups`, writer parent group
* `C11.place dims=/a:lat;… vars=/a/g:ta:0,1:coordinates>v2,cell_methods>d0;…`
* `C11.multi glob=comment,history|- fields=/a|q0|comment>one,foo>bar|comment>-,foo>baz;/a/b|q1|-|- old=0|1`
         several fields written by one call: the groups of the dataset, the attributes of every
         group, the global attributes and the attributes of every data variable
-/

def nm (s : String) : List Char := s.toList
def str (l : List Char) : String := String.ofList l

def parseNames (s : String) : List Name :=
  if s.isEmpty then [] else (s.splitOn ",").map nm

/-- `/` → `[]`, `/a/b` → `[a, b]`. -/
def parsePath (s : String) : Option Path :=
  if s == "/" then some []
  else if s.startsWith "/" then
    let comps := ((s.drop 1).toString.splitOn "/")
    if comps.any (·.isEmpty) then none else some (comps.map nm)
  else none

def showPath (p : Path) : String := "/" ++ String.intercalate "/" (p.map str)
def showElem (p : Path) (n : Name) : String := str (absName p n)

/-- Add one group (content given) at an absolute path; parents must already exist or are
created empty. -/
def addGroup (t : Grp) (p : Path) (dims vars scal attrs : List Name) : Grp :=
  t.update (fun n => { n with dims := dims, vars := vars, scal := scal, attrs := attrs }) p

def parseTree (s : String) : Option Grp :=
  (s.splitOn ";").foldlM (fun t g =>
    match g.splitOn "|" with
    | [p, d, v, sc] => do
      let p ← parsePath p
      some (addGroup t p (parseNames d) (parseNames v) (parseNames sc) [])
    | [p, d, v, sc, a] => do
      let p ← parsePath p
      some (addGroup t p (parseNames d) (parseNames v) (parseNames sc) (parseNames a))
    | _ => none) emptyRoot

def showOut : Out → String
  | .dim p n => "dim:" ++ showElem p n
  | .var p n => "var:" ++ showElem p n
  | .asis s => "asis:" ++ str s
  | .notFound s => "notfound:" ++ str s
  | .unresolved => "unresolved"
  | .raised e => "raised:" ++ e

/-- The token the flattened file carries: the flattened name of the element, the token as
given, or `REF_NOT_FOUND_<token>`. -/
def tokenOf (t : Grp) (hf : List Char → List Char) (old : Bool) : Out → String
  | .dim p n => nameIn true p n
  | .var p n => nameIn false p n
  | .asis s => str s
  | .notFound s => "REF_NOT_FOUND_" ++ str s
  | .unresolved => "unresolved"
  | .raised e => "raised:" ++ e
where
  nameIn (sd : Bool) (p : Path) (n : Name) : String :=
    let w := t.walk sd
    let ns := if old then allocNamesOld hf w else allocNames hf w []
    match (w.zip ns).find? (fun x => x.1 == (p, n)) with
    | some (_, s) => str s
    | none => "?"

def parseBool (s : String) : Option Bool :=
  if s == "1" then some true else if s == "0" then some false else none

def runRes (kv : KV) : String :=
  match (do
    let t ← parseTree (← kv.get? "tree")
    let at_ ← parsePath (← kv.get? "at")
    let r ← findRule (← kv.get? "attr")
    let ref ← kv.get? "ref"
    let c ← kv.get? "coords"
    let strict ← parseBool (← kv.get? "strict")
    let old ← parseBool (← kv.get? "old")
    some (t, at_, r, ref, c, strict, old)) with
  | none => "bad-op"
  | some (t, at_, r, ref, c, strict, old) =>
    if !groupAt t at_ || ref.isEmpty then "bad-op" else
    let coords : Option (List Char) :=
      if c == "-" then none else some (nm (String.intercalate " " (c.splitOn ",")))
    let o := (if old then resolveOld else resolve) t r strict coords at_ (nm ref)
    s!"tok={tokenOf t (fun _ => nm "?") old o} as={showOut o}"

def parseHash (s : String) : Option (List (String × String)) :=
  if s == "-" then some [] else
  (s.splitOn ",").mapM (fun kv => match kv.splitOn ">" with
    | [k, v] => some (k, v)
    | _ => none)

def runName (kv : KV) : String :=
  match (do
    let t ← parseTree (← kv.get? "tree")
    let h ← parseHash (← kv.get? "hash")
    let old ← parseBool (← kv.get? "old")
    some (t, h, old)) with
  | none => "bad-op"
  | some (t, h, old) =>
    let hf : List Char → List Char := fun k =>
      match h.find? (·.1 == str k) with
      | some (_, v) => nm v
      | none => nm "?"
    let names (sd : Bool) : List String :=
      let w := t.walk sd
      ((if old then allocNamesOld hf w else allocNames hf w []).map str)
    let dup (l : List String) : Bool := l.any (fun x => (l.filter (· == x)).length > 1)
    let ds := names true
    let vs := names false
    let wa := t.walkAttrs
    let as := ((if old then allocNamesOld hf wa else allocNames hf wa []).map str)
    if dup ds || dup vs then "raised:RuntimeError"
    else s!"dims=[{String.intercalate "," ds}] vars=[{String.intercalate "," vs}] attrs=[{String.intercalate "," as}]"

def runVis (kv : KV) : String :=
  match (do some ((← kv.get? "ncvar"), (← kv.get? "ncdim"))) with
  | none => "bad-op"
  | some (v, d) =>
    let b := dimVisible (nm v) (nm d)
    s!"visible={if b then 1 else 0} vgroups={str (groupsStr (nm v))} dgroups={str (groupsStr (nm d))}"

def runGrp (kv : KV) : String :=
  match (do some ((← kv.get? "name"), (← kv.get? "set"))) with
  | none => "bad-op"
  | some (n, gs) =>
    match ncSet (nm n) with
    | none => "raised:ValueError"
    | some stored =>
      let g := ncGroups stored
      let pg := match parentGroup stored with
        | none => "raised:ValueError"
        | some p => showPath p
      let newGroups : Option Path := if gs == "-" then some [] else parsePath gs
      match newGroups with
      | none => "bad-op"
      | some ng =>
        let sn := match ncSetGroups stored ng with
          | none => "raised:ValueError"
          | some x => str x
        s!"stored={str stored} groups={showPath g} base={str (baseName stored)} set={sn} parent={pg}"

def parsePDim (s : String) : Option PDim :=
  match s.splitOn ":" with
  | [p, b] => do some { grp := ← parsePath p, base := nm b }
  | _ => none

/-- `attr>d3` / `attr>v2`. -/
def parseRefs (s : String) : Option (List PRef) :=
  if s.isEmpty then some [] else
  (s.splitOn ",").mapM (fun t =>
    match t.splitOn ">" with
    | [a, x] =>
      if (findRule a).isNone then none
      else if x.startsWith "d" then (x.drop 1).toString.toNat?.map (fun i => ⟨a, true, i⟩)
      else if x.startsWith "v" then (x.drop 1).toString.toNat?.map (fun i => ⟨a, false, i⟩)
      else none
    | _ => none)

def parsePVar (s : String) : Option PVar :=
  match s.splitOn ":" with
  | [p, b, ds, rs] => do
    let p ← parsePath p
    let ds ← if ds.isEmpty then some [] else (ds.splitOn ",").mapM String.toNat?
    let rs ← parseRefs rs
    some { grp := p, base := nm b, dims := ds, refs := rs }
  | _ => none

def showOptElem : Option (Path × Name) → String
  | none => "-"
  | some (p, n) => showElem p n

def runPlace (kv : KV) : String :=
  match (do
    let ds ← kv.get? "dims"
    let vs ← kv.get? "vars"
    let ds ← if ds.isEmpty then some [] else (ds.splitOn ";").mapM parsePDim
    let vs ← if vs.isEmpty then some [] else (vs.splitOn ";").mapM parsePVar
    some (ds, vs)) with
  | none => "bad-op"
  | some (ds, vs) =>
    let L : Layout := { dims := ds, vars := vs }
    if vs.any (fun v => v.dims.any (· ≥ ds.length) || v.refs.any (fun r => r.idx ≥ (if r.isDim then ds.length else vs.length))) then "bad-op"
    else if !accepts L then "rejected"
    else
      let one (v : PVar) : String :=
        let f := flattenVar L v
        s!"{showElem v.grp v.base}({String.intercalate "," (f.dims.map showOptElem)})[{String.intercalate "," (f.refs.map showOut)}]"
      "ok " ++ String.intercalate ";" (vs.map one)

def parsePaths (s : String) : Option (List Path) :=
  if s == "-" then some [] else (s.splitOn ";").mapM parsePath

/-- `C11.cv fg=/g1/g2 dg=/ apex=0|1 cs=/g1;/g1/g2|- old=0|1` → `some:/g1/g2` | `none`. -/
def runCv (kv : KV) : String :=
  match (do
    let fg ← parsePath (← kv.get? "fg")
    let dg ← parsePath (← kv.get? "dg")
    let apex ← parseBool (← kv.get? "apex")
    let cs ← parsePaths (← kv.get? "cs")
    let old ← parseBool (← kv.get? "old")
    some (fg, dg, apex, cs, old)) with
  | none => "bad-op"
  | some (fg, dg, apex, cs, old) =>
    match (if old then findCoordVarOld else findCoordVar) apex fg dg cs with
    | some q => "some:" ++ showPath q
    | none => "none"

def parsePairs (s : String) : Option (List (Name × Name)) :=
  if s == "-" then some [] else
  (s.splitOn ",").mapM (fun t => match t.splitOn ">" with
    | [k, v] => some (nm k, nm v)
    | _ => none)

def parseGA (s : String) : Option (List (Name × Option Name)) :=
  if s == "-" then some [] else
  (s.splitOn ",").mapM (fun t => match t.splitOn ">" with
    | [k, v] => some (nm k, if v == "-" then none else some (nm v))
    | _ => none)

def showPairs (l : List (Name × Name)) : String :=
  let xs := (l.map (fun kv => str kv.1 ++ ">" ++ str kv.2)).toArray.qsort (· < ·) |>.toList
  "[" ++ String.intercalate "," xs ++ "]"

/-- `C11.gattr grp=/g0 glob=comment,history|- props=a>v,… ga=a>-,b>w|-`. -/
def runGattr (kv : KV) : String :=
  match (do
    let grp ← parsePath (← kv.get? "grp")
    let g ← kv.get? "glob"
    let p ← parsePairs (← kv.get? "props")
    let ga ← parseGA (← kv.get? "ga")
    some (grp, (if g == "-" then [] else parseNames g), p, ga)) with
  | none => "bad-op"
  | some (grp, g, p, ga) =>
    let w := writeProps grp g p ga
    s!"glob={showPairs w.glob} grp={showPairs w.grp} var={showPairs w.var}"


def parseMField (s : String) : Option MField :=
  match s.splitOn "|" with
  | [g, b, p, ga] => do
    let g ← parsePath g
    let p ← parsePairs p
    let ga ← parseGA ga
    some { grp := g, base := nm b, props := p, ga := ga }
  | _ => none

/-- `C11.multi glob=… fields=… old=0|1` -/
def runMulti (kv : KV) : String :=
  match (do
    let g ← kv.get? "glob"
    let fs ← kv.get? "fields"
    let fs ← if fs.isEmpty then none else (fs.splitOn ";").mapM parseMField
    let old ← parseBool (← kv.get? "old")
    some ((if g == "-" then [] else parseNames g), fs, old)) with
  | none => "bad-op"
  | some (d, fs, old) =>
    let w := if old then writeFieldsNOld d fs else writeFieldsN d fs
    let gs := w.tree.groupPaths
    let groups := (gs.map showPath).toArray.qsort (· < ·) |>.toList
    let gattrs := ((gs.filter (fun q => !q.isEmpty)).map (fun q => showPath q ++ ":" ++ showPairs (attrsAt w.tree q))).toArray.qsort (· < ·) |>.toList
    let vars := ((fs.zip w.vars).map (fun fv => showElem fv.1.grp fv.1.base ++ ":" ++ showPairs fv.2)).toArray.qsort (· < ·) |>.toList
    s!"groups=[{String.intercalate ";" groups}] gattrs=[{String.intercalate ";" gattrs}] glob={showPairs w.glob} vars=[{String.intercalate ";" vars}]"

def run (sub : String) (kv : KV) : String :=
  match sub with
  | "res" => runRes kv
  | "name" => runName kv
  | "vis" => runVis kv
  | "grp" => runGrp kv
  | "place" => runPlace kv
  | "cv" => runCv kv
  | "gattr" => runGattr kv
  | "multi" => runMulti kv
  | _ => "bad-op"

end Cfdm.Driver.C11
