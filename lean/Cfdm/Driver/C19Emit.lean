import Cfdm.Driver.Parse
import Cfdm.Model.Emit
import Cfdm.Model.DataStr
/-
Driver for the C19 streams over the classes that are not containers.

  C19.emit kind=<data|leaf|pobj|axis|cm|ref> <object> name= dn= bn= rn= ns= header=
      → cc=<ok|raised:ValueError> text=<statements> ctors=<ok|bad> dbu=<ok|bad> exec=<ok|raised> same=<0|1>
        fixcc=… fixtext=… fixexec=… fixsame=…      (the same with the proposed numpy-units repair)
  C19.dstr <data display>  → str=<text> repr=<text>
  C19.cstr <construct display> → pd=… pdb=… oldpd=… oldpdb=… dims=…

Every string of the input is an opaque token over `[A-Za-z0-9_.%-]` (the harness percent-encodes);
`_` is Python `None`.  Keys are flat: the fields of a nested object carry a prefix (`x.`, `b.`,
`r.`, `d.`, `q0.`, `p0.` …).
  atom   = <n|p><n|s|f><token>       numpy / python, kind num / str / nonfinite
  sc     = <n|s|f><token>
  pval   = a<atom> | l<atom>+<atom>… | r<sc>+<sc>…       (`l` / `r` alone = empty)
  data   = P.has=0|1 P.shape=[..] P.vals=[sc,..] P.mask=[0,1,..] P.units=<atom|_> P.cal= P.fill= P.dtype=f8
-/
namespace Cfdm.Driver.C19Emit
open Cfdm.Driver Cfdm.Emit

def opt (s : String) : Option String := if s == "_" then none else some s
def showOpt (o : Option String) : String := o.getD "_"

def parseSc (s : String) : Option Sc :=
  let tok := (s.drop 1).toString
  match (s.take 1).toString with
  | "n" => some (.num tok)
  | "s" => some (.str tok)
  | "f" => some (.nonfinite tok)
  | _ => none

def parseAtom (s : String) : Option Atom := do
  let sc ← parseSc (s.drop 1).toString
  match (s.take 1).toString with
  | "n" => some ⟨true, sc⟩
  | "p" => some ⟨false, sc⟩
  | _ => none

def parseOptAtom (s : String) : Option (Option Atom) :=
  if s == "_" then some none else (parseAtom s).map some

def splitPlus (s : String) : List String := if s.isEmpty then [] else s.splitOn "+"

def parsePVal (s : String) : Option PVal :=
  let rest := (s.drop 1).toString
  match (s.take 1).toString with
  | "a" => (parseAtom rest).map PVal.atom
  | "l" => ((splitPlus rest).mapM parseAtom).map PVal.list
  | "r" => ((splitPlus rest).mapM parseSc).map PVal.arr
  | _ => none

def listBody (s : String) : Option (List String) := do
  let inner ← stripBrackets s
  if inner.isEmpty then some [] else some (inner.splitOn ",")

def parsePair {α} (f : String → Option α) (s : String) : Option (String × α) :=
  match s.splitOn "~" with
  | [k, v] => (f v).map (fun x => (k, x))
  | _ => none

def parseProps (s : String) : Option (List (String × PVal)) := do
  (← listBody s).mapM (parsePair parsePVal)

def parseBits (s : String) : Option (List Bool) := do
  (← listBody s).mapM (fun t => if t == "1" then some true else if t == "0" then some false else none)

def parseDType (s : String) : Option DType := do
  let n ← (s.drop 1).toString.toNat?
  if s.length < 2 then none else some ⟨(s.take 1).toString, n⟩

def parseData (kv : KV) (p : String) : Option (Option MData) := do
  match (← kv.get? (p ++ "has")) with
  | "0" => some none
  | "1" =>
    let shape ← parseNatList (← kv.get? (p ++ "shape"))
    let vals ← (← listBody (← kv.get? (p ++ "vals"))).mapM parseSc
    let mask ← parseBits (← kv.get? (p ++ "mask"))
    let units ← parseOptAtom (← kv.get? (p ++ "units"))
    let cal ← parseOptAtom (← kv.get? (p ++ "cal"))
    let fill ← parseOptAtom (← kv.get? (p ++ "fill"))
    let dtype ← parseDType (← kv.get? (p ++ "dtype"))
    some (some ⟨shape, vals, mask, units, cal, fill, dtype⟩)
  | _ => none

def clsNames : List (String × Cls) :=
  [("Bounds", .Bounds), ("InteriorRing", .InteriorRing), ("Count", .Count), ("Index", .Index), ("List", .ListV),
   ("NodeCountProperties", .NodeCount), ("PartNodeCountProperties", .PartNodeCount),
   ("InterpolationParameter", .InterpParam), ("TiePointIndex", .TiePointIndex),
   ("FieldAncillary", .FieldAncillary), ("CellMeasure", .CellMeasure), ("DomainTopology", .DomainTopology),
   ("CellConnectivity", .CellConnectivity), ("DimensionCoordinate", .DimensionCoordinate),
   ("AuxiliaryCoordinate", .AuxiliaryCoordinate), ("DomainAncillary", .DomainAncillary),
   ("DomainAxis", .DomainAxis), ("CellMethod", .CellMethod), ("CoordinateReference", .CoordinateReference)]

def parseCls (s : String) : Option Cls := (clsNames.find? (fun p => p.1 == s)).map (·.2)
def showCls (c : Cls) : String :=
  match clsNames.find? (fun p => p.2 = c) with
  | some p => p.1
  | none => "?"

def parseLeaf (kv : KV) (p : String) : Option Leaf := do
  let cls ← parseCls (← kv.get? (p ++ "cls"))
  let props ← parseProps (← kv.get? (p ++ "props"))
  let inh ← parseProps (← kv.get? (p ++ "inh"))
  let data ← parseData kv (p ++ "d.")
  some ⟨cls, props, opt (← kv.get? (p ++ "ncvar")), opt (← kv.get? (p ++ "ncdim")), opt (← kv.get? (p ++ "sdim")),
        data, opt (← kv.get? (p ++ "attr")), inh⟩

def parseOptLeaf (kv : KV) (p : String) : Option (Option Leaf) := do
  match (← kv.get? (p ++ "has")) with
  | "0" => some none
  | "1" => (parseLeaf kv p).map some
  | _ => none

def parseBool (s : String) : Option Bool := if s == "1" then some true else if s == "0" then some false else none

def parsePObj (kv : KV) : Option PObj := do
  let base ← parseLeaf kv "x."
  let clim ← parseBool (← kv.get? "clim")
  let b ← parseOptLeaf kv "b."
  let r ← parseOptLeaf kv "r."
  some ⟨base, opt (← kv.get? "geom"), clim, opt (← kv.get? "nodevar"), b, r⟩

def parseAxis (kv : KV) : Option MAxis := do
  let size ← (let s := (← kv.get? "size"); if s == "_" then some none else s.toNat?.map some)
  let unl ← parseBool (← kv.get? "unl")
  some ⟨size, opt (← kv.get? "ncdim"), unl⟩

def parseStrList (s : String) : Option (Option (List String)) :=
  if s == "_" then some none else (listBody s).map some

def parseDatas (kv : KV) (p : String) (n : Nat) : Option (List MData) :=
  (List.range n).mapM (fun i => do
    let d ← parseData kv (p ++ toString i ++ ".")
    d)

def parseCM (kv : KV) : Option MCM := do
  let axes ← parseStrList (← kv.get? "axes")
  let nq ← (← kv.get? "nq").toNat?
  let quals ← (List.range nq).mapM (fun i => do
    let p := "q" ++ toString i ++ "."
    let k ← kv.get? (p ++ "k")
    match (← kv.get? (p ++ "t")) with
    | "s" => some (k, QualVal.str (← kv.get? (p ++ "s")))
    | "i" =>
      let n ← (← kv.get? (p ++ "n")).toNat?
      let ds ← parseDatas kv p n
      some (k, QualVal.interval ds)
    | _ => none)
  some ⟨opt (← kv.get? "method"), axes, quals⟩

def parseParams (kv : KV) (tag : String) : Option (List (String × Param)) := do
  let n ← (← kv.get? ("n" ++ tag)).toNat?
  (List.range n).mapM (fun i => do
    let p := tag ++ toString i ++ "."
    let k ← kv.get? (p ++ "k")
    match (← kv.get? (p ++ "t")) with
    | "v" => some (k, Param.val (← parsePVal (← kv.get? (p ++ "v"))))
    | "d" =>
      let d ← parseData kv (p ++ "d.")
      some (k, Param.data (← d))
    | _ => none)

def parseRef (kv : KV) : Option MRef := do
  let coords ← listBody (← kv.get? "coords")
  let datum ← parseParams kv "p"
  let conv ← parseParams kv "c"
  let anc ← (← listBody (← kv.get? "anc")).mapM (parsePair (fun v => some (opt v)))
  some ⟨opt (← kv.get? "ncvar"), coords, datum, conv, anc⟩

def parseNs (s : String) : Option (List Char) :=
  if s == "_" then none else if s == "E" then some [] else some s.toList

def parseKW (kv : KV) : Option KW := do
  let header ← parseBool (← kv.get? "header")
  some { name := (← kv.get? "name"), dataName := (← kv.get? "dn"), boundsName := (← kv.get? "bn"),
         ringName := (← kv.get? "rn"), ns := parseNs (← kv.get? "ns"), header := header }

/-! ### canonical text -/

def showNs (l : List Char) : String := if l.isEmpty then "E" else String.ofList l

def showSc : Sc → String
  | .num t => "n" ++ t
  | .str t => "s" ++ t
  | .nonfinite t => "f" ++ t

def showLit : Lit → String
  | .val s => "V" ++ showSc s
  | .name t => "N" ++ t

def showOptLit : Option Lit → String
  | none => "_"
  | some l => showLit l

def showBits (l : List Bool) : String := String.intercalate "" (l.map (fun b => if b then "1" else "0"))

def showShape (l : List Nat) : String := if l.isEmpty then "s" else String.intercalate "x" (l.map toString)

def showDType (t : DType) : String := t.kind ++ toString t.size

/-- values under the mask are not compared -/
def showArray : List Lit → List Bool → List String
  | l :: ls, m :: ms => (if m then "--" else showLit l) :: showArray ls ms
  | ls, [] => ls.map showLit
  | [], _ => []

def showDataExpr (e : DataExpr) : String :=
  let m := match e.mask with
    | some x => x.2.2
    | none => []
  String.intercalate "|" [showNs e.ns, showShape e.shape, String.intercalate "," (showArray e.array m),
    showOptLit e.units, showOptLit e.calendar, showDType e.dtype,
    (match e.mask with
     | some (ns, sh, bits) => showNs ns ++ "~" ++ showShape sh ++ "~" ++ showBits bits
     | none => "_"),
    showOptLit e.fill]

def showLitExpr : LitExpr → String
  | .one l => "o" ++ showLit l
  | .many l => "m" ++ String.intercalate "+" (l.map showLit)

def showStmt : Stmt → String
  | .comment => "#"
  | .new n ns c => s!"new:{n}:{showNs ns}:{showCls c}"
  | .newData n e => s!"data:{n}:{showDataExpr e}"
  | .setProps n ps => s!"props:{n}:" ++ String.intercalate "," (ps.map (fun p => p.1 ++ "~" ++ showLitExpr p.2))
  | .ncVar n v => s!"ncvar:{n}:{v}"
  | .ncDim n .dimension v => s!"ncdim:{n}:{v}"
  | .ncDim n .sampleDimension v => s!"sdim:{n}:{v}"
  | .setData n d => s!"setdata:{n}:{d}"
  | .setAttr n .measure v => s!"measure:{n}:{v}"
  | .setAttr n .cell v => s!"cell:{n}:{v}"
  | .setAttr n .connectivity v => s!"connectivity:{n}:{v}"
  | .setAttr n .geometry v => s!"geometry:{n}:{v}"
  | .setAttr n .nodeVar v => s!"nodevar:{n}:{v}"
  | .setClimatology n => s!"clim:{n}"
  | .setBounds n b => s!"setbounds:{n}:{b}"
  | .setRing n r => s!"setring:{n}:{r}"
  | .setSize n k => s!"size:{n}:{k}"
  | .setUnlimited n => s!"unlimited:{n}"
  | .setMethod n m => s!"method:{n}:{m}"
  | .setAxes n l => s!"axes:{n}:" ++ String.intercalate "+" l
  | .setQualifier n t (.str v) => s!"qual:{n}:{t}:s{v}"
  | .setQualifier n t (.interval l) => s!"qual:{n}:{t}:i" ++ String.intercalate "&" (l.map showDataExpr)
  | .setCoords n l => s!"coords:{n}:" ++ String.intercalate "+" l
  | .setParam n d t (.lit e) => s!"param:{n}:{if d then "datum" else "conv"}:{t}:{showLitExpr e}"
  | .setParam n d t (.data e) => s!"param:{n}:{if d then "datum" else "conv"}:{t}:D{showDataExpr e}"
  | .setAncils n l => s!"ancils:{n}:" ++ String.intercalate "," (l.map (fun p => p.1 ++ "~" ++ showOpt p.2))

def showStmts (l : List Stmt) : String := String.intercalate ";" (l.map showStmt)

/-! ### running -/

inductive Target
  | data (d : MData)
  | leaf (x : Leaf)
  | pobj (x : PObj)
  | axis (a : MAxis)
  | cm (m : MCM)
  | ref (r : MRef)

def Target.obj : Target → Obj
  | .data d => .data d
  | .leaf x => .leaf x
  | .pobj x => .pobj x
  | .axis a => .axis a
  | .cm m => .cm m
  | .ref r => .ref r

def emitTarget (fix : Bool) (t : Target) (kw : KW) : Option (List Stmt) :=
  match t with
  | .data d => (emitDataWith fix d (some kw.name) kw.ns).map (fun e => [Stmt.newData kw.name e])
  | .leaf x => emitLeafWith fix x kw.name kw.dataName kw.ns kw.header
  | .pobj x => emitPObjWith fix x kw
  | .axis a => some (emitAxis a kw.name kw.ns kw.header)
  | .cm m => emitCMWith fix m kw.name kw.ns kw.header
  | .ref r => emitRefWith fix r kw.name kw.ns kw.header

/-- the object as the rebuilt one is compared with: bounds of a coordinate through `get_bounds` -/
def outcome (fix : Bool) (t : Target) (kw : KW) : String × String × String × String × String :=
  match emitTarget fix t kw with
  | none => ("raised:ValueError", "_", "_", "_", "_")
  | some ss =>
    let pkg := nsPrefix kw.ns
    let ctors := if ss.all (fun s => s.ctorsUse pkg) then "ok" else "bad"
    let dbu := if definedBeforeUse [] ss then "ok" else "bad"
    match exec pkg ss with
    | none => ("ok", showStmts ss, ctors, dbu, "raised _")
    | some env =>
      match env kw.name with
      | none => ("ok", showStmts ss, ctors, dbu, "noname _")
      | some o => ("ok", showStmts ss, ctors, dbu, "ok " ++ (if o.same t.obj then "1" else "0"))

def parseTarget (kv : KV) : Option Target := do
  match (← kv.get? "kind") with
  | "data" => (← parseData kv "d.").map Target.data
  | "leaf" => (parseLeaf kv "x.").map Target.leaf
  | "pobj" => (parsePObj kv).map Target.pobj
  | "axis" => (parseAxis kv).map Target.axis
  | "cm" => (parseCM kv).map Target.cm
  | "ref" => (parseRef kv).map Target.ref
  | _ => none

def runEmit (kv : KV) : String :=
  match parseTarget kv, parseKW kv with
  | some t, some kw =>
    let (cc, text, ctors, dbu, ex) := outcome false t kw
    let (fcc, ftext, _, _, fex) := outcome true t kw
    let sp (s : String) : String × String := match s.splitOn " " with
      | [a, b] => (a, b)
      | _ => (s, "_")
    let (e1, s1) := sp ex
    let (e2, s2) := sp fex
    s!"cc={cc} text={text} ctors={ctors} dbu={dbu} exec={e1} same={s1} fixcc={fcc} fixtext={ftext} fixexec={e2} fixsame={s2}"
  | _, _ => "bad-op"

/-! ### display -/

open Cfdm.DataStr in
def parseElem (s : String) : Option Elem :=
  if s == "M" then some .masked
  else if s.startsWith "V" then some (.val (s.drop 1).toString) else none

open Cfdm.DataStr in
def parseUnits (s : String) : Option (Option Units) :=
  if s == "_" then some none
  else
    let rest := (s.drop 1).toString
    match (s.take 1).toString with
    | "S" => some (some (.str rest true))
    | "s" => some (some (.str rest false))
    | "o" => some (some (.other rest))
    | _ => none

/- `Q` = the conversion raises `KeyError` (an empty calendar string): caught by the code with the
proposed repair (`fixed`), not caught by the code as it is -/
open Cfdm.DataStr in
def parseDateRes (fixed : Bool) (s : String) : Option DateRes :=
  if s == "C" then some .caught else if s == "U" then some .uncaught
  else if s == "Q" then some (if fixed then .caught else .uncaught)
  else if s.startsWith "K" then some (.ok (s.drop 1).toString) else none

open Cfdm.DataStr in
def parseDateRes2 (fixed : Bool) (s : String) : Option DateRes2 :=
  if s == "C" then some .caught else if s == "U" then some .uncaught
  else if s == "Q" then some (if fixed then .caught else .uncaught)
  else if s.startsWith "K" then
    match (s.drop 1).toString.splitOn "~" with
    | [a, b] => some (.ok a b)
    | _ => none
  else none

/-- tokens are opaque to the model; the separators the formatter inserts are written as
`,` / `...` / `[` / `]` / `~` (blank) so that the output stays one token -/
def glue (s : String) : String := s.replace " " "~"

open Cfdm.DataStr in
def runDstr (kv : KV) : String :=
  let r : Option String := do
    let shape ← parseNatList (← kv.get? "shape")
    let elems ← (← listBody (← kv.get? "elems")).mapM parseElem
    let units ← parseUnits (← kv.get? "units")
    let cal := opt (← kv.get? "cal")
    let d : DData := ⟨shape, elems, units, cal⟩
    let sh (o : Option String) : String := match o with
      | some s => "ok:" ++ glue s
      | none => "raised"
    let go (fixed : Bool) : Option (String × String) := do
      let c1 ← parseDateRes fixed (← kv.get? "c1")
      let cm ← parseDateRes fixed (← kv.get? "cm")
      let c2 ← parseDateRes2 fixed (← kv.get? "c2")
      -- the conversions of this input: the 0-d one is asked for the first (size 1) or for the middle element
      let cv : Conv := ⟨fun _ => if elems.length == 1 then c1 else cm, fun _ _ => c2⟩
      some (sh (dataStr cv d), sh (dataRepr cv d))
    let (a, b) ← go true
    let (oa, ob) ← go false
    some s!"str={a} repr={b} oldstr={oa} oldrepr={ob}"
  r.getD "bad-op"

open Cfdm.DataStr in
def runCstr (kv : KV) : String :=
  let r : Option String := do
    let ident ← kv.get? "id"
    let dims ← (let s := (← kv.get? "dims"); if s == "_" then some none else (parseNatList s).map some)
    let u ← parseUnits (← kv.get? "u")
    let c ← parseUnits (← kv.get? "c")
    let bu ← parseUnits (← kv.get? "bu")
    let bc ← parseUnits (← kv.get? "bc")
    let names ← parseStrList (← kv.get? "names")
    let shape ← parseNatList (← kv.get? "shape")
    let sh (o : Option String) : String := match o with
      | some s => "ok:" ++ glue s
      | none => "raised:TypeError"
    some s!"pd={sh (pdStr ident dims u c)} pdb={sh (pdbStr ident dims u c bu bc)} oldpd={sh (pdStrOld ident dims u c)} oldpdb={sh (pdbStrOld ident dims u c bu bc)} dims={String.intercalate "," (dumpDims names shape)}"
  r.getD "bad-op"

end Cfdm.Driver.C19Emit
