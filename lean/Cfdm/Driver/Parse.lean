/-
Line-protocol helpers for the model driver (core Lean only).
A line is `STREAM key=value key=value …`; values contain no blanks.
Lists are `[a,b,c]`; `_` is Python `None`.
-/
namespace Cfdm.Driver

def splitOnChar (s : String) (c : Char) : List String :=
  (s.splitOn (String.singleton c))

def parseInt? (s : String) : Option Int :=
  if s.startsWith "-" then (s.drop 1).toString.toNat?.map (fun n => -(n : Int))
  else s.toNat?.map (fun n => (n : Int))

def parseOptInt? (s : String) : Option (Option Int) :=
  if s == "_" then some none else (parseInt? s).map some

def stripBrackets (s : String) : Option String :=
  if s.startsWith "[" && s.endsWith "]" then some ((s.drop 1).dropEnd 1).toString else none

def parseListWith {α} (f : String → Option α) (sep : Char) (s : String) : Option (List α) := do
  let inner ← stripBrackets s
  if inner.isEmpty then some [] else
  (splitOnChar inner sep).mapM f

def parseIntList (s : String) : Option (List Int) := parseListWith parseInt? ',' s
def parseNatList (s : String) : Option (List Nat) := parseListWith String.toNat? ',' s
def parseOptIntList (s : String) : Option (List (Option Int)) := parseListWith parseOptInt? ',' s

abbrev KV := List (String × String)

def parseKV (toks : List String) : Option KV :=
  toks.mapM (fun t => match t.splitOn "=" with
    | k :: v :: rest => some (k, String.intercalate "=" (v :: rest))
    | _ => none)

def KV.get? (kv : KV) (k : String) : Option String := (kv.find? (·.1 == k)).map (·.2)

def showIntList (l : List Int) : String := "[" ++ String.intercalate "," (l.map toString) ++ "]"
def showNatList (l : List Nat) : String := "[" ++ String.intercalate "," (l.map toString) ++ "]"
def showOptNatList (l : List (Option Nat)) : String :=
  "[" ++ String.intercalate "," (l.map (fun o => match o with | none => "-" | some n => toString n)) ++ "]"
def showOptIntList (l : List (Option Int)) : String :=
  "[" ++ String.intercalate "," (l.map (fun o => match o with | none => "--" | some n => toString n)) ++ "]"

end Cfdm.Driver
