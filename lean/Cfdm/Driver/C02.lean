import Cfdm.Driver.Parse
import Cfdm.Spec.Constructs
/-
Driver for C02.

  C02.hist init=<state> ops=<op>;<op>;…   → I=<inv of the start state> P=<trace>
     trace = <step>;;<step>…   step = <ok|rej>@<inv 0|1>@<state after the operation>
     P = the container as coded at /repo HEAD (`step`)
     The state after a REJECTED `transpose` / `insert_dimension` with constructs=1 and inplace=1 is printed
     as `~` (it depends on the order in which the dictionaries are walked; the history ends there).

<state> = C[<con>,…]|T[<key>:<type>,…]|X[<key>:<keys>,…]|D<shape>|A<keys|_>
<con>   = type/key/data/bounds/geom/ring/size/cmaxes/coords/ancils
shape   = `_` (none) | `s` (scalar) | 3x4        keys = `n` (empty) | k+k+…
cmaxes  = `n` | tok+tok  (tok = key | ~name)      ancils = `n` | term~key+term~+…  (`term~` = term mapped to None)
A key inside an operation may be `#i` = the key returned by operation i; in the printed states a key
that was returned by an operation is printed as `#i` (latest i), so that the automatically generated
identifiers are compared up to renaming.

<via> = f (the field) | d (f.domain) | s (Domain(source=f, copy=False)) | c (Domain.fromconstructs(f.constructs))
        | v (Domain(source=f.domain, copy=False), a view of a view): d, s, c, v are live views of the same dictionaries
<op> = setc:<via>:<con with key `-`>:<key|_>:<keys|_>      delc:<via>:<key>
       setd:<shape>:<keys|_>    setdn:<shape>:<keys|_> (inplace=False)    deld    setda:<keys>
       setdak:<via>:<keys>:<key>    delda    deldak:<via>:<key>
       mut:<key>:<data|deldata|bounds|delbounds|size>:<shape|n|_>   (a mutator called on the contained construct)
       frame   (a mutation of a container with dictionaries of its own that was derived from the field)
       replace:<key>:<con>:<keys|_>    copy    sub:<a-b+a-b…|n>    squeeze:<idx|_>:<0|1>
       transpose:<idx|_>:<0|1>:<0|1>    insdim:<key|_>:<pos>:<0|1>:<0|1>    convert:<key>:<0|1>
-/
namespace Cfdm.Driver.C02
open Cfdm.Driver Cfdm.Constructs

def typeNames : List (String × CType) :=
  [("axis", .axis), ("dim", .dim), ("aux", .aux), ("msr", .msr), ("fan", .fan), ("dan", .dan),
   ("top", .top), ("con", .con), ("ref", .ref), ("cm", .cm)]

def parseType (s : String) : Option CType := (typeNames.find? (fun p => p.1 == s)).map (·.2)
def showType (t : CType) : String := ((typeNames.find? (fun p => p.2 = t)).map (·.1)).getD "?"

/-- An identifier of the standard form `<base><number>` (non-empty base, canonical number) is the key
`⟨base, number⟩`.  Any other string `s` (no digits at the end, a leading zero, digits only) is a legal
construct identifier too: it is carried as `⟨s ++ "$", 0⟩`, which no automatic identifier
(`⟨CType.base, n⟩`) and no standard identifier can equal (`$` does not occur in the protocol). -/
def parseKeyLit (s : String) : Option Key :=
  let cs := s.toList
  let digs := (cs.reverse.takeWhile Char.isDigit).reverse
  let base := cs.take (cs.length - digs.length)
  if cs.isEmpty || cs.contains '$' then none
  else if digs.isEmpty || base.isEmpty then some ⟨s ++ "$", 0⟩
  else if digs.length > 1 && digs.head? == some '0' then some ⟨s ++ "$", 0⟩
  else (String.ofList digs).toNat?.map (fun n => ⟨String.ofList base, n⟩)

abbrev Ret := List (Option Key)

/-- a key token: literal or `#i` -/
def parseKey (ret : Ret) (s : String) : Option Key :=
  if s.startsWith "#" then
    match (s.drop 1).toString.toNat? with
    | some i => (ret[i]?).join
    | none => none
  else parseKeyLit s

def showKeyLit (k : Key) : String :=
  if k.base.endsWith "$" then (k.base.dropEnd 1).toString else k.base ++ toString k.num

/-- latest operation that returned this key -/
def showKey (ret : Ret) (k : Key) : String :=
  match (ret.zipIdx.reverse.find? (fun p => p.1 = some k)) with
  | some p => "#" ++ toString p.2
  | none => showKeyLit k

def parseShape (s : String) : Option (Option (List Nat)) :=
  if s == "_" then some none
  else if s == "s" then some (some [])
  else ((s.splitOn "x").mapM String.toNat?).map some

def showShape : Option (List Nat) → String
  | none => "_"
  | some [] => "s"
  | some l => String.intercalate "x" (l.map toString)

def parseKeys (ret : Ret) (s : String) : Option (List Key) :=
  if s == "n" then some [] else (s.splitOn "+").mapM (parseKey ret)

def parseOptKeys (ret : Ret) (s : String) : Option (Option (List Key)) :=
  if s == "_" then some none else (parseKeys ret s).map some

def sortStrs (l : List String) : List String := l.mergeSort (fun a b => !(b < a))

def showKeys (ret : Ret) (l : List Key) : String :=
  if l.isEmpty then "n" else String.intercalate "+" (l.map (showKey ret))

def showOptKeys (ret : Ret) : Option (List Key) → String
  | none => "_"
  | some l => showKeys ret l

def parseCmAx (ret : Ret) (s : String) : Option CmAx :=
  if s.startsWith "~" then some (.name (s.drop 1).toString) else (parseKey ret s).map .key

def showCmAx (ret : Ret) : CmAx → String
  | .key k => showKey ret k
  | .name n => "~" ++ n

/-- `term~key` or `term~` (the term is mapped to None) -/
def parseAncil (ret : Ret) (s : String) : Option (String × Option Key) :=
  match s.splitOn "~" with
  | [t, v] => if v.isEmpty then some (t, none) else (parseKey ret v).map (fun k => (t, some k))
  | _ => none

def parseListOf {α} (f : String → Option α) (s : String) : Option (List α) :=
  if s == "n" then some [] else (s.splitOn "+").mapM f

def parseBool (s : String) : Option Bool :=
  match s with
  | "0" => some false
  | "1" => some true
  | _ => none

/-- `type/key/data/bounds/geom/ring/size/cmaxes/coords/ancils` -/
def parseCon (ret : Ret) (s : String) : Option (CType × String × Con) :=
  match s.splitOn "/" with
  | [t, k, d, b, g, r, sz, cmx, co, an] => do
    let t ← parseType t
    let d ← parseShape d
    let b ← parseShape b
    let g ← parseBool g
    let r ← parseShape r
    let sz ← if sz == "_" then some none else sz.toNat?.map some
    let cmx ← parseListOf (parseCmAx ret) cmx
    let co ← parseListOf (parseKey ret) co
    let an ← parseListOf (parseAncil ret) an
    some (t, k, { data := d, bounds := b, geom := g, ring := r, size := sz, cmAxes := cmx, coords := co,
                  ancils := an.map (·.2), terms := an.map (·.1) })
  | _ => none

def showCon (ret : Ret) (t : CType) (k : Key) (c : Con) : String :=
  String.intercalate "/" [showType t, showKey ret k, showShape c.data, showShape c.bounds,
    (if c.geom then "1" else "0"), showShape c.ring,
    (match c.size with | some n => toString n | none => "_"),
    (if c.cmAxes.isEmpty then "n" else String.intercalate "+" (sortStrs (c.cmAxes.map (showCmAx ret)))),
    (if c.coords.isEmpty then "n" else String.intercalate "+" (sortStrs (c.coords.map (showKey ret)))),
    (if c.ancils.isEmpty then "n" else String.intercalate "+" (sortStrs ((c.terms.zip c.ancils).map (fun a =>
      a.1 ++ "~" ++ (match a.2 with | some k => showKey ret k | none => "")))))]

def body (pre : String) (s : String) : Option (List String) :=
  if s.startsWith (pre ++ "[") && s.endsWith "]" then
    let inner := ((s.drop (pre.length + 1)).dropEnd 1).toString
    if inner.isEmpty then some [] else some (inner.splitOn ",")
  else none

def parseState (s : String) : Option St :=
  match s.splitOn "|" with
  | [c, t, x, d, a] => do
    let cons ← (← body "C" c).mapM (fun e => do
      let (t, k, con) ← parseCon [] e
      let k ← parseKeyLit k
      some ((t, k), con))
    let types ← (← body "T" t).mapM (fun e =>
      match e.splitOn ":" with
      | [k, t] => do some ((← parseKeyLit k), (← parseType t))
      | _ => none)
    let axes ← (← body "X" x).mapM (fun e =>
      match e.splitOn ":" with
      | [k, l] => do some ((← parseKeyLit k), (← parseKeys [] l))
      | _ => none)
    let data ← if d.startsWith "D" then parseShape (d.drop 1).toString else none
    let daxes ← if a.startsWith "A" then parseOptKeys [] (a.drop 1).toString else none
    some { cons := cons, ctype := types, caxes := axes, data := data, dataAxes := daxes, fda := daxes }
  | _ => none

def showList (l : List String) : String := "[" ++ String.intercalate "," (sortStrs l) ++ "]"

def showState (ret : Ret) (s : St) : String :=
  String.intercalate "|" [
    "C" ++ showList (s.cons.live.map (fun p => showCon ret p.1.1 p.1.2 p.2)),
    "T" ++ showList (s.ctype.live.map (fun p => showKey ret p.1 ++ ":" ++ showType p.2)),
    "X" ++ showList (s.caxes.live.map (fun p => showKey ret p.1 ++ ":" ++ showKeys ret p.2)),
    "D" ++ showShape s.data,
    "A" ++ showOptKeys ret s.dataAxes]

def parseView (s : String) : Option Bool :=
  match s with
  | "f" => some false
  | "d" => some true
  | "s" => some true
  | "c" => some true
  | "v" => some true
  | _ => none

def parseIdx (s : String) : Option (Option (List Nat)) :=
  if s == "_" then some none
  else if s == "n" then some (some [])
  else ((s.splitOn "+").mapM String.toNat?).map some

def parseSlices (s : String) : Option (List (Nat × Nat)) :=
  if s == "n" then some [] else
  (s.splitOn "+").mapM (fun t =>
    match t.splitOn "-" with
    | [a, b] => do some ((← a.toNat?), (← b.toNat?))
    | _ => none)

/-- the head of an operation may carry `@n`: which of several public routes the harness took to the same
call (`frame@2`, `mut@3:…`); the model does not distinguish them -/
def stripRoute (l : List String) : List String :=
  match l with
  | h :: r => ((h.splitOn "@").headD h) :: r
  | [] => []

def parseOp (ret : Ret) (s : String) : Option Op :=
  match stripRoute (s.splitOn ":") with
  | ["setc", v, c, k, ax] => do
    let (t, _, con) ← parseCon ret c
    let k ← if k == "_" then some none else (parseKey ret k).map some
    some (.setc (← parseView v) t con k (← parseOptKeys ret ax))
  | ["delc", v, k] => do some (.delc (← parseView v) (← parseKey ret k))
  | ["setd", shp, ax] => do
    match (← parseShape shp) with
    | some l => some (.setd l (← parseOptKeys ret ax))
    | none => none
  | ["setdn", shp, ax] => do
    match (← parseShape shp) with
    | some l => some (.setdn l (← parseOptKeys ret ax))
    | none => none
  | ["frame"] => some .frame
  | ["mut", k, what, arg] => do
    let k ← parseKey ret k
    match what with
    | "data" => match (← parseShape arg) with
      | some l => some (.mutate k (.setData l))
      | none => none
    | "deldata" => if arg == "_" then some (.mutate k .delData) else none
    | "bounds" => match (← parseShape arg) with
      | some l => some (.mutate k (.setBounds l))
      | none => none
    | "delbounds" => if arg == "_" then some (.mutate k .delBounds) else none
    | "size" => arg.toNat?.map (fun n => .mutate k (.setSize n))
    | _ => none
  | ["deld"] => some .deld
  | ["setda", ax] => do some (.setda (← parseKeys ret ax))
  | ["setdak", v, ax, k] => do some (.setdak (← parseView v) (← parseKeys ret ax) (← parseKey ret k))
  | ["delda"] => some .delda
  | ["deldak", v, k] => do some (.deldak (← parseView v) (← parseKey ret k))
  | ["replace", k, c, ax] => do
    let (_, _, con) ← parseCon ret c
    some (.replace (← parseKey ret k) con (← parseOptKeys ret ax))
  | ["copy"] => some .copy
  | ["sub", ix] => do some (.sub (← parseSlices ix))
  | ["squeeze", ax, ip] => do some (.squeeze (← parseIdx ax) (← parseBool ip))
  | ["transpose", ax, cs, ip] => do
    let cs ← parseBool cs
    let ip ← parseBool ip
    some (.transpose (← parseIdx ax) cs ip)
  | ["insdim", k, pos, cs, ip] => do
    let k ← if k == "_" then some none else (parseKey ret k).map some
    let cs ← parseBool cs
    let ip ← parseBool ip
    some (.insdim k (← pos.toNat?) cs ip)
  | ["convert", k, full] => do some (.convert (← parseKey ret k) (← parseBool full))
  | _ => none

/-- the state left by a rejected call depends on the order in which Python walks the dictionaries -/
def orderDependent : Op → Bool
  | .transpose _ cs ip => cs && ip
  | .insdim _ _ cs ip => cs && ip
  | _ => false

/-- replay the operation list; `none` = an operation could not be parsed -/
def replay : St → Ret → List String → List String → Option (List String)
  | _, _, [], acc => some acc.reverse
  | s, ret, o :: rest, acc =>
    match parseOp ret o with
    | none => none
    | some op =>
      let (s', out) := step s op
      let ret' := ret ++ [match out with | .ok k => k | .rejected => none]
      if orderDependent op && !out.isOk then some ("rej@~@~" :: acc).reverse else
      let line := (if out.isOk then "ok" else "rej") ++ "@" ++ (if decide (Inv s') then "1" else "0") ++ "@" ++ showState ret' s'
      replay s' ret' rest (line :: acc)

def runHist (kv : KV) : String :=
  match kv.get? "init", kv.get? "ops" with
  | some i, some o =>
    match parseState i with
    | none => "bad-op"
    | some s0 =>
      let ops := if o == "-" then [] else o.splitOn ";"
      match replay s0 [] ops [] with
      | some p => "I=" ++ (if decide (Inv s0) then "1" else "0") ++ " P=" ++ String.intercalate ";;" p
      | none => "bad-op"
  | _, _ => "bad-op"

def run (sub : String) (kv : KV) : String :=
  match sub with
  | "hist" => runHist kv
  | _ => "bad-op"

end Cfdm.Driver.C02
