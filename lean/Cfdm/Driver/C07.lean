import Cfdm.Driver.Parse
import Cfdm.Model.Mask
import Cfdm.Model.MaskDType
/-
Line protocol for C07.

  C07.read  dt=i2 data=[1,-32767,nan] fv=[5] mv=[2,3] vmin=- vmax=- vr=- sf=t ao=- uns=true
            mask=1 unpack=1 ix=[0,2]          →  kind=ma vals=[1,--]
  C07.apply f=<var> c=<var>/<var>|<var>/_ unpack=0 inplace=0   (here _ stands for a minus sign: no bounds)
            <var> = dt;data;fv;mv;vmin;vmax;vr;sf;ao;uns
            →  recv=<state> res=<state>       (or raised:ValueError)
            <state> = fielddata|con/bounds|con/_

  C07.dtype vars=<v>|<v>… unpack=1     <v> = type:scale_factor:add_offset:unsigned
            type = i1…f8; attribute = `-` absent, `t` text, `f4n` float32 neutral (1.0 / 0.0),
            `f4s` float32 not neutral; unsigned = 0/1
            →  adv/got/ref|…   advertised (patched reader), delivered, reference data type

  C07.data  arr=[1,--,nan] dfill=[5] fills=N|T|F|X|[1,nan] vmin=[2] vmax=- vr=[1,8] inplace=0
            `Data.apply_masking` called directly: arr may hold masked elements (`--`); dfill = the
            data's own fill value; fills: None / True / False / not a sequence / a sequence of scalars
            →  recv=[…] res=[…]   (or raised:ValueError / raised:TypeError)

Attribute: `-` absent, `t` text, `[v,…]` numeric vector; value: integer or `nan`.
-/
namespace Cfdm.Driver.C07
open Cfdm.Driver Cfdm.Mask

def parseV (s : String) : Option V :=
  if s == "nan" then some .nan else (parseInt? s).map V.num

def parseVList (s : String) : Option (List V) := parseListWith parseV ',' s

def parseAttr (s : String) : Option Attr :=
  if s == "-" then some none
  else if s == "t" then some (some .text)
  else match parseVList s with
    | some (hd :: tl) => some (some (.vals hd tl))
    | _ => none

def parseDT (s : String) : Option DType :=
  match s with
  | "i1" => some ⟨.int, 8⟩ | "i2" => some ⟨.int, 16⟩ | "i4" => some ⟨.int, 32⟩ | "i8" => some ⟨.int, 64⟩
  | "u1" => some ⟨.uint, 8⟩ | "u2" => some ⟨.uint, 16⟩ | "u4" => some ⟨.uint, 32⟩ | "u8" => some ⟨.uint, 64⟩
  | "f4" => some ⟨.float, 32⟩ | "f8" => some ⟨.float, 64⟩
  | "S1" => some ⟨.char, 8⟩ | "str" => some ⟨.vstr, 8⟩
  | _ => none

def parseBool (s : String) : Option Bool :=
  if s == "1" then some true else if s == "0" then some false else none

def parseUns (s : String) : Option (Option String) :=
  if s == "-" then some none else some (some s)

def showV : V → String
  | .nan => "nan"
  | .num z => toString z

def showElems (l : List (Option V)) : String :=
  "[" ++ String.intercalate "," (l.map (fun o => match o with | none => "--" | some v => showV v)) ++ "]"

def parseAttrs (fv mv vmin vmax vr sf ao uns : String) : Option Attrs := do
  let fv ← parseAttr fv; let mv ← parseAttr mv; let vmin ← parseAttr vmin; let vmax ← parseAttr vmax
  let vr ← parseAttr vr; let sf ← parseAttr sf; let ao ← parseAttr ao; let uns ← parseUns uns
  some { fillValue := fv, missingValue := mv, validMin := vmin, validMax := vmax, validRange := vr,
         scaleFactor := sf, addOffset := ao, unsigned := uns }

/-- every datum must be a value of the type (the harness only writes such files) -/
def dataOk (dt : DType) (data : List V) : Bool := data.all dt.fits

def runRead (kv : KV) : String :=
  match (do
    let dt ← parseDT (← kv.get? "dt")
    let data ← parseVList (← kv.get? "data")
    let a ← parseAttrs (← kv.get? "fv") (← kv.get? "mv") (← kv.get? "vmin") (← kv.get? "vmax")
      (← kv.get? "vr") (← kv.get? "sf") (← kv.get? "ao") (← kv.get? "uns")
    let m ← parseBool (← kv.get? "mask")
    let u ← parseBool (← kv.get? "unpack")
    let ix ← parseNatList (← kv.get? "ix")
    some (dt, data, a, m, u, ix)) with
  | none => "bad-op"
  | some (dt, data, a, m, u, ix) =>
    if !dataOk dt data || !(ix.all (· < data.length)) then "bad-op" else
    let r := read dt a m u (gather data ix)
    let k := match r.kind with | .masked => "ma" | .plain => "nd"
    s!"kind={k} vals={showElems r.elems}"

def parseVar (s : String) : Option Var :=
  match s.splitOn ";" with
  | [dt, data, fv, mv, vmin, vmax, vr, sf, ao, uns] => do
    let dt ← parseDT dt
    let data ← parseVList data
    let a ← parseAttrs fv mv vmin vmax vr sf ao uns
    if dataOk dt data then some { dt := dt, attrs := a, raw := data } else none
  | _ => none

def parseCon (s : String) : Option ConVar :=
  match s.splitOn "/" with
  | [m, b] => do
    let m ← parseVar m
    if b == "-" then some { main := m, bounds := none }
    else do
      let b ← parseVar b
      some { main := m, bounds := some b }
  | _ => none

def showCon (c : Con) : String :=
  showElems c.data ++ "/" ++ (match c.bdata with | some b => showElems b | none => "-")

def showState (s : FieldState) : String :=
  String.intercalate "|" (showElems s.data :: s.cons.map showCon)

def runApply (kv : KV) : String :=
  match (do
    let f ← parseVar (← kv.get? "f")
    let cs ← (((← kv.get? "c").splitOn "|").filter (· ≠ "")).mapM parseCon
    let u ← parseBool (← kv.get? "unpack")
    let ip ← parseBool (← kv.get? "inplace")
    some (f, cs, u, ip)) with
  | none => "bad-op"
  | some (f, cs, u, ip) =>
    match fieldApplyMasking ip (readField false u f cs) with
    | .error e => "raised:" ++ e
    | .ok (recv, res) => s!"recv={showState recv} res={showState res}"

/-! ### data types -/
open Cfdm.MaskDType in
def parseNT (s : String) : Option NT := NT.all.find? (fun t => t.name == s)

open Cfdm.MaskDType in
def parseAttrT (s : String) : Option AttrT :=
  if s == "-" then some .absent
  else if s == "t" then some .text
  else if s.length == 3 then
    match parseNT (s.take 2).toString, (s.drop 2).toString with
    | some t, "n" => some (.num t true)
    | some t, "s" => some (.num t false)
    | _, _ => none
  else none

open Cfdm.MaskDType in
def parseDVar (s : String) : Option (NT × Pack) :=
  match s.splitOn ":" with
  | [t, sf, ao, u] => do
    let t ← parseNT t
    let sf ← parseAttrT sf
    let ao ← parseAttrT ao
    let u ← parseBool u
    some (t, { sf := sf, ao := ao, uns := u })
  | _ => none

open Cfdm.MaskDType in
def runDType (kv : KV) : String :=
  match (do
    let vs ← ((← kv.get? "vars").splitOn "|").mapM parseDVar
    let u ← parseBool (← kv.get? "unpack")
    some (vs, u)) with
  | none => "bad-op"
  | some (vs, u) =>
    String.intercalate "|" (vs.map (fun (t, p) =>
      s!"{(advertisedT p u t).name}/{(deliveredT p u t).name}/{(refT p u t).name}"))

def parseOV (s : String) : Option (Option V) :=
  if s == "--" then some none else (parseV s).map some

def parseFillArg (s : String) : Option FillArg :=
  match s with
  | "N" => some .none_
  | "T" => some (.flag true)
  | "F" => some (.flag false)
  | "X" => some .notSeq
  | _ => (parseVList s).map (fun l => .seq (l.map (fun v => AttrVal.vals v [])))

def runData (kv : KV) : String :=
  match (do
    let arr ← parseListWith parseOV ',' (← kv.get? "arr")
    let dfill ← parseAttr (← kv.get? "dfill")
    let fills ← parseFillArg (← kv.get? "fills")
    let vmin ← parseAttr (← kv.get? "vmin")
    let vmax ← parseAttr (← kv.get? "vmax")
    let vr ← parseAttr (← kv.get? "vr")
    let ip ← parseBool (← kv.get? "inplace")
    some (arr, dfill, fills, vmin, vmax, vr, ip)) with
  | none => "bad-op"
  | some (arr, dfill, fills, vmin, vmax, vr, ip) =>
    match dataApplyMasking dfill fills vmin vmax vr arr with
    | .error e => "raised:" ++ e
    | .ok res => s!"recv={showElems (if ip then res else arr)} res={showElems res}"

def run (sub : String) (kv : KV) : String :=
  match sub with
  | "read" => runRead kv
  | "data" => runData kv
  | "apply" => runApply kv
  | "dtype" => runDType kv
  | _ => "bad-op"

end Cfdm.Driver.C07
