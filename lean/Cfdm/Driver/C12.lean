import Cfdm.Driver.Parse
import Cfdm.Driver.C03
import Cfdm.Model.Lazy
import Cfdm.Model.H5Index
import Cfdm.Model.Dtype
/-
C12 driver.

`C12.hist be=<nc4|h5> vars=<file>:<shape>;…  ops=<op>/<op>/…`
   shape `2x3` or `0d`; variable k (address k) holds the integers k*100000 + flat offset.
   ops: `copy~i` `sub~i~[raw index]` `tomem~i~<0|1>` `arr~i` `set~i~[raw index]~v` `eq~i~j`
        `first~i` `last~i` `second~i` `str~i` `tr~i~<0|1>` `ins~i~<0|1>` `sq~i~<0|1>` `fl~i~<0|1>` `edit~i`
   → per op `<obs> st=<D|M|-> new=<fetches> h=<open handles>` joined by ` | `, then ` || states=…`.
`C12.read be=<nc4|h5> vars=<addr>:<shape>:<role>;…`
   → `st=<addr>:<D|M>,… log=<fetches> h=<open handles>`
-/
namespace Cfdm.Driver.C12
open Cfdm.Driver Cfdm.PySlice Cfdm.Indexing Cfdm.Arr Cfdm.Lazy Cfdm.H5Index

def parseShape (s : String) : Option (List Nat) :=
  if s == "0d" then some [] else (s.splitOn "x").mapM String.toNat?

def parseBackend (s : String) : Option Backend :=
  if s == "nc4" then some nc4 else if s == "h5" then some h5 else if s == "h5old" then some h5Old
  else if s == "nc4old" then some nc4Old else none

def parseBool (s : String) : Option Bool :=
  if s == "1" then some true else if s == "0" then some false else none

def parseOp (s : String) : Option (Op Int) :=
  match s.splitOn "~" with
  | ["copy", i] => (i.toNat?).map Op.copy
  | ["edit", i] => (i.toNat?).map Op.edit
  | ["arr", i] => (i.toNat?).map Op.array
  | ["first", i] => (i.toNat?).map Op.first
  | ["last", i] => (i.toNat?).map Op.last
  | ["second", i] => (i.toNat?).map Op.second
  | ["str", i] => (i.toNat?).map Op.str
  | ["sub", i, ix] => do some (Op.subspace (← i.toNat?) (← C03.parseRaws ix))
  | ["tomem", i, p] => do some (Op.toMemory (← i.toNat?) (← parseBool p))
  | ["tr", i, p] => do some (Op.transpose (← i.toNat?) (← parseBool p))
  | ["ins", i, p] => do some (Op.insertDim (← i.toNat?) (← parseBool p))
  | ["sq", i, p] => do some (Op.squeeze (← i.toNat?) (← parseBool p))
  | ["fl", i, p] => do some (Op.flatten (← i.toNat?) (← parseBool p))
  | ["set", i, ix, v] => do some (Op.setitem (← i.toNat?) (← C03.parseRaws ix) (← parseInt? v))
  | ["eq", i, j] => do some (Op.equals (← i.toNat?) (← j.toNat?))
  | _ => none

def showErr : Err → String
  | .indexError => "raised:IndexError"
  | .valueError => "raised:ValueError"
  | .backend => "raised:backend"

def showObs : Obs Int → String
  | .none => "ok"
  | .handle h => s!"h{h}"
  | .values shape vals => s!"v:{showNatList shape}:{showIntList vals}"
  | .bool b => s!"b:{b}"
  | .elems vals => s!"e:{showIntList vals}"
  | .raised e => showErr e

def showAxis (l : List Nat) : String :=
  if l.isEmpty then "_" else String.intercalate "," (l.map toString)

def showFetch (f : Fetch) : String :=
  s!"{f.loc.file}.{f.loc.addr}@" ++ (if f.ps.isEmpty then "-" else String.intercalate ";" (f.ps.map showAxis))

def showFetches (l : List Fetch) : String :=
  if l.isEmpty then "none" else String.intercalate "+" (l.map showFetch)

def showState (s : Option (AState Int)) : String :=
  match s with
  | none => "-"
  | some (.disk ..) => "D"
  | some (.mem _) => "M"

/-- The handle whose state is reported after an operation. -/
def resultHandle (w : World Int) (op : Op Int) (o : Obs Int) : Option Nat :=
  match o with
  | .handle h => some h
  | _ => match op with
    | .copy i | .edit i | .subspace i _ | .toMemory i _ | .array i | .setitem i _ _ | .equals i _
    | .first i | .last i | .second i | .str i | .transpose i _ | .insertDim i _ | .squeeze i _ | .flatten i _ => if i < w.heap.length then some i else none

def parseHistVar (t : String) : Option (Nat × List Nat) :=
  match t.splitOn ":" with
  | [f, sh] => do some ((← f.toNat?), (← parseShape sh))
  | _ => none

def runHist (kv : KV) : String :=
  match (do
    let b ← parseBackend (← kv.get? "be")
    let vars ← ((← kv.get? "vars").splitOn ";").mapM parseHistVar
    let opsS ← kv.get? "ops"
    let ops ← if opsS == "-" then some [] else (opsS.splitOn "/").mapM parseOp
    some (b, vars, ops)) with
  | none => "bad-op"
  | some (b, vars, ops) =>
    let shapes : List (Nat × List Nat) := vars
    let st : Store Int := fun loc =>
      match shapes[loc.addr]? with
      | some (_, sh) => { shape := sh, get := fun idx => (loc.addr * 100000 + ravel sh idx : Nat) }
      | none => { shape := [], get := fun _ => 0 }
    let heap : List (AState Int) := (List.range shapes.length).map (fun k =>
      match shapes[k]? with
      | some (f, sh) => AState.disk ⟨f, k⟩ sh
      | none => AState.disk ⟨0, k⟩ [])
    let w0 : World Int := { heap := heap, log := [], handles := 0 }
    let (wf, outs) := ops.foldl (fun (acc : World Int × List String) op =>
      let (w, outs) := acc
      let (w', o) := step b st w op
      let newLog := w'.log.drop w.log.length
      let rs := match resultHandle w' op o with
        | some h => showState w'.heap[h]?
        | none => "-"
      -- level 2 (not part of the verdict): what the first access of `_index` asks of the variable
      let rd := match op with
        | .subspace i ix =>
          match w.heap[i]? with
          | some (.disk _ shape) =>
            match parse shape ix with
            | .ok sels => if selsWf shape sels then
                " rd=" ++ (let r := backendReads b shape sels
                           if r.isEmpty then "-" else String.intercalate ";" (r.map showAxis))
              else ""
            | .error _ => ""
          | _ => ""
        | _ => ""
      (w', outs ++ [s!"{showObs o} st={rs} new={showFetches newLog} h={w'.handles}{rd}"])) (w0, [])
    String.intercalate " | " outs ++ " || states=" ++ String.intercalate "," (wf.heap.map (fun s => showState (some s)))

def parseRole (s : String) : Option Role :=
  match s with
  | "data" => some .data | "coord" => some .coord | "scalarCoord" => some .scalarCoord
  | "scalarBounds" => some .scalarBounds | "bounds" => some .bounds | "measure" => some .measure
  | "count" => some .count | "index" => some .index | "listVar" => some .listVar
  | "sample" => some .sample | "nodesFlat" => some .nodesFlat | "connT" => some .connT
  | "conn" => some .conn | "connS" => some .connS
  | _ => none

def parseReadVar (t : String) : Option VarDesc :=
  match t.splitOn ":" with
  | [a, sh, r] => do some (VarDesc.mk ⟨0, (← a.toNat?)⟩ (← parseShape sh) (← parseRole r))
  | _ => none

def runRead (kv : KV) : String :=
  match (do
    let b ← parseBackend (← kv.get? "be")
    let vs ← ((← kv.get? "vars").splitOn ";").mapM parseReadVar
    some (b, vs)) with
  | none => "bad-op"
  | some (b, vs) =>
    let st : Store Int := fun loc =>
      match vs.find? (fun (v : VarDesc) => v.loc == loc) with
      | some v => { shape := v.shape, get := fun idx => (ravel v.shape idx : Nat) }
      | none => { shape := [], get := fun _ => 0 }
    -- optional: ext=<0/1 flags, one per distinct external file> grp=<0|1>
    let exts : List Bool := match kv.get? "ext" with
      | some e => if e == "-" then [] else e.toList.map (· == '1')
      | none => []
    let grp := kv.get? "grp" == some "1"
    let w := readFilePlan b st { heap := [], log := [], handles := 0 } ⟨exts, grp, none⟩ vs
    let sts := (vs.zip w.heap).map (fun (p : VarDesc × AState Int) => s!"{p.1.loc.addr}:{showState (some p.2)}")
    s!"st={String.intercalate "," sts} log={showFetches w.log} h={w.handles}"

/-! `C12.vs be=<nc4|h5|h5old> shape=<shape> ix=[raw index]`
   a field whose data variable has that shape (value = flat offset), each axis k with a coordinate
   variable (value = position) and its bounds variable (n_k x 2, value = flat offset), subspaced
   lazily with the index and then realised.
   → `d=<shape>:<values> rd=<what the variable is asked for> c<k>=<values> r<k>=<asked> b<k>=<values> …`
   or `raised:<…>`; a component the backend refuses prints as `raised:backend`. -/

def showPs (r : List (List Nat)) : String :=
  if r.isEmpty then "-" else String.intercalate ";" (r.map showAxis)

def access (be : String) (A : Arr Nat) (sels : List Sel) : Except Err (Arr Nat) :=
  if be == "nc4" then .ok (takeAll A (positionsNat A.shape sels))
  else if be == "h5old" then indexH5Old A sels
  else indexH5 A sels

def reads (be : String) (shape : List Nat) (sels : List Sel) : List (List Nat) :=
  if be == "nc4" then positionsNat shape sels
  else if be == "h5old" then positionsNat shape sels
  else h5Reads shape sels

def showAccess (r : Except Err (Arr Nat)) : String :=
  match r with
  | .ok B => s!"{showNatList B.shape}:{showNatList (toList B)}"
  | .error e => showErr e

def runVs (kv : KV) : String :=
  match (do
    let be ← kv.get? "be"
    let _ ← parseBackend be
    let shape ← parseShape (← kv.get? "shape")
    let raw ← C03.parseRaws (← kv.get? "ix")
    some (be, shape, raw)) with
  | none => "bad-op"
  | some (be, shape, raw) =>
    match parse shape raw with
    | .error e => showErr e
    | .ok sels =>
      match checkIndex shape sels with
      | some e => showErr e
      | none =>
        let d := s!"d={showAccess (access be (iota shape) sels)} rd={showPs (reads be shape sels)}"
        let cs := (List.range shape.length).map (fun k =>
          let n := shape.getD k 0
          let sel := sels.getD k (.slice none none none)
          let bsel : Sel := if boundsReversed (normSel n sel) then .slice none none (some (-1)) else .slice none none none
          s!"c{k}={showAccess (access be (iota [n]) [sel])} r{k}={showPs (reads be [n] [sel])} " ++
          s!"b{k}={showAccess (access be (iota [n, 2]) [sel, bsel])}")
        String.intercalate " " (d :: cs)

/-! `C12.dtype vt=<dt> sf=<dt>:<0|1>|- ao=<dt>:<0|1>|- uns=<0|1> data=<0|1> unpack=<0|1>`
   → `adv=<dt> del=<dt> advold=<dt>`;  `C12.promote a=<dt> b=<dt>` → `rt=<dt> safe=<0|1>`. -/
open Cfdm.Dtype in
def parseDT (s : String) : Option DT :=
  match s with
  | "i1" => some .i1 | "i2" => some .i2 | "i4" => some .i4 | "i8" => some .i8
  | "u1" => some .u1 | "u2" => some .u2 | "u4" => some .u4 | "u8" => some .u8
  | "f4" => some .f4 | "f8" => some .f8
  | _ => none

open Cfdm.Dtype in
def showDT : DT → String
  | .i1 => "i1" | .i2 => "i2" | .i4 => "i4" | .i8 => "i8"
  | .u1 => "u1" | .u2 => "u2" | .u4 => "u4" | .u8 => "u8"
  | .f4 => "f4" | .f8 => "f8"

open Cfdm.Dtype in
def parseAttr (s : String) : Option (Option Attr) :=
  if s == "-" then some none else
  match s.splitOn ":" with
  | [d, n] => do some (some ⟨← parseDT d, ← parseBool n⟩)
  | _ => none

open Cfdm.Dtype in
def runDtype (kv : KV) : String :=
  match (do
    let vt ← parseDT (← kv.get? "vt")
    let sf ← parseAttr (← kv.get? "sf")
    let ao ← parseAttr (← kv.get? "ao")
    let uns ← parseBool (← kv.get? "uns")
    let isd ← parseBool (← kv.get? "data")
    let unp ← parseBool (← kv.get? "unpack")
    some (Var.mk vt sf ao uns isd, unp)) with
  | none => "bad-op"
  | some (v, unp) =>
    s!"adv={showDT (advertised unp v)} del={showDT (delivered unp v)} advold={showDT (advertisedOld unp v)}"

open Cfdm.Dtype in
def runPromote (kv : KV) : String :=
  match (do
    let a ← parseDT (← kv.get? "a")
    let b ← parseDT (← kv.get? "b")
    some (a, b)) with
  | none => "bad-op"
  | some (a, b) => s!"rt={showDT (resultType a b)} safe={if safeCast a b then 1 else 0}"

def run (sub : String) (kv : KV) : String :=
  match sub with
  | "hist" => runHist kv
  | "read" => runRead kv
  | "vs" => runVs kv
  | "dtype" => runDtype kv
  | "promote" => runPromote kv
  | _ => "bad-op"

end Cfdm.Driver.C12
