import Cfdm.Driver.Parse
import Cfdm.Model.Settings
import Cfdm.Model.SettingsFine
import Cfdm.Model.SettingsCm
/-
Line protocol of C20.

  C20.prog p=<program>     `<new>#<mid>#<old>`: events of the program under `decoNew` (what the
                           property demands), under the decorator after fixes/C20-verbose-scope.patch
                           (`decoMidFine`, statement by statement) and under the decorator of 1.11.2.0
                           (`decoOldFine`); the harness compares with the first and uses the other
                           two only to recognise the known defects of the code as it is
  C20.new / C20.mid / C20.old   one of the three alone
  C20.tab                  the enumeration table the model is built on
  C20.cm ev=<events>       objects returned by setters / configuration used as context managers in
                           any interleaving (suspended generators, re-entrancy):
                             mk:<a|r|l>:<arg>  mkcfg:<a>:<r>:<l>  enter:<obj>  exit:<block>  set:<a|r|l>:<arg>
  C20.fn f=<helper> …      the private helpers, from any logging state (lvl= root= dis=):
                             f=dl arg=<_|e|NAME>          _disable_logging(at_level)   (e = "")
                             f=valid arg=<int>            _is_valid_log_level_int
                             f=reset arg=<c:NAME|i:INT|s:NAME>   _reset_log_emergence_level
                             f=parse arg=<n…|i…>          log_level._parse

Program syntax (no blanks):  stmt (';' stmt)*
  set:<a|r|l>:<arg>              arg: `_` no argument | t<k> | bad | n<NAME> | i<int>
  cfg:<a>:<r>:<l>                `_` = None
  with:<a|r|l>:<arg>{…}          with cfdm.atol(arg): …
  wcfg:<a>:<r>:<l>{…}            with cfdm.configuration(…): …
  call:<verbose>{…}              verbose: N | i<int> | s<name> | bT | bF
  real:<k>:<verbose>:<o|x>:<inner>   decorated cfdm function number k; x = called so that it raises;
                                 inner = verbosity of the decorated call it makes itself (N = none)
  try{…}    raise:<V|T|K>    eq:<r>:<a>:<m>[:<how>]   (r, a: `_` or tolerance number; 8 = zero)
  vd:<r>:<a>:<m>:<how>           the verdict of an `equals` of a cfdm class found by reflection; the call
                                 itself follows as `real:…` (how: which class / where the operands differ /
                                 how the numbers are spelled and passed — harness only)
-/
namespace Cfdm.Driver.C20
open Cfdm.Driver Cfdm.Settings

/-- Split at `;`, `{`, `}`; braces are tokens of their own. -/
def tokenize (s : String) : List String :=
  let step (acc : List String × String) (c : Char) : List String × String :=
    if c == ';' then ((if acc.2.isEmpty then acc.1 else acc.2 :: acc.1), "")
    else if c == '{' || c == '}' then
      (String.singleton c :: (if acc.2.isEmpty then acc.1 else acc.2 :: acc.1), "")
    else (acc.1, acc.2.push c)
  let r := s.toList.foldl step ([], "")
  (if r.2.isEmpty then r.1 else r.2 :: r.1).reverse

def parseTol (s : String) : Option (Option TolArg) :=
  if s == "_" then some none
  else if s == "bad" then some (some .bad)
  else if s.startsWith "t" then (s.drop 1).toString.toNat?.map (fun k => some (.val k))
  else none

def isName (s : String) : Bool := !s.isEmpty && s.toList.all Char.isAlpha

def parseLvl (s : String) : Option (Option LvlArg) :=
  if s == "_" then some none
  else if s.startsWith "n" then
    let nm := (s.drop 1).toString
    if isName nm then some (some (.str nm)) else none
  else if s.startsWith "i" then (parseInt? (s.drop 1).toString).map (fun i => some (.int i))
  else none

def parseVerbose (s : String) : Option Verbose :=
  if s == "N" then some .none
  else if s == "bT" then some (.bool true)
  else if s == "bF" then some (.bool false)
  else if s.startsWith "i" then (parseInt? (s.drop 1).toString).map Verbose.int
  else if s.startsWith "s" then
    let nm := (s.drop 1).toString
    if isName nm then some (.str nm) else none
  else none

def parseSetOp (k a : String) : Option SetOp :=
  match k with
  | "a" => (parseTol a).map SetOp.atol
  | "r" => (parseTol a).map SetOp.rtol
  | "l" => (parseLvl a).map SetOp.log
  | _ => none

def parseCfg (a r l : String) : Option CfgArgs := do
  let a ← parseTol a; let r ← parseTol r; let l ← parseLvl l
  some { a := a, r := r, l := l }

def parseExc (s : String) : Option Exc :=
  match s with
  | "V" => some .ValueError | "T" => some .TypeError | "K" => some .KeyError | _ => none

def parseOptNat (s : String) : Option (Option Nat) :=
  if s == "_" then some none else s.toNat?.map some

def parseAtom (t : String) : Option Prog :=
  match t.splitOn ":" with
  | ["set", k, a] => (parseSetOp k a).map Prog.set
  | ["cfg", a, r, l] => (parseCfg a r l).map Prog.cfg
  | ["real", k, v, x, inner] => do
    let _ ← k.toNat?
    let v ← parseVerbose v
    let raises ← (if x == "x" then some true else if x == "o" then some false else none)
    let inner ← parseVerbose inner
    some (.real v raises inner)
  | ["raise", e] => (parseExc e).map Prog.raise
  | ["vd", r, a, m, _how] => do      -- the verdict of the decorated `equals` call that follows as `real:…`
    let r ← parseOptNat r; let a ← parseOptNat a; let m ← m.toNat?
    some (.verdict r a m)
  | ["eq", r, a, m] => do
    let r ← parseOptNat r; let a ← parseOptNat a; let m ← m.toNat?
    some (.eq r a m)
  | ["eq", r, a, m, _how] => do      -- _how: which construct / how the numbers are spelled (harness only)
    let r ← parseOptNat r; let a ← parseOptNat a; let m ← m.toNat?
    some (.eq r a m)
  | _ => none

def parseHead (t : String) : Option (Prog → Prog) :=
  match t.splitOn ":" with
  | ["with", k, a] => (parseSetOp k a).map (fun op => Prog.withSet op)
  | ["wcfg", a, r, l] => (parseCfg a r l).map (fun c => Prog.withCfg c)
  | ["call", v] => (parseVerbose v).map (fun v => Prog.call v)
  | ["try"] => some Prog.try_
  | _ => none

/-- Statements up to the closing brace of the enclosing block (not consumed) or the end. -/
def parseSeq : Nat → List String → Option (Prog × List String)
  | 0, _ => none
  | _ + 1, [] => some (.skip, [])
  | _ + 1, "}" :: rest => some (.skip, "}" :: rest)
  | fuel + 1, h :: "{" :: rest => do
    let mk ← parseHead h
    let (body, rest1) ← parseSeq fuel rest
    match rest1 with
    | "}" :: rest2 =>
      let (tail, rest3) ← parseSeq fuel rest2
      some (.seq (mk body) tail, rest3)
    | _ => none
  | fuel + 1, h :: rest => do
    let a ← parseAtom h
    let (tail, rest1) ← parseSeq fuel rest
    some (.seq a tail, rest1)

def parseProg (s : String) : Option Prog :=
  let toks := tokenize s
  match parseSeq (toks.length + 1) toks with
  | some (p, []) => some p
  | _ => none

def runProg (d : Deco) (kv : KV) : String :=
  match (do parseProg (← kv.get? "p")) with
  | none => "bad-op"
  | some p => String.intercalate ";" (fullTrace d p State.init)

/-- The three predictions on one line: `<new>#<mid>#<old>`.  The harness compares the
implementation with the first; the others only serve to recognise the known defects. -/
def runBoth (kv : KV) : String :=
  match (do parseProg (← kv.get? "p")) with
  | none => "bad-op"
  | some p =>
    String.intercalate ";" (fullTrace decoNew p State.init) ++ "#" ++
    String.intercalate ";" (fullTrace decoMidFine p State.init) ++ "#" ++
    String.intercalate ";" (fullTrace decoOldFine p State.init)

/-! ### Objects as context managers -/

def parseEv (t : String) : Option Ev :=
  match t.splitOn ":" with
  | ["mk", k, a] => (parseSetOp k a).map Ev.mk
  | ["mkcfg", a, r, l] => (parseCfg a r l).map Ev.mkCfg
  | ["enter", i] => i.toNat?.map Ev.enter
  | ["exit", j] => j.toNat?.map Ev.exit
  | ["set", k, a] => (parseSetOp k a).map Ev.set
  | ["bare"] => some Ev.bare
  | _ => none

def runCm (kv : KV) : String :=
  match (do
    let e ← kv.get? "ev"
    if e.isEmpty then some [] else (e.splitOn ";").mapM parseEv) with
  | none => "bad-op"
  | some es => String.intercalate ";" (traceEvs (CmState.init State.init) es)

/-! ### The private helpers -/

def parseLevelName (s : String) : Option Level := Level.all.find? (fun l => l.name == s)

def parseState (kv : KV) : Option State := do
  let l ← parseLevelName (← kv.get? "lvl")
  let r ← (← kv.get? "root").toNat?
  let d ← (← kv.get? "dis").toNat?
  some { State.init with level := l, root := r, disable := d }

def showRaw (s : State) : String := s!"l={s.level.name},root={s.root},dis={s.disable}"

def showEff (e : Eff) : String :=
  (match e.2 with | none => "ok" | some x => "raised:" ++ x.show) ++ "|" ++ showRaw e.1

def parsePyLevel (s : String) : Option PyLevel :=
  if s.startsWith "c:" then some (.const (s.drop 2).toString)
  else if s.startsWith "s:" then some (.str (s.drop 2).toString)
  else if s.startsWith "i:" then (parseInt? (s.drop 2).toString).map PyLevel.int
  else none

def runFn (kv : KV) : String :=
  match (do
    let f ← kv.get? "f"
    let arg ← kv.get? "arg"
    let s ← parseState kv
    match f with
    | "dl" =>
      let a : Option String := if arg == "_" then none else if arg == "e" then some "" else some arg
      some (showEff (disableLogging a s))
    | "valid" => do
      let i ← parseInt? arg
      some ((match isValidLogLevelInt i with | .ok b => (if b then "T" else "F") | .error x => "raised:" ++ x.show)
        ++ "|" ++ showRaw s)
    | "reset" => do
      let a ← parsePyLevel arg
      some (showEff (resetLogEmergenceLevel a s))
    | "parse" => do
      let a ← parseLvl arg
      let a ← a
      let r := logLevelParse a s
      some ((match r.1 with | some nm => "ret=" ++ nm ++ ";" | none => "") ++ showEff r.2)
    | _ => none) with
  | none => "bad-op"
  | some out => out

def showTable : String :=
  String.intercalate "," (Level.all.map (fun l => s!"{l.name}:{l.value}:{l.no}")) ++ s!" critical={critical}"

def run (sub : String) (kv : KV) : String :=
  match sub with
  | "prog" => runBoth kv
  | "new" => runProg decoNew kv
  | "mid" => runProg decoMidFine kv
  | "old" => runProg decoOldFine kv
  | "cm" => runCm kv
  | "fn" => runFn kv
  | "tab" => showTable
  | _ => "bad-op"

end Cfdm.Driver.C20
