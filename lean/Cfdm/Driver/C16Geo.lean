import Cfdm.Driver.Parse
import Cfdm.Model.SubsampleGeo
/-
Driver for the C16 streams q1 / q2 (quadratic_latitude_longitude, bi_quadratic_latitude_longitude).

The model (`Cfdm/Model/SubsampleGeo.lean`) leaves `_fll2v`, `_fv2lat`, `_fv2lon`, `_fsqrt`
uninterpreted (`Geo`).  To EXECUTE the very definitions the theorems are about, this driver
instantiates `Geo` with fixed-point rational approximations of the real functions (about 23
significant decimal digits (80 fractional bits): Taylor series for sine / cosine / arctangent on reduced arguments,
integer square roots), far more precise than IEEE double, and prints every value rounded to
1e-9 degrees; the harness compares with a tolerance of a few 1e-9.  These approximations are
driver glue, not part of the model and not proved; the comparison is a sampled tolerance check.

  C16.q1 lat=0|1 n=N t=[…] lden=D pden=E tp=[lat row;…] tpo=[lon row;…] ce=[row;…]|- ca=…|- fl=[row;…]
      one row per combination of the non-interpolated dimensions; tie points are integers / D
      degrees, ce / ca integers / E per interpolation subarea, fl the location_use_3d_cartesian flags
  C16.q2 lat=0|1 n0= n1= t0= t1= lden= pden= tp= tpo= ce1= ca1= ce2= ca2= ce3= ca3= fl=
      each row is the row-major matrix of its term (tie points: len t0 × len t1; ce1/ca1: len t0 ×
      subareas of t1; ce2/ca2: subareas of t0 × len t1; ce3/ca3/fl: subareas × subareas)
      → shape=[R,…] data=[…]   values × 1e9, rounded; `--` = masked
-/
namespace Cfdm.Driver.C16Geo
open Cfdm.Driver Cfdm.Subsample

/-! ### fixed-point real functions -/

def P : Nat := 80
def one : Rat := ((2 ^ P : Nat) : Rat)

/-- Round to a multiple of 2^-80. -/
def rnd (x : Rat) : Rat := ((x * one).floor : Rat) / one

def piQ : Rat := rnd ((314159265358979323846264338327950288 : Rat) / (100000000000000000000000000000000000 : Rat))

def sqrtQ (x : Rat) : Rat :=
  if x ≤ 0 then 0
  else
    let n := (x * one * one).floor.toNat
    ((Nat.sqrt n : Nat) : Rat) / one

/-- Σ_{k < terms} (-1)^k x^(2k+e) / (2k+e)!  (e = 1: sine, e = 0: cosine), |x| ≤ 4. -/
def sinCosSeries (x : Rat) (e : Nat) (terms : Nat) : Rat := Id.run do
  let x2 := rnd (x * x)
  let mut term : Rat := if e == 1 then x else 1
  let mut acc : Rat := term
  for k in [1:terms] do
    let d := ((2 * k + e - 1) * (2 * k + e) : Nat)
    term := rnd (-(term * x2) / (d : Rat))
    acc := acc + term
  return rnd acc

def sinQ (x : Rat) : Rat := sinCosSeries (rnd x) 1 28
def cosQ (x : Rat) : Rat := sinCosSeries (rnd x) 0 28

/-- arctangent for |z| ≤ 1: three argument halvings, then the alternating series. -/
def atanSmall (z : Rat) : Rat := Id.run do
  let mut y := rnd z
  for _ in [0:3] do
    y := rnd (y / (1 + sqrtQ (1 + y * y)))
  let y2 := rnd (y * y)
  let mut pw := y
  let mut acc := y
  for k in [1:30] do
    pw := rnd (-(pw * y2))
    acc := acc + rnd (pw / ((2 * k + 1 : Nat) : Rat))
  return rnd (8 * acc)

def atanQ (z : Rat) : Rat :=
  if z > 1 then piQ / 2 - atanSmall (1 / z)
  else if z < -1 then -(piQ / 2) - atanSmall (1 / z)
  else atanSmall z

def atan2Q (y x : Rat) : Rat :=
  if x > 0 then atanQ (y / x)
  else if x < 0 then (if y ≥ 0 then atanQ (y / x) + piQ else atanQ (y / x) - piQ)
  else if y > 0 then piQ / 2 else if y < 0 then -(piQ / 2) else 0

def deg2rad (d : Rat) : Rat := rnd (d * piQ / 180)
def rad2deg (r : Rat) : Rat := rnd (r * 180 / piQ)

/-- The numeric instance of the model's uninterpreted primitives. -/
def numGeo : Geo :=
  { ll2v := fun lat lon =>
      let la := deg2rad lat
      let lo := deg2rad lon
      let cl := cosQ la
      ⟨rnd (cl * cosQ lo), rnd (cl * sinQ lo), sinQ la⟩
    v2lat := fun v =>
      let x := rnd v.x; let y := rnd v.y; let z := rnd v.z
      rad2deg (atan2Q z (sqrtQ (x * x + y * y)))
    v2lon := fun v => rad2deg (atan2Q (rnd v.y) (rnd v.x))
    sqrt := fun t => sqrtQ (rnd t) }

/-! ### protocol -/

def parseRow (s : String) : Option (List Int) :=
  if s.isEmpty then some [] else (splitOnChar s ',').mapM parseInt?

def parseRows (s : String) : Option (List (List Int)) := do
  let inner ← stripBrackets s
  (splitOnChar inner ';').mapM parseRow

def parseOptRows (kv : KV) (k : String) : Option (Option (List (List Int))) := do
  let s ← kv.get? k
  if s == "-" then some none else (parseRows s).map some

def showNano : Option Rat → String
  | none => "--"
  | some q =>
    let x := q * (1000000000 : Rat)
    toString ((x + 1 / 2).floor)

def toQ (den : Nat) (x : Int) : Rat := (x : Rat) / (den : Rat)

def runQ1 (kv : KV) : String :=
  match (do
    let lat ← (← kv.get? "lat").toNat?
    let n ← (← kv.get? "n").toNat?
    let t ← parseNatList (← kv.get? "t")
    let lden ← (← kv.get? "lden").toNat?
    let pden ← (← kv.get? "pden").toNat?
    let tp ← parseRows (← kv.get? "tp")
    let tpo ← parseRows (← kv.get? "tpo")
    let ce ← parseOptRows kv "ce"
    let ca ← parseOptRows kv "ca"
    let fl ← parseRows (← kv.get? "fl")
    if lden == 0 || pden == 0 || lat > 1 then none
    if tp.length != tpo.length || fl.length != tp.length then none
    if !(tp.all (fun r => r.length == t.length)) || !(tpo.all (fun r => r.length == t.length)) then none
    let nsub := (subs t).length
    if !(fl.all (fun r => r.length == nsub)) then none
    match ce with | some c => if c.length != tp.length || !(c.all (fun r => r.length == nsub)) then none | none => pure ()
    match ca with | some c => if c.length != tp.length || !(c.all (fun r => r.length == nsub)) then none | none => pure ()
    some (lat == 1, n, t, lden, pden, tp, tpo, ce, ca, fl)) with
  | none => "bad-op"
  | some (latitude, n, t, lden, pden, tp, tpo, ce, ca, fl) =>
    let rows := (List.range tp.length).map (fun r =>
      -- `tp` holds the coordinate observed, `tpo` the dependent tie points
      let mine := (tp.getD r []).map (toQ lden)
      let other := (tpo.getD r []).map (toQ lden)
      let ll : List LL := if latitude then List.zip mine other else List.zip other mine
      let P : QParams :=
        { ce := ce.map (fun c => (c.getD r []).map (toQ pden))
          ca := ca.map (fun c => (c.getD r []).map (toQ pden))
          cart := (fl.getD r []).map (fun x => x != 0) }
      (recon1G (qllM numGeo latitude ll P) n t).map showNano)
    s!"shape={showNatList [tp.length, n]} data=[{String.intercalate "," rows.flatten}]"

def matFn (row : List Int) (ncol : Nat) (den : Nat) : Nat → Nat → Rat :=
  fun i j => toQ den (row.getD (i * ncol + j) 0)

def chunk {α} (k : Nat) : Nat → List α → List (List α)
  | 0, _ => []
  | n + 1, l => l.take k :: chunk k n (l.drop k)

def runQ2 (kv : KV) : String :=
  match (do
    let lat ← (← kv.get? "lat").toNat?
    let n0 ← (← kv.get? "n0").toNat?
    let n1 ← (← kv.get? "n1").toNat?
    let t0 ← parseNatList (← kv.get? "t0")
    let t1 ← parseNatList (← kv.get? "t1")
    let lden ← (← kv.get? "lden").toNat?
    let pden ← (← kv.get? "pden").toNat?
    let tp ← parseRows (← kv.get? "tp")
    let tpo ← parseRows (← kv.get? "tpo")
    let ce1 ← parseOptRows kv "ce1"
    let ca1 ← parseOptRows kv "ca1"
    let ce2 ← parseOptRows kv "ce2"
    let ca2 ← parseOptRows kv "ca2"
    let ce3 ← parseOptRows kv "ce3"
    let ca3 ← parseOptRows kv "ca3"
    let fl ← parseRows (← kv.get? "fl")
    if lden == 0 || pden == 0 || lat > 1 then none
    let R := tp.length
    let m0 := t0.length
    let m1 := t1.length
    let s0 := (subs t0).length
    let s1 := (subs t1).length
    let ok := fun (x : Option (List (List Int))) (sz : Nat) => match x with
      | none => true
      | some c => c.length == R && c.all (fun r => r.length == sz)
    if tpo.length != R || fl.length != R then none
    if !(ok (some tp) (m0 * m1) && ok (some tpo) (m0 * m1) && ok ce1 (m0 * s1) && ok ca1 (m0 * s1) &&
         ok ce2 (s0 * m1) && ok ca2 (s0 * m1) && ok ce3 (s0 * s1) && ok ca3 (s0 * s1) &&
         ok (some fl) (s0 * s1)) then none
    some (lat == 1, n0, n1, t0, t1, lden, pden, tp, tpo, ce1, ca1, ce2, ca2, ce3, ca3, fl)) with
  | none => "bad-op"
  | some (latitude, n0, n1, t0, t1, lden, pden, tp, tpo, ce1, ca1, ce2, ca2, ce3, ca3, fl) =>
    let m1 := t1.length
    let s1 := (subs t1).length
    let rows := (List.range tp.length).map (fun r =>
      let mine := (tp.getD r []).map (toQ lden)
      let other := (tpo.getD r []).map (toQ lden)
      let ll : List LL := if latitude then List.zip mine other else List.zip other mine
      let tp2 : List (List LL) := chunk m1 t0.length ll
      let term := fun (x : Option (List (List Int))) (ncol : Nat) =>
        x.map (fun c => matFn (c.getD r []) ncol pden)
      let flr := fl.getD r []
      let P : BQParams :=
        { ce1 := term ce1 s1, ca1 := term ca1 s1, ce2 := term ce2 m1, ca2 := term ca2 m1,
          ce3 := term ce3 s1, ca3 := term ca3 s1,
          cart := fun j2 j1 => flr.getD (j2 * s1 + j1) 0 != 0 }
      ((recon2G (bqllM numGeo latitude tp2 P) n0 n1 t0 t1).flatMap (fun row => row.map showNano)))
    s!"shape={showNatList [tp.length, n0, n1]} data=[{String.intercalate "," rows.flatten}]"

end Cfdm.Driver.C16Geo
